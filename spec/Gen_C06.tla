------------------------------ MODULE Gen_C06 ------------------------------
(***************************************************************************)
(* Generator + design-level lemmas for property C06 (parameter learning).  *)
(*                                                                         *)
(* An instance (JSON, abstract tokens) is a small data set:                *)
(*   cols, dom (declared states incl. never-observed ones), rows (each     *)
(*   [a, w] with a rational weight), split (rows 1..split are the EARLIER  *)
(*   data of an incremental update), dags (explicit edge lists; empty =    *)
(*   EVERY DAG over the columns), and the hyper-parameters to range over   *)
(*   (ess, scal, nprev, an explicit pseudo-count table abase/aadd/aden).   *)
(* Init chooses the instance, the DAG and whether the declared states are  *)
(* handed to the estimator (sn = "declared") or only those present in the  *)
(* data count (sn = "observed").  Next chooses the estimator and its       *)
(* hyper-parameters and computes the expected CPD of EVERY node by named   *)
(* assignment with LearnLib.  Emit prints the case for the replayer.       *)
(*                                                                         *)
(* Lemmas (invariants over every finished case):                           *)
(*   ResultIsCPD        every expected table is a conditional distribution *)
(*   ClosedForms        K2 / BDeu through pseudo-count tables = the        *)
(*                      textbook closed forms                              *)
(*   RowOrderInvariant  reversing / rotating the row sequence (each part   *)
(*                      of an update separately) changes nothing           *)
(*   ExpandInvariant    integer weights = that many unit rows              *)
(*   CountsCoverData    the cells of every family partition the data       *)
(*   UpdateRootPooled   updating the MLE of the earlier data with the      *)
(*                      earlier sample size = MLE of the pooled data, for  *)
(*                      every node without parents                         *)
(*   PriorVanishes      Bayes with all pseudo counts 0 = MLE on every      *)
(*                      observed parent configuration                      *)
(***************************************************************************)
EXTENDS LearnLib, DagLib, Json, IOUtils
Insts == JsonDeserialize(IOEnv.INST_FILE)

VARIABLES ii, G, sn, res
vars == <<ii, G, sn, res>>
I == Insts[ii]
Cols == ToSet(I.cols)
Rows == I.rows          \* every weight must arrive as a reduced fraction <<n, d>> (invariant WellFormed)

EdgeSet(es) == {<<es[k][1], es[k][2]>> : k \in 1..Len(es)}
DagsOf(inst) == IF Len(inst.dags) = 0 THEN AllDAGs(ToSet(inst.cols))
                ELSE {EdgeSet(inst.dags[k]) : k \in 1..Len(inst.dags)}

\* the states the estimator ranges over
ObsDom == [v \in Cols |-> SelectSeq(I.dom[v], LAMBDA s : \E k \in DOMAIN Rows : Rows[k].a[v] = s)]
EDom == IF sn = "declared" THEN [v \in Cols |-> I.dom[v]] ELSE ObsDom

Part1(rows, split) == SubSeq(rows, 1, split)
Part2(rows, split) == SubSeq(rows, split + 1, Len(rows))

\* explicit Dirichlet table of the instance: alpha(v = s, parents = c) = (abase[v][s] + SUM_p aadd[p][c[p]]) / aden
TableAlpha(d, v, P) ==
    [a \in Assign(d, Fam(v, P)) |->
        R(I.abase[v][a[v]] + FoldSet(LAMBDA p, acc : acc + I.aadd[p][a[p]], 0, P), I.aden)]

None == [kind |-> "none", x |-> RZero, pk |-> "none", nprev |-> 0]
AlphaOf(p, d, v, P) ==
    CASE p.kind = "k2" -> K2Alpha(d, v, P)
      [] p.kind = "bdeu" -> BDeuAlpha(d, v, P, p.x)
      [] p.kind = "dir_scalar" -> ConstAlpha(d, v, P, p.x)
      [] p.kind = "dir_table" -> TableAlpha(d, v, P)
FitOn(p, d, g, data, v) ==
    IF p.kind = "mle" THEN MLE(d, data, v, Pa(g, v))
    ELSE Bayes(d, data, v, Pa(g, v), AlphaOf(p, d, v, Pa(g, v)))
FitAll(p, d, g, data) == [v \in Cols |-> FitOn(p, d, g, data, v)]
\* n_prev_samples = None means "as many as the new data has rows"
\* (np = -1 encodes an EXPLICIT n_prev_samples = 0: the previous CPDs carry no weight)
NPrevEff(np, data2) == IF np = 0 THEN Total(data2) ELSE IF np = -1 THEN RZero ELSE RInt(np)
UpdateDefined(prev, np, d, g, data2) ==
    \A v \in Cols : BayesDefined(d, data2, v, Pa(g, v), PrevAlpha(prev[v], NPrevEff(np, data2)))
UpdateAll(prev, np, d, g, data2) ==
    [v \in Cols |-> Bayes(d, data2, v, Pa(g, v), PrevAlpha(prev[v], NPrevEff(np, data2)))]

(***************************************************************************)
(* The machine: a one-shot fit on all rows ends the behaviour; an          *)
(* incremental behaviour first fits the EARLIER rows (phase "earlier",     *)
(* the model now holds CPDs) and then updates that model with the later    *)
(* rows.  The library's update call takes unweighted rows, so incremental  *)
(* behaviours exist only for instances with positive integer weights.      *)
(***************************************************************************)
Init == /\ ii \in 1..Len(Insts)
        /\ G \in DagsOf(Insts[ii])
        /\ sn \in {"declared", "observed"}
        /\ res = [ph |-> "init", p |-> None]

Finish(p) == /\ res.ph = "init"
             /\ res' = [ph |-> "done", p |-> p, cpds |-> FitAll(p, EDom, G, Rows)]
             /\ UNCHANGED <<ii, G, sn>>
\* (TLC's coverage report books the three parameterless fits under Finish; the harness checks the emitted kinds)
FitMLE == Finish([None EXCEPT !.kind = "mle"])
FitK2 == Finish([None EXCEPT !.kind = "k2"])
FitBDeu == \E e \in ToSet(I.ess) : Finish([None EXCEPT !.kind = "bdeu", !.x = R(e[1], e[2])])
FitDirScalar == \E e \in ToSet(I.scal) : Finish([None EXCEPT !.kind = "dir_scalar", !.x = R(e[1], e[2])])
FitDirTable == Finish([None EXCEPT !.kind = "dir_table"])
FitEarlier == /\ res.ph = "init" /\ I.split > 0 /\ I.split < Len(I.rows) /\ IntWeights(Rows)
              /\ \E pk \in ToSet(I.prevkinds) :
                    LET p == [None EXCEPT !.kind = pk, !.x = IF pk = "bdeu" THEN R(I.ess[1][1], I.ess[1][2]) ELSE RZero]
                    IN res' = [ph |-> "earlier", p |-> p, cpds |-> FitAll(p, EDom, G, Part1(Rows, I.split))]
              /\ UNCHANGED <<ii, G, sn>>
FitUpdate == /\ res.ph = "earlier"
             /\ \E np \in ToSet(I.nprev) :
                    /\ UpdateDefined(res.cpds, np, EDom, G, Part2(Rows, I.split))    \* (a zero prior needs every parent configuration observed)
                    /\ res' = [ph |-> "done", p |-> [kind |-> "update", x |-> res.p.x, pk |-> res.p.kind, nprev |-> np],
                            prev |-> res.cpds, cpds |-> UpdateAll(res.cpds, np, EDom, G, Part2(Rows, I.split))]
             /\ UNCHANGED <<ii, G, sn>>
Next == FitMLE \/ FitK2 \/ FitBDeu \/ FitDirScalar \/ FitDirTable \/ FitEarlier \/ FitUpdate

\* ---------------------------------------------------------------- lemmas
Fitted == res.ph # "init"
Done == res.ph = "done"
IsUpdate == Done /\ res.p.kind = "update"
Reverse(s) == [k \in 1..Len(s) |-> s[Len(s) + 1 - k]]
Rotate(s) == [k \in 1..Len(s) |-> s[(k % Len(s)) + 1]]
\* the rows the current tables were computed from
Used == IF res.ph = "earlier" THEN Part1(Rows, I.split) ELSE IF IsUpdate THEN Part2(Rows, I.split) ELSE Rows
Recompute(data) == IF IsUpdate THEN UpdateAll(res.prev, res.p.nprev, EDom, G, data) ELSE FitAll(res.p, EDom, G, data)

WellFormed == /\ \A k \in DOMAIN Rows : Rows[k].w = R(Rows[k].w[1], Rows[k].w[2]) /\ Rows[k].w[1] >= 0 /\ Rows[k].w[2] > 0
                         /\ \A v \in Cols : Rows[k].a[v] \in ToSet(I.dom[v])
              /\ Len(Rows) >= 1 /\ Acyclic(Cols, G)

ResultIsCPD == Fitted => \A v \in Cols : IsCPD(EDom, res.cpds[v], v, Pa(G, v))

ClosedForms == Fitted =>
    /\ res.p.kind = "k2" => \A v \in Cols : res.cpds[v] = K2Closed(EDom, Used, v, Pa(G, v))
    /\ res.p.kind = "bdeu" => \A v \in Cols : res.cpds[v] = BDeuClosed(EDom, Used, v, Pa(G, v), res.p.x)

RowOrderInvariant == Fitted => res.cpds = Recompute(Reverse(Used)) /\ res.cpds = Recompute(Rotate(Used))

ExpandInvariant == Fitted /\ IntWeights(Rows) => res.cpds = Recompute(Expand(Used))

CountsCoverData == Fitted => \A v \in Cols :
    RSum(Assign(EDom, Fam(v, Pa(G, v))), LAMBDA a : Cnt(Used, a)) = Total(Used)

UpdateRootPooled == IsUpdate /\ res.p.pk = "mle" /\ RInt(res.p.nprev) = Total(Part1(Rows, I.split)) =>
    \A v \in Cols : Pa(G, v) = {} => res.cpds[v] = MLE(EDom, Rows, v, {})

PriorVanishes == Fitted /\ res.p.kind = "mle" =>
    \A v \in Cols : LET P == Pa(G, v) IN
        \A a \in Assign(EDom, Fam(v, P)) : Cnt(Used, Restr(a, P))[1] > 0 =>
            res.cpds[v][a] = Bayes(EDom, Used, v, P, ConstAlpha(EDom, v, P, RZero))[a]

\* ---------------------------------------------------------------- output
Cells(t) == {[a |-> a, p |-> t[a]] : a \in DOMAIN t}
Emit == Done => PrintT(ToJson(
    [inst |-> I.id, edges |-> G, sn |-> sn, dom |-> EDom, kind |-> res.p.kind, x |-> res.p.x, pk |-> res.p.pk,
     nprev |-> res.p.nprev, intw |-> IntWeights(Rows),
     cpds |-> {[v |-> v, ps |-> Pa(G, v), cells |-> Cells(res.cpds[v])] : v \in Cols},
     alpha |-> IF res.p.kind = "dir_table"
               THEN {[v |-> v, cells |-> Cells(TableAlpha(EDom, v, Pa(G, v)))] : v \in Cols} ELSE {},
     prev |-> IF IsUpdate THEN {[v |-> v, cells |-> Cells(res.prev[v])] : v \in Cols} ELSE {}]))
=============================================================================
