------------------------------ MODULE ModelEdit ------------------------------
(***************************************************************************)
(* Edit-history state machine of BayesianNetwork objects (property C15).   *)
(*                                                                         *)
(* Object store objs : Seq(model); a model is                              *)
(*   [nodes, edges (pairs), latents, cpds : node -> CPD]                   *)
(* a CPD is [parents : set, f : factor (FactorAlg, exact rationals),       *)
(*           random : BOOLEAN]  (random = content unspecified, only its    *)
(*           scope and normalisation are, as after get_random_cpds).       *)
(* Every public editing call is one action with explicit precondition;     *)
(* a call outside its precondition is REJECTED: it raises and changes      *)
(* nothing.  Multi-element convenience calls are sequences of these.       *)
(* Pal is the palette of CPDs add_cpds may pick from (instance file).      *)
(***************************************************************************)
EXTENDS FactorAlg, DagLib, Json, IOUtils
CONSTANTS MaxDepth, MaxObjs, NSim, KeepHist
Inst == JsonDeserialize(IOEnv.INST_FILE)      \* [vars, dom, palette : Seq([var, parents : Seq, cells])]
Vars == ToSet(Inst.vars)
dom == Inst.dom

VARIABLES sid, objs, hist, last
vars == <<sid, objs, hist, last>>

PalCPD(k) == LET p == Inst.palette[k] IN
    [parents |-> ToSet(p.parents), random |-> FALSE,
     f |-> [scope |-> {p.var} \cup ToSet(p.parents),
            val |-> [a \in Assign(dom, {p.var} \cup ToSet(p.parents)) |->
                        LET c == CHOOSE c \in ToSet(p.cells) : c.a = a IN R(c.n, c.d)]]]
PalVar(k) == Inst.palette[k].var

Empty == [nodes |-> {}, edges |-> {}, latents |-> {}, cpds |-> <<>>]

\* per-column normalisation of a CPD factor (child v)
ColSum(f, v, a) == RSum(Assign(dom, {v}), LAMBDA s : f.val[Restr(a, f.scope \ {v}) @@ s])
NormCols(f, v) == [scope |-> f.scope, val |-> [a \in DOMAIN f.val |-> RDiv(f.val[a], ColSum(f, v, a))]]
\* TabularCPD.marginalize over parent set D: sum out, renormalise columns
MargCPD(c, v, D) == IF D \cap c.parents = {} THEN c
                    ELSE IF c.random THEN [c EXCEPT !.parents = c.parents \ D]
                    ELSE [c EXCEPT !.parents = c.parents \ D, !.f = NormCols(FMarg(dom, c.f, D \cap c.parents), v)]
HasCPD(m, v) == v \in DOMAIN m.cpds

(***************************************************************************)
(* Operations: o = [op, k (object), u, v, S (set), pal, flag]              *)
(***************************************************************************)
CopyOK(m) == \A x \in DOMAIN m.cpds : m.cpds[x].parents \subseteq m.nodes
NoOp == [op |-> "check", k |-> 1, u |-> "", v |-> "", S |-> {}, pal |-> 0, flag |-> FALSE]

Pre(m, o) ==
    CASE o.op = "add_node" -> TRUE
      [] o.op = "add_edge" -> o.u # o.v /\ ~(o.u \in m.nodes /\ o.v \in m.nodes /\ HasPath(m.edges, o.v, o.u))
      \* o.v is marginalised out of every child's CPD that mentions it (a child CPD that does not mention o.v stays as it is)
      [] o.op = "remove_node" -> o.v \in m.nodes
      [] o.op = "add_cpd" -> PalCPD(o.pal).f.scope \subseteq m.nodes
      [] o.op = "remove_cpd" -> HasCPD(m, o.v)
      \* out-of-place variants go through copy(), which re-adds every CPD and therefore refuses CPDs that
      \* mention a variable no longer in the graph (reachable by add_cpds with non-graph parents + remove_node)
      [] o.op = "do" -> o.S \subseteq m.nodes /\ (~o.flag => CopyOK(m))
      [] o.op = "copy" -> CopyOK(m)
      [] o.op = "random_cpds" -> ~o.flag => CopyOK(m)
      [] o.op = "check" -> TRUE
      [] OTHER -> FALSE

Eff(m, o) ==
    CASE o.op = "add_node" ->
            [m EXCEPT !.nodes = m.nodes \cup {o.v},
                      !.latents = IF o.flag THEN m.latents \cup {o.v} ELSE m.latents]
      [] o.op = "add_edge" ->
            [m EXCEPT !.nodes = m.nodes \cup {o.u, o.v}, !.edges = m.edges \cup {<<o.u, o.v>>}]
      [] o.op = "remove_node" ->
            [nodes |-> m.nodes \ {o.v},
             edges |-> {e \in m.edges : e[1] # o.v /\ e[2] # o.v},
             latents |-> m.latents \ {o.v},
             cpds |-> [x \in DOMAIN m.cpds \ {o.v} |->
                          IF <<o.v, x>> \in m.edges THEN MargCPD(m.cpds[x], x, {o.v}) ELSE m.cpds[x]]]
      [] o.op = "add_cpd" ->
            [m EXCEPT !.cpds = [x \in DOMAIN m.cpds \cup {PalVar(o.pal)} |->
                                   IF x = PalVar(o.pal) THEN PalCPD(o.pal) ELSE m.cpds[x]]]
      [] o.op = "remove_cpd" ->
            [m EXCEPT !.cpds = [x \in DOMAIN m.cpds \ {o.v} |-> m.cpds[x]]]
      [] o.op = "do" ->
            [m EXCEPT !.edges = {e \in m.edges : e[2] \notin o.S},
                      !.cpds = [x \in DOMAIN m.cpds |->
                                   IF x \in o.S THEN MargCPD(m.cpds[x], x, m.cpds[x].parents) ELSE m.cpds[x]]]
      [] o.op = "random_cpds" ->
            [m EXCEPT !.cpds = [x \in m.nodes |-> [parents |-> Pa(m.edges, x), random |-> TRUE,
                                                   f |-> [scope |-> {}, val |-> <<>>]]]]
      [] OTHER -> m

\* check_model: the validation clauses (cardinalities/state names are shared through dom here)
CPDNormalised(c, v) == c.random \/ \A a \in DOMAIN c.f.val : ColSum(c.f, v, a) = ROne
Valid(m) == /\ \A v \in m.nodes : HasCPD(m, v)
            /\ \A v \in DOMAIN m.cpds : m.cpds[v].parents = Pa(m.edges, v) /\ CPDNormalised(m.cpds[v], v)

\* marginal of one variable of a valid, fully specified (non-random) model: brute force over the joint
JointAt(m, a) == FoldSet(LAMBDA v, acc : RMul(acc, m.cpds[v].f.val[Restr(a, m.cpds[v].f.scope)]), ROne, m.nodes)
Marginal(m, v) == [s \in ToSet(dom[v]) |->
                      RSum({a \in Assign(dom, m.nodes) : a[v] = s}, LAMBDA a : JointAt(m, a))]
Queryable(m) == m.nodes # {} /\ Valid(m) /\ \A v \in m.nodes : ~m.cpds[v].random

Target(o) == IF o.op \in {"copy"} \/ (o.op \in {"do", "random_cpds"} /\ ~o.flag) THEN "new" ELSE "inplace"

ProjCPD(v, c) == [var |-> v, parents |-> c.parents, random |-> c.random,
                  cells |-> IF c.random THEN {} ELSE {[a |-> a, v |-> c.f.val[a]] : a \in DOMAIN c.f.val}]
ProjModel(m) == [nodes |-> m.nodes, edges |-> m.edges, latents |-> m.latents,
                 cpds |-> {ProjCPD(v, m.cpds[v]) : v \in DOMAIN m.cpds}]
ProjAll(os) == [k \in 1..Len(os) |-> ProjModel(os[k])]

Ops(os) ==
    LET K == 1..Len(os) IN
    {[NoOp EXCEPT !.op = "add_node", !.k = k, !.v = v, !.flag = fl] : k \in K, v \in Vars, fl \in BOOLEAN}
    \cup {[NoOp EXCEPT !.op = "add_edge", !.k = k, !.u = u, !.v = v] : k \in K, u \in Vars, v \in Vars}
    \cup {[NoOp EXCEPT !.op = "remove_node", !.k = k, !.v = v] : k \in K, v \in Vars}
    \cup {[NoOp EXCEPT !.op = "add_cpd", !.k = k, !.pal = p] : k \in K, p \in 1..Len(Inst.palette)}
    \cup {[NoOp EXCEPT !.op = "remove_cpd", !.k = k, !.v = v] : k \in K, v \in Vars}
    \cup {[NoOp EXCEPT !.op = "do", !.k = k, !.S = S, !.flag = fl] : k \in K, S \in (SUBSET Vars) \ {{}}, fl \in BOOLEAN}
    \cup {[NoOp EXCEPT !.op = "copy", !.k = k] : k \in K}
    \cup {[NoOp EXCEPT !.op = "random_cpds", !.k = k, !.flag = fl] : k \in K, fl \in BOOLEAN}
    \cup {[NoOp EXCEPT !.op = "check", !.k = k] : k \in K}
    \cup {[NoOp EXCEPT !.op = "marginal", !.k = k, !.v = v] : k \in K, v \in Vars}

Allowed(os, o) ==
    /\ (Target(o) = "new" => Len(os) < MaxObjs)
    /\ (o.op = "marginal" => Queryable(os[o.k]) /\ o.v \in os[o.k].nodes)
    \* in-place marginalisation must stay defined (no all-zero column): palette tables are strictly positive
    /\ TRUE

Step(o) ==
    LET m == objs[o.k]
        ok == o.op \in {"check", "marginal"} \/ Pre(m, o)
        m2 == IF ok THEN Eff(m, o) ELSE m
        newobjs == IF ~ok \/ o.op \in {"check", "marginal"} THEN objs
                   ELSE IF Target(o) = "new" THEN Append(objs, m2)
                   ELSE [objs EXCEPT ![o.k] = m2]
        ret == IF o.op = "check" THEN (IF Valid(m) THEN "valid" ELSE "invalid")
               ELSE IF o.op = "marginal" THEN "value"
               ELSE IF ok THEN "ok" ELSE "rejected"
        val == IF o.op = "marginal" THEN {[s |-> s, v |-> Marginal(m, o.v)[s]] : s \in ToSet(dom[o.v])} ELSE {}
    IN /\ objs' = newobjs
       /\ last' = [o |-> o, ret |-> ret]
       /\ hist' = IF KeepHist THEN Append(hist, [o |-> o, ret |-> ret, val |-> val, objs |-> ProjAll(newobjs)]) ELSE hist
       /\ UNCHANGED sid

Init == /\ sid \in (IF NSim = 0 THEN {0} ELSE 1..NSim)
        /\ objs = <<Empty>> /\ hist = <<>> /\ last = [o |-> NoOp, ret |-> "init"]
Depth == IF KeepHist THEN Len(hist) ELSE 0
Next == /\ (KeepHist => Len(hist) < MaxDepth)
        /\ LET en == {o \in Ops(objs) : Allowed(objs, o)} IN
           IF NSim = 0 THEN \E o \in en : Step(o) ELSE Step(RandomElement(en))

(***************************************************************************)
(* Properties                                                              *)
(***************************************************************************)
AcyclicInv == \A k \in 1..Len(objs) : Acyclic(objs[k].nodes, objs[k].edges)
WellFormed == \A k \in 1..Len(objs) :
    /\ \A e \in objs[k].edges : e[1] \in objs[k].nodes /\ e[2] \in objs[k].nodes
    /\ objs[k].latents \subseteq objs[k].nodes \cup objs[k].latents
CPDsMatch(m) == \A v \in DOMAIN m.cpds : m.cpds[v].parents = Pa(m.edges, v) /\ CPDNormalised(m.cpds[v], v)
\* removing a node or intervening keeps every remaining CPD a valid conditional over exactly its graph parents
RemovalKeepsCPDs ==
    [][\A k \in 1..Len(objs) :
          (last'.o.op \in {"remove_node", "do"} /\ last'.ret = "ok" /\ last'.o.k = k /\ CPDsMatch(objs[k]))
              => \A j \in 1..Len(objs') : (j = k \/ j > Len(objs)) => CPDsMatch(objs'[j])]_vars
\* a rejected operation, a query or a check changes nothing
RejectedUnchanged == [][last'.ret \in {"rejected", "valid", "invalid", "value"} => objs' = objs]_vars
\* frame: an operation touches at most its target (or creates one new object)
Frame == [][\A j \in 1..Len(objs) : (j # last'.o.k \/ Target(last'.o) = "new") => objs'[j] = objs[j]]_vars

(***************************************************************************)
(* Inductive step (unbounded depth for the structural invariants): start   *)
(* from EVERY structurally well-formed single model over Vars - any        *)
(* acyclic graph on any node subset, any latent subset, any assignment of  *)
(* content-free CPDs (only their parent sets matter for the structure;     *)
(* parent sets may mention variables that left the graph) - and take ONE   *)
(* step of Next.  IndInv holds in all those states by construction; TLC    *)
(* checks it in every successor together with the action properties.       *)
(***************************************************************************)
RandCPD(P) == [parents |-> P, random |-> TRUE, f |-> [scope |-> {}, val |-> <<>>]]
CPDMaps(N) == UNION {{c \in [D -> {RandCPD(P) : P \in SUBSET Vars}] : \A v \in D : v \notin c[v].parents} : D \in SUBSET N}
\* (an operator WITH a parameter: TLC evaluates parameterless constant definitions when it starts, for every configuration)
StructModels(V) ==
    UNION {UNION {{[nodes |-> N, edges |-> E, latents |-> L, cpds |-> c] : L \in SUBSET N, c \in CPDMaps(N)}
                  : E \in {X \in SUBSET (N \X N) : Acyclic(N, X)}} : N \in SUBSET V}
IndInvOf(m) == /\ Acyclic(m.nodes, m.edges)
               /\ \A e \in m.edges : e[1] \in m.nodes /\ e[2] \in m.nodes
               /\ m.latents \subseteq m.nodes
               /\ DOMAIN m.cpds \subseteq m.nodes
IndInv == \A k \in 1..Len(objs) : IndInvOf(objs[k])
IndInit == /\ sid = 0 /\ hist = <<>> /\ last = [o |-> NoOp, ret |-> "init"]
           /\ \E m \in StructModels(Vars) : objs = <<m>>
OneStep == TLCGet("level") <= 2

\* depth bounds for the history-free BFS (TLCGet("level") counts states on the path)
DepthBound4 == TLCGet("level") <= 4
DepthBound5 == TLCGet("level") <= 5
DepthBound6 == TLCGet("level") <= 6
Emit == (KeepHist /\ Len(hist) = MaxDepth) => PrintT(ToJson([steps |-> hist]))
=============================================================================
