----------------------------- MODULE SearchLib -----------------------------
(***************************************************************************)
(* Score-based structure search (property C11): definitions.               *)
(*                                                                         *)
(* A problem I (record read from JSON) has                                 *)
(*   I.nodes : Seq(token)           I.bit : token -> 2^position            *)
(*   I.tab   : token -> Seq(Int)    local score of (v, P) at index         *)
(*                                  1 + SUM_{p \in P} bit[p]               *)
(*   I.pe    : Int                  log structure prior per edge           *)
(* i.e. the local score is an UNINTERPRETED integer table; a network score *)
(* is the sum of the local scores of its families (decomposability).       *)
(*                                                                         *)
(* Hill climbing: a single-edge operation o = [t, x, y] (t one of "+", "-",*)
(* "flip") on the edge x -> y is LEGAL by definition iff the graph it      *)
(* produces is a DAG that keeps every fixed edge, whose new edge (if any)  *)
(* is white-listed and not black-listed and whose grown parent set         *)
(* respects the in-degree bound - and it is not barred by the tabu list.   *)
(* FastLegal is the path formulation an implementation would use (for a    *)
(* flip: no OTHER directed path x ~> y); Gen_C11H (lemma mode) checks that *)
(* the two coincide on EVERY DAG over the nodes.                           *)
(*                                                                         *)
(* Trees: spanning trees of the complete graph on N by enumeration, the    *)
(* maximum-weight ones, and their orientation away from a root.            *)
(***************************************************************************)
EXTENDS DagLib, Integers, FiniteSetsExt

ToSet(s) == {s[i] : i \in 1..Len(s)}
MaxOf(S) == FoldSet(LAMBDA a, b : IF a > b THEN a ELSE b, CHOOSE x \in S : TRUE, S)
Abs(a) == IF a < 0 THEN -a ELSE a

\* ---- table-backed decomposable score -------------------------------------
Mask(I, P) == MapThenSumSet(LAMBDA p : I.bit[p], P)
LS(I, v, P) == I.tab[v][1 + Mask(I, P)]
\* I.pe = structure prior per edge (log prior of a graph = pe * |E| + constant; 0 for all scores but BDs)
Score(I, N, E) == MapThenSumSet(LAMBDA v : LS(I, v, Pa(E, v)), N) + I.pe * Cardinality(E)

\* ---- single-edge operations ----------------------------------------------
Op(t, x, y) == [t |-> t, x |-> x, y |-> y]
AllOps(N) == {Op(k, p[1], p[2]) : k \in {"+", "-", "flip"}, p \in AllPairs(N)}
Pre(E, o) == IF o.t = "+" THEN <<o.x, o.y>> \notin E ELSE <<o.x, o.y>> \in E
Apply(E, o) == CASE o.t = "+"    -> E \cup {<<o.x, o.y>>}
                 [] o.t = "-"    -> E \ {<<o.x, o.y>>}
                 [] o.t = "flip" -> (E \ {<<o.x, o.y>>}) \cup {<<o.y, o.x>>}
\* the graphs one edge addition / deletion / reversal away from E
OneEdgeChange(E, F) == \E d \in {SymDiff(E, F)} :
                          \/ Cardinality(d) = 1
                          \/ Cardinality(d) = 2 /\ \E e \in d : d = {e, <<e[2], e[1]>>}

\* constraints C = [fixed, black, white : sets of edges, maxin : Nat]
InDegOK(C, N, E) == \A n \in N : Cardinality(Pa(E, n)) <= C.maxin
\* F is an admissible successor of E (definition, on graphs)
Admissible(C, N, E, F) ==
    /\ Acyclic(N, F)
    /\ C.fixed \subseteq F
    /\ (F \ E) \cap C.black = {}
    /\ (F \ E) \subseteq C.white
    /\ \A e \in F \ E : Cardinality(Pa(F, e[2])) <= C.maxin
\* (\E over a singleton = eager evaluation of the successor graph)
StructLegal(C, N, E, o) == Pre(E, o) /\ \E F \in {Apply(E, o)} : Admissible(C, N, E, F)

\* first reason why o is not structurally legal (for diagnostics / signatures)
WhyIllegal(C, N, E, o) ==
    LET F == Apply(E, o) IN
    IF ~Pre(E, o) THEN "precondition"
    ELSE IF ~Acyclic(N, F) THEN "cycle"
    ELSE IF ~(C.fixed \subseteq F) THEN "fixed"
    ELSE IF (F \ E) \cap C.black # {} THEN "black"
    ELSE IF ~((F \ E) \subseteq C.white) THEN "white"
    ELSE IF \E e \in F \ E : Cardinality(Pa(F, e[2])) > C.maxin THEN "indegree"
    ELSE "tabu"

\* path formulation (what an implementation evaluates)
FastLegal(C, N, E, o) ==
    LET x == o.x  y == o.y IN
    CASE o.t = "+" ->
            /\ <<x, y>> \notin E /\ <<y, x>> \notin E /\ ~HasPath(E, y, x)
            /\ <<x, y>> \notin C.black /\ <<x, y>> \in C.white
            /\ Cardinality(Pa(E, y)) + 1 <= C.maxin
      [] o.t = "-" -> <<x, y>> \in E /\ <<x, y>> \notin C.fixed
      [] o.t = "flip" ->
            /\ <<x, y>> \in E /\ ~HasPath(E \ {<<x, y>>}, x, y)
            /\ <<x, y>> \notin C.fixed
            /\ <<y, x>> \notin C.black /\ <<y, x>> \in C.white
            /\ Cardinality(Pa(E, x)) + 1 <= C.maxin

\* ---- tabu list: bounded FIFO of barred operations ------------------------
Rev(o) == Op(o.t, o.y, o.x)
TabuOK(tabu, o) == o \notin ToSet(tabu) /\ (o.t = "flip" => Rev(o) \notin ToSet(tabu))
\* the operation that would undo o
Undo(o) == CASE o.t = "+" -> Op("-", o.x, o.y) [] o.t = "-" -> Op("+", o.x, o.y) [] o.t = "flip" -> o
Push(tabu, e, L) == IF L = 0 THEN <<>>
                    ELSE LET s == Append(tabu, e) IN IF Len(s) > L THEN Tail(s) ELSE s

Legal(C, N, ops, E, tabu) == {o \in ops : StructLegal(C, N, E, o) /\ TabuOK(tabu, o)}

\* ---- score change of an operation, from the families it touches ---------
Delta(I, E, o) ==
    LET x == o.x  y == o.y IN
    CASE o.t = "+" -> LS(I, y, Pa(E, y) \cup {x}) - LS(I, y, Pa(E, y)) + I.pe
      [] o.t = "-" -> LS(I, y, Pa(E, y) \ {x}) - LS(I, y, Pa(E, y)) - I.pe
      [] o.t = "flip" -> LS(I, x, Pa(E, x) \cup {y}) + LS(I, y, Pa(E, y) \ {x})
                         - LS(I, x, Pa(E, x)) - LS(I, y, Pa(E, y))

\* ---- the contract of a returned graph F for a search started at E0 ------
\* (tol = 0 for integer tables; > 0 when the table holds scaled floats)
ContractFailures(I, C, N, ops, E0, F, eps, tol, selfStopped, tabuLen) ==
    {c \in {"cyclic", "fixed_missing", "black_edge", "non_white_addition", "indegree", "score_decreased", "not_local_optimum"} :
        CASE c = "cyclic" -> ~Acyclic(N, F)
          [] c = "fixed_missing" -> ~(C.fixed \subseteq F)
          [] c = "black_edge" -> F \cap C.black # {}
          [] c = "non_white_addition" -> ~((F \ E0) \subseteq C.white)
          [] c = "indegree" -> ~InDegOK(C, N, F)
          [] c = "score_decreased" -> Score(I, N, F) < Score(I, N, E0) - tol
          [] c = "not_local_optimum" ->
                /\ selfStopped /\ tabuLen = 0 /\ Acyclic(N, F)
                /\ \E o \in ops : StructLegal(C, N, F, o) /\
                        Score(I, N, Apply(F, o)) - Score(I, N, F) >= eps + tol}

\* ---- spanning trees -------------------------------------------------------
UPairs(N) == kSubset(2, N)
SpanningTrees(N) == {T \in kSubset(Cardinality(N) - 1, UPairs(N)) : UConnected(N, T)}
\* symmetric integer weights W : token -> token -> Int
PairW(W, e) == LET a == CHOOSE a \in e : TRUE IN W[a][CHOOSE b \in e : b # a]
TreeW(W, T) == MapThenSumSet(LAMBDA e : PairW(W, e), T)
MaxTrees(W, N, tol) == LET ST == SpanningTrees(N)
                           best == MaxOf({TreeW(W, T) : T \in ST})
                       IN {T \in ST : TreeW(W, T) >= best - tol}
\* u -> v iff {u,v} is a tree edge and u lies on the root's side of it
OrientAway(N, T, r) == {p \in AllPairs(N) : {p[1], p[2]} \in T /\ p[1] \in UReach(T \ {{p[1], p[2]}}, {r})}
WeightSum(W, N, n) == MapThenSumSet(LAMBDA m : W[n][m], N \ {n})
=============================================================================
