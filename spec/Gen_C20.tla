------------------------------ MODULE Gen_C20 ------------------------------
(***************************************************************************)
(* Linear-Gaussian Bayesian networks (property C20): generator + oracle.   *)
(*                                                                         *)
(* Init picks a coefficient pattern from the instance file (a weight for   *)
(* EVERY ordered pair of nodes, intercepts, positive variances, observed   *)
(* rows, a small data set) and a DAG: every DAG over the pattern's nodes   *)
(* (mode "all") or the pattern's own edge list.  An edge p -> c of the DAG *)
(* carries the weight w[c][p].  Build evaluates the structural equations   *)
(* once (mean by recursive substitution, covariance (I-B)^-T Omega         *)
(* (I-B)^-1) into mdl; then Next asks one question about the model:        *)
(*   DoJoint     mean and covariance of the joint Gaussian                 *)
(*   DoPredict   for EVERY non-empty proper subset A of missing variables: *)
(*               conditional mean (per observed row) and covariance of A   *)
(*   DoFit       least-squares coefficients and residual variance of every *)
(*               node given its parents on the pattern's data set          *)
(* and Emit prints the expected exact answer, which the harness replays on *)
(* LinearGaussianBayesianNetwork / LinearGaussianCPD.                      *)
(* The Lem* invariants are design-level lemmas: independent textbook       *)
(* derivations of the same quantities must agree on every generated case.  *)
(***************************************************************************)
EXTENDS GaussLib, DagLib, Json, IOUtils
CONSTANTS MaxNum, MaxDen       \* magnitude guard on the joint covariance before it is inverted (32-bit integers)
Pats == JsonDeserialize(IOEnv.INST_FILE)
VARIABLES pi, E, mdl, out
vars == <<pi, E, mdl, out>>
P == Pats[pi]
N == SeqSet(P.nodes)
EdgeSets(p) == IF p.mode = "all" THEN AllDAGs(SeqSet(p.nodes)) ELSE {SeqSet(p.edges)}

Bm == BMat(N, E, P.w)
Mu == MeanOf(N, E, P.w, P.b0)                      \* means by recursive substitution
Cov == CovOf(N, NilInv(N, Bm), P.var)              \* (I-B)^-T Omega (I-B)^-1
Pas(v) == OrdOf(P.nodes, PaOf(E, v))

Init == /\ pi \in 1..Len(Pats)
        /\ E \in EdgeSets(Pats[pi])
        /\ \A v \in SeqSet(Pats[pi].nodes) : QPos(Pats[pi].var[v])        \* the property quantifies over positive variances
        /\ mdl = [built |-> FALSE]
        /\ out = [kind |-> "none"]

\* evaluate the structural equations once; the questions below read the result
Build == /\ ~mdl.built
         /\ mdl' = [built |-> TRUE, mu |-> Mu, cov |-> Cov]
         /\ UNCHANGED <<pi, E, out>>

DoJoint == /\ mdl.built /\ out.kind = "none"
           /\ out' = [kind |-> "joint", mean |-> mdl.mu, cov |-> mdl.cov]
           /\ UNCHANGED <<pi, E, mdl>>

DoPredict ==
    /\ mdl.built /\ out.kind = "none"
    /\ LET cov == mdl.cov
           mu == mdl.mu
       IN /\ Small(cov, N, N, MaxNum, MaxDen)
          /\ \E A \in (SUBSET N) \ {{}, N} :
                LET O == N \ A IN
                \E W \in {CondW(cov, A, OrdOf(P.nodes, O))} :          \* W = Sigma_AO Sigma_OO^-1, evaluated once
                    out' = [kind |-> "predict", missing |-> A,
                            mean |-> [r \in 1..Len(P.rows) |-> CondMean(mu, W, A, O, P.rows[r])],
                            cov |-> CondCov(cov, W, A, O)]
    /\ UNCHANGED <<pi, E, mdl>>

LSQ(v) == LET ps == Pas(v)
              C == {One} \cup SeqSet(ps)
              n == Len(P.data)
          IN Bind(Beta(P.data, v, ps), LAMBDA beta :
             Bind(RSS(P.data, v, C, beta), LAMBDA rss :
                [b0 |-> beta[One], coef |-> [p \in SeqSet(ps) |-> beta[p]], rss |-> rss,
                 var |-> QDiv(rss, QI(n - 1)),        \* sample variance of the residuals (the convention of the code: ddof = 1)
                 s2n |-> QDiv(rss, QI(n))]))          \* maximum-likelihood variance (LinearGaussianCPD.fit returns its square root)
DoFit == /\ mdl.built /\ out.kind = "none"
         /\ Len(P.data) >= 2
         /\ \A v \in N : FullRank(P.data, v, Pas(v))          \* the property quantifies over data of full column rank only
         /\ out' = [kind |-> "fit", n |-> Len(P.data), cpds |-> [v \in N |-> LSQ(v)]]
         /\ UNCHANGED <<pi, E, mdl>>

Next == Build \/ DoJoint \/ DoPredict \/ DoFit

\* ------------------------------------------------------------------ design-level lemmas
\* (I - B)(I + B + ... + B^(n-1)) = I
LemNilpotentInverse == (mdl.built /\ out.kind = "none") =>
    MMul(MMinus(MId(N), Bm, N, N), NilInv(N, Bm), N, N, N) = MId(N)
\* recursive substitution = closed form (I-B)^-T b0
LemMeanClosedForm == (mdl.built /\ out.kind = "none") =>
    mdl.mu = MVec(MT(NilInv(N, Bm), N, N), P.b0, N, N)
\* positive variances give a symmetric positive-definite joint covariance
LemCovSymPD == (mdl.built /\ out.kind = "none") =>
    LET cov == mdl.cov IN Symmetric(cov, N) /\ (Small(cov, N, N, MaxNum, MaxDen) => PosDef(cov, P.nodes))
\* the matrix formula equals the covariance obtained by substituting the structural equations recursively
LemCovRecursive == (mdl.built /\ out.kind = "none") =>
    LET cov == mdl.cov IN \A u, v \in N : CovRec(E, P.w, P.var, u, v) = cov[u][v]
\* covariance times information matrix (I-B) Omega^-1 (I-B)^T is the identity
LemPrecision == (mdl.built /\ out.kind = "none") =>
    MMul(mdl.cov, PrecOf(N, Bm, P.var), N, N, N) = MId(N)
\* conditioning through the covariance (Schur complement) = conditioning through the information matrix
LemCondPrecision == out.kind = "predict" =>
    LET A == out.missing
        O == N \ A
        K == PrecOf(N, Bm, P.var)
        KAAi == MInv(MSub(K, A, A), OrdOf(P.nodes, A))
        G == MMul(KAAi, MSub(K, A, O), A, A, O)
        mu == mdl.mu
    IN /\ MMul(out.cov, MSub(K, A, A), A, A, A) = MId(A)
       /\ \A r \in 1..Len(P.rows) :
             out.mean[r] = [a \in A |-> QSub(mu[a], QSum(O, LAMBDA o : QMul(G[a][o], QSub(P.rows[r][o], mu[o]))))]
       /\ Symmetric(out.cov, A)
\* conditioning on everything observed, then dropping B from the missing set = conditioning the marginal without B
LemCondMarginal == out.kind = "predict" =>
    \A b \in out.missing : out.missing # {b} =>
        LET A2 == out.missing \ {b}
            O == N \ out.missing
            W2 == CondW(mdl.cov, A2, OrdOf(P.nodes, O))
        IN MSub(out.cov, A2, A2) = CondCov(mdl.cov, W2, A2, O)
\* normal equations: the residual is orthogonal to every column of the design matrix
LemNormalEquations == out.kind = "fit" =>
    \A v \in N : LET C == {One} \cup PaOf(E, v)
                     beta == [c \in C |-> IF c = One THEN out.cpds[v].b0 ELSE out.cpds[v].coef[c]]
                 IN /\ \A c \in C : QSum(1..Len(P.data), LAMBDA i : QMul(Resid(P.data, v, C, beta, i), XVal(P.data[i], c))) = QZ
                    /\ out.cpds[v].rss[1] >= 0
                    \* r'y = r'r whenever the squares fit into 32 bits
                    /\ ((\A i \in 1..Len(P.data) : Resid(P.data, v, C, beta, i)[2] <= 1000 /\ AbsI(Resid(P.data, v, C, beta, i)[1]) <= 10000)
                          => QSum(1..Len(P.data), LAMBDA i : QMul(Resid(P.data, v, C, beta, i), Resid(P.data, v, C, beta, i))) = out.cpds[v].rss)

Emit == out.kind # "none" => PrintT(ToJson([pat |-> P.id, edges |-> E, out |-> out]))
=============================================================================
