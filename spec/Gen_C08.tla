------------------------------ MODULE Gen_C08 ------------------------------
(***************************************************************************)
(* Behaviour generator for C08: the reachable states of the edge-adding    *)
(* machine are exactly the DAGs over Nodes (every sub-graph of a DAG is a  *)
(* DAG); latent subsets up to MaxLatents are chosen in Init.  For every    *)
(* state TLC prints the expected answer of every d-separation API call.    *)
(***************************************************************************)
EXTENDS DSep, Json
CONSTANTS Nodes, MaxLatents, WithIndeps
VARIABLES E, L
vars == <<E, L>>

Init == E = {} /\ L \in {S \in SUBSET Nodes : Cardinality(S) <= MaxLatents}
AddEdge(u, v) == /\ <<u, v>> \notin E /\ ~HasPath(E, v, u)
                 /\ E' = E \cup {<<u, v>>} /\ UNCHANGED L
Next == \E p \in AllPairs(Nodes) : AddEdge(p[1], p[2])

TypeOK == Acyclic(Nodes, E) /\ L \subseteq Nodes

Triple(a) == [x |-> a[1], ys |-> a[2], zs |-> a[3]]
Expected ==
  [ nodes |-> Nodes, edges |-> E, latents |-> L,
    active |-> {[x |-> x, z |-> Z, act |-> ActiveSet(Nodes, E, x, Z)] :
                    <<x, Z>> \in {p \in Nodes \X SUBSET Nodes : p[1] \notin p[2]}},
    moral |-> Moral(E),
    blanket |-> [n \in Nodes |-> MarkovBlanket(E, n)],
    local |-> [n \in Nodes |-> {Triple(a) : a \in LocalIndepRet(Nodes, E, n)}],
    indeps |-> IF WithIndeps THEN [incl |-> {Triple(a) : a \in IndepsRet(Nodes, E, L, TRUE)},
                                   excl |-> {Triple(a) : a \in IndepsRet(Nodes, E, L, FALSE)}]
               ELSE [incl |-> {}, excl |-> {}],
    minsep |-> {[x |-> p[1], y |-> p[2], ok |-> MinSeps(Nodes, E, L, p[1], p[2]), none |-> NoneAllowed(L)] :
                    p \in {q \in AllPairs(Nodes) : ~Adj(E, q[1], q[2])}},
    ancestral |-> {[s |-> S, edges |-> AncestralEdges(E, S), nodes |-> AncOS(E, S)] : S \in (SUBSET Nodes) \ {{}}}
  ]
Emit == PrintT(ToJson(Expected))
=============================================================================
