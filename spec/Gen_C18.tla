------------------------------ MODULE Gen_C18 ------------------------------
(***************************************************************************)
(* Independence reasoning (property C18).                                  *)
(*  An assertion X _|_ Y | Z is [ab |-> {X, Y}, z |-> Z] (symmetric by     *)
(*  construction; X, Y non-empty, pairwise disjoint with Z).               *)
(*  Closure = least set containing the premises and closed under           *)
(*  decomposition, weak union and contraction (semi-graphoid axioms).      *)
(*  Mode "closure": TLC enumerates premise sets (<= MaxPrem assertions     *)
(*   with singleton/pair events over Vars) and prints their closure; the   *)
(*   lemma AxiomsSoundForDSep checks on every DAG over Vars that the       *)
(*   d-separation statements (trail definition) are closed under the same  *)
(*   rules - an oracle-independent validation of the rules as written.     *)
(*  Mode "joint": for every joint table of the instance file TLC prints    *)
(*   the truth value of every X _|_ Y | Z (single variables) by exact      *)
(*   cross-multiplication P(x,y,z)P(z) = P(x,z)P(y,z), the context-        *)
(*   specific variants, and the set of DAGs that are I-maps of the joint.  *)
(***************************************************************************)
EXTENDS DagLib, Json, IOUtils, FiniteSetsExt, Functions
CONSTANTS Vars, Mode, MaxPrem
VARIABLES prem, ji
vars == <<prem, ji>>

Events == {S \in SUBSET Vars : S # {} /\ Cardinality(S) <= 2}
A(X, Y, Z) == [ab |-> {X, Y}, z |-> Z]
AllAssertions == {A(p[1], p[2], Z) : <<p, Z>> \in
                   {q \in {r \in (SUBSET Vars) \X (SUBSET Vars) : r[1] # {} /\ r[2] # {} /\ r[1] \cap r[2] = {}} \X SUBSET Vars :
                        q[2] \cap (q[1][1] \cup q[1][2]) = {}}}
SmallAssertions == {a \in AllAssertions : \A S \in a.ab : Cardinality(S) <= 2}

Sides(a) == {<<X, Y>> \in a.ab \X a.ab : X # Y}          \* both orientations
Decomp(a) == UNION {{A(s[1], s[2] \ {e}, a.z) : e \in s[2]} : s \in {t \in Sides(a) : Cardinality(t[2]) >= 2}}
WeakU(a) == UNION {{A(s[1], s[2] \ {e}, a.z \cup {e}) : e \in s[2]} : s \in {t \in Sides(a) : Cardinality(t[2]) >= 2}}
\* contraction:  X _|_ W | Y+Z  and  X _|_ Y | Z   =>   X _|_ W+Y | Z     (Y+Z exactly the first conditioning set)
Contr(a1, a2) == UNION {{A(s1[1], s1[2] \cup s2[2], a2.z) :
                            s2 \in {t \in Sides(a2) : t[1] = s1[1] /\ t[2] \cap a2.z = {} /\ t[2] \cup a2.z = a1.z}}
                        : s1 \in Sides(a1)}
\* KNOWN DEVIATION of pgmpy (known_findings: C18-closure-extra-conditioning): contraction accepted whenever Y and Z are
\* disjoint PROPER subsets of the longer conditioning set (extra conditioning variables are dropped), or Y+Z equals it
ContrLoose(a1, a2) == UNION {{A(s1[1], s1[2] \cup s2[2], a2.z) :
                            s2 \in {t \in Sides(a2) : t[1] = s1[1] /\ t[2] \cap a2.z = {} /\
                                       ((t[2] \subseteq a1.z /\ t[2] # a1.z /\ a2.z \subseteq a1.z /\ a2.z # a1.z) \/ t[2] \cup a2.z = a1.z)}}
                        : s1 \in Sides(a1)}
OneRoundLoose(S) == S \cup UNION {Decomp(a) \cup WeakU(a) : a \in S} \cup UNION {ContrLoose(p[1], p[2]) : p \in S \X S}
RECURSIVE ClosureLoose(_)
ClosureLoose(S) == LET T == OneRoundLoose(S) IN IF T = S THEN S ELSE ClosureLoose(T)
OneRound(S) == S \cup UNION {Decomp(a) \cup WeakU(a) : a \in S} \cup UNION {Contr(p[1], p[2]) : p \in S \X S}
RECURSIVE Closure(_)
Closure(S) == LET T == OneRound(S) IN IF T = S THEN S ELSE Closure(T)
Entails(S, T) == T \subseteq Closure(S)
Equivalent(S, T) == Entails(S, T) /\ Entails(T, S)

\* ---- d-separation statements of a DAG, as assertions (set-valued: every pair across the two sides separated)
DSepSet(N, E, X, Y, Z) == \A x \in X : \A y \in Y : ~DConn(N, E, x, y, Z)
IG(N, E) == {a \in AllAssertions : LET s == CHOOSE s \in Sides(a) : TRUE IN DSepSet(N, E, s[1], s[2], a.z)}
AxiomsSoundForDSep == Mode = "closure" /\ prem = {} =>
    \A E \in AllDAGs(Vars) : LET I == IG(Vars, E) IN OneRound(I) = I

\* ---- joint tables ---------------------------------------------------------
Joints == JsonDeserialize(IOEnv.INST_FILE)
ToSet(s) == {s[i] : i \in 1..Len(s)}
J == Joints[ji]
JV == ToSet(J.vars)
AssignJ(S) == {f \in [S -> UNION {ToSet(J.dom[v]) : v \in S}] : \A v \in S : f[v] \in ToSet(J.dom[v])}
W(a) == (CHOOSE c \in ToSet(J.cells) : c.a = a).w
M(S, a) == MapThenSumSet(W, {f \in AssignJ(JV) : \A v \in S : f[v] = a[v]})     \* marginal weight of partial assignment a on S
Indep(x, y, Z) == \A a \in AssignJ({x, y} \cup Z) :
    M({x, y} \cup Z, a) * M(Z, a) = M({x} \cup Z, a) * M({y} \cup Z, a)
IndepCtx(x, y, ctx) == \A a \in {f \in AssignJ({x, y} \cup DOMAIN ctx) : \A v \in DOMAIN ctx : f[v] = ctx[v]} :
    M({x, y} \cup DOMAIN ctx, a) * M(DOMAIN ctx, a) = M({x} \cup DOMAIN ctx, a) * M({y} \cup DOMAIN ctx, a)
IsIMap(E) == \A x \in JV : \A y \in JV \ {x} : \A Z \in SUBSET (JV \ {x, y}) :
                 ~DConn(JV, E, x, y, Z) => Indep(x, y, Z)
IndepSet(x, Y, Z) == \A y \in Y : Indep(x, y, Z)     \* (the code tests the pairs one by one)
CodeImap(o) == UNION {UNION {{<<p, o[i]>> : p \in S} :
                   S \in {T \in SUBSET {o[k] : k \in 1..(i - 1)} : T # {o[k] : k \in 1..(i - 1)} /\
                              IndepSet(o[i], {o[k] : k \in 1..(i - 1)} \ T, T)}} : i \in 1..Len(o)}
JointCase ==
  [kind |-> "joint", id |-> J.id,
   indep |-> {[x |-> t[1], y |-> t[2], z |-> t[3], holds |-> Indep(t[1], t[2], t[3])] :
                 t \in {u \in JV \X JV \X SUBSET JV : u[1] # u[2] /\ u[1] \notin u[3] /\ u[2] \notin u[3]}},
   ctx |-> {[x |-> t[1], y |-> t[2], c |-> t[3], holds |-> IndepCtx(t[1], t[2], t[3])] :
                 t \in UNION {{<<p[1], p[2], c>> : c \in AssignJ({CHOOSE v \in JV \ {p[1], p[2]} : TRUE})}
                                : p \in {q \in JV \X JV : q[1] # q[2]}}},
   imaps |-> {E \in AllDAGs(JV) : IsIMap(E)},
   \* KNOWN DEVIATION (C18-minimal-imap): the code gives X_i the UNION of all proper subsets S of its predecessors u with
   \* X_i _|_ u\S | S as parents - and therefore no parent at all when no proper subset separates
   codeimap |-> {[order |-> o, edges |-> CodeImap(o)] : o \in {q \in [1..Cardinality(JV) -> JV] : \A i, k \in 1..Cardinality(JV) : i # k => q[i] # q[k]}}]

\* ---- machine ---------------------------------------------------------------
Init == prem = {} /\ ji = 0
AddPrem(a) == Mode = "closure" /\ Cardinality(prem) < MaxPrem /\ a \notin prem /\ prem' = prem \cup {a} /\ UNCHANGED ji
PickJoint(k) == Mode = "joint" /\ ji = 0 /\ ji' = k /\ UNCHANGED prem
Next == (\E a \in SmallAssertions : AddPrem(a)) \/ (\E k \in 1..Len(Joints) : PickJoint(k))

Proj(S) == {[x |-> (CHOOSE s \in Sides(a) : TRUE)[1], y |-> (CHOOSE s \in Sides(a) : TRUE)[2], z |-> a.z] : a \in S}
Emit == IF Mode = "closure" THEN (prem # {} => PrintT(ToJson([kind |-> "closure", prem |-> Proj(prem), closure |-> Proj(Closure(prem)),
                                                                      loose |-> Proj(ClosureLoose(prem))])))
        ELSE (ji > 0 => PrintT(ToJson(JointCase)))
=============================================================================
