------------------------------ MODULE Gen_C10D ------------------------------
(***************************************************************************)
(* Graph side of property C10.  One state per DAG E over the first n       *)
(* column tokens (ALL DAGs, n <= MaxN).  For each, TLC prints              *)
(*   - the families {(v, Pa(v))} whose local scores a decomposable score   *)
(*     must add up, and the log prior of the BDs score as a LogForm;       *)
(*   - the Markov equivalence class of E (all DAGs with the same skeleton  *)
(*     and v-structures, DagLib!IEquivalent) -- the pairs on which BDeu,   *)
(*     BIC and AIC must agree.                                             *)
(* Lemmas: equivalence classes partition the DAGs; equivalent DAGs have    *)
(* the same number of edges (so the BDs graph prior is class-invariant)    *)
(* and the same d-separation statements (n <= 3 by default: SameDSepMaxN). *)
(***************************************************************************)
EXTENDS ScoreSpec, DagLib, Json
CONSTANTS MaxN, SameDSepMaxN
Tokens == <<"v0", "v1", "v2", "v3", "v4">>
NodeSet(n) == {Tokens[i] : i \in 1..n}

VARIABLES n, E
vars == <<n, E>>
Init == n \in 1..MaxN /\ E \in AllDAGs(NodeSet(n))
Next == UNCHANGED vars

Class(N, G) == {G2 \in AllDAGs(N) : IEquivalent(G, G2)}
Families(N, G) == {[v |-> v, ps |-> Pa(G, v)] : v \in N}

ClassLemmas ==
    LET N == NodeSet(n)
        C == Class(N, E) IN
    /\ E \in C
    /\ \A G \in C : Cardinality(G) = Cardinality(E)
    /\ \A G \in C : Class(N, G) = C
    /\ \A G \in C : LogPrior([t |-> "bds", ess |-> 1], n, Cardinality(G)) = LogPrior([t |-> "bds", ess |-> 1], n, Cardinality(E))
    /\ (n <= SameDSepMaxN => \A G \in AllDAGs(N) : (G \in C) <=> SameDSep(N, E, G))

Emit == PrintT(ToJson([n |-> n, edges |-> E, fams |-> Families(NodeSet(n), E),
                       prior_bds |-> FJson(LogPrior([t |-> "bds", ess |-> 1], n, Cardinality(E))),
                       cls |-> Class(NodeSet(n), E)]))
=============================================================================
