------------------------------ MODULE Gen_C10D ------------------------------
(***************************************************************************)
(* Graph side of property C10.  One state per DAG E over the first n       *)
(* column tokens (ALL DAGs, n <= MaxN).  For each, TLC prints              *)
(*   - the families {(v, Pa(v))} whose local scores a decomposable score   *)
(*     must add up, and the log prior of the BDs score as a LogForm;       *)
(*   - the Markov equivalence class of E (all DAGs with the same skeleton  *)
(*     and v-structures, DagLib!IEquivalent) -- the pairs on which BDeu,   *)
(*     BIC and AIC must agree.                                             *)
(* Lemmas: equivalent DAGs have                                            *)
(* the same number of edges (so the BDs graph prior is class-invariant)    *)
(* and the same d-separation statements (n <= 3 by default: SameDSepMaxN). *)
(***************************************************************************)
EXTENDS ScoreSpec, DagLib, Json
CONSTANTS MaxN, SameDSepMaxN, IEqMaxN
Tokens == <<"v0", "v1", "v2", "v3", "v4">>
NodeSet(n) == {Tokens[i] : i \in 1..n}

\* all DAGs per node count, computed once (constant level; "@@ <<>>" makes TLC store the function explicitly)
DAGTab == [k \in 1..MaxN |-> {G : G \in AllDAGs(NodeSet(k))}] @@ <<>>     \* {G : G \in ..}: an explicit set, not a lazy filter

VARIABLES n, E, ph, cls
vars == <<n, E, ph, cls>>

\* DagLib!IEquivalent(G, H) is by definition Skeleton(G) = Skeleton(H) /\ VStructs(G) = VStructs(H).  The printed class
\* unfolds it with G's skeleton / v-structures computed once and a cheap edge-count guard first (equal skeletons have
\* equally many edges); ClassLemmas ties it back to IEquivalent literally for n <= IEqMaxN (4 only in thorough).
Class(k, G) == LET c == Cardinality(G)
                   sk == Skeleton(G)
                   vs == VStructs(G)
               IN {G2 \in DAGTab[k] : Cardinality(G2) = c /\ Skeleton(G2) = sk /\ VStructs(G2) = vs}
Families(N, G) == {[v |-> v, ps |-> Pa(G, v)] : v \in N}

\* ph = 0 -> 1: Visit computes the equivalence class of E (the heavy part; successor states are computed by TLC's workers
\* in parallel, initial states are not) and the invariants examine the ph = 1 states
Init == n \in 1..MaxN /\ E \in DAGTab[n] /\ ph = 0 /\ cls = {}
Visit == ph = 0 /\ ph' = 1 /\ cls' = Class(n, E) /\ UNCHANGED <<n, E>>
Next == Visit

BDs == [t |-> "bds", en |-> 1, ed |-> 1]
ClassLemmas == ph = 1 =>
    LET N == NodeSet(n) IN
    /\ E \in cls
    /\ (n <= IEqMaxN => cls = {G \in DAGTab[n] : IEquivalent(E, G)})
    /\ \A G \in cls : Cardinality(G) = Cardinality(E)
    /\ \A G \in cls : LogPrior(BDs, n, Cardinality(G)) = LogPrior(BDs, n, Cardinality(E))
    /\ (n <= SameDSepMaxN => \A G \in DAGTab[n] : (G \in cls) <=> SameDSep(N, E, G))

Emit == ph = 1 => PrintT(ToJson([n |-> n, edges |-> E, fams |-> Families(NodeSet(n), E),
                       prior_bds |-> FJson(LogPrior(BDs, n, Cardinality(E))), cls |-> cls]))
=============================================================================
