------------------------------ MODULE Gen_C10D ------------------------------
(***************************************************************************)
(* Graph side of property C10.  One state per DAG E over the first n       *)
(* column tokens (ALL DAGs, n <= MaxN).  For each, TLC prints              *)
(*   - the families {(v, Pa(v))} whose local scores a decomposable score   *)
(*     must add up, and the log prior of the BDs score as a LogForm;       *)
(*   - the Markov equivalence class of E (all DAGs with the same skeleton  *)
(*     and v-structures, DagLib!IEquivalent) -- the pairs on which BDeu,   *)
(*     BIC and AIC must agree.                                             *)
(* Lemmas: equivalent DAGs have                                            *)
(* the same number of edges (so the BDs graph prior is class-invariant)    *)
(* and the same d-separation statements (n <= 3 by default: SameDSepMaxN). *)
(***************************************************************************)
EXTENDS ScoreSpec, DagLib, Json
CONSTANTS MaxN, SameDSepMaxN, IEqMaxN
Tokens == <<"v0", "v1", "v2", "v3", "v4">>
NodeSet(n) == {Tokens[i] : i \in 1..n}

\* all DAGs per node count, computed once (constant level; "@@ <<>>" makes TLC store the function explicitly)
DAGTab == [k \in 1..MaxN |-> AllDAGs(NodeSet(k))] @@ <<>>

VARIABLES n, E, ph
vars == <<n, E, ph>>
\* ph = 0 -> 1: the invariants do their (heavy) work on the ph = 1 states, which TLC's workers evaluate in parallel
Init == n \in 1..MaxN /\ E \in DAGTab[n] /\ ph = 0
Visit == ph = 0 /\ ph' = 1 /\ UNCHANGED <<n, E>>
Next == Visit

\* DagLib!IEquivalent(G, H) is by definition EKey(G) = EKey(H); the printed classes are grouped by the key (computed once per
\* DAG), and ClassLemmas ties them back to IEquivalent literally for n <= IEqMaxN (|DAGs|^2 evaluations: 4 only in thorough)
EKey(G) == <<Skeleton(G), VStructs(G)>>
KeyTab == [k \in 1..MaxN |-> [G \in DAGTab[k] |-> EKey(G)] @@ <<>>] @@ <<>>
Class(k, G) == {G2 \in DAGTab[k] : KeyTab[k][G2] = KeyTab[k][G]}
Families(N, G) == {[v |-> v, ps |-> Pa(G, v)] : v \in N}

ClassLemmas == ph = 1 =>
    LET N == NodeSet(n)
        C == Class(n, E) IN
    /\ E \in C
    /\ (n <= IEqMaxN => C = {G \in DAGTab[n] : IEquivalent(E, G)})
    /\ \A G \in C : Cardinality(G) = Cardinality(E)
    /\ \A G \in C : LogPrior([t |-> "bds", ess |-> 1], n, Cardinality(G)) = LogPrior([t |-> "bds", ess |-> 1], n, Cardinality(E))
    /\ (n <= SameDSepMaxN => \A G \in DAGTab[n] : (G \in C) <=> SameDSep(N, E, G))

Emit == ph = 1 => PrintT(ToJson([n |-> n, edges |-> E, fams |-> Families(NodeSet(n), E),
                       prior_bds |-> FJson(LogPrior([t |-> "bds", ess |-> 1], n, Cardinality(E))),
                       cls |-> Class(n, E)]))
=============================================================================
