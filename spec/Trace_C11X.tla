----------------------------- MODULE Trace_C11X -----------------------------
(***************************************************************************)
(* Validation of recorded ExhaustiveSearch.estimate results on node sets   *)
(* too large for one TLC state to hold all DAGs (5 nodes: 29 281 DAGs).    *)
(* A trace = the integer score table the code was driven with and the      *)
(* returned graph.  The states of this machine are ALL DAGs over the nodes *)
(* (edge-adding machine: every DAG is reachable from the empty graph by    *)
(* adding edges that close no cycle); the invariant Report prints          *)
(*   - once per trace (empty graph): whether the returned graph is a DAG   *)
(*     over the nodes, and its score by the table                          *)
(*   - every DAG whose score is HIGHER than the returned graph's           *)
(* so the result is globally maximal iff no "better" line appears.  The    *)
(* harness also requires the number of distinct states to be the number of *)
(* labelled DAGs (Robinson: 29 281 for 5 nodes) times the number of traces.*)
(***************************************************************************)
EXTENDS SearchLib, Json, IOUtils
Traces == JsonDeserialize(IOEnv.TRACE_FILE)
VARIABLES tr, E, rs       \* rs = score of the returned graph (computed once per trace)
vars == <<tr, E, rs>>
N == ToSet(tr.nodes)
Init == /\ \E s \in {Traces} : tr \in ToSet(s)
        /\ E = {}
        /\ rs = Score(tr, ToSet(tr.nodes), ToSet(tr.result))
AddEdge(u, v) == /\ <<u, v>> \notin E /\ ~HasPath(E, v, u)
                 /\ E' = E \cup {<<u, v>>} /\ UNCHANGED <<tr, rs>>
Next == \E p \in AllPairs(N) : AddEdge(p[1], p[2])
EveryStateIsADag == Acyclic(N, E)
Report ==
    /\ E = {} => PrintT(ToJson([tid |-> tr.tid, kind |-> "result", score |-> rs,
                                dag |-> (ToSet(tr.result) \subseteq AllPairs(N) /\ Acyclic(N, ToSet(tr.result))),
                                nodes |-> (ToSet(tr.result_nodes) = N)]))
    /\ Score(tr, N, E) > rs => PrintT(ToJson([tid |-> tr.tid, kind |-> "better", e |-> E, score |-> Score(tr, N, E)]))
=============================================================================
