----------------------------- MODULE Trace_C04 -----------------------------
(***************************************************************************)
(* Trace validation for the factor algebra: a trace is a pool of base      *)
(* factors and a sequence of operations executed by the real code, each    *)
(* logged with whether it raised, its return value and the projection of   *)
(* EVERY live factor object afterwards.  Each event must be the FactorAlg  *)
(* action with the same arguments from the current spec store.             *)
(***************************************************************************)
EXTENDS FactorAlg, Json, IOUtils
Traces == JsonDeserialize(IOEnv.TRACE_FILE)
VARIABLES tid, l, store, verdict
vars == <<tid, l, store, verdict>>
T == Traces[tid]
dom == T.dom

FromJson(d, jf) ==
    [scope |-> ToSet(jf.scope),
     val |-> [a \in Assign(d, ToSet(jf.scope)) |-> LET c == CHOOSE c \in ToSet(jf.cells) : c.a = a IN R(c.n, c.d)]]

Init == /\ tid \in 1..Len(Traces) /\ l = 1 /\ verdict = <<>>
        /\ store = [k \in 1..Len(Traces[tid].factors) |-> FromJson(Traces[tid].dom, Traces[tid].factors[k])]

\* first object / cell where the logged store differs from the spec store
StoreDiff(logged, st) ==
    IF Len(logged) # Len(st) THEN [clause |-> "object_count", obj |-> 0, a |-> <<>>, want |-> <<Len(st), 0>>]
    ELSE LET badobj == {k \in 1..Len(st) :
                          \/ ToSet(logged[k].scope) # st[k].scope
                          \/ Len(logged[k].cells) # Cardinality(DOMAIN st[k].val)
                          \/ \E c \in ToSet(logged[k].cells) : c.a \notin DOMAIN st[k].val \/ st[k].val[c.a] # <<c.n, c.d>>}
         IN IF badobj = {} THEN <<>>
            ELSE LET k == CHOOSE k \in badobj : \A k2 \in badobj : k <= k2 IN
                 IF ToSet(logged[k].scope) # st[k].scope \/ Len(logged[k].cells) # Cardinality(DOMAIN st[k].val)
                 THEN [clause |-> "scope", obj |-> k, a |-> <<>>, want |-> <<0, 0>>]
                 ELSE LET c == CHOOSE c \in ToSet(logged[k].cells) : c.a \notin DOMAIN st[k].val \/ st[k].val[c.a] # <<c.n, c.d>>
                      IN [clause |-> "value", obj |-> k, a |-> c.a,
                          want |-> IF c.a \in DOMAIN st[k].val THEN st[k].val[c.a] ELSE <<0, 0>>]

Step ==
    /\ l <= Len(T.steps) /\ verdict = <<>>
    /\ LET s == T.steps[l]
           en == Enabled(dom, store, s.o) IN
       IF ~en
       THEN \* the specification gives no result: the code must reject and leave everything unchanged
            /\ verdict' = IF ~s.exc THEN [l |-> l, clause |-> s.o.op \o ".accepted_outside_precondition", obj |-> 0, a |-> <<>>, want |-> <<0, 0>>]
                          ELSE LET d == StoreDiff(s.store, store) IN
                               IF d = <<>> THEN <<>> ELSE [l |-> l, clause |-> s.o.op \o ".rejected_but_changed." \o d.clause, obj |-> d.obj, a |-> d.a, want |-> d.want]
            /\ UNCHANGED store
       ELSE LET r == Apply(dom, store, s.o)
                d == StoreDiff(s.store, r.store) IN
            /\ verdict' = IF s.exc THEN [l |-> l, clause |-> s.o.op \o ".raises", obj |-> 0, a |-> <<>>, want |-> <<0, 0>>]
                          ELSE IF s.o.op = "eq" /\ s.ret # r.ret THEN [l |-> l, clause |-> "eq.value", obj |-> 0, a |-> <<>>, want |-> <<0, 0>>]
                          ELSE IF d = <<>> THEN <<>>
                          ELSE [l |-> l, clause |-> s.o.op \o (IF d.obj = (IF s.o.inplace THEN s.o.i ELSE Len(r.store)) THEN ".result." ELSE ".frame.") \o d.clause,
                                obj |-> d.obj, a |-> d.a, want |-> d.want]
            /\ store' = r.store
    /\ l' = l + 1 /\ UNCHANGED tid
Finish == /\ l = Len(T.steps) + 1 /\ verdict = <<>>
          /\ verdict' = [l |-> l, clause |-> "ACCEPT", obj |-> 0, a |-> <<>>, want |-> <<0, 0>>]
          /\ l' = l + 1 /\ UNCHANGED <<tid, store>>
Next == Step \/ Finish
Report == verdict # <<>> => PrintT(ToJson([tid |-> T.tid, v |-> verdict]))
=============================================================================
