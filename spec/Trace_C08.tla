----------------------------- MODULE Trace_C08 -----------------------------
(***************************************************************************)
(* Trace validation for C08: each recorded trace is a DAG (nodes, edges,   *)
(* latents) built by the real code followed by a sequence of query events  *)
(* (public call + its return value) interleaved with EDIT events on the    *)
(* same object.  Every event must be what the DSep                         *)
(* definitions allow.  Verdicts are total: a failing event is reported     *)
(* with the name of the failing clause, the rest of the batch continues.   *)
(***************************************************************************)
EXTENDS DSep, Json, IOUtils
Traces == JsonDeserialize(IOEnv.TRACE_FILE)
ToSet(s) == {s[i] : i \in 1..Len(s)}

VARIABLES tid, l, verdict, N, E, Lt        \* N, E, Lt: the CURRENT graph of the object (edit events change it)
vars == <<tid, l, verdict, N, E, Lt>>

T == Traces[tid]
Trip(a) == <<a.x, ToSet(a.ys), ToSet(a.zs)>>

(***************************************************************************)
(* Edit events (the object under query is edited between queries, so that  *)
(* an answer computed from state remembered before the edit is rejected):  *)
(*   add_edge x->y (refused iff it closes a cycle or x = y), remove_edge,  *)
(*   remove_node, add_node (x, latent flag incl), do(z) = cut the edges    *)
(*   into z.  e.ok records whether the call returned (TRUE) or raised.     *)
(***************************************************************************)
EditOps == {"add_edge", "remove_edge", "remove_node", "add_node", "do"}
EditPre(e) ==
    CASE e.op = "add_edge" -> e.x # e.y /\ ~(e.x \in N /\ e.y \in N /\ HasPath(E, e.y, e.x))
      [] e.op = "remove_edge" -> <<e.x, e.y>> \in E
      [] e.op = "remove_node" -> e.x \in N
      [] e.op = "add_node" -> TRUE
      [] e.op = "do" -> ToSet(e.z) \subseteq N
      [] OTHER -> FALSE
EditEff(e) ==
    CASE e.op = "add_edge" -> <<N \cup {e.x, e.y}, E \cup {<<e.x, e.y>>}, Lt>>
      [] e.op = "remove_edge" -> <<N, E \ {<<e.x, e.y>>}, Lt>>
      [] e.op = "remove_node" -> <<N \ {e.x}, {d \in E : d[1] # e.x /\ d[2] # e.x}, Lt \ {e.x}>>
      [] e.op = "add_node" -> <<N \cup {e.x}, E, IF e.incl THEN Lt \cup {e.x} ELSE Lt>>
      [] e.op = "do" -> <<N, {d \in E : d[2] \notin ToSet(e.z)}, Lt>>
      [] OTHER -> <<N, E, Lt>>
EditFails(e) ==
    IF e.ok = EditPre(e) THEN {} ELSE IF e.ok THEN {"edit.accepted_outside_precondition"} ELSE {"edit.refused_inside_precondition"}
\* after an edit event the harness logs the graph it reads back from the object
GraphFails(e) ==
    (IF ToSet(e.retnodes) = N THEN {} ELSE {"edit.nodes"}) \cup (IF ToSet(e.ret) = E THEN {} ELSE {"edit.edges"})
    \cup (IF ToSet(e.z) = Lt THEN {} ELSE {"edit.latents"})
    \* the accessors of the same graph: roots (no parent), leaves (no child)
    \cup (IF ToSet(e.roots) = {n \in N : Pa(E, n) = {}} THEN {} ELSE {"graph.roots"})
    \cup (IF ToSet(e.leaves) = {n \in N : Ch(E, n) = {}} THEN {} ELSE {"graph.leaves"})

\* the set of failing clauses of event e (empty = conformant)
Fails(e) ==
  CASE e.op = "active_trail" ->
         IF ToSet(e.ret) = ActiveTrailRet(N, E, Lt, e.x, ToSet(e.z), e.incl) THEN {} ELSE {"active_trail.set"}
    [] e.op = "is_dconnected" ->
         IF e.ret = IsDConnRet(N, E, Lt, e.x, e.y, ToSet(e.z)) THEN {} ELSE {"is_dconnected.value"}
    [] e.op = "minimal_dseparator" ->
         IF e.none THEN (IF NoneAllowed(Lt) THEN {} ELSE {"minsep.none_without_latents"})
         ELSE LET S == ToSet(e.ret) IN
              (IF S \cap Lt = {} THEN {} ELSE {"minsep.latent_member"}) \cup
              (IF ~DConn(N, E, e.x, e.y, S) THEN {} ELSE {"minsep.not_separating"}) \cup
              (IF \A u \in S : DConn(N, E, e.x, e.y, S \ {u}) THEN {} ELSE {"minsep.not_minimal"})
    [] e.op = "markov_blanket" ->
         IF ToSet(e.ret) = MarkovBlanket(E, e.x) THEN {} ELSE {"markov_blanket.set"}
    [] e.op = "local_independencies" ->    \* one variable (e.x) or a list of variables (e.z): the union of their local statements
         LET V == IF e.z = <<>> THEN {e.x} ELSE ToSet(e.z) IN
         IF {Trip(a) : a \in ToSet(e.ret)} = UNION {LocalIndepRet(N, E, v) : v \in V} THEN {} ELSE {"local_independencies.set"}
    [] e.op = "moralize" ->
         IF {ToSet(p) : p \in ToSet(e.ret)} = Moral(E) /\ ToSet(e.retnodes) = N THEN {} ELSE {"moralize.edges"}
    [] e.op = "ancestral" ->
         IF ToSet(e.ret) = AncestralEdges(E, ToSet(e.z)) /\ ToSet(e.retnodes) = AncOS(E, ToSet(e.z))
         THEN {} ELSE {"ancestral.graph"}
    [] e.op = "get_independencies" ->
         IF {Trip(a) : a \in ToSet(e.ret)} = IndepsRet(N, E, Lt, e.incl) THEN {} ELSE {"get_independencies.set"}
    [] OTHER -> {"unknown_event"}

Init == /\ tid \in 1..Len(Traces) /\ l = 1 /\ verdict = {}
        /\ N = ToSet(Traces[tid].nodes) /\ E = ToSet(Traces[tid].edges) /\ Lt = ToSet(Traces[tid].latents)
Query == /\ verdict = {} /\ l <= Len(T.events) /\ T.events[l].op \notin EditOps \cup {"graph"}
         /\ verdict' = Fails(T.events[l])
         /\ l' = l + 1 /\ UNCHANGED <<tid, N, E, Lt>>
Edit == /\ verdict = {} /\ l <= Len(T.events) /\ T.events[l].op \in EditOps
        /\ LET e == T.events[l]
               g == IF e.ok /\ EditPre(e) THEN EditEff(e) ELSE <<N, E, Lt>>
           IN /\ verdict' = EditFails(e)
              /\ N' = g[1] /\ E' = g[2] /\ Lt' = g[3]
        /\ l' = l + 1 /\ UNCHANGED tid
ReadBack == /\ verdict = {} /\ l <= Len(T.events) /\ T.events[l].op = "graph"
            /\ verdict' = GraphFails(T.events[l])
            /\ l' = l + 1 /\ UNCHANGED <<tid, N, E, Lt>>
Next == Query \/ Edit \/ ReadBack
Done == verdict # {} \/ l > Len(T.events)
Report == Done => PrintT(ToJson([tid |-> T.tid, l |-> l - 1, fails |-> verdict]))
WellFormed == Acyclic(N, E)
=============================================================================
