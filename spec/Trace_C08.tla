----------------------------- MODULE Trace_C08 -----------------------------
(***************************************************************************)
(* Trace validation for C08: each recorded trace is a DAG (nodes, edges,   *)
(* latents) built by the real code followed by a sequence of query events  *)
(* (public call + its return value).  Every event must be what the DSep    *)
(* definitions allow.  Verdicts are total: a failing event is reported     *)
(* with the name of the failing clause, the rest of the batch continues.   *)
(***************************************************************************)
EXTENDS DSep, Json, IOUtils
Traces == JsonDeserialize(IOEnv.TRACE_FILE)
ToSet(s) == {s[i] : i \in 1..Len(s)}

VARIABLES tid, l, verdict
vars == <<tid, l, verdict>>

T == Traces[tid]
N == ToSet(T.nodes)
E == ToSet(T.edges)
Lt == ToSet(T.latents)
Trip(a) == <<a.x, ToSet(a.ys), ToSet(a.zs)>>

\* the set of failing clauses of event e (empty = conformant)
Fails(e) ==
  CASE e.op = "active_trail" ->
         IF ToSet(e.ret) = ActiveTrailRet(N, E, Lt, e.x, ToSet(e.z), e.incl) THEN {} ELSE {"active_trail.set"}
    [] e.op = "is_dconnected" ->
         IF e.ret = IsDConnRet(N, E, Lt, e.x, e.y, ToSet(e.z)) THEN {} ELSE {"is_dconnected.value"}
    [] e.op = "minimal_dseparator" ->
         IF e.none THEN (IF NoneAllowed(Lt) THEN {} ELSE {"minsep.none_without_latents"})
         ELSE LET S == ToSet(e.ret) IN
              (IF S \cap Lt = {} THEN {} ELSE {"minsep.latent_member"}) \cup
              (IF ~DConn(N, E, e.x, e.y, S) THEN {} ELSE {"minsep.not_separating"}) \cup
              (IF \A u \in S : DConn(N, E, e.x, e.y, S \ {u}) THEN {} ELSE {"minsep.not_minimal"})
    [] e.op = "markov_blanket" ->
         IF ToSet(e.ret) = MarkovBlanket(E, e.x) THEN {} ELSE {"markov_blanket.set"}
    [] e.op = "local_independencies" ->
         IF {Trip(a) : a \in ToSet(e.ret)} = LocalIndepRet(N, E, e.x) THEN {} ELSE {"local_independencies.set"}
    [] e.op = "moralize" ->
         IF {ToSet(p) : p \in ToSet(e.ret)} = Moral(E) /\ ToSet(e.retnodes) = N THEN {} ELSE {"moralize.edges"}
    [] e.op = "ancestral" ->
         IF ToSet(e.ret) = AncestralEdges(E, ToSet(e.z)) /\ ToSet(e.retnodes) = AncOS(E, ToSet(e.z))
         THEN {} ELSE {"ancestral.graph"}
    [] e.op = "get_independencies" ->
         IF {Trip(a) : a \in ToSet(e.ret)} = IndepsRet(N, E, Lt, e.incl) THEN {} ELSE {"get_independencies.set"}
    [] OTHER -> {"unknown_event"}

Init == tid \in 1..Len(Traces) /\ l = 1 /\ verdict = {}
Step == /\ verdict = {} /\ l <= Len(T.events)
        /\ verdict' = Fails(T.events[l])
        /\ l' = l + 1 /\ UNCHANGED tid
Next == Step
Done == verdict # {} \/ l > Len(T.events)
Report == Done => PrintT(ToJson([tid |-> T.tid, l |-> l - 1, fails |-> verdict]))
WellFormed == Acyclic(N, E)
=============================================================================
