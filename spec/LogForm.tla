------------------------------ MODULE LogForm ------------------------------
(***************************************************************************)
(* Exact symbolic normal forms for numbers of the shape                    *)
(*      k  +  SUM_p (lg[p] / 2) * log(p)  +  (pi / 2) * log(PI)            *)
(* with k, lg[p], pi integers and p ranging over the primes <= PMax.       *)
(* All coefficients are stored DOUBLED so that half-integer multiples      *)
(* (Gamma at half-integers, the BIC penalty (1/2) log N) stay integral.    *)
(*                                                                         *)
(* TLC has no reals: log, lgamma cannot be computed.  Here log n is the    *)
(* prime factorisation of n, log n! is Legendre's formula and              *)
(*      lgamma(n)       = log (n-1)!                                       *)
(*      lgamma(n + 1/2) = log (2n)! - log n! - 2n log 2 + (1/2) log PI     *)
(* so every structure score built from counts is such a form, computed     *)
(* exactly.  The harness only evaluates a form with math.log.  Equal forms *)
(* denote equal numbers (the direction used by the equivalence lemmas).    *)
(***************************************************************************)
EXTENDS Integers, FiniteSets, FiniteSetsExt, Sequences, TLC
CONSTANT PMax          \* largest integer whose factorisation may be needed

IsPrime(p) == p >= 2 /\ \A d \in 2..(p - 1) : p % d # 0
PrimeSet == {p \in 2..PMax : IsPrime(p)}

FZero == [k |-> 0, lg |-> [p \in PrimeSet |-> 0], pi |-> 0]
FAdd(a, b) == [k |-> a.k + b.k, lg |-> [p \in PrimeSet |-> a.lg[p] + b.lg[p]], pi |-> a.pi + b.pi]
FScale(c, a) == [k |-> c * a.k, lg |-> [p \in PrimeSet |-> c * a.lg[p]], pi |-> c * a.pi]
FSub(a, b) == FAdd(a, FScale(-1, b))
FConst(c) == [FZero EXCEPT !.k = c]
FSumSet(S, f(_)) == FoldSet(LAMBDA x, acc : FAdd(f(x), acc), FZero, S)

\* exponent of the prime p in n (n >= 1)
RECURSIVE VP(_, _)
VP(p, n) == IF n % p = 0 THEN 1 + VP(p, n \div p) ELSE 0
\* exponent of the prime p in n! (Legendre)
RECURSIVE Leg(_, _)
Leg(p, n) == IF n < p THEN 0 ELSE (n \div p) + Leg(p, n \div p)

InRange(n) == Assert(n >= 0 /\ n <= PMax, <<"LogForm: PMax too small for", n>>)
\* log n        (n >= 1)
FLog(n) == IF InRange(n) THEN [FZero EXCEPT !.lg = [p \in PrimeSet |-> 2 * VP(p, n)]] ELSE FZero
\* (1/2) log n  (n >= 1)
FHalfLog(n) == IF InRange(n) THEN [FZero EXCEPT !.lg = [p \in PrimeSet |-> VP(p, n)]] ELSE FZero
\* log n!       (n >= 0)
FLogFact(n) == IF InRange(n) THEN [FZero EXCEPT !.lg = [p \in PrimeSet |-> 2 * Leg(p, n)]] ELSE FZero

\* lgamma(m / 2) for an integer m >= 1 ("doubled argument")
LGamma2(m) ==
    IF m % 2 = 0 THEN FLogFact(m \div 2 - 1)
    ELSE LET n == (m - 1) \div 2 IN
         IF InRange(2 * n)
         THEN [k |-> 0, pi |-> 1,
               lg |-> [p \in PrimeSet |-> 2 * Leg(p, 2 * n) - 2 * Leg(p, n) - (IF p = 2 THEN 4 * n ELSE 0)]]
         ELSE FZero

\* what is printed: only the non-zero coefficients, as pairs <<prime, doubled coefficient>>
FJson(f) == [k |-> f.k, pi |-> f.pi, lg |-> {<<p, f.lg[p]>> : p \in {q \in PrimeSet : f.lg[q] # 0}}]

(***************************************************************************)
(* Lemmas about the forms themselves (checked by TLC in MC_C10Form):       *)
(***************************************************************************)
\* Legendre's formula agrees with the product definition of the factorial
LemmaLegendre == \A n \in 1..PMax : FLogFact(n) = FAdd(FLogFact(n - 1), FLog(n))
\* Gamma(x + 1) = x Gamma(x) at x = m/2:  lgamma((m+2)/2) = lgamma(m/2) + log m - log 2
LemmaGammaRec == \A m \in 1..(PMax - 1) : LGamma2(m + 2) = FAdd(LGamma2(m), FSub(FLog(m), FLog(2)))
\* Gamma(1) = 1, Gamma(1/2) = sqrt(PI)
LemmaGammaBase == LGamma2(2) = FZero /\ LGamma2(1) = [FZero EXCEPT !.pi = 1]
\* log is additive
LemmaLogMul == \A a \in 1..PMax : \A b \in 1..PMax : a * b <= PMax => FLog(a * b) = FAdd(FLog(a), FLog(b))
\* Legendre duplication formula  Gamma(n) Gamma(n + 1/2) = 2^(1-2n) sqrt(PI) Gamma(2n)
LemmaDuplication == \A n \in 1..(PMax \div 2) :
    FAdd(LGamma2(2 * n), LGamma2(2 * n + 1)) =
    FAdd(FAdd(FScale(1 - 2 * n, FLog(2)), [FZero EXCEPT !.pi = 1]), LGamma2(4 * n))
=============================================================================
