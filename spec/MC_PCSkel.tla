------------------------------ MODULE MC_PCSkel ------------------------------
(***************************************************************************)
(* Skeleton phase of the PC algorithm as coded in pgmpy/estimators/PC.py   *)
(* (build_skeleton), as a step machine with a d-separation oracle:         *)
(*   Begin      start conditioning-set size lvl if some node still has     *)
(*              >= lvl neighbours ("stable"/"parallel" take a snapshot of  *)
(*              all adjacency sets), otherwise stop                        *)
(*   Visit(e)   test ANY remaining edge e = {u,v} (visiting order = dict   *)
(*              iteration order of the code) against every S of size lvl   *)
(*              inside adj(u)\{v} or adj(v)\{u} (current graph for "orig", *)
(*              snapshot otherwise); if some S separates, remove the edge  *)
(*              and record ANY such S                                      *)
(*   End        all edges of the level visited: lvl := lvl + 1             *)
(* TLC checks for every DAG over Nodes, both adjacency policies and every  *)
(* visiting order / choice of separating set:                              *)
(*   Sound      only truly non-adjacent pairs are removed, with a set that *)
(*              d-separates them in the ground truth                       *)
(*   Complete   at termination the graph is the true skeleton (so every    *)
(*              non-adjacent pair carries a separating set)                *)
(***************************************************************************)
EXTENDS DagLib
CONSTANTS Nodes
VARIABLES E, policy, G, lvl, todo, snap, sep, stage
vars == <<E, policy, G, lvl, todo, snap, sep, stage>>

UAdj(U, a) == {b \in Nodes : {a, b} \in U}
AllU == {{p[1], p[2]} : p \in AllPairs(Nodes)}
Pick2(e) == LET a == CHOOSE a \in e : TRUE IN <<a, CHOOSE b \in e : b # a>>
Subsets(S, k) == {T \in SUBSET S : Cardinality(T) = k}

Init == /\ E \in AllDAGs(Nodes) /\ policy \in {"orig", "stable"}
        /\ G = AllU /\ lvl = 0 /\ todo = {} /\ snap = AllU /\ sep = <<>> /\ stage = "idle"

MoreLevels == \E n \in Nodes : Cardinality(UAdj(G, n)) >= lvl
Begin == /\ stage = "idle"
         /\ IF MoreLevels THEN stage' = "visiting" /\ todo' = G /\ snap' = G
                          ELSE stage' = "done" /\ UNCHANGED <<todo, snap>>
         /\ UNCHANGED <<E, policy, G, lvl, sep>>
Cands(e) == LET u == Pick2(e)[1]  v == Pick2(e)[2]
                A == IF policy = "orig" THEN G ELSE snap
            IN Subsets(UAdj(A, u) \ {v}, lvl) \cup Subsets(UAdj(A, v) \ {u}, lvl)
Seps(e) == {S \in Cands(e) : ~DConn(Nodes, E, Pick2(e)[1], Pick2(e)[2], S)}
Visit(e) == /\ stage = "visiting" /\ e \in todo
            /\ IF Seps(e) = {} THEN UNCHANGED <<G, sep>>
               ELSE \E S \in Seps(e) : G' = G \ {e} /\ sep' = sep @@ (e :> S)
            /\ todo' = todo \ {e}
            /\ UNCHANGED <<E, policy, lvl, snap, stage>>
End == /\ stage = "visiting" /\ todo = {}
       /\ stage' = "idle" /\ lvl' = lvl + 1
       /\ UNCHANGED <<E, policy, G, todo, snap, sep>>
VisitAny == \E e \in todo : Visit(e)
Next == Begin \/ VisitAny \/ End

Sound == \A e \in DOMAIN sep : /\ e \notin Skeleton(E) /\ e \notin G
                               /\ ~DConn(Nodes, E, Pick2(e)[1], Pick2(e)[2], sep[e])
NeverDropsTrueEdge == Skeleton(E) \subseteq G
Complete == stage = "done" => G = Skeleton(E) /\ DOMAIN sep = AllU \ G
Terminates == lvl <= Cardinality(Nodes)
=============================================================================
