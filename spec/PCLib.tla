-------------------------------- MODULE PCLib --------------------------------
(***************************************************************************)
(* Constraint-based discovery (property C12): definitional oracles.        *)
(*   Class(N,E)   Markov equivalence class of the DAG (N,E), by enumeration*)
(*   CPDAG        compelled edges = oriented the same way in every member  *)
(*   PDAG         [dir : set of pairs, und : set of 2-sets]                *)
(*   Extensions   consistent DAG extensions of a PDAG: same skeleton, keep *)
(*                every directed edge, acyclic, no new v-structure         *)
(* and the Meek-rule step machine used for the design-level lemma          *)
(* "any maximal application of R1-R3 to (skeleton + v-structures) yields   *)
(* the CPDAG".                                                             *)
(***************************************************************************)
EXTENDS DagLib

ClassOf(DAGS, E) == {E2 \in DAGS : IEquivalent(E, E2)}
Compelled(C, E) == {e \in E : \A E2 \in C : e \in E2}
CPDAGOf(C, E) == LET D == Compelled(C, E) IN
                 [dir |-> D, und |-> {{e[1], e[2]} : e \in E \ D}]

PSkel(P) == {{e[1], e[2]} : e \in P.dir} \cup P.und
PAdj(P, a, b) == {a, b} \in PSkel(P)
\* v-structures of a partially directed graph: a -> c <- b (directed), a, b non-adjacent
PVStructs(P) == UNION {{<<{q[1], q[2]}, c>> : q \in {r \in Pa(P.dir, c) \X Pa(P.dir, c) : r[1] # r[2] /\ ~PAdj(P, r[1], r[2])}}
                       : c \in {e[2] : e \in P.dir}}
Extensions(DAGS, P) == {E \in DAGS : /\ Skeleton(E) = PSkel(P)
                                      /\ P.dir \subseteq E
                                      /\ VStructs(E) \subseteq PVStructs(P)}
WellFormedPDAG(P) == /\ \A e \in P.dir : {e[1], e[2]} \notin P.und /\ <<e[2], e[1]>> \notin P.dir
                     /\ \A u \in P.und : Cardinality(u) = 2

(***************************************************************************)
(* Meek rules on a PDAG (one application = orient one undirected edge)     *)
(***************************************************************************)
Orient(P, a, b) == [dir |-> P.dir \cup {<<a, b>>}, und |-> P.und \ {{a, b}}]
\* R1: x -> a - b, x and b non-adjacent  =>  a -> b
R1(P, a, b) == {a, b} \in P.und /\ \E x \in Pa(P.dir, a) : ~PAdj(P, x, b)
\* R2: a -> x -> b, a - b  =>  a -> b
R2(P, a, b) == {a, b} \in P.und /\ \E x \in Ch(P.dir, a) : <<x, b>> \in P.dir
\* R3: a - x -> b, a - y -> b, x, y non-adjacent, a - b  =>  a -> b
R3(P, a, b) == {a, b} \in P.und /\ \E x, y \in Pa(P.dir, b) :
                   x # y /\ {a, x} \in P.und /\ {a, y} \in P.und /\ ~PAdj(P, x, y)
Applicable(P, a, b) == R1(P, a, b) \/ R2(P, a, b) \/ R3(P, a, b)
\* start of the orientation phase: skeleton with exactly the v-structures directed
Pattern(E) == LET V == VStructs(E)
                  D == UNION {{<<x, v[2]>> : x \in v[1]} : v \in V}
              IN [dir |-> D, und |-> Skeleton(E) \ {{e[1], e[2]} : e \in D}]
=============================================================================
