------------------------------ MODULE Gen_C19 ------------------------------
(***************************************************************************)
(* Exhaustive generator of small discrete data sets for the CI tests.      *)
(* A family (read from FAM_FILE) fixes the number of X- and Y-values, the  *)
(* list of Z-configurations (strata; Z may be empty, strata may be sparse  *)
(* for |Z| = 2) and the bound K on every cell count.  The state machine    *)
(* fills the cells one after the other with ANY count 0..K (appending that *)
(* many rows), so TLC enumerates every data bag of the family: empty       *)
(* cells, missing values (a whole table row/column absent from a stratum), *)
(* empty and degenerate strata included.  Every complete data set is       *)
(* checked against the design lemmas of CITest and printed with the        *)
(* expected result of every test call.                                     *)
(***************************************************************************)
EXTENDS CITest, Json, IOUtils
Fams == JsonDeserialize(IOEnv.FAM_FILE)
ASSUME PrintT(ToJson(Header))
VARIABLES fi, pos, rows
vars == <<fi, pos, rows>>
F == Fams[fi]
NCells == Len(F.strata) * F.nx * F.ny

\* cell number k (0-based): stratum-major, then x, then y
RowOfCell(k) ==
    LET s == k \div (F.nx * F.ny)
        x == (k % (F.nx * F.ny)) \div F.ny
        y == k % F.ny
    IN [c \in {"x", "y"} \cup ToSet(F.zcols) |->
            IF c = "x" THEN x ELSE IF c = "y" THEN y
            ELSE F.strata[s + 1][CHOOSE j \in 1..Len(F.zcols) : F.zcols[j] = c]]
Copies(r, k) == [i \in 1..k |-> r]

Init == /\ fi \in 1..Len(Fams) /\ pos = 0 /\ rows = <<>>
Fill(k) == /\ pos < NCells
           /\ Len(rows) + k <= F.maxn
           /\ rows' = rows \o Copies(RowOfCell(pos), k)
           /\ pos' = pos + 1
           /\ UNCHANGED fi
Next == \E k \in 0..F.K : Fill(k)

Complete == pos = NCells /\ Len(rows) >= 1
D == [rows |-> rows]
LemmasHold == Complete => Lemmas(D, "x", "y", F.zcols)
Emit == Complete => PrintT(ToJson([src |-> "fam", fam |-> F.id, rows |-> rows, case |-> Case(D, "x", "y", F.zcols)]))
=============================================================================
