------------------------------ MODULE Gen_C19D ------------------------------
(***************************************************************************)
(* CI-test cases on the data sets of an instance file (seeded, written by  *)
(* the harness: sparse strata, empty cells, exactly independent and        *)
(* degenerate tables, cardinalities 2..4, 3-5 columns).  TLC enumerates    *)
(* the control: EVERY ordered pair (X, Y) of different columns and EVERY   *)
(* conditioning set Z (as an ordered sequence, |Z| <= MaxZ) of the other   *)
(* columns; each choice is checked against the design lemmas and printed   *)
(* with the expected result of every test call.                            *)
(***************************************************************************)
EXTENDS CITest, Json, IOUtils
CONSTANTS MaxZ
Insts == JsonDeserialize(IOEnv.INST_FILE)
ASSUME PrintT(ToJson(Header))
VARIABLES di, sel
vars == <<di, sel>>
CS(i) == Insts[i].cols
None == [X |-> "", Y |-> "", Z |-> <<>>]
\* injective sequences over S of length k
InjSeqs(S, k) == {q \in [1..k -> S] : \A a, c \in 1..k : a # c => q[a] # q[c]}

Init == di \in 1..Len(Insts) /\ sel = None
Choose(X, Y, Z) == sel = None /\ sel' = [X |-> X, Y |-> Y, Z |-> Z] /\ UNCHANGED di
\* instances flagged "half" only take X before Y in column order (the spec is symmetric: LemmaSymmetric)
Next == \E a, b \in 1..Len(CS(di)) :
          /\ a # b /\ (a < b \/ ~Insts[di].half)
          /\ \E k \in 0..MaxZ : \E Z \in InjSeqs(ToSet(CS(di)) \ {CS(di)[a], CS(di)[b]}, k) :
                Choose(CS(di)[a], CS(di)[b], Z)

D == [rows |-> Insts[di].rows]
Chosen == sel # None
LemmasHold == Chosen => Lemmas(D, sel.X, sel.Y, sel.Z)
Emit == Chosen => PrintT(ToJson([src |-> "inst", inst |-> Insts[di].id, case |-> Case(D, sel.X, sel.Y, sel.Z)]))
=============================================================================
