------------------------------- MODULE IOLib -------------------------------
(***************************************************************************)
(* Abstract document models of the four file formats pgmpy reads and       *)
(* writes (property C09), over abstract names and OPAQUE value tokens.     *)
(*                                                                         *)
(* MODEL   m = [kind   : "BN" | "MN",                                      *)
(*              nodes  : Seq(var)   -- the variables in NAME order (the    *)
(*                                     order `sorted(names)` lists them),  *)
(*              states : [var -> Seq(state)]   -- declared state order,    *)
(*              fams   : Seq([scope : Seq(var), cells : Seq(tok)])]        *)
(*   BN: one family per variable, in name order of the child; scope =      *)
(*       <<child>> \o parents in the DECLARED evidence order.  MN: the     *)
(*       factors in insertion order.  `cells` lists the table row-major    *)
(*       over `scope` (first variable slowest) -- the layout rule that     *)
(*       C05 establishes for TabularCPD / DiscreteFactor.  The MEANING of  *)
(*       a family is the map  named assignment -> token.                   *)
(* TOKENS  tok = index into the instance's value table (0 = a number that  *)
(*       is not bit-identical to any table entry).  Only NET interprets    *)
(*       values: V[tok] = [ip, dg] is the exact decimal expansion          *)
(*       ip.d1d2...d17 and a NET cell is the number of 1e-4 units.         *)
(* DOCUMENT one record type per format, listing what the format lists, in  *)
(*       the order the format prescribes (see WriteBIF etc.).     *)
(*                                                                         *)
(* Write(fmt, m, V) is the document the format prescribes for m,           *)
(* Read(fmt, doc) the model a document denotes, Canon(fmt, m, V) the model *)
(* one must get back (strings; positions in UAI; 4-decimal units in NET),  *)
(* Diff(...) the set of clauses in which an observed model differs from an *)
(* expected one (by MEANING: parent order / factor order are free).        *)
(***************************************************************************)
EXTENDS Naturals, Sequences, FiniteSets, SequencesExt, TLC

Idx(seq, x) == CHOOSE i \in 1..Len(seq) : seq[i] = x
Has(seq, x) == \E i \in 1..Len(seq) : seq[i] = x
Distinct(seq) == \A i, j \in 1..Len(seq) : i # j => seq[i] # seq[j]
Perms(s) == {q \in [1..Len(s) -> ToSet(s)] : \A i, j \in 1..Len(s) : i # j => q[i] # q[j]}
\* TLC evaluates [k \in S |-> e] lazily (e again at every application); concatenation yields an explicit tuple
Strict(s) == s \o <<>>

RECURSIVE ProdSeq(_)
ProdSeq(d) == IF d = <<>> THEN 1 ELSE Head(d) * ProdSeq(Tail(d))
Stride(d, i) == ProdSeq(SubSeq(d, i + 1, Len(d)))
RECURSIVE OffAcc(_, _, _, _)
OffAcc(d, ix, i, acc) == IF i > Len(d) THEN acc ELSE OffAcc(d, ix, i + 1, acc * d[i] + (ix[i] - 1))
\* 0-based row-major offset of the 1-based index vector ix under dimensions d, and its inverse
Offset(d, ix) == OffAcc(d, ix, 1, 0)
Unrank(d, k) == [i \in 1..Len(d) |-> ((k \div Stride(d, i)) % d[i]) + 1]

\* `cells` is row-major over the variable sequence `from`; the result lists the same map row-major over `to`
\* (a permutation of `from`); c = cardinality of every variable.
Relayout(cells, from, to, c) ==
    LET dF == Strict([i \in 1..Len(from) |-> c[from[i]]])
        dT == Strict([i \in 1..Len(to) |-> c[to[i]]])
        sT == Strict([i \in 1..Len(to) |-> Stride(dT, i)])
        pos == Strict([i \in 1..Len(from) |-> Idx(to, from[i])])
        src == Strict(cells)
    IN Strict([k \in 1..ProdSeq(dT) |->
           src[OffAcc(dF, [i \in 1..Len(from) |-> (((k - 1) \div sT[pos[i]]) % dT[pos[i]]) + 1], 1, 0) + 1]])

\* ------------------------------------------------------------------ models
Card(m, v) == Len(m.states[v])
CardFn(m) == [v \in DOMAIN m.states |-> Len(m.states[v])]
Dims(m, sc) == [i \in 1..Len(sc) |-> Card(m, sc[i])]
Child(f) == f.scope[1]
Pars(f) == Tail(f.scope)
FamOf(m, v) == m.fams[CHOOSE i \in 1..Len(m.fams) : m.fams[i].scope[1] = v]
Pairs(n) == {p \in (1..n) \X (1..n) : p[1] < p[2]}
Edges(m) == IF m.kind = "BN"
            THEN UNION {{<<m.fams[i].scope[j], m.fams[i].scope[1]>> : j \in 2..Len(m.fams[i].scope)} : i \in 1..Len(m.fams)}
            ELSE UNION {{{m.fams[i].scope[p[1]], m.fams[i].scope[p[2]]} : p \in Pairs(Len(m.fams[i].scope))} : i \in 1..Len(m.fams)}

WellFormed(m) ==
    /\ Distinct(m.nodes) /\ DOMAIN m.states = ToSet(m.nodes)
    /\ \A v \in ToSet(m.nodes) : Len(m.states[v]) >= 1 /\ Distinct(m.states[v])
    /\ \A i \in 1..Len(m.fams) : LET f == m.fams[i] IN
          /\ Len(f.scope) >= 1 /\ Distinct(f.scope) /\ ToSet(f.scope) \subseteq ToSet(m.nodes)
          /\ Len(f.cells) = ProdSeq(Dims(m, f.scope))
    /\ m.kind = "BN" => /\ Len(m.fams) = Len(m.nodes)
                        /\ \A i \in 1..Len(m.nodes) : m.fams[i].scope[1] = m.nodes[i]
    /\ m.kind = "MN" => \A v \in ToSet(m.nodes) : \E i \in 1..Len(m.fams) : Has(m.fams[i].scope, v)

\* the same distribution with other DECLARED evidence orders: ord = [child |-> new parent sequence] (partial)
Reorder(m, ord) ==
    [m EXCEPT !.fams = [i \in 1..Len(m.fams) |->
        LET f == m.fams[i] v == f.scope[1] IN
        IF v \in DOMAIN ord
        THEN [scope |-> <<v>> \o ord[v], cells |-> Relayout(f.cells, f.scope, <<v>> \o ord[v], CardFn(m))]
        ELSE f]]
Orders(m, P) == {o \in [P -> UNION {Perms(Pars(FamOf(m, v))) : v \in P}] : \A v \in P : o[v] \in Perms(Pars(FamOf(m, v)))}

\* ------------------------------------------------------------------ values (NET only)
AlienU == 999999999
RestNonZero(d) == \E i \in 6..Len(d) : d[i] # 0
Tie(V, t) == V[t].dg[5] = 5 /\ ~RestNonZero(V[t].dg)
\* number of 1e-4 units nearest to the exact decimal value of token t (ties are excluded from instances)
R4(V, t) == IF t = 0 THEN AlienU
            ELSE LET d == V[t].dg IN
                 V[t].ip * 10000 + d[1] * 1000 + d[2] * 100 + d[3] * 10 + d[4]
                 + (IF d[5] > 5 \/ (d[5] = 5 /\ RestNonZero(d)) THEN 1 ELSE 0)
R4Seq(V, cells) == Strict([k \in 1..Len(cells) |-> R4(V, cells[k])])

\* ------------------------------------------------------------------ writing
VarDecls(m) == [i \in 1..Len(m.nodes) |-> [name |-> m.nodes[i], states |-> m.states[m.nodes[i]]]]
Labels(m, sc, j) == LET ix == Strict(Unrank(Dims(m, sc), j - 1)) IN Strict([i \in 1..Len(sc) |-> m.states[sc[i]][ix[i]]])
ChildFastest(m, f) == Relayout(f.cells, f.scope, Pars(f) \o <<Child(f)>>, CardFn(m))

\* BIF: variables and probability blocks sorted by name; a root has `table` (its states in order); otherwise one row
\* per parent configuration (declared parent order, first parent slowest), labelled with the parents' state names,
\* listing the child's states in order.
WriteBIF(m) ==
    [fmt |-> "BIF", vars |-> VarDecls(m),
     probs |-> [i \in 1..Len(m.fams) |->
        LET f == m.fams[i] ps == Pars(f) cc == Card(m, Child(f)) t == ChildFastest(m, f) IN
        [child |-> Child(f), parents |-> ps,
         table |-> IF ps = <<>> THEN f.cells ELSE <<>>,
         rows |-> IF ps = <<>> THEN <<>>
                  ELSE [j \in 1..ProdSeq(Dims(m, ps)) |->
                           [label |-> Labels(m, ps, j), cells |-> SubSeq(t, (j - 1) * cc + 1, j * cc)]]]]]
\* XMLBIF: VARIABLE and DEFINITION elements sorted by name, GIVEN in declared order, TABLE with the child fastest.
WriteXML(m) ==
    [fmt |-> "XMLBIF", vars |-> VarDecls(m),
     defs |-> [i \in 1..Len(m.fams) |-> LET f == m.fams[i] IN
                 [child |-> Child(f), parents |-> Pars(f), cells |-> ChildFastest(m, f)]]]
\* NET: as XMLBIF, the data nested one parenthesis level per variable (parents in declared order, child innermost),
\* values rounded to four decimals.
WriteNET(m, V) ==
    [fmt |-> "NET", vars |-> VarDecls(m),
     pots |-> [i \in 1..Len(m.fams) |-> LET f == m.fams[i] IN
                 [child |-> Child(f), parents |-> Pars(f), shape |-> Dims(m, Pars(f) \o <<Child(f)>>),
                  cells |-> R4Seq(V, ChildFastest(m, f))]]]
\* UAI: variables are renamed to positions: rank in (cardinality AS A DECIMAL STRING, name) order.
RECURSIVE Digits(_)
Digits(n) == IF n < 10 THEN <<n>> ELSE Digits(n \div 10) \o <<n % 10>>
LexLess(s, t) == \/ \E i \in 1..Len(s) : i <= Len(t) /\ s[i] < t[i] /\ \A j \in 1..(i - 1) : s[j] = t[j]
                 \/ Len(s) < Len(t) /\ \A j \in 1..Len(s) : s[j] = t[j]
UaiLess(m, a, b) == LET da == Digits(Card(m, a)) db == Digits(Card(m, b)) IN
                    LexLess(da, db) \/ (da = db /\ Idx(m.nodes, a) < Idx(m.nodes, b))
Pos(m, v) == Cardinality({u \in ToSet(m.nodes) : UaiLess(m, u, v)})         \* 0-based
VarAt(m, p) == CHOOSE v \in ToSet(m.nodes) : Pos(m, v) = p
\* a Bayesian function lists the evidence REVERSED, then the child, and its table child-slowest over the declared
\* evidence order (pgmpy's convention, DESIGN Appendix A); a Markov function lists scope and table as they are.
WriteUAI(m) ==
    [fmt |-> "UAI", type |-> IF m.kind = "BN" THEN "BAYES" ELSE "MARKOV",
     cards |-> [p \in 1..Len(m.nodes) |-> Card(m, VarAt(m, p - 1))],
     scopes |-> [i \in 1..Len(m.fams) |-> LET sc == m.fams[i].scope L == Len(sc) IN
                   IF m.kind = "BN" THEN [j \in 1..L |-> Pos(m, IF j = L THEN sc[1] ELSE sc[L + 1 - j])]
                   ELSE [j \in 1..L |-> Pos(m, sc[j])]],
     tables |-> [i \in 1..Len(m.fams) |-> m.fams[i].cells]]
Write(fmt, m, V) == CASE fmt = "BIF" -> WriteBIF(m) [] fmt = "XMLBIF" -> WriteXML(m)
                      [] fmt = "NET" -> WriteNET(m, V) [] fmt = "UAI" -> WriteUAI(m)
Formats(m) == IF m.kind = "BN" THEN {"BIF", "XMLBIF", "NET", "UAI"} ELSE {"UAI"}

\* ------------------------------------------------------------------ reading
DeclNames(vs) == [i \in 1..Len(vs) |-> vs[i].name]
DeclStates(vs) == [n \in ToSet(DeclNames(vs)) |-> vs[Idx(DeclNames(vs), n)].states]
BlocksOK(vs, blocks) ==        \* blocks: Seq of records with child, parents
    /\ Distinct(DeclNames(vs)) /\ \A i \in 1..Len(vs) : Len(vs[i].states) >= 1
    /\ Distinct([i \in 1..Len(blocks) |-> blocks[i].child])
    /\ \A i \in 1..Len(blocks) : /\ Distinct(<<blocks[i].child>> \o blocks[i].parents)
                                 /\ ToSet(<<blocks[i].child>> \o blocks[i].parents) \subseteq ToSet(DeclNames(vs))
BlockSize(vs, b) == ProdSeq([k \in 1..(Len(b.parents) + 1) |-> Len(DeclStates(vs)[(b.parents \o <<b.child>>)[k]])])

ParLabels(st, ps, j) == LET ix == Strict(Unrank([k \in 1..Len(ps) |-> Len(st[ps[k]])], j - 1)) IN Strict([k \in 1..Len(ps) |-> st[ps[k]][ix[k]]])
AllParLabels(st, ps) == Strict([j \in 1..ProdSeq([k \in 1..Len(ps) |-> Len(st[ps[k]])]) |-> ParLabels(st, ps, j)])
ReadableBIF(doc) ==
    /\ BlocksOK(doc.vars, doc.probs)
    /\ LET st == DeclStates(doc.vars) IN \A i \in 1..Len(doc.probs) : LET p == doc.probs[i] cc == Len(st[p.child]) IN
         IF p.parents = <<>> THEN Len(p.table) = cc /\ p.rows = <<>>
         ELSE /\ p.table = <<>>
              /\ \A r \in 1..Len(p.rows) : Len(p.rows[r].cells) = cc
              /\ LET labs == AllParLabels(st, p.parents) IN
                    /\ Len(p.rows) = Len(labs)
                    /\ {p.rows[r].label : r \in 1..Len(p.rows)} = ToSet(labs)
\* a row denotes the child's distribution for the parent configuration NAMED by its label (row order is free)
ReadBIF(doc) ==
    LET st == DeclStates(doc.vars) c == [n \in DOMAIN st |-> Len(st[n])] IN
    [kind |-> "BN", nodes |-> DeclNames(doc.vars), states |-> st,
     fams |-> [i \in 1..Len(doc.probs) |->
        LET p == doc.probs[i] sc == <<p.child>> \o p.parents cc == c[p.child] IN
        [scope |-> sc,
         cells |-> IF p.parents = <<>> THEN p.table
                   ELSE LET labs == AllParLabels(st, p.parents)
                            n == Len(labs)
                            rowIdx == Strict([j \in 1..n |-> CHOOSE r \in 1..Len(p.rows) : p.rows[r].label = labs[j]])
                            flat == Strict([k \in 1..(n * cc) |-> p.rows[rowIdx[((k - 1) \div cc) + 1]].cells[((k - 1) % cc) + 1]])
                        IN Relayout(flat, p.parents \o <<p.child>>, sc, c)]]]
ReadableFlat(vs, blocks) == BlocksOK(vs, blocks) /\ \A i \in 1..Len(blocks) : Len(blocks[i].cells) = BlockSize(vs, blocks[i])
ReadFlat(vs, blocks) ==        \* XMLBIF and NET: child fastest, parents in listed order
    LET st == DeclStates(vs) c == [n \in DOMAIN st |-> Len(st[n])] IN
    [kind |-> "BN", nodes |-> DeclNames(vs), states |-> st,
     fams |-> [i \in 1..Len(blocks) |-> LET b == blocks[i] sc == <<b.child>> \o b.parents IN
                 [scope |-> sc, cells |-> Relayout(b.cells, b.parents \o <<b.child>>, sc, c)]]]
PId(p) == ToString(p)
ReadableUAI(doc) ==
    LET n == Len(doc.cards) IN
    /\ doc.type \in {"BAYES", "MARKOV"} /\ Len(doc.tables) = Len(doc.scopes)
    /\ \A p \in 1..n : doc.cards[p] >= 1
    /\ \A i \in 1..Len(doc.scopes) : LET sc == doc.scopes[i] IN
          /\ Len(sc) >= 1 /\ Distinct(sc) /\ \A j \in 1..Len(sc) : sc[j] \in 0..(n - 1)
          /\ Len(doc.tables[i]) = ProdSeq([j \in 1..Len(sc) |-> doc.cards[sc[j] + 1]])
    /\ doc.type = "BAYES" => \A p \in 0..(n - 1) : Cardinality({i \in 1..Len(doc.scopes) : doc.scopes[i][Len(doc.scopes[i])] = p}) = 1
ReadUAI(doc) ==
    LET n == Len(doc.cards) ids == {PId(p) : p \in 0..(n - 1)} IN
    [kind |-> IF doc.type = "BAYES" THEN "BN" ELSE "MN",
     nodes |-> [p \in 1..n |-> PId(p - 1)],
     states |-> [x \in ids |-> LET p == CHOOSE q \in 0..(n - 1) : PId(q) = x IN [s \in 1..doc.cards[p + 1] |-> PId(s - 1)]],
     fams |-> [i \in 1..Len(doc.scopes) |-> LET sc == doc.scopes[i] L == Len(sc) IN
                 [scope |-> IF doc.type = "BAYES" THEN [j \in 1..L |-> PId(IF j = 1 THEN sc[L] ELSE sc[L + 1 - j])]
                            ELSE [j \in 1..L |-> PId(sc[j])],
                  cells |-> doc.tables[i]]]]
Readable(fmt, doc) == CASE fmt = "BIF" -> ReadableBIF(doc) [] fmt = "XMLBIF" -> ReadableFlat(doc.vars, doc.defs)
                        [] fmt = "NET" -> ReadableFlat(doc.vars, doc.pots) [] fmt = "UAI" -> ReadableUAI(doc)
Read(fmt, doc) == CASE fmt = "BIF" -> ReadBIF(doc) [] fmt = "XMLBIF" -> ReadFlat(doc.vars, doc.defs)
                    [] fmt = "NET" -> ReadFlat(doc.vars, doc.pots) [] fmt = "UAI" -> ReadUAI(doc)

\* ------------------------------------------------------------------ what must come back
CanonUAI(m) ==
    LET n == Len(m.nodes) ids == {PId(p) : p \in 0..(n - 1)} IN
    [kind |-> m.kind, nodes |-> [p \in 1..n |-> PId(p - 1)],
     states |-> [x \in ids |-> LET p == CHOOSE q \in 0..(n - 1) : PId(q) = x IN [s \in 1..Card(m, VarAt(m, p)) |-> PId(s - 1)]],
     fams |-> [i \in 1..Len(m.fams) |-> [scope |-> [j \in 1..Len(m.fams[i].scope) |-> PId(Pos(m, m.fams[i].scope[j]))],
                                         cells |-> m.fams[i].cells]]]
Canon(fmt, m, V) == CASE fmt = "UAI" -> CanonUAI(m)
                      [] fmt = "NET" -> [kind |-> m.kind, nodes |-> m.nodes, states |-> m.states,
                                         fams |-> [i \in 1..Len(m.fams) |-> [scope |-> m.fams[i].scope, cells |-> R4Seq(V, m.fams[i].cells)]]]
                      [] OTHER -> [kind |-> m.kind, nodes |-> m.nodes, states |-> m.states, fams |-> m.fams]

\* ------------------------------------------------------------------ comparison by meaning
\* observed family: [scope, st (state lists aligned with scope), cells (row-major over scope)]
FamDiff(of, ef, e) ==
    IF Len(of.scope) # Len(ef.scope) \/ ToSet(of.scope) # ToSet(ef.scope) \/ ~Distinct(of.scope)
       \/ (e.kind = "BN" /\ of.scope[1] # ef.scope[1]) THEN {"parents"}
    ELSE IF \E i \in 1..Len(of.scope) : ToSet(of.st[i]) # ToSet(e.states[of.scope[i]]) \/ Len(of.st[i]) # Len(e.states[of.scope[i]]) THEN {"states"}
    ELSE IF \E i \in 1..Len(of.scope) : of.st[i] # e.states[of.scope[i]] THEN {"state_order"}
    ELSE IF Len(of.cells) # Len(ef.cells) THEN {"shape"}
    ELSE IF Relayout(of.cells, of.scope, ef.scope, CardFn(e)) # ef.cells THEN {"value"} ELSE {}
\* onodes: set of names; oedges: set of <<parent, child>> (BN) or of {u, v} (MN); ofams: Seq of observed families
Diff(onodes, oedges, ofams, e) ==
    (IF onodes # ToSet(e.nodes) THEN {"nodes"} ELSE {})
    \cup (IF oedges # Edges(e) THEN {"edges"} ELSE {})
    \cup IF e.kind = "BN"
         THEN (IF Len(ofams) # Len(e.fams) THEN {"cpd_count"} ELSE {})
              \cup UNION {LET cands == {i \in 1..Len(ofams) : ofams[i].scope[1] = v} IN
                          IF Cardinality(cands) # 1 THEN {"cpd_missing"}
                          ELSE FamDiff(ofams[CHOOSE i \in cands : TRUE], FamOf(e, v), e) : v \in ToSet(e.nodes)}
         ELSE IF Len(ofams) # Len(e.fams) THEN {"factor_count"}
              ELSE IF \E q \in Perms([i \in 1..Len(ofams) |-> i]) : \A i \in 1..Len(ofams) : FamDiff(ofams[q[i]], e.fams[i], e) = {} THEN {}
                   ELSE {"factors"} \cup UNION {FamDiff(ofams[i], e.fams[i], e) : i \in 1..Len(ofams)}
AsObsFams(r) == [i \in 1..Len(r.fams) |-> [scope |-> r.fams[i].scope, st |-> [j \in 1..Len(r.fams[i].scope) |-> r.states[r.fams[i].scope[j]]],
                                            cells |-> r.fams[i].cells]]
ModelDiff(r, e) == Diff(ToSet(r.nodes), Edges(r), AsObsFams(r), e)

\* ------------------------------------------------------------------ documents: observed vs prescribed
HeadsOf(bs) == [i \in 1..Len(bs) |-> <<bs[i].child, bs[i].parents>>]
DeclDiff(o, e) == IF DeclNames(o) # DeclNames(e) THEN (IF ToSet(DeclNames(o)) = ToSet(DeclNames(e)) THEN {"write.var_order"} ELSE {"write.vars"})
                  ELSE IF o # e THEN {"write.states"} ELSE {}
BlockDiff(o, e) == IF HeadsOf(o) # HeadsOf(e)
                   THEN (IF [i \in 1..Len(o) |-> o[i].child] # [i \in 1..Len(e) |-> e[i].child] THEN {"write.blocks"} ELSE {"write.parents"})
                   ELSE {}
DocDiff(fmt, o, e) ==
    CASE fmt = "BIF" ->
            DeclDiff(o.vars, e.vars) \cup BlockDiff(o.probs, e.probs)
            \cup (IF HeadsOf(o.probs) = HeadsOf(e.probs) /\ o.probs # e.probs
                  THEN (IF \E i \in 1..Len(o.probs) : [r \in 1..Len(o.probs[i].rows) |-> o.probs[i].rows[r].label] # [r \in 1..Len(e.probs[i].rows) |-> e.probs[i].rows[r].label]
                        THEN {"write.row_labels"} ELSE {"write.cells"}) ELSE {})
      [] fmt = "XMLBIF" ->
            DeclDiff(o.vars, e.vars) \cup BlockDiff(o.defs, e.defs)
            \cup (IF HeadsOf(o.defs) = HeadsOf(e.defs) /\ o.defs # e.defs THEN {"write.cells"} ELSE {})
      [] fmt = "NET" ->
            DeclDiff(o.vars, e.vars) \cup BlockDiff(o.pots, e.pots)
            \cup (IF HeadsOf(o.pots) = HeadsOf(e.pots) /\ o.pots # e.pots
                  THEN (IF [i \in 1..Len(o.pots) |-> o.pots[i].shape] # [i \in 1..Len(e.pots) |-> e.pots[i].shape] THEN {"write.nesting"} ELSE {"write.cells"}) ELSE {})
      [] fmt = "UAI" ->
            (IF o.type # e.type THEN {"write.type"} ELSE {})
            \cup (IF o.cards # e.cards THEN {"write.cards"} ELSE {})
            \cup (IF o.scopes # e.scopes THEN {"write.scopes"} ELSE {})
            \cup (IF o.tables # e.tables THEN {"write.cells"} ELSE {})
=============================================================================
