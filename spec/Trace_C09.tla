----------------------------- MODULE Trace_C09 -----------------------------
(***************************************************************************)
(* Trace validation for the file round trips (C09).  One event = one       *)
(* write/read round trip executed by pgmpy on the model (instance, ord):   *)
(*   doc    : the text pgmpy WROTE, tokenised by the harness into the      *)
(*            abstract document of its format (names -> tokens by the      *)
(*            inverse concretisation, numbers -> value tokens by exact     *)
(*            float equality; NET: 1e-4 units),                            *)
(*   rnodes, redges, rfams : the model pgmpy READ from that text, projected*)
(*            by name lookup (tables listed row-major over the CPD's own   *)
(*            variables / state names).                                    *)
(* Validate gives a TOTAL verdict, the set of failing clauses:             *)
(*   write.*     : doc # Write(fmt, m')            (binds the writer)      *)
(*   read.*      : read model # Read(fmt, doc)     (binds the reader; doc  *)
(*                 is the OBSERVED document)                               *)
(*   roundtrip.* : read model # Canon(fmt, m)      (the property itself)   *)
(***************************************************************************)
EXTENDS IOLib, Json, IOUtils
Insts == JsonDeserialize(IOEnv.INST_FILE)
Traces == JsonDeserialize(IOEnv.TRACE_FILE)
VARIABLES tid, done, verdict
vars == <<tid, done, verdict>>
E == Traces[tid]
I == Insts[E.inst]
M0 == [kind |-> I.kind, nodes |-> I.nodes, states |-> I.states, fams |-> I.fams]

Pre(p, S) == {p \o c : c \in S}
Verdict ==
    LET m1 == Reorder(M0, E.ord)
        docOK == ~E.wexc /\ E.wok
        wf == IF E.wexc THEN {"write.raises"} ELSE IF ~E.wok THEN {"write.unparseable"}
              ELSE DocDiff(E.fmt, E.doc, Write(E.fmt, m1, I.vals))
        oedges == IF M0.kind = "BN" THEN {<<x[1], x[2]>> : x \in ToSet(E.redges)} ELSE {{x[1], x[2]} : x \in ToSet(E.redges)}
        rf == IF ~E.rdone THEN {} ELSE IF E.rexc THEN {"read.raises"}
              ELSE IF ~docOK THEN {}
              ELSE IF ~Readable(E.fmt, E.doc) THEN {"read.document_undefined"}
              ELSE Pre("read.", Diff(ToSet(E.rnodes), oedges, E.rfams, Read(E.fmt, E.doc)))
        tf == IF ~E.rdone THEN {} ELSE IF E.rexc THEN {"roundtrip.raises"}
              ELSE Pre("roundtrip.", Diff(ToSet(E.rnodes), oedges, E.rfams, Canon(E.fmt, M0, I.vals)))
    IN wf \cup rf \cup tf

Init == tid \in 1..Len(Traces) /\ done = FALSE /\ verdict = {}
Validate == /\ ~done /\ done' = TRUE /\ verdict' = Verdict /\ UNCHANGED tid
Next == Validate
Report == done => PrintT(ToJson([tid |-> E.tid, fails |-> verdict]))
=============================================================================
