----------------------------- MODULE Trace_C20 -----------------------------
(***************************************************************************)
(* Trace validation for linear-Gaussian networks (property C20).  A trace  *)
(* is a model (nodes, edges, weights, intercepts, variances) built by the  *)
(* driver on the real code and a list of observed calls:                   *)
(*   joint    the mean / covariance returned by to_joint_gaussian,         *)
(*            projected to variable names                                  *)
(*   predict  the observed columns and rows handed to predict and the      *)
(*            returned variable list, conditional means and covariance     *)
(* All logged numbers are rationals.  Every step gets its own verdict      *)
(* (calls are pure, so a rejected step does not hide the following ones):  *)
(* ACCEPT, SKIP (covariance too large to invert in 32-bit arithmetic) or   *)
(* the failing clause with the cell and the exact expected value.          *)
(***************************************************************************)
EXTENDS GaussLib, Json, IOUtils
CONSTANTS MaxNum, MaxDen
Traces == JsonDeserialize(IOEnv.TRACE_FILE)
VARIABLES tid, l, mdl, verdicts
vars == <<tid, l, mdl, verdicts>>
T == Traces[tid]
N == SeqSet(T.nodes)
E == SeqSet(T.edges)

Accept == [clause |-> "ACCEPT", at |-> <<>>, want |-> QZ]
Fail(c, at, want) == [clause |-> c, at |-> at, want |-> want]

\* first disagreement between a logged vector / matrix (JSON objects keyed by name) and the expected one
VecVerdict(c, logged, want, I) ==
    IF DOMAIN logged # I THEN Fail(c \o ".shape", <<>>, QZ)
    ELSE LET bad == {i \in I : logged[i] # want[i]} IN
         IF bad = {} THEN Accept
         ELSE LET i == CHOOSE i \in bad : TRUE IN Fail(c, <<i>>, want[i])
MatVerdict(c, logged, want, I) ==
    IF DOMAIN logged # I \/ \E i \in I : DOMAIN logged[i] # I THEN Fail(c \o ".shape", <<>>, QZ)
    ELSE LET bad == {p \in I \X I : logged[p[1]][p[2]] # want[p[1]][p[2]]} IN
         IF bad = {} THEN Accept
         ELSE LET diag == {p \in bad : p[1] = p[2]}                         \* report a wrong variance in preference to a wrong covariance
                  p == IF diag # {} THEN CHOOSE p \in diag : TRUE ELSE CHOOSE p \in bad : TRUE
              IN Fail(c, p, want[p[1]][p[2]])
First(a, b) == IF a.clause # "ACCEPT" THEN a ELSE b

Init == /\ tid \in 1..Len(Traces)
        /\ l = 0
        /\ mdl = [built |-> FALSE]
        /\ verdicts = <<>>
Build == /\ l = 0
         /\ mdl' = [built |-> TRUE, mu |-> MeanOf(N, E, T.w, T.b0), cov |-> CovOf(N, NilInv(N, BMat(N, E, T.w)), T.var)]
         /\ l' = 1
         /\ UNCHANGED <<tid, verdicts>>

JointVerdict(s) == First(VecVerdict("joint.mean", s.mean, mdl.mu, N), MatVerdict("joint.cov", s.cov, mdl.cov, N))
PredictVerdict(s) ==
    LET O == SeqSet(s.observed)
        A == N \ O
    IN IF SeqSet(s.vars) # A \/ Len(s.vars) # Cardinality(A) THEN Fail("predict.variables", <<>>, QZ)
       ELSE IF ~Small(mdl.cov, N, N, MaxNum, MaxDen) THEN Fail("SKIP", <<>>, QZ)
       ELSE IF Len(s.mean) # Len(s.rows) THEN Fail("predict.mean.shape", <<>>, QZ)
       ELSE Bind(CondW(mdl.cov, A, OrdOf(T.nodes, O)), LAMBDA W :
            LET rowv == [r \in 1..Len(s.rows) |-> VecVerdict("predict.mean", s.mean[r], CondMean(mdl.mu, W, A, O, s.rows[r]), A)]
                badrows == {r \in 1..Len(s.rows) : rowv[r].clause # "ACCEPT"}
            IN IF badrows # {}
               THEN LET r == CHOOSE r \in badrows : \A r2 \in badrows : r <= r2 IN [rowv[r] EXCEPT !.at = Append(@, r)]   \* <<variable, row>>
               ELSE MatVerdict("predict.cov", s.cov, CondCov(mdl.cov, W, A, O), A))

StepJoint == /\ l >= 1 /\ l <= Len(T.steps) /\ T.steps[l].ev = "joint"
             /\ verdicts' = Append(verdicts, JointVerdict(T.steps[l]))
             /\ l' = l + 1 /\ UNCHANGED <<tid, mdl>>
StepPredict == /\ l >= 1 /\ l <= Len(T.steps) /\ T.steps[l].ev = "predict"
               /\ verdicts' = Append(verdicts, PredictVerdict(T.steps[l]))
               /\ l' = l + 1 /\ UNCHANGED <<tid, mdl>>
Next == Build \/ StepJoint \/ StepPredict

Report == (l = Len(T.steps) + 1) => PrintT(ToJson([tid |-> T.tid, v |-> verdicts]))
=============================================================================
