------------------------------ MODULE Gen_C17 ------------------------------
(***************************************************************************)
(* Dynamic Bayesian networks (property C17).  A 2-TBN template (JSON) is   *)
(*   [vars, dom : var -> Seq(state),                                       *)
(*    cpd0 : var -> [parents : Seq(var)         (slice 0), den, tab],      *)
(*    cpd1 : var -> [parents : Seq(<<var, dt>>)  dt = 0: previous slice,   *)
(*                                               dt = 1: same slice, den, tab]]*)
(* Unroll(T) is the ordinary Bayesian network over nodes <<var, t>>,       *)
(* t = 0..T (a BNLib instance built inside TLA+); marginals are computed   *)
(* by brute force on its joint:                                            *)
(*   smooth   P(query | all evidence)      (backward_inference / query)    *)
(*   filter   P(query_t | evidence of slices 0..t)   (forward_inference)   *)
(* TLC enumerates (template, horizon, query node, evidence set).           *)
(***************************************************************************)
EXTENDS BNLib, Json, IOUtils
CONSTANTS MaxT, MaxEv
Tmpl == JsonDeserialize(IOEnv.INST_FILE)
VARIABLES ti, q, ev, out
vars == <<ti, q, ev, out>>
D == Tmpl[ti]
V == ToSet(D.vars)

UNodes(T) == V \X (0..T)
UParents(n) == IF n[2] = 0 THEN [i \in 1..Len(D.cpd0[n[1]].parents) |-> <<D.cpd0[n[1]].parents[i], 0>>]
               ELSE [i \in 1..Len(D.cpd1[n[1]].parents) |->
                        <<D.cpd1[n[1]].parents[i][1], n[2] - 1 + D.cpd1[n[1]].parents[i][2]>>]
Unroll(T) == [id |-> D.id,
              nodes |-> SetToSeq(UNodes(T)),
              states |-> [n \in UNodes(T) |-> D.dom[n[1]]],
              parents |-> [n \in UNodes(T) |-> UParents(n)],
              cpd |-> [n \in UNodes(T) |-> IF n[2] = 0 THEN [den |-> D.cpd0[n[1]].den, tab |-> D.cpd0[n[1]].tab]
                                           ELSE [den |-> D.cpd1[n[1]].den, tab |-> D.cpd1[n[1]].tab]],
              latents |-> <<>>]

Horizon == LET ts == {q[2]} \cup {n[2] : n \in DOMAIN ev} IN CHOOSE m \in ts : \A k \in ts : k <= m
EvUpTo(t) == [n \in {m \in DOMAIN ev : m[2] <= t} |-> ev[n]]

EvChoices(dd) == LET NN == ToSet(dd.vars) \X (0..MaxT) IN
    UNION {{f \in [S -> UNION {ToSet(dd.dom[v]) : v \in ToSet(dd.vars)}] : \A n \in S : f[n] \in ToSet(dd.dom[n[1]])}
           : S \in {X \in SUBSET NN : Cardinality(X) <= MaxEv}}
Case ==
  LET U == Unroll(Horizon)
      J == JointTable(U)
      tot == PostTot(U, J, ev, <<>>)
      Uf == Unroll(q[2])
      Jf == JointTable(Uf)
      evf == EvUpTo(q[2])
      totf == PostTot(Uf, Jf, evf, <<>>)
  IN [tmpl |-> D.id, q |-> q, ev |-> {[n |-> n, s |-> ev[n]] : n \in DOMAIN ev}, horizon |-> Horizon,
      tot |-> tot, totf |-> totf,
      smooth |-> IF tot = 0 THEN {} ELSE {[s |-> s, w |-> PostNum(U, J, (q :> s), ev, <<>>)] : s \in ToSet(D.dom[q[1]])},
      filter |-> IF totf = 0 THEN {} ELSE {[s |-> s, w |-> PostNum(Uf, Jf, (q :> s), evf, <<>>)] : s \in ToSet(D.dom[q[1]])},
      \* both modes coincide iff no evidence lies after the queried slice
      same |-> \A n \in DOMAIN ev : n[2] <= q[2]]
Init == /\ ti \in 1..Len(Tmpl)
        /\ q \in ToSet(Tmpl[ti].vars) \X (0..MaxT)
        /\ ev \in {e \in EvChoices(Tmpl[ti]) : q \notin DOMAIN e}
        /\ out = <<>>
\* the expensive evaluation is a step (not part of Init) so that TLC's workers share it
Compute == out = <<>> /\ out' = Case /\ UNCHANGED <<ti, q, ev>>
Next == Compute

Emit == out # <<>> => PrintT(ToJson(out))
=============================================================================
