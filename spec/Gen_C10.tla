------------------------------ MODULE Gen_C10 ------------------------------
(***************************************************************************)
(* Generator + design-level lemmas for property C10 (structure scores).    *)
(*                                                                         *)
(* An instance (JSON, from the harness) is either                          *)
(*   kind = "data"     : a concrete data set (cols, declared dom, rows), or*)
(*   kind = "universe" : cols + declared dom + nrows; TLC then enumerates  *)
(*                       EVERY multiset of nrows rows over the full joint  *)
(*                       state space (every data set of that size up to    *)
(*                       row order).                                       *)
(* Init also chooses the set decl of columns whose declared states are     *)
(* handed to the scorer (for those the score must range over all declared  *)
(* states, observed or not; for the others the states are those seen in    *)
(* the data).                                                              *)
(* Next chooses the score type (K2 / BDeu(ess) / BDs(ess) / BIC / AIC) and *)
(* builds the table of the local score of EVERY (variable, parent set)     *)
(* pair with at most MaxPar parents, as an exact LogForm (ScoreSpec).      *)
(* Emit prints the table; the harness evaluates the forms and compares     *)
(* them with pgmpy's local_score.                                          *)
(*                                                                         *)
(* Lemmas (invariants over every (data set, score type) state):            *)
(*   ZeroConfigNeutral  an unobserved parent configuration contributes the *)
(*                      zero form to K2 and BDeu                           *)
(*   K2IsBD1            K2 = BDeu with ess = q r (all pseudo counts 1)     *)
(*   BDsIsBDeuWhenFull  BDs = BDeu when every configuration is observed    *)
(*   RowOrderInvariant  the forms do not depend on the order of the rows   *)
(*   ScoreEquivalent    for ALL pairs of Markov-equivalent DAGs over the   *)
(*                      columns (<= EquivMaxCols columns) the network      *)
(*                      scores BDeu / BIC / AIC are the IDENTICAL form     *)
(*                      (EquivTypes = {"bdeu","bic","aic"}; K2 and BDs are *)
(*                      not score equivalent - the self-test puts "k2"     *)
(*                      into EquivTypes and requires TLC to refute it)     *)
(***************************************************************************)
EXTENDS ScoreSpec, DagLib, Json, IOUtils
CONSTANTS MaxPar, EquivMaxCols, EquivTypes
Insts == JsonDeserialize(IOEnv.INST_FILE)

Tokens == <<"v0", "v1", "v2", "v3", "v4", "v5", "v6", "v7">>
NodeSet(n) == {Tokens[i] : i \in 1..n}
\* Markov equivalence classes of all DAGs over the first k tokens (constant level, computed once per run).
\* DagLib!IEquivalent(G, H) is by definition EKey(G) = EKey(H); grouping by the key avoids |DAGs|^2 evaluations of
\* Skeleton/VStructs (Gen_C10D checks Class-by-IEquivalent = class-by-key for every DAG).
EKey(G) == <<Skeleton(G), VStructs(G)>>
ClassesOf(D) == LET key == [G \in D |-> EKey(G)] @@ <<>> IN {{H \in D : key[H] = key[G]} : G \in D}
ClassTab == [k \in 1..EquivMaxCols |-> ClassesOf(AllDAGs(NodeSet(k)))] @@ <<>>

VARIABLES di, rows, decl, ty, tbl
vars == <<di, rows, decl, ty, tbl>>
I == Insts[di]
NCols == Len(I.cols)
Cols == SeqToSet(I.cols)
None == [t |-> "none", en |-> 0, ed |-> 1]

\* ---- universe mode: cell number c in 0..NCells-1 <-> joint assignment (mixed radix over I.cols)
RECURSIVE Stride(_, _)
Stride(inst, i) == IF i >= Len(inst.cols) THEN 1 ELSE Len(inst.dom[inst.cols[i + 1]]) * Stride(inst, i + 1)
NCells(inst) == Len(inst.dom[inst.cols[1]]) * Stride(inst, 1)
CellAsg(inst, c) == [v \in SeqToSet(inst.cols) |->
    LET i == CHOOSE m \in 1..Len(inst.cols) : inst.cols[m] = v
    IN inst.dom[v][((c \div Stride(inst, i)) % Len(inst.dom[v])) + 1]]
Multisets(n, C) == {s \in [1..n -> 0..(C - 1)] : \A i \in 1..(n - 1) : s[i] <= s[i + 1]}
RowSets(inst) == IF inst.kind = "universe"
                 THEN {[i \in 1..inst.nrows |-> CellAsg(inst, s[i])] : s \in Multisets(inst.nrows, NCells(inst))}
                 ELSE {inst.rows}

\* the states the scorer ranges over
ObsDom(d, rs) == [v \in DOMAIN d |-> SelectSeq(d[v], LAMBDA s : \E i \in 1..Len(rs) : rs[i][v] = s)]
EDom == LET o == ObsDom(I.dom, rows) IN [v \in DOMAIN I.dom |-> IF v \in decl THEN I.dom[v] ELSE o[v]]

Keys == {x \in Cols \X SUBSET Cols : x[1] \notin x[2] /\ Cardinality(x[2]) <= MaxPar}
Entry(d, rs, t, x) ==
    LET adm == Admissible(d, rs, t, x[1], x[2]) IN
    [adm |-> adm, f |-> IF adm THEN Local(d, rs, t, x[1], x[2]) ELSE FZero]

Init == /\ di \in 1..Len(Insts)
        /\ rows \in RowSets(Insts[di])
        /\ decl \in {SeqToSet(Insts[di].decls[m]) : m \in 1..Len(Insts[di].decls)}
        /\ ty = None
        /\ tbl = <<>>
Score(t) == /\ ty = None
            /\ ty' = t
            /\ tbl' = [x \in Keys |-> Entry(EDom, rows, t, x)]
            /\ UNCHANGED <<di, rows, decl>>
OfType(name) == {t \in SeqToSet(I.types) : t.t = name}
ScoreK2   == \E t \in OfType("k2") : Score(t)
ScoreBDeu == \E t \in OfType("bdeu") : Score(t)
ScoreBDs  == \E t \in OfType("bds") : Score(t)
ScoreBIC  == \E t \in OfType("bic") : Score(t)
ScoreAIC  == \E t \in OfType("aic") : Score(t)
Next == ScoreK2 \/ ScoreBDeu \/ ScoreBDs \/ ScoreBIC \/ ScoreAIC

\* ---------------------------------------------------------------- lemmas
Done == ty # None
Reverse(s) == [i \in 1..Len(s) |-> s[Len(s) + 1 - i]]

ZeroConfigNeutral == Done /\ ty.t \in {"k2", "bdeu"} =>
    \A x \in Keys : tbl[x].adm =>
        LET d == EDom
            q == NConfigs(d, x[2])
            r == Len(d[x[1]])
            a2 == IF ty.t = "k2" THEN 2 * r ELSE Hyper2(ty.en, ty.ed, q)
            b2 == IF ty.t = "k2" THEN 2 ELSE Hyper2(ty.en, ty.ed, q * r) IN
        \A j \in Configs(d, x[2]) : NJ(rows, x[2], j) = 0 => BDTerm(d, rows, x[1], x[2], j, a2, b2) = FZero

K2IsBD1 == Done /\ ty.t = "k2" =>
    \A x \in Keys : tbl[x].f = BDeuLocal(EDom, rows, x[1], x[2], NConfigs(EDom, x[2]) * Len(EDom[x[1]]), 1)

BDsIsBDeuWhenFull == Done /\ ty.t = "bds" =>
    \A x \in Keys : tbl[x].adm /\ ObservedConfigs(EDom, rows, x[2]) = Configs(EDom, x[2]) =>
        tbl[x].f = BDeuLocal(EDom, rows, x[1], x[2], ty.en, ty.ed)

RowOrderInvariant == Done => \A x \in Keys : tbl[x] = Entry(EDom, Reverse(rows), ty, x)

NetForm(G) == FAdd(FSumSet(Cols, LAMBDA v : tbl[<<v, Pa(G, v)>>].f), LogPrior(ty, NCols, Cardinality(G)))
EquivChecked == Done /\ ty.t \in EquivTypes /\ NCols <= EquivMaxCols /\ MaxPar >= NCols - 1
                /\ Cols = NodeSet(NCols) /\ \A x \in Keys : tbl[x].adm
ScoreEquivalent == EquivChecked =>
    \A C \in ClassTab[NCols] : LET G0 == CHOOSE G \in C : TRUE IN \A G \in C : NetForm(G) = NetForm(G0)

\* ---------------------------------------------------------------- output
Emit == Done => PrintT(ToJson(
    [inst |-> I.id, decl |-> decl, type |-> ty, equiv_lemma |-> EquivChecked,
     rows |-> IF I.kind = "universe" THEN rows ELSE <<>>,
     entries |-> {[v |-> x[1], ps |-> x[2], adm |-> tbl[x].adm, f |-> FJson(tbl[x].f),
                   q |-> NConfigs(EDom, x[2]), r |-> Len(EDom[x[1]]),
                   qo |-> Cardinality(ObservedConfigs(EDom, rows, x[2])),
                   ro |-> Len(ObsDom(EDom, rows)[x[1]])] : x \in Keys}]))
=============================================================================
