----------------------------- MODULE Trace_C19 -----------------------------
(***************************************************************************)
(* Trace validation for the discrete CI tests.  A trace is a data set and  *)
(* a sequence of calls executed by the REAL code (direct calls on random   *)
(* larger frames, and the calls PC.build_skeleton makes through its        *)
(* CI_TESTS table), each logged with its arguments and what it returned:   *)
(*   ret   "T" / "F"   verdict of the boolean call                         *)
(*   dof               integer                                             *)
(*   p9, s9            p-value and statistic scaled by 10^9 and rounded    *)
(*                     (-1 = NaN, -2 = +inf, -3 = too large to scale)      *)
(* One spec action per event.  Everything that needs no real arithmetic is *)
(* decided here: the lambda the called function stands for, dof, the       *)
(* p-value and statistic of exactly independent / degenerate / infinite    *)
(* cases, the verdict in those cases, and (PC traces) that the test ran    *)
(* with the significance level the caller asked for.  For the remaining    *)
(* clause the verdict is "EVAL" and carries the exact normal form that the *)
(* harness evaluates.  Verdicts are total: one record per event.           *)
(***************************************************************************)
EXTENDS CITest, Json, IOUtils
Traces == JsonDeserialize(IOEnv.TRACE_FILE)
VARIABLES tid, l, out
vars == <<tid, l, out>>
T == Traces[tid]
D == [rows |-> T.rows]
Billion == 1000000000

\* the lambda a call stands for: the number itself, or what the API table says for (function, lambda_ argument)
LamOfEvent(e) == IF e.lamarg = "num" THEN <<e.L[1], e.L[2]>>
                 ELSE (CHOOSE c \in Calls : c[1] = e.api /\ c[2] = e.lamarg)[3]
Known(e) == e.lamarg = "num" \/ \E c \in Calls : c[1] = e.api /\ c[2] = e.lamarg

Judge(e) ==
    LET S == Strata(D, e.X, e.Y, e.Z)
        L == LamOfEvent(e)
        Res == Result(S, L)
        dof == TotalDof(S)
        alpha == <<e.alpha[1], e.alpha[2]>>
        v == Verdict(Res.pk, alpha)
        clause ==
            IF T.alpha[2] > 0 /\ alpha # <<T.alpha[1], T.alpha[2]>> THEN "pc.significance_level"
            ELSE IF e.dof # dof THEN "dof"
            ELSE IF Res.F.inf /\ e.s9 # -2 THEN "statistic.infinite"
            ELSE IF IsZeroForm(Res.F) /\ e.s9 # 0 THEN "statistic.zero_at_independence"
            ELSE IF Res.pk = "one" /\ e.p9 # Billion THEN "p_value.one"
            ELSE IF Res.pk = "zero" /\ e.p9 # 0 THEN "p_value.zero"
            ELSE IF v # "SF" /\ e.ret # v THEN "verdict"
            ELSE IF Res.pk = "sf" THEN "EVAL" ELSE "ACCEPT"
    IN [seq |-> l, clause |-> clause, dof |-> dof, L |-> L, F |-> Res.F, pk |-> Res.pk, v |-> v,
        feat |-> [all_degenerate |-> dof = 0, zero_cell |-> HasZeroCell(S), yates |-> HasYates(S)]]

\* PC traces: an edge survives in the returned skeleton iff no recorded test on that pair accepted independence
SkelEdges == {{T.skel[k][1], T.skel[k][2]} : k \in 1..Len(T.skel)}
SkelOK == \A a, b \in ToSet(T.cols) : a # b =>
             (({a, b} \in SkelEdges) <=> ~\E k \in 1..Len(T.events) : {T.events[k].X, T.events[k].Y} = {a, b} /\ T.events[k].ret = "T")
Blank(c) == [seq |-> l, clause |-> c, dof |-> 0, L |-> <<>>, F |-> <<>>, pk |-> "", v |-> "", feat |-> <<>>]

Init == tid \in 1..Len(Traces) /\ l = 1 /\ out = <<>>
Step == /\ l <= Len(T.events)
        /\ out' = Append(out, IF Known(T.events[l]) THEN Judge(T.events[l]) ELSE Blank("unknown_call"))
        /\ l' = l + 1 /\ UNCHANGED tid
Finish == /\ l = Len(T.events) + 1
          /\ out' = Append(out, Blank(IF T.pc /\ ~SkelOK THEN "pc.skeleton" ELSE "ACCEPT"))
          /\ l' = l + 1 /\ UNCHANGED tid
Next == Step \/ Finish
Report == l = Len(T.events) + 2 => PrintT(ToJson([tid |-> T.tid, verdicts |-> out]))
=============================================================================
