------------------------------ MODULE Gen_C13 ------------------------------
(***************************************************************************)
(* Interventions (property C13).                                           *)
(*  Do(E, S)        graph surgery: remove exactly the edges into S         *)
(*  TruncWeight     truncated factorisation: product of the CPDs of all    *)
(*                  variables outside S, with S clamped to s               *)
(*  BackDoorOK / FrontDoorOK   the criteria, checked directly on paths     *)
(*                  (every simple trail whose first edge points into the   *)
(*                  start node must be blocked)                            *)
(*  TLC enumerates (instance, latent set, x, y) and prints every           *)
(*  expectation; the harness replays them on BayesianNetwork.do and        *)
(*  CausalInference.                                                       *)
(***************************************************************************)
EXTENDS BNLib, Json, IOUtils
CONSTANTS MaxLatents
Insts == JsonDeserialize(IOEnv.INST_FILE)
VARIABLES bi, L, x, y
vars == <<bi, L, x, y>>
b == Insts[bi]
N == BNodes(b)
E == BEdges(b)
Obs == N \ L

\* ---- criteria on paths ------------------------------------------------------
\* an open (active given Z) simple trail from s to t whose first edge points INTO s
BackdoorOpen(s, t, Z) ==
    \E p \in Pa(E, s) : p \notin Z /\ (p = t \/ TrailTo(N, E, Z, s, p, {s, p}, t))
BackDoorOK(s, t, Z) == /\ Z \cap Desc(E, s) = {} /\ s \notin Z /\ t \notin Z
                       /\ ~BackdoorOpen(s, t, Z)
\* all directed paths s ~> t pass through Z  <=>  t unreachable from s in the graph without Z
Intercepts(s, t, Z) == t \notin DescOS({e \in E : e[1] \notin Z /\ e[2] \notin Z}, {s})
FrontDoorOK(s, t, Z) == /\ s \notin Z /\ t \notin Z
                        /\ HasPath(E, s, t) /\ s # t
                        /\ Intercepts(s, t, Z)
                        /\ \A z \in Z : ~BackdoorOpen(s, z, {})
                        /\ \A z \in Z : ~BackdoorOpen(z, t, {s})

\* ---- interventional distribution ----------------------------------------------
Do(S) == {e \in E : e[2] \notin S}
TruncWeight(S, a) == FoldSet(LAMBDA v, acc : acc * CPDNum(b, v, a), 1, N \ S)
\* unnormalised P(Q = q | do(S = s)) and its normaliser
DoNum(Q, q, s) == SumOver({a \in Assigns(b, N) : Agrees(a, q) /\ Agrees(a, s)}, LAMBDA a : TruncWeight(DOMAIN s, a))
DoTot(s) == DoNum({}, <<>>, s)
DoTable(Q, s) == [q \in Assigns(b, Q) |-> DoNum(Q, q, s)]

\* ---- machine -------------------------------------------------------------------
Init == /\ bi \in 1..Len(Insts)
        /\ L \in {S \in SUBSET BNodes(Insts[bi]) : Cardinality(S) <= MaxLatents}
        /\ x \in BNodes(Insts[bi]) \ L
        /\ y \in BNodes(Insts[bi]) \ L /\ x # y
Next == UNCHANGED vars

Cand == (Obs \ {x, y}) \ Desc(E, x)                \* candidate adjustment variables: observed non-descendants
DoSets == {{x}} \cup {{x, w} : w \in N \ {x, y}}
FirstStates(S) == [v \in S |-> b.states[v][Len(b.states[v])]]     \* one clamp value per do-variable (last state)
Case ==
  [inst |-> b.id, latents |-> L, x |-> x, y |-> y, descx |-> Desc(E, x),
   bd |-> {[z |-> Z, ok |-> BackDoorOK(x, y, Z)] : Z \in SUBSET Cand},
   bd_all |-> {Z \in SUBSET (Obs \ {x, y}) : BackDoorOK(x, y, Z)},
   fd_all |-> {Z \in SUBSET (Obs \ {x, y}) : FrontDoorOK(x, y, Z)},
   do |-> {[s |-> S, edges |-> Do(S),
            clamp |-> FirstStates(S),
            \* the engine's default adjustment (parents of the do-variables) is only valid when none of those parents is a
            \* descendant of a do-variable; otherwise joint interventions need sequential adjustment (KNOWN DEVIATION C13-seq-do)
            seqconflict |-> (UNION {Pa(E, v) : v \in S} \ S) \cap UNION {Desc(E, v) : v \in S} # {},
            table |-> IF y \in S \/ y \in UNION {Pa(E, v) : v \in S} THEN {}
                      ELSE {[a |-> q, w |-> DoNum({y}, q, FirstStates(S))] : q \in Assigns(b, {y})},
            tot |-> DoTot(FirstStates(S))] : S \in DoSets}]
Emit == PrintT(ToJson(Case))
=============================================================================
