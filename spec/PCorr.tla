------------------------------- MODULE PCorr -------------------------------
(***************************************************************************)
(* Partial correlation of X and Y given Z on integer data (property C19).  *)
(*                                                                         *)
(* Definition: regress X and Y on Z by LEAST SQUARES WITH INTERCEPT and    *)
(* take Pearson's correlation of the two residual vectors.                 *)
(* Exact integer arithmetic:  A = [1 | Z] (n x m design matrix, m = 1+|Z|),*)
(* G = A'A (Gram matrix), the normal equations  G beta = A'v  are solved   *)
(* by Cramer's rule,  beta_j = N_j / det G,  so that                       *)
(*     E(v) = det(G) * v - A N          (an integer vector)                *)
(* is det(G) (> 0) times the residual of v.  Correlation is invariant      *)
(* under positive scaling of either vector, therefore the residual         *)
(* DIRECTION  U(v) = E(v) / gcd(entries)  is used and                      *)
(*     r = <U(x),U(y)> / sqrt(<U(x),U(x)> * <U(y),U(y)>)                   *)
(* is emitted as the exact integer triple (sxy, sxx, syy); r^2 is the      *)
(* rational sxy^2/(sxx*syy).  The p-value  PearsonP(r, n)  (two-sided      *)
(* Student-t test with n-2 degrees of freedom of the Pearson test applied  *)
(* to the residuals) is left UNINTERPRETED.                                *)
(* Lemmas checked by TLC: the residual is orthogonal to every regressor    *)
(* and to the constant (= the normal equations, the defining property of   *)
(* least squares); U is unchanged by v -> a*v + b (a > 0) and by any       *)
(* affine map of a conditioning variable; symmetry in X, Y; order of Z.    *)
(***************************************************************************)
EXTENDS Naturals, Integers, Sequences, FiniteSets, FiniteSetsExt, TLC

Abs(x) == IF x < 0 THEN -x ELSE x
RECURSIVE GCD(_, _)
GCD(a, c) == IF c = 0 THEN a ELSE GCD(c, a % c)
RECURSIVE SumTo(_, _)
SumTo(f, n) == IF n = 0 THEN 0 ELSE f[n] + SumTo(f, n - 1)
Dot(u, v) == SumTo([i \in 1..Len(u) |-> u[i] * v[i]], Len(u))

\* TLC evaluates [i \in S |-> e] lazily and re-evaluates e at every application; comparing the value with itself
\* converts it to an explicit table once (semantically the identity)
Force(f) == IF f = f THEN f ELSE f
N(D) == Len(D.rows)
Col(D, c) == Force([i \in 1..N(D) |-> D.rows[i][c]])
Ones(D) == Force([i \in 1..N(D) |-> 1])
\* design matrix as a sequence of columns: constant, then Z in the given order
Design(D, Z) == Force(<<Ones(D)>> \o [k \in 1..Len(Z) |-> Col(D, Z[k])])
Gram(A) == Force([i \in 1..Len(A) |-> Force([j \in 1..Len(A) |-> Dot(A[i], A[j])])])

\* determinant of an m x m integer matrix, m <= 3
Det(M) == CASE Len(M) = 1 -> M[1][1]
            [] Len(M) = 2 -> M[1][1] * M[2][2] - M[1][2] * M[2][1]
            [] Len(M) = 3 -> M[1][1] * (M[2][2] * M[3][3] - M[2][3] * M[3][2])
                           - M[1][2] * (M[2][1] * M[3][3] - M[2][3] * M[3][1])
                           + M[1][3] * (M[2][1] * M[3][2] - M[2][2] * M[3][1])
\* M with column j replaced by the vector b
ReplCol(M, j, b) == Force([i \in 1..Len(M) |-> Force([k \in 1..Len(M) |-> IF k = j THEN b[i] ELSE M[i][k]])])

FullRank(D, Z) == Det(Gram(Design(D, Z))) # 0
\* det(G) * residual of column v regressed on [1 | Z]
ScaledResidual(D, Z, v) ==
    LET A == Design(D, Z)
        G == Gram(A)
        rhs == Force([j \in 1..Len(A) |-> Dot(A[j], Col(D, v))])
        Nj == Force([j \in 1..Len(A) |-> Det(ReplCol(G, j, rhs))])
        dg == Det(G)
    IN Force([i \in 1..N(D) |-> dg * D.rows[i][v] - SumTo([j \in 1..Len(A) |-> A[j][i] * Nj[j]], Len(A))])
VecGcd(u) == FoldSet(LAMBDA x, acc : GCD(Abs(x), acc), 0, {u[i] : i \in 1..Len(u)})
\* residual direction; Det(Gram) > 0 for a full-rank design, so the sign is that of the residual
Direction(D, Z, v) ==
    LET e == ScaledResidual(D, Z, v)
        g == VecGcd(e)
        s == IF Det(Gram(Design(D, Z))) < 0 THEN -1 ELSE 1
    IN IF g = 0 THEN e ELSE Force([i \in 1..Len(e) |-> s * (e[i] \div g)])
IsZeroVec(u) == \A i \in 1..Len(u) : u[i] = 0
Small(u) == \A i \in 1..Len(u) : Abs(u[i]) <= 12000          \* keeps the dot products inside TLC's 32-bit integers

Defined(D, X, Y, Z) == /\ FullRank(D, Z) /\ ~IsZeroVec(Direction(D, Z, X)) /\ ~IsZeroVec(Direction(D, Z, Y))
                       /\ Small(Direction(D, Z, X)) /\ Small(Direction(D, Z, Y))
RForm(D, X, Y, Z) ==
    LET ux == Direction(D, Z, X)
        uy == Direction(D, Z, Y)
    IN [sxy |-> Dot(ux, uy), sxx |-> Dot(ux, ux), syy |-> Dot(uy, uy), n |-> N(D)]
\* p-value kind: |r| = 1 -> 0 exactly; otherwise PearsonP(r, n) uninterpreted
\* (|r| = 1 iff the two residual directions are parallel, i.e. the primitive vectors are equal or opposite)
RKind(D, X, Y, Z) == LET ux == Direction(D, Z, X)
                         uy == Direction(D, Z, Y)
                     IN IF ux = uy \/ ux = [i \in 1..Len(uy) |-> -uy[i]] THEN "zero" ELSE "t"

\* affine re-parametrisation of one column:  v -> a*v + b
Affine(D, v, a, b) == [D EXCEPT !.rows = [i \in 1..N(D) |-> [D.rows[i] EXCEPT ![v] = a * @ + b]]]

\* ---- named deviation (DESIGN 7): regression THROUGH THE ORIGIN ---------------------------
\* Not the specified test.  Design matrix without the constant column; Pearson's correlation then centres the
\* residuals itself.  Printed next to the specified value so that a rejected observation can be classified as
\* "this known deviation" or "something else".  Only for Z # <<>>.
DesignNoIcpt(D, Z) == Force([k \in 1..Len(Z) |-> Col(D, Z[k])])
ScaledResidualOn(A, D, v) ==
    LET G == Gram(A)
        rhs == Force([j \in 1..Len(A) |-> Dot(A[j], Col(D, v))])
        Nj == Force([j \in 1..Len(A) |-> Det(ReplCol(G, j, rhs))])
        dg == Det(G)
    IN Force([i \in 1..N(D) |-> dg * D.rows[i][v] - SumTo([j \in 1..Len(A) |-> A[j][i] * Nj[j]], Len(A))])
DevDirection(D, Z, v) ==
    LET A == DesignNoIcpt(D, Z)
        e == ScaledResidualOn(A, D, v)
        tot == SumTo(e, Len(e))
        c == Force([i \in 1..Len(e) |-> N(D) * e[i] - tot])           \* centred (times n)
        g == VecGcd(c)
        s == IF Det(Gram(A)) < 0 THEN -1 ELSE 1
    IN IF g = 0 THEN c ELSE Force([i \in 1..Len(c) |-> s * (c[i] \div g)])
DevDefined(D, X, Y, Z) == /\ Len(Z) >= 1 /\ Det(Gram(DesignNoIcpt(D, Z))) # 0
                          /\ ~IsZeroVec(DevDirection(D, Z, X)) /\ ~IsZeroVec(DevDirection(D, Z, Y))
                          /\ Small(DevDirection(D, Z, X)) /\ Small(DevDirection(D, Z, Y))
DevRForm(D, X, Y, Z) ==
    LET ux == DevDirection(D, Z, X)
        uy == DevDirection(D, Z, Y)
    IN [sxy |-> Dot(ux, uy), sxx |-> Dot(ux, ux), syy |-> Dot(uy, uy), n |-> N(D)]

Reverse(s) == [i \in 1..Len(s) |-> s[Len(s) + 1 - i]]
\* ---- lemmas -------------------------------------------------------------------------
LemmaNormalEq(D, Z, v) ==       \* residual orthogonal to the constant and to every conditioning column
    LET e == ScaledResidual(D, Z, v)
        A == Design(D, Z)
    IN \A j \in 1..Len(A) : Dot(A[j], e) = 0
LemmaPositive(D, Z) == Det(Gram(Design(D, Z))) >= 0            \* Gram determinants are non-negative
LemmaSym(D, X, Y, Z) ==
    LET F == RForm(D, X, Y, Z)
        G == RForm(D, Y, X, Reverse(Z))
    IN F.sxy = G.sxy /\ F.sxx = G.syy /\ F.syy = G.sxx
LemmaCauchy(D, X, Y, Z) ==                                       \* |r| <= 1, with equality iff RKind = "zero"
    LET F == RForm(D, X, Y, Z) IN
    F.sxx <= 40000 /\ F.syy <= 40000 =>        \* (products inside 32 bits)
        /\ F.sxy * F.sxy <= F.sxx * F.syy
        /\ (F.sxy * F.sxy = F.sxx * F.syy <=> RKind(D, X, Y, Z) = "zero")
\* the residual direction of every variable is unchanged by a positive affine map of X, of Y, or any affine map of a Z
LemmaAffine(D, X, Y, Z, v, a, b) ==
    LET D2 == Affine(D, v, a, b) IN
    /\ FullRank(D2, Z)
    /\ Direction(D2, Z, X) = Direction(D, Z, X)
    /\ Direction(D2, Z, Y) = Direction(D, Z, Y)
    /\ RForm(D2, X, Y, Z) = RForm(D, X, Y, Z)
=============================================================================
