------------------------------ MODULE Gen_C20D ------------------------------
(***************************************************************************)
(* Gaussian distributions and canonical forms (property C20): generator +  *)
(* oracle for GaussianDistribution / CanonicalDistribution.                *)
(*                                                                         *)
(* A pool (instance file) is a list of Gaussians over subsets of a small   *)
(* variable set, each given by an integer mean vector and an integer       *)
(* symmetric matrix that is either its covariance (form "cov") or its      *)
(* information matrix (form "prec"); TLC keeps the positive-definite ones  *)
(* (Sylvester) and derives covariance and canonical form exactly (Build).  *)
(* Then EVERY instance of every operation is a successor:                  *)
(*   DoMarg / DoReduce     every non-empty proper subset (x every point)   *)
(*   DoCanon, DoCToJoint   Gaussian -> canonical form -> Gaussian          *)
(*   DoDensity             log-density at every pool point                 *)
(*   DoProduct             every ordered pair of pool members              *)
(*   DoCMarg / DoCReduce / DoCProduct   the same on canonical forms        *)
(* each in-place and out-of-place.  Emit prints operands and the expected  *)
(* result; g is the symbolic normal form [q, c, X] of GaussLib.            *)
(* The Lem* invariants relate independent derivations of the same density. *)
(***************************************************************************)
EXTENDS GaussLib, Json, IOUtils
Pools == JsonDeserialize(IOEnv.INST_FILE)
VARIABLES pi, objs, out
vars == <<pi, objs, out>>
P == Pools[pi]
ord == P.vars

\* pool member k as given: [ok, S, mu, cov, C]
Member(k) ==
    LET j == P.gs[k]
        S == SeqSet(j.scope)
        o == OrdOf(ord, S)
    IN IF ~PosDef(j.m, o) THEN [ok |-> FALSE]
       ELSE Bind(IF j.form = "cov" THEN MSub(j.m, S, S) ELSE MInv(j.m, o), LAMBDA cov :
            Bind([S |-> S, mu |-> VSub(j.mu, S), cov |-> cov], LAMBDA G :
                [ok |-> TRUE, G |-> G, C |-> ToCanon(G, ord)]))

Init == /\ pi \in 1..Len(Pools)
        /\ objs = <<>>
        /\ out = [op |-> "none"]
Build == /\ objs = <<>>
         /\ objs' = [k \in 1..Len(P.gs) |-> Member(k)]
         /\ UNCHANGED <<pi, out>>

Ready == objs # <<>> /\ out.op = "none"
OK == {k \in 1..Len(objs) : objs[k].ok}
Proper(S) == (SUBSET S) \ {{}, S}
Pt(n, V) == VSub(P.pts[n], V)
\* a Gaussian result together with its information matrix (what the object's precision_matrix must report afterwards)
GP(G) == [S |-> G.S, mu |-> G.mu, cov |-> G.cov, prec |-> MInv(G.cov, OrdOf(ord, G.S))]

DoMarg == /\ Ready
          /\ \E k \in OK : \E V \in Proper(objs[k].G.S) : \E ip \in BOOLEAN :
                out' = [op |-> "marginalize", a |-> objs[k].G, vars |-> V, inplace |-> ip, res |-> GP(GMarg(objs[k].G, V))]
          /\ UNCHANGED <<pi, objs>>
DoReduce == /\ Ready
            /\ \E k \in OK : \E V \in Proper(objs[k].G.S) : \E n \in 1..Len(P.pts) : \E ip \in BOOLEAN :
                  out' = [op |-> "reduce", a |-> objs[k].G, at |-> Pt(n, V), inplace |-> ip, res |-> GP(GReduce(objs[k].G, ord, Pt(n, V)))]
            /\ UNCHANGED <<pi, objs>>
DoCanon == /\ Ready
           /\ \E k \in OK : out' = [op |-> "to_canonical", a |-> objs[k].G, res |-> objs[k].C]
           /\ UNCHANGED <<pi, objs>>
DoCToJoint == /\ Ready
              /\ \E k \in OK : out' = [op |-> "to_joint", a |-> objs[k].C, g0 |-> objs[k].G, res |-> GP(CToJoint(objs[k].C, ord))]
              /\ UNCHANGED <<pi, objs>>
DoProduct == /\ Ready
             /\ \E k \in OK : \E l \in OK : \E ip \in BOOLEAN :
                   out' = [op |-> "product", a |-> objs[k].G, b |-> objs[l].G, same |-> (k = l), inplace |-> ip,
                           res |-> GP(CToJoint(CProduct(objs[k].C, objs[l].C), ord))]
             /\ UNCHANGED <<pi, objs>>
DoCMarg == /\ Ready
           /\ \E k \in OK : \E V \in Proper(objs[k].G.S) : \E ip \in BOOLEAN :
                 out' = [op |-> "c_marginalize", a |-> objs[k].C, g0 |-> objs[k].G, vars |-> V, inplace |-> ip, res |-> CMarg(objs[k].C, ord, V)]
           /\ UNCHANGED <<pi, objs>>
DoCReduce == /\ Ready
             /\ \E k \in OK : \E V \in Proper(objs[k].G.S) : \E n \in 1..Len(P.pts) : \E ip \in BOOLEAN :
                   out' = [op |-> "c_reduce", a |-> objs[k].C, g0 |-> objs[k].G, at |-> Pt(n, V), inplace |-> ip, res |-> CReduce(objs[k].C, Pt(n, V))]
             /\ UNCHANGED <<pi, objs>>
DoCProduct == /\ Ready
              /\ \E k \in OK : \E l \in OK : \E ip \in BOOLEAN :
                    out' = [op |-> "c_product", a |-> objs[k].C, b |-> objs[l].C, same |-> (k = l), inplace |-> ip,
                            res |-> CProduct(objs[k].C, objs[l].C)]
              /\ UNCHANGED <<pi, objs>>
\* the value of the density at a point (log, as a symbolic normal form)
DoDensity == /\ Ready
             /\ \E k \in OK : \E n \in 1..Len(P.pts) :
                   out' = [op |-> "pdf", a |-> objs[k].G, c |-> objs[k].C, at |-> Pt(n, objs[k].G.S), res |-> CLogAt(objs[k].C, Pt(n, objs[k].G.S))]
             /\ UNCHANGED <<pi, objs>>
Next == Build \/ DoDensity \/ DoMarg \/ DoReduce \/ DoCanon \/ DoCToJoint \/ DoProduct \/ DoCMarg \/ DoCReduce \/ DoCProduct

\* ------------------------------------------------------------------ design-level lemmas
\* members are what the pool says: positive definite, K Sigma = I, and the canonical form is the log-density:
\* log C(x) = -1/2 (x-mu)' K (x-mu) - n/2 log(2 pi) - 1/2 log det Sigma at every pool point
LemCanonIsDensity == Ready =>
    \A k \in OK : LET G == objs[k].G
                      C == objs[k].C
                  IN /\ PosDef(G.cov, OrdOf(ord, G.S))
                     /\ MMul(C.K, G.cov, G.S, G.S, G.S) = MId(G.S)
                     /\ \A n \in 1..Len(P.pts) :
                           LET x == Pt(n, G.S)
                               dx == VMinus(x, G.mu, G.S)
                           IN CLogAt(C, x) = Sym(QNeg(QHalf(QuadForm(dx, C.K, G.S))), Q(0 - Cardinality(G.S), 2), DetOf(G.cov, OrdOf(ord, G.S)))
\* conditioning through the covariance = conditioning through the information matrix
LemReducePrecision == out.op = "reduce" =>
    LET R == out.res.S
        K == MInv(out.a.cov, OrdOf(ord, out.a.S))
    IN /\ MMul(out.res.cov, MSub(K, R, R), R, R, R) = MId(R)
       /\ MVec(MSub(K, R, R), out.res.mu, R, R) =
             VMinus(MVec(MSub(K, R, out.a.S), out.a.mu, R, out.a.S), MVec(MSub(K, R, DOMAIN out.at), out.at, R, DOMAIN out.at), R)
\* the marginal of a normalised density is the normalised marginal: integrate-out commutes with the change of representation (K, h AND g)
LemCanonMargCommutes == out.op = "c_marginalize" =>
    out.res = ToCanon(GMarg(out.g0, out.vars), ord)
\* chain rule p(x, y) = p(x | y) p(y): reducing the canonical form gives the conditional times the marginal density at y
LemChainRule == out.op = "c_reduce" =>
    LET V == DOMAIN out.at
        cond == ToCanon(GReduce(out.g0, ord, out.at), ord)
        marg == ToCanon(GMarg(out.g0, out.g0.S \ V), ord)
    IN /\ out.res.K = cond.K /\ out.res.h = cond.h
       /\ out.res.g = SymAdd(cond.g, CLogAt(marg, out.at))
\* the product of canonical forms is the pointwise product of the functions
LemProductPointwise == out.op = "c_product" =>
    \A n \in 1..Len(P.pts) :
        CLogAt(out.res, Pt(n, out.res.S)) = SymAdd(CLogAt(out.a, Pt(n, out.a.S)), CLogAt(out.b, Pt(n, out.b.S)))
\* the Gaussian returned for a product has information matrix K1 + K2 and potential vector h1 + h2
LemProductGaussian == out.op = "product" =>
    LET T == out.res.S
        K == MInv(out.res.cov, OrdOf(ord, T))
        Ka == MInv(out.a.cov, OrdOf(ord, out.a.S))
        Kb == MInv(out.b.cov, OrdOf(ord, out.b.S))
    IN /\ PosDef(out.res.cov, OrdOf(ord, T))
       /\ K = MAdd(MExt(Ka, out.a.S, T), MExt(Kb, out.b.S, T), T, T)
       /\ MVec(K, out.res.mu, T, T) = VAdd(VExt(MVec(Ka, out.a.mu, out.a.S, out.a.S), out.a.S, T),
                                           VExt(MVec(Kb, out.b.mu, out.b.S, out.b.S), out.b.S, T), T)
LemRoundTrip == out.op = "to_joint" => out.res.S = out.g0.S /\ out.res.mu = out.g0.mu /\ out.res.cov = out.g0.cov /\ out.res.prec = out.a.K

Emit == out.op # "none" => PrintT(ToJson([pool |-> P.id, out |-> out]))
=============================================================================
