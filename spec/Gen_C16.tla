------------------------------ MODULE Gen_C16 ------------------------------
(***************************************************************************)
(* Purity and repeatability of engines (property C16).                     *)
(* An engine is an object bound to a model; a history is a sequence of     *)
(* questions put to ONE engine.  The specification of every question is a  *)
(* function of (model content, question) only - it does not mention the    *)
(* history - and no action changes the model (there is no model variable   *)
(* to change: the frame condition is structural).  TLC enumerates every    *)
(* history of length Len over the instance's question palette and prints   *)
(* the expected answer of every step; the harness replays each history on  *)
(* a shared VariableElimination / BeliefPropagation / CausalInference      *)
(* engine under several concretisations (variable and state renamings      *)
(* incl. non-string names, insertion orders, hash seeds, numpy/torch) and  *)
(* checks after every call that the answer is the expected one and that    *)
(* the model, the evidence dictionaries and the virtual-evidence CPDs      *)
(* passed in are unchanged.                                                *)
(* Question kinds: "query" (posterior table), "map" (MAP set), "do"        *)
(* (truncated factorisation, single do-variable, default adjustment),      *)
(* "calibrate" / "max_calibrate" (engine operations of BeliefPropagation), *)
(* "sample" (a seeded call on a shared BayesianModelSampling engine).      *)
(***************************************************************************)
EXTENDS BNLib, Json, IOUtils
CONSTANTS HLen
Insts == JsonDeserialize(IOEnv.INST_FILE)
VARIABLES bi, hist
vars == <<bi, hist>>
b == Insts[bi]
N == BNodes(b)
J == JointTable(b)

VirtW2(q) == [v \in DOMAIN q.virt |-> q.virt[v].w]
EngineOps == {"calibrate", "max_calibrate"}      \* operations on the engine that answer nothing
Defined(q) ==
    IF q.t = "do" \/ q.t \in EngineOps THEN TRUE
    ELSE PostTot(b, J, q.ev, VirtW2(q)) > 0
TruncWeight(S, a) == FoldSet(LAMBDA v, acc : acc * CPDNum(b, v, a), 1, N \ S)
DoNum(Q, qa, s) == SumOver({a \in Assigns(b, N) : Agrees(a, qa) /\ Agrees(a, s)}, LAMBDA a : TruncWeight(DOMAIN s, a))
Answer(q) ==
    LET Q == ToSet(q.q) IN
    \* an engine operation has no answer; a seeded sampling call answers what a FRESH engine answers to the same call
    \* (the drawn values are specified by Trace_C07; here only: the answer is a function of model and question)
    IF q.t \in EngineOps THEN [kind |-> "none", tot |-> 0, rows |-> {}, maps |-> {}]
    ELSE IF q.t = "sample" THEN [kind |-> "as_fresh_engine", tot |-> 0, rows |-> {}, maps |-> {}]
    ELSE IF q.t = "do"
    THEN [kind |-> "table", tot |-> DoNum({}, <<>>, q.do),
          rows |-> {[a |-> qa, w |-> DoNum(Q, qa, q.do)] : qa \in Assigns(b, Q)}, maps |-> {}]
    ELSE IF q.t = "map"
    THEN [kind |-> "map", tot |-> 0, rows |-> {}, maps |-> MAPSet(b, J, Q, q.ev, VirtW2(q))]
    ELSE [kind |-> "table", tot |-> PostTot(b, J, q.ev, VirtW2(q)),
          rows |-> {[a |-> qa, w |-> PostNum(b, J, qa, q.ev, VirtW2(q))] : qa \in Assigns(b, Q)}, maps |-> {}]

Init == bi \in 1..Len(Insts) /\ hist = <<>>
Ask(k) == /\ Len(hist) < HLen /\ Defined(b.questions[k])
          /\ hist' = Append(hist, [k |-> k, ans |-> Answer(b.questions[k])])
          /\ UNCHANGED bi
Next == \E k \in 1..Len(b.questions) : Ask(k)
\* the answer to a question never depends on what was asked before (checked on every pair of steps of every history)
HistoryIndependent == \A i, j \in 1..Len(hist) : hist[i].k = hist[j].k => hist[i].ans = hist[j].ans
Emit == Len(hist) = HLen => PrintT(ToJson([inst |-> b.id, steps |-> hist]))
=============================================================================
