------------------------------ MODULE Gen_C09 ------------------------------
(***************************************************************************)
(* Generator / design-level check for the file round trips (C09).          *)
(* Init picks a model instance (structure, state lists, tables of value    *)
(* tokens) from the instance file.  TLC then explores the CONTROL:         *)
(*   ChooseOrder : every declared evidence order of the instance's         *)
(*                 permutable families (the table is re-laid-out by the    *)
(*                 layout rule, the meaning is unchanged),                 *)
(*   WriteDoc(f) : every format, doc := Write(f, model),                   *)
(*   ShuffleRows : BIF rows reversed (row order is not part of a BIF       *)
(*                 document's meaning).                                    *)
(* Lemmas (INVARIANTs): the instance is well formed and tie free;          *)
(* re-declaring the evidence order keeps the meaning; every written        *)
(* document is readable and  Read(f, Write(f, m')) ~ Canon(f, m)  for the  *)
(* ORIGINAL m (round trip irrespective of parent order); documents of      *)
(* different declared orders of one meaning all read back to one model.    *)
(* Every (instance, order) is emitted with the re-laid-out model m' (and,  *)
(* if EmitDocs, every prescribed document) for replay on pgmpy.            *)
(***************************************************************************)
EXTENDS IOLib, Json, IOUtils
CONSTANTS EmitDocs
Insts == JsonDeserialize(IOEnv.INST_FILE)
VARIABLES ii, phase, ord, mod, fmt, doc
vars == <<ii, phase, ord, mod, fmt, doc>>
I == Insts[ii]
M0 == [kind |-> I.kind, nodes |-> I.nodes, states |-> I.states, fams |-> I.fams]
M1 == mod

Init == ii \in 1..Len(Insts) /\ phase = "inst" /\ ord = <<>> /\ mod = <<>> /\ fmt = "" /\ doc = <<>>
ChooseOrder == /\ phase = "inst"
               /\ \E o \in Orders(M0, ToSet(I.permute)) : ord' = o /\ mod' = Reorder(M0, o)
               /\ phase' = "model" /\ UNCHANGED <<ii, fmt, doc>>
WriteDoc == /\ phase = "model"
            /\ \E f \in Formats(M0) : fmt' = f /\ doc' = Write(f, M1, I.vals)
            /\ phase' = "doc" /\ UNCHANGED <<ii, ord, mod>>
ShuffleRows == /\ phase = "doc" /\ fmt = "BIF"
               /\ doc' = [doc EXCEPT !.probs = [i \in 1..Len(doc.probs) |-> [doc.probs[i] EXCEPT !.rows = Reverse(doc.probs[i].rows)]]]
               /\ phase' = "doc2" /\ UNCHANGED <<ii, ord, mod, fmt>>
Next == ChooseOrder \/ WriteDoc \/ ShuffleRows

\* ---- lemmas
InstanceOK == phase = "inst" =>
    /\ WellFormed(M0)
    /\ \A i \in 1..Len(M0.fams) : \A k \in 1..Len(M0.fams[i].cells) : M0.fams[i].cells[k] \in 1..Len(I.vals)
    /\ \A t \in 1..Len(I.vals) : Len(I.vals[t].dg) = 17 /\ ~Tie(I.vals, t)
    /\ ToSet(I.permute) \subseteq ToSet(M0.nodes)
ReorderKeepsMeaning == phase = "model" => WellFormed(M1) /\ ModelDiff(M1, M0) = {} /\ ModelDiff(M0, M1) = {}
RoundTrip == phase \in {"doc", "doc2"} => /\ Readable(fmt, doc)
                                          /\ ModelDiff(Read(fmt, doc), Canon(fmt, M0, I.vals)) = {}
\* the reader's model is a model over the document's own vocabulary whose declared orders are those of the document
ReadFollowsDoc == phase = "doc" /\ fmt # "UAI" => LET r == Read(fmt, doc) IN
    /\ WellFormed([r EXCEPT !.nodes = M1.nodes]) /\ ToSet(r.nodes) = ToSet(M1.nodes)
    /\ \A v \in ToSet(M1.nodes) : FamOf(r, v).scope = FamOf(M1, v).scope

Emit == /\ phase = "model" => PrintT(ToJson([k |-> "case", inst |-> I.id, ord |-> ord, model |-> M1]))
        /\ (EmitDocs /\ phase = "doc") => PrintT(ToJson([k |-> "doc", inst |-> I.id, ord |-> ord, fmt |-> fmt, doc |-> doc]))
=============================================================================
