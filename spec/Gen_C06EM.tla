----------------------------- MODULE Gen_C06EM -----------------------------
(***************************************************************************)
(* Property C06, latent variables: the first EM iteration, exact.          *)
(*                                                                         *)
(* An instance (JSON, abstract tokens) is a Bayesian network structure     *)
(* over observed columns obs and latent variables lat, a small bag of      *)
(* observed rows with positive integer weights, and starting CPDs th0 for  *)
(* every node (integer numerators over a per-CPD denominator, strictly     *)
(* positive so that every row has positive likelihood).                    *)
(* Init chooses the instance and the set `given` of nodes whose starting   *)
(* CPD is handed to the learner: every latent variable and every child of  *)
(* a latent variable must be given (otherwise the learner starts from a    *)
(* random table); the other nodes may or may not be.  Step computes one    *)
(* E+M iteration (LearnLib!EMStep).  Emit prints the expected CPD of every *)
(* node after that iteration by named assignment.                          *)
(*                                                                         *)
(* Lemmas:                                                                 *)
(*   StepIsCPD                   every resulting table is a conditional    *)
(*                               distribution                              *)
(*   WeightsPartition            the completions of one observed row share *)
(*                               exactly that row's weight                 *)
(*   ObservedPartIsMLE           a node that is neither latent nor a child *)
(*                               of a latent gets its plain MLE            *)
(*   InitOfObservedPartIrrelevant  ... and its starting CPD does not       *)
(*                               influence anything (it cancels in the     *)
(*                               posterior), so `given` does not change    *)
(*                               the expected result                       *)
(*   RowOrderInvariant           reversing the rows changes nothing        *)
(***************************************************************************)
EXTENDS LearnLib, DagLib, Json, IOUtils
Insts == JsonDeserialize(IOEnv.INST_FILE)

VARIABLES ii, given, th1
vars == <<ii, given, th1>>
I == Insts[ii]
Obs == ToSet(I.obs)
Lat == ToSet(I.lat)
Nodes == Obs \cup Lat
E == {<<I.edges[k][1], I.edges[k][2]>> : k \in 1..Len(I.edges)}
PaOf == [v \in Nodes |-> Pa(E, v)]
Rows == I.rows                                    \* [a : obs -> state, w : <<n, 1>>]
LatInvolved(inst) == LET L == ToSet(inst.lat)
                         ed == {<<inst.edges[k][1], inst.edges[k][2]>> : k \in 1..Len(inst.edges)}
                     IN L \cup UNION {Ch(ed, l) : l \in L}

FromCells(v, cells) == [a \in Assign(I.dom, Fam(v, PaOf[v])) |-> (CHOOSE c \in ToSet(cells) : c.a = a).n]
Th0 == [v \in Nodes |-> FromCells(v, I.th0[v].cells)]

Init == /\ ii \in 1..Len(Insts)
        /\ given \in {S \in SUBSET (ToSet(Insts[ii].obs) \cup ToSet(Insts[ii].lat)) : LatInvolved(Insts[ii]) \subseteq S}
        /\ th1 = <<>>
Step == /\ th1 = <<>>
        /\ EStepDefined(I.dom, Nodes, PaOf, Th0, Lat, Rows)
        /\ th1' = EMStep(I.dom, Nodes, PaOf, Th0, Lat, Rows)
        /\ UNCHANGED <<ii, given>>
Next == Step

\* ---------------------------------------------------------------- lemmas
Done == th1 # <<>>
WellFormed == /\ Acyclic(Nodes, E) /\ Obs \cap Lat = {} /\ Len(Rows) >= 1
              /\ \A k \in DOMAIN Rows : Rows[k].w[2] = 1 /\ Rows[k].w[1] >= 1 /\ \A v \in Obs : Rows[k].a[v] \in ToSet(I.dom[v])
              /\ \A v \in Nodes : \A a \in DOMAIN Th0[v] : Th0[v][a] >= 1
              /\ \A v \in Nodes : \A c \in Assign(I.dom, PaOf[v]) :        \* every column of a starting CPD sums to its denominator
                    FoldSet(LAMBDA s, acc : acc + Th0[v][c @@ (v :> s)], 0, ToSet(I.dom[v])) = I.th0[v].den
StepIsCPD == Done => \A v \in Nodes : IsCPD(I.dom, th1[v], v, PaOf[v])
WeightsPartition == Done =>
    LET comp == Completed(I.dom, Nodes, PaOf, Th0, Lat, Rows)
        M == FoldSet(LAMBDA k, acc : LCM(acc, ZOf(I.dom, Nodes, PaOf, Th0, Lat, Rows[k].a)), 1, DOMAIN Rows)
    IN \A k \in DOMAIN Rows : RSum(LatAsg(I.dom, Lat), LAMBDA l : comp[<<k, l>>].w) = RInt(Rows[k].w[1] * M)
ObservedPartIsMLE == Done => \A v \in Nodes \ LatInvolved(I) : th1[v] = MLE(I.dom, Rows, v, PaOf[v])
InitOfObservedPartIrrelevant == Done =>
    LET flat == [v \in Nodes |-> IF v \in LatInvolved(I) THEN Th0[v] ELSE [a \in DOMAIN Th0[v] |-> 1]]
    IN th1 = EMStep(I.dom, Nodes, PaOf, flat, Lat, Rows)
RowOrderInvariant == Done => th1 = EMStep(I.dom, Nodes, PaOf, Th0, Lat, [k \in 1..Len(Rows) |-> Rows[Len(Rows) + 1 - k]])

\* ---------------------------------------------------------------- output
Cells(t) == {[a |-> a, p |-> t[a]] : a \in DOMAIN t}
Emit == Done => PrintT(ToJson(
    [inst |-> I.id, given |-> given,
     cpds |-> {[v |-> v, ps |-> PaOf[v], cells |-> Cells(th1[v])] : v \in Nodes}]))
=============================================================================
