------------------------------ MODULE LearnLib ------------------------------
(***************************************************************************)
(* Parameter learning of discrete Bayesian networks (property C06) by the  *)
(* closed forms, in exact rational arithmetic (FactorAlg: <<n, d>>).       *)
(*                                                                         *)
(*   dom  : column -> Seq(state)     the states every column ranges over   *)
(*                                   (declared states, observed or not)    *)
(*   data : any finite index set -> [a : column -> state, w : rational]    *)
(*          a BAG of weighted rows (a sequence is the special case of the  *)
(*          index set 1..n; an unweighted row has w = 1)                   *)
(* For a variable v, a parent SET P and an assignment a of {v} + P         *)
(*   N(a)      = total weight of the rows that agree with a                *)
(*   N(a | P)  = total weight of the rows that agree with a on P           *)
(*   MLE       = N(a) / N(a|P);  uniform 1/r where N(a|P) = 0              *)
(*   Bayes     = (N(a) + alpha(a)) / (N(a|P) + SUM_s alpha(a[v := s]))     *)
(*     K2        alpha = 1                                                 *)
(*     BDeu      alpha = ess / (r q),  q = number of parent configurations *)
(*     Dirichlet alpha = an explicit table (or one scalar for every cell)  *)
(*   update    = Bayes with alpha = previous CPD * previous sample size    *)
(* Everything is a function of the BAG of rows, the SET of columns and the *)
(* SET of parents: no order of rows, columns or parents exists here.       *)
(*                                                                         *)
(* EM (one latent-variable iteration, integer arithmetic): see EStep /     *)
(* EMStep below.                                                           *)
(***************************************************************************)
EXTENDS FactorAlg

Match(a, f) == \A v \in DOMAIN f : a[v] = f[v]
\* total weight of the rows of `data` that agree with the partial assignment f
Cnt(data, f) == RSum({k \in DOMAIN data : Match(data[k].a, f)}, LAMBDA k : data[k].w)
Total(data) == Cnt(data, <<>>)

Fam(v, P) == {v} \cup P
NCfg(dom, P) == Cardinality(Assign(dom, P))

MLE(dom, data, v, P) ==
    [a \in Assign(dom, Fam(v, P)) |->
        LET tot == Cnt(data, Restr(a, P)) IN
        IF tot[1] = 0 THEN R(1, Len(dom[v])) ELSE RDiv(Cnt(data, a), tot)]

\* alpha : Assign(dom, Fam(v, P)) -> rational pseudo count
AlphaCol(dom, alpha, v, c) == RSum(ToSet(dom[v]), LAMBDA s : alpha[c @@ (v :> s)])
BayesDen(dom, data, v, P, alpha, c) == RAdd(Cnt(data, c), AlphaCol(dom, alpha, v, c))
BayesDefined(dom, data, v, P, alpha) == \A c \in Assign(dom, P) : BayesDen(dom, data, v, P, alpha, c)[1] > 0
Bayes(dom, data, v, P, alpha) ==
    [a \in Assign(dom, Fam(v, P)) |->
        RDiv(RAdd(Cnt(data, a), alpha[a]), BayesDen(dom, data, v, P, alpha, Restr(a, P)))]

ConstAlpha(dom, v, P, x) == [a \in Assign(dom, Fam(v, P)) |-> x]
K2Alpha(dom, v, P) == ConstAlpha(dom, v, P, ROne)
BDeuAlpha(dom, v, P, ess) == ConstAlpha(dom, v, P, RDiv(ess, RInt(Len(dom[v]) * NCfg(dom, P))))
PrevAlpha(prev, nprev) == [a \in DOMAIN prev |-> RMul(prev[a], nprev)]

\* the textbook closed forms, written independently of Bayes/alpha (used as lemmas)
K2Closed(dom, data, v, P) ==
    [a \in Assign(dom, Fam(v, P)) |->
        RDiv(RAdd(Cnt(data, a), ROne), RAdd(Cnt(data, Restr(a, P)), RInt(Len(dom[v]))))]
BDeuClosed(dom, data, v, P, ess) ==
    LET r == Len(dom[v])
        q == NCfg(dom, P) IN
    [a \in Assign(dom, Fam(v, P)) |->
        RDiv(RAdd(Cnt(data, a), RDiv(ess, RInt(r * q))), RAdd(Cnt(data, Restr(a, P)), RDiv(ess, RInt(q))))]

\* a conditional table: every column sums to one, every entry is a probability
IsCPD(dom, t, v, P) ==
    /\ DOMAIN t = Assign(dom, Fam(v, P))
    /\ \A a \in DOMAIN t : Fin(t[a]) /\ t[a][1] >= 0 /\ t[a][1] <= t[a][2]
    /\ \A c \in Assign(dom, P) : RSum(ToSet(dom[v]), LAMBDA s : t[c @@ (v :> s)]) = ROne

\* rows with positive integer weights replaced by that many unit rows (index set = (row, copy))
IntWeights(data) == \A k \in DOMAIN data : data[k].w[2] = 1 /\ data[k].w[1] >= 1
Expand(data) ==
    LET idx == UNION {{<<k, j>> : j \in 1..data[k].w[1]} : k \in DOMAIN data}
    IN [x \in idx |-> [a |-> data[x[1]].a, w |-> ROne]]

(***************************************************************************)
(* One EM iteration with latent variables, exact.                          *)
(*   nodes = observed columns + latent variables Lat, pa : node -> SET     *)
(*   th : node -> (Assign(dom, Fam(node, pa[node])) -> Nat)  the current   *)
(*        CPDs as INTEGER numerators (each CPD over its own denominator;   *)
(*        the denominators cancel in the posterior)                        *)
(*   data : bag of observed rows with positive INTEGER weights             *)
(* E-step  q_r(l) = W(r, l) / Z(r),  W = PROD_node th[node](r + l),        *)
(*         Z(r) = SUM_l W(r, l)              (posterior of the latents)    *)
(* M-step  weighted MLE on the completed bag {(r + l, w_r q_r(l))}.        *)
(* To stay inside integers the completed bag is scaled by M = lcm_r Z(r):  *)
(*         U(r, l) = w_r * W(r, l) * (M / Z(r)).                           *)
(***************************************************************************)
LCM(a, b) == (a \div GCD(a, b)) * b
JW(nodes, pa, th, full) == FoldSet(LAMBDA v, acc : acc * th[v][Restr(full, Fam(v, pa[v]))], 1, nodes)
LatAsg(dom, Lat) == Assign(dom, Lat)
ZOf(dom, nodes, pa, th, Lat, row) == FoldSet(LAMBDA l, acc : acc + JW(nodes, pa, th, row @@ l), 0, LatAsg(dom, Lat))
EStepDefined(dom, nodes, pa, th, Lat, data) == \A k \in DOMAIN data : ZOf(dom, nodes, pa, th, Lat, data[k].a) > 0
\* completed bag: index (row, latent assignment) -> [a, w] with integer weights scaled by M
Completed(dom, nodes, pa, th, Lat, data) ==
    LET z == [k \in DOMAIN data |-> ZOf(dom, nodes, pa, th, Lat, data[k].a)]
        M == FoldSet(LAMBDA k, acc : LCM(acc, z[k]), 1, DOMAIN data)
    IN [x \in (DOMAIN data) \X LatAsg(dom, Lat) |->
          [a |-> data[x[1]].a @@ x[2],
           w |-> RInt(data[x[1]].w[1] * JW(nodes, pa, th, data[x[1]].a @@ x[2]) * (M \div z[x[1]]))]]
EMStep(dom, nodes, pa, th, Lat, data) ==
    LET comp == Completed(dom, nodes, pa, th, Lat, data)
    IN [v \in nodes |-> MLE(dom, comp, v, pa[v])]
=============================================================================
