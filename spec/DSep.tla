-------------------------------- MODULE DSep --------------------------------
(***************************************************************************)
(* API-level meaning of pgmpy's d-separation family (property C08), stated *)
(* with the trail definition of DagLib.  L is the latent set.              *)
(***************************************************************************)
EXTENDS DagLib

\* DAG.active_trail_nodes(x, observed=Z, include_latents=incl)[x]
ActiveTrailRet(N, E, L, x, Z, incl) ==
    LET A == ActiveSet(N, E, x, Z) IN IF incl THEN A ELSE A \ L

\* DAG.is_dconnected(x, y, Z)  (the code never includes latents: a latent end is reported unconnected)
IsDConnRet(N, E, L, x, y, Z) == y \in ActiveTrailRet(N, E, L, x, Z, FALSE)

\* DAG.get_independencies(include_latents=incl): for every start x and every Z that is a proper
\* subset of the remaining visible nodes, the maximal set d-separated from x (if non-empty)
IndepsRet(N, E, L, incl) ==
    LET Vis == IF incl THEN N ELSE N \ L IN
    UNION {{a \in {<<x, (Vis \ {x}) \ (Z \cup ActiveSet(N, E, x, Z)), Z>> : Z \in SUBSET (Vis \ {x})}
              : a[2] # {}} : x \in Vis}
\* (when Z = rest the separated set is empty, so the size bound of the code is implied)

\* DAG.local_independencies(x): x _|_ nondescendants \ parents | parents
LocalIndepRet(N, E, x) ==
    LET ND == (N \ {x}) \ Desc(E, x)
    IN IF ND \ Pa(E, x) = {} THEN {} ELSE {<<x, ND \ Pa(E, x), Pa(E, x)>>}

\* acceptance clauses for DAG.minimal_dseparator(x, y) = S
MinSepOK(N, E, L, x, y, S) ==
    /\ S \cap L = {}
    /\ x \notin S /\ y \notin S
    /\ ~DConn(N, E, x, y, S)
    /\ \A u \in S : DConn(N, E, x, y, S \ {u})
MinSeps(N, E, L, x, y) == {S \in SUBSET (N \ {x, y}) : MinSepOK(N, E, L, x, y, S)}
\* None may be returned only if latents exist (statement: without latents a separator is always returned)
NoneAllowed(L) == L # {}
=============================================================================
