------------------------------- MODULE DagLib -------------------------------
(***************************************************************************)
(* Directed / undirected / partially directed graphs over a finite node   *)
(* set.  Nodes are abstract tokens (strings "v0","v1",...).  A directed    *)
(* edge is a pair <<u,v>>, an undirected edge a 2-element set {u,v}.       *)
(* Everything here is a *definition* (textbook), never an algorithm of     *)
(* pgmpy: d-connection is quantification over simple trails.               *)
(***************************************************************************)
EXTENDS Naturals, FiniteSets, Sequences, TLC

NoNode == "_none_"

Pa(E, n) == {e[1] : e \in {f \in E : f[2] = n}}
Ch(E, n) == {e[2] : e \in {f \in E : f[1] = n}}

RECURSIVE AncOS(_, _)
AncOS(E, S) == LET T == S \cup UNION {Pa(E, n) : n \in S}
               IN IF T = S THEN S ELSE AncOS(E, T)
RECURSIVE DescOS(_, _)
DescOS(E, S) == LET T == S \cup UNION {Ch(E, n) : n \in S}
                IN IF T = S THEN S ELSE DescOS(E, T)

Anc(E, n)  == AncOS(E, Pa(E, n))          \* proper ancestors
Desc(E, n) == DescOS(E, Ch(E, n))         \* proper descendants
HasPath(E, a, b) == b \in DescOS(E, {a})  \* directed path of length >= 0
Acyclic(N, E) == \A n \in N : n \notin Desc(E, n)
Adj(E, a, b) == <<a, b>> \in E \/ <<b, a>> \in E
Nbr(E, a) == Pa(E, a) \cup Ch(E, a)

AllPairs(N) == {p \in N \X N : p[1] # p[2]}

(***************************************************************************)
(* d-connection by the trail definition.  A simple trail x = n1 .. nk = y  *)
(* is active given Z iff every internal collider has a descendant-or-self  *)
(* in Z and every internal non-collider is outside Z.  x and y themselves  *)
(* must be outside Z (the drivers never put the start node into Z).        *)
(***************************************************************************)
InternalOK(E, Z, p, c, n) ==
    IF <<p, c>> \in E /\ <<n, c>> \in E
    THEN DescOS(E, {c}) \cap Z # {}
    ELSE c \notin Z

RECURSIVE TrailTo(_, _, _, _, _, _, _)
TrailTo(N, E, Z, p, c, vis, y) ==
    \/ c = y
    \/ \E n \in N \ vis :
          /\ Adj(E, c, n)
          /\ (p = NoNode \/ InternalOK(E, Z, p, c, n))
          /\ TrailTo(N, E, Z, c, n, vis \cup {n}, y)

DConn(N, E, x, y, Z) == x \notin Z /\ y \notin Z /\ TrailTo(N, E, Z, NoNode, x, {x}, y)

\* all nodes d-connected to x given Z (contains x itself when x \notin Z)
ActiveSet(N, E, x, Z) == {y \in N : DConn(N, E, x, y, Z)}

DSep(N, E, x, y, Z) == ~DConn(N, E, x, y, Z)

(***************************************************************************)
(* Derived graphs                                                          *)
(***************************************************************************)
Skeleton(E) == {{e[1], e[2]} : e \in E}
Moral(E) == Skeleton(E) \cup
            UNION {{{q[1], q[2]} : q \in {r \in Pa(E, c) \X Pa(E, c) : r[1] # r[2]}} : c \in {e[2] : e \in E}}
\* v-structures a -> c <- b with a, b non-adjacent, as <<{a,b}, c>>
VStructs(E) == UNION {{<<{q[1], q[2]}, c>> : q \in {r \in Pa(E, c) \X Pa(E, c) : r[1] # r[2] /\ ~Adj(E, r[1], r[2])}}
                      : c \in {e[2] : e \in E}}
Immoralities(E) == {v[1] : v \in VStructs(E)}      \* pgmpy's get_immoralities: parent pairs only
MarkovBlanket(E, n) == (Pa(E, n) \cup Ch(E, n) \cup UNION {Pa(E, c) : c \in Ch(E, n)}) \ {n}
AncestralEdges(E, S) == LET A == AncOS(E, S) IN {e \in E : e[1] \in A /\ e[2] \in A}

IEquivalent(E1, E2) == Skeleton(E1) = Skeleton(E2) /\ VStructs(E1) = VStructs(E2)
\* same d-separation statements (definition of I-equivalence)
SameDSep(N, E1, E2) == \A x \in N : \A Z \in SUBSET (N \ {x}) : ActiveSet(N, E1, x, Z) = ActiveSet(N, E2, x, Z)

\* all DAGs over N (use only for |N| <= 4: 2^(n(n-1)) candidate edge sets)
AllDAGs(N) == {E \in SUBSET AllPairs(N) : Acyclic(N, E)}

(***************************************************************************)
(* Undirected graphs (edges are 2-sets)                                    *)
(***************************************************************************)
UNbr(U, a) == {b \in UNION U : {a, b} \in U /\ a # b}
RECURSIVE UReach(_, _)
UReach(U, S) == LET T == S \cup UNION {UNbr(U, n) : n \in S} IN IF T = S THEN S ELSE UReach(U, T)
UConnected(N, U) == N = {} \/ \E n \in N : UReach(U, {n}) = N
IsClique(U, S) == \A a \in S : \A b \in S : a = b \/ {a, b} \in U
\* chordal: a perfect elimination ordering exists (repeatedly remove a simplicial vertex)
RECURSIVE Chordal(_, _)
Chordal(N, U) == N = {} \/ \E n \in N : IsClique(U, UNbr(U, n) \cap N) /\
                                  Chordal(N \ {n}, {e \in U : n \notin e})
MaximalCliques(N, U) == {S \in SUBSET N : S # {} /\ IsClique(U, S) /\
                         \A n \in N \ S : ~IsClique(U, S \cup {n})}
UAcyclic(N, U) ==   \* forest: every connected component with k nodes has k-1 edges
    \A n \in N : LET C == UReach(U, {n}) IN Cardinality({e \in U : e \subseteq C}) = Cardinality(C) - 1

RECURSIVE SetToSeq(_)
SetToSeq(S) == IF S = {} THEN <<>> ELSE LET x == CHOOSE x \in S : TRUE IN <<x>> \o SetToSeq(S \ {x})
=============================================================================
