------------------------------ MODULE Trace_MN ------------------------------
(***************************************************************************)
(* Trace validation for model conversions (C14) and junction-tree belief   *)
(* propagation (C02).  A trace = one model instance + a sequence of events *)
(* recorded from the real code:                                            *)
(*   to_markov_model / to_factor_graph / fg_to_markov_model / triangulate  *)
(*   to_junction_tree  (cliques, tree edges, clique potentials)            *)
(*   partition         (partition function of the current target)         *)
(*   bp_init, bp_send (hook H-BP: one per _update_beliefs), bp_beliefs     *)
(*   bp_query / ve_query / map_query                                       *)
(* Spec state: the clique tree currently held by the engine (cliques,      *)
(* tedges), beliefs beta, sepset messages mu.  Every event is checked      *)
(* against the definitions of MNLib on the instance's exact joint; send    *)
(* events must be exactly the belief-update step from the current spec     *)
(* state.  Verdicts are total (failing clause + expected exact value).     *)
(***************************************************************************)
EXTENDS MNLib, Json, IOUtils
Traces == JsonDeserialize(IOEnv.TRACE_FILE)
VARIABLES tid, l, st, verdict
vars == <<tid, l, st, verdict>>
T == Traces[tid]
I == T.inst
d == I.dom
J == st.joint

Cells(f) == {[a |-> a, v |-> f.val[a]] : a \in DOMAIN f.val}
\* compare a logged table (Seq of [a, n, d]) with a spec factor; <<>> when equal
Diff(scope, cells, f) ==
    IF ToSet(scope) # f.scope THEN [clause |-> "scope", a |-> <<>>, want |-> <<0, 0>>]
    ELSE IF Len(cells) # Cardinality(DOMAIN f.val) THEN [clause |-> "size", a |-> <<>>, want |-> <<0, 0>>]
    ELSE LET bad == {c \in ToSet(cells) : c.a \notin DOMAIN f.val \/ f.val[c.a] # <<c.n, c.d>>} IN
         IF bad = {} THEN <<>>
         ELSE LET c == CHOOSE c \in bad : TRUE IN
              [clause |-> "value", a |-> c.a, want |-> IF c.a \in DOMAIN f.val THEN f.val[c.a] ELSE <<0, 0>>]
Logged(jf) == FromJson(d, jf)
\* bag equality of two factor sequences (each logged factor matched by an equal spec factor, with multiplicity)
Count(fs, f) == Cardinality({k \in 1..Len(fs) : FEqual(fs[k], f)})
BagEq(fs, gs) == Len(fs) = Len(gs) /\ \A k \in 1..Len(fs) : Count(fs, fs[k]) = Count(gs, fs[k])

Fail(cl) == [l |-> l, clause |-> cl, a |-> <<>>, want |-> <<0, 0>>]
FailD(cl, df) == [l |-> l, clause |-> cl \o "." \o df.clause, a |-> df.a, want |-> df.want]

ModelEdges == IF "parents" \in DOMAIN I
              THEN Moral(UNION {{<<I.parents[v][k], v>> : k \in 1..Len(I.parents[v])} : v \in AllVars(I)})
              ELSE IF Len(I.edges) > 0 THEN USet(ToSet(I.edges)) ELSE ScopeGraph(Factors(I))

Check(e) ==
  CASE e.ev = "to_markov_model" ->        \* BN -> MN: moral graph, CPDs as a bag of factors
         IF ToSet(e.nodes) # AllVars(I) THEN Fail("to_markov_model.nodes")
         ELSE IF USet(ToSet(e.edges)) # ModelEdges THEN Fail("to_markov_model.not_moral_graph")
         ELSE IF ~BagEq([k \in 1..Len(e.factors) |-> Logged(e.factors[k])], Factors(I)) THEN Fail("to_markov_model.factor_bag")
         ELSE <<>>
    [] e.ev = "to_factor_graph" ->        \* MN -> FG
         IF ToSet(e.nodes) # AllVars(I) THEN Fail("to_factor_graph.variable_nodes")
         ELSE IF ~BagEq([k \in 1..Len(e.factors) |-> Logged(e.factors[k])], Factors(I)) THEN Fail("to_factor_graph.factor_bag")
         ELSE IF \E k \in 1..Len(e.factors) : ToSet(e.fnbrs[k]) # ToSet(e.factors[k].scope) THEN Fail("to_factor_graph.factor_edges")
         ELSE <<>>
    [] e.ev = "target_check_model" ->     \* the conversion target must pass its own validation (logged last in a trace)
         IF e.valid THEN <<>> ELSE Fail("target_check_model." \o e.target)
    [] e.ev = "fg_to_markov_model" ->     \* FG -> MN: pairwise edges inside every factor scope
         IF ToSet(e.nodes) # AllVars(I) THEN Fail("fg_to_markov_model.nodes")
         ELSE IF USet(ToSet(e.edges)) # ScopeGraph(Factors(I)) THEN Fail("fg_to_markov_model.edges")
         ELSE IF ~BagEq([k \in 1..Len(e.factors) |-> Logged(e.factors[k])], Factors(I)) THEN Fail("fg_to_markov_model.factor_bag")
         ELSE <<>>
    [] e.ev = "triangulate" ->            \* any chordal supergraph on the same nodes
         LET U == USet(ToSet(e.edges)) IN
         IF ~(ModelEdges \subseteq U) THEN Fail("triangulate.lost_edge")
         ELSE IF ~(UNION U \subseteq AllVars(I)) THEN Fail("triangulate.new_node")
         ELSE IF ~Chordal(AllVars(I), U) THEN Fail("triangulate.not_chordal")
         ELSE <<>>
    [] e.ev = "to_junction_tree" ->
         LET cl == [k \in 1..Len(e.cliques) |-> ToSet(e.cliques[k])]
             te == {{p[1], p[2]} : p \in ToSet(e.tedges)}
             pots == [k \in 1..Len(e.pots) |-> Logged(e.pots[k])] IN
         IF Len(e.pots) # Len(e.cliques) THEN Fail("to_junction_tree.potential_count")
         ELSE IF ~TreeOK(cl, te) THEN Fail("to_junction_tree.not_a_connected_tree")
         ELSE IF ~CoversFactors(cl, Factors(I)) THEN Fail("to_junction_tree.factor_scope_not_covered")
         ELSE IF ~RIP(cl, te) THEN Fail("to_junction_tree.running_intersection")
         ELSE IF \E k \in 1..Len(cl) : pots[k].scope # cl[k] THEN Fail("to_junction_tree.potential_scope")
         ELSE IF ~FEqual(JointOf(d, AllVars(I), pots), J) THEN Fail("to_junction_tree.joint_not_preserved")
         ELSE IF ~e.names_ok THEN Fail("to_junction_tree.state_names")
         ELSE <<>>
    [] e.ev = "partition" ->
         IF PartitionZ(J) = <<e.n, e.d>> THEN <<>> ELSE [l |-> l, clause |-> "partition.value", a |-> <<>>, want |-> PartitionZ(J)]
    [] e.ev = "bp_send" ->
         LET r == Send(d, st.cliques, st.beta, st.mu, e.from, e.to, e.op)
             db == Diff(e.beta_scope, e.beta, r.beta[e.to])
             dm == Diff(e.mu_scope, e.mu, r.sigma) IN
         IF {e.from, e.to} \notin st.tedges THEN Fail("bp_send.not_a_tree_edge")
         ELSE IF db # <<>> THEN FailD("bp_send.beta", db)
         ELSE IF dm # <<>> THEN FailD("bp_send.mu", dm)
         ELSE <<>>
    [] e.ev = "bp_beliefs" ->
         LET bad == {k \in 1..Len(st.cliques) :
                        ~Proportional(Logged(e.beliefs[k]),
                                      IF e.op = "marginalize" THEN FMarg(d, J, AllVars(I) \ st.cliques[k])
                                      ELSE FMaxim(d, J, AllVars(I) \ st.cliques[k]))} IN
         IF Len(e.beliefs) # Len(st.cliques) THEN Fail("bp_beliefs.count")
         ELSE IF \E k \in 1..Len(st.cliques) : ToSet(e.beliefs[k].scope) # st.cliques[k] THEN Fail("bp_beliefs.scope")
         ELSE IF bad # {} THEN Fail("bp_beliefs.not_proportional_to_marginal")
         ELSE IF ~Calibrated(d, st.cliques, st.tedges, [k \in 1..Len(e.beliefs) |-> Logged(e.beliefs[k])],
                             [x \in st.tedges |-> LET s == CHOOSE s \in ToSet(e.sepsets) : {s.i, s.j} = x IN Logged(s.f)], e.op)
              THEN Fail("bp_beliefs.not_calibrated")
         ELSE <<>>
    [] e.ev \in {"bp_query", "ve_query"} ->
         LET Q == ToSet(e.q)
             P == PostTable(d, J, Q, e.evid)
             tot == FTotal(P) IN
         IF tot[1] = 0 THEN [l |-> l, clause |-> "SKIP.zero_evidence", a |-> <<>>, want |-> <<0, 0>>]
         ELSE IF e.exc THEN Fail(e.ev \o ".raises")
         ELSE IF e.normalised
              THEN LET df == Diff(e.q, e.result, Normalised(P)) IN
                   IF df = <<>> THEN <<>> ELSE FailD(e.ev \o ".result", df)
              \* unnormalised answers (elimination engine on Markov networks) are specified up to a positive constant
              ELSE IF Proportional(Logged([scope |-> e.q, cells |-> e.result]), P) THEN <<>>
                   ELSE Fail(e.ev \o ".result.not_proportional")
    [] e.ev = "map_query" ->
         LET Q == ToSet(e.q)
             P == PostTable(d, J, Q, e.evid) IN
         IF FTotal(P)[1] = 0 THEN [l |-> l, clause |-> "SKIP.zero_evidence", a |-> <<>>, want |-> <<0, 0>>]
         ELSE IF e.exc THEN Fail("map_query.raises")
         ELSE IF DOMAIN e.result # Q THEN Fail("map_query.assigned_variables")
         ELSE IF e.result \notin ArgMaxSet(P) THEN Fail("map_query.not_a_maximiser")
         ELSE <<>>
    \* a specified call (engine construction, calibration) raised: the calls are total on connected models
    [] e.ev = "raised" -> Fail(e.api \o ".raises")
    \* C16 frame condition of a conversion / query: the source model is what it was before the call (deep snapshot by the recorder)
    [] e.ev = "frame" -> IF e.same THEN <<>> ELSE Fail(e.api \o ".source_model_changed")
    [] OTHER -> Fail("unknown_event")

\* events that set / advance the engine state
Advance(e) ==
  CASE e.ev = "to_junction_tree" /\ e.install ->
         [st EXCEPT !.cliques = [k \in 1..Len(e.cliques) |-> ToSet(e.cliques[k])],
                    !.tedges = {{p[1], p[2]} : p \in ToSet(e.tedges)},
                    !.beta = [k \in 1..Len(e.pots) |-> Logged(e.pots[k])],
                    !.mu = [x \in {{p[1], p[2]} : p \in ToSet(e.tedges)} |-> NoMsg]]
    [] e.ev = "bp_init" ->       \* calibration (re)starts from the clique potentials
         [st EXCEPT !.beta = st.pots0, !.mu = [x \in st.tedges |-> NoMsg]]
    [] e.ev = "bp_send" ->
         LET r == Send(d, st.cliques, st.beta, st.mu, e.from, e.to, e.op) IN [st EXCEPT !.beta = r.beta, !.mu = r.mu]
    [] OTHER -> st

Init == /\ tid \in 1..Len(Traces) /\ l = 0 /\ verdict = <<>>
        /\ st = [joint |-> <<>>, cliques |-> <<>>, tedges |-> {}, beta |-> <<>>, mu |-> <<>>, pots0 |-> <<>>]
Setup == /\ l = 0
         /\ st' = [st EXCEPT !.joint = Joint(I)]
         /\ l' = 1 /\ UNCHANGED <<tid, verdict>>
Step == /\ l >= 1 /\ l <= Len(T.events) /\ verdict = <<>>
        /\ LET e == T.events[l]
               v == IF e.ev = "bp_init" THEN <<>> ELSE Check(e) IN
           /\ verdict' = IF v # <<>> /\ v.clause = "SKIP.zero_evidence" THEN <<>> ELSE v
           /\ st' = IF v = <<>> THEN (LET s2 == Advance(e) IN
                                      IF e.ev = "to_junction_tree" /\ e.install THEN [s2 EXCEPT !.pots0 = s2.beta] ELSE s2)
                    ELSE st
        /\ l' = l + 1 /\ UNCHANGED tid
Finish == /\ l = Len(T.events) + 1 /\ verdict = <<>>
          /\ verdict' = [l |-> l, clause |-> "ACCEPT", a |-> <<>>, want |-> <<0, 0>>]
          /\ l' = l + 1 /\ UNCHANGED <<tid, st>>
Next == Setup \/ Step \/ Finish
View == <<tid, l, verdict>>
Report == verdict # <<>> => PrintT(ToJson([tid |-> T.tid, v |-> verdict]))
=============================================================================
