----------------------------- MODULE Trace_C06 -----------------------------
(***************************************************************************)
(* Trace validation for parameter learning (property C06).  Every trace    *)
(* is ONE call recorded from the real code on seeded random input:         *)
(*   ev = "fit"     data (dom, weighted rows), parent sets, the estimator  *)
(*                  (mle / k2 / bdeu / dir_scalar / dir_table with the     *)
(*                  explicit pseudo counts) and the returned CPDs `got`,   *)
(*                  projected by NAME onto abstract tokens, rationalised.  *)
(*   ev = "update"  the same for an incremental update: the previous CPDs  *)
(*                  `prev`, the previous sample size, the new rows and the *)
(*                  returned CPDs.                                         *)
(*   ev = "em_ll"   the observed-data log-likelihoods (scaled by 10^6 and  *)
(*                  rounded down by the driver) reached by EM runs of      *)
(*                  0, 1, 2, ... iterations from the same starting point.  *)
(* The verdict is total: ACCEPT, or the failing clause with the node, the  *)
(* assignment and the exact expected value.  For em_ll the clause is the   *)
(* action property  ll' >= ll - Slack  of the likelihood sequence.         *)
(***************************************************************************)
EXTENDS LearnLib, Json, IOUtils
CONSTANTS Slack
Traces == JsonDeserialize(IOEnv.TRACE_FILE)
VARIABLES tid, verdict
vars == <<tid, verdict>>
T == Traces[tid]

Accept == [clause |-> "ACCEPT", node |-> "", at |-> <<>>, want |-> RZero]
Fail(c, v, at, want) == [clause |-> c, node |-> v, at |-> at, want |-> want]

Cols == DOMAIN T.parents
PaT(v) == ToSet(T.parents[v])

\* Tables (explicit pseudo counts, previous CPDs, returned CPDs) are logged in the 2-D layout of property C05 over the
\* ABSTRACT orders: row i = i-th state of v in T.dom[v], column j = j-th parent configuration, row-major over the
\* sequence T.parents[v] (first parent slowest), each parent's states in T.dom order.
Idx(seq, x) == CHOOSE i \in 1..Len(seq) : seq[i] = x
RECURSIVE ColAcc(_, _, _, _)
ColAcc(ps, a, i, acc) == IF i > Len(ps) THEN acc
                         ELSE ColAcc(ps, a, i + 1, acc * Len(T.dom[ps[i]]) + (Idx(T.dom[ps[i]], a[ps[i]]) - 1))
NCols(v) == FoldSet(LAMBDA p, acc : acc * Len(T.dom[p]), 1, PaT(v))
TabVal(tab, v, a) == tab[Idx(T.dom[v], a[v])][ColAcc(T.parents[v], a, 1, 0) + 1]
ShapeOK(tab, v) == Len(tab) = Len(T.dom[v]) /\ \A i \in 1..Len(tab) : Len(tab[i]) = NCols(v)
AlphaFrom(tab, v) == [a \in Assign(T.dom, Fam(v, PaT(v))) |-> TabVal(tab, v, a)]

ExpectedOf(v) ==
    LET P == PaT(v)
        d == T.dom IN
    CASE T.ev = "update" -> Bayes(d, T.rows, v, P, PrevAlpha(AlphaFrom(T.prev[v], v), RInt(T.nprev)))
      [] T.prior.kind = "mle" -> MLE(d, T.rows, v, P)
      [] T.prior.kind = "k2" -> Bayes(d, T.rows, v, P, K2Alpha(d, v, P))
      [] T.prior.kind = "bdeu" -> Bayes(d, T.rows, v, P, BDeuAlpha(d, v, P, T.prior.x))
      [] T.prior.kind = "dir_scalar" -> Bayes(d, T.rows, v, P, ConstAlpha(d, v, P, T.prior.x))
      [] T.prior.kind = "dir_table" -> Bayes(d, T.rows, v, P, AlphaFrom(T.alpha[v], v))

NodeVerdict(v) ==
    IF v \notin DOMAIN T.got THEN Fail("missing_cpd", v, <<>>, RZero)
    ELSE IF ~ShapeOK(T.got[v], v) THEN Fail("cells", v, <<>>, RZero)
    ELSE LET want == ExpectedOf(v)
             bad == {a \in DOMAIN want : TabVal(T.got[v], v, a) # want[a]} IN
         IF bad = {} THEN Accept ELSE LET a == CHOOSE a \in bad : TRUE IN Fail("value", v, a, want[a])

\* (a set is evaluated once; a function over Cols would be re-evaluated at every application)
FitVerdict ==
    LET bad == {r \in {NodeVerdict(v) : v \in Cols} : r.clause # "ACCEPT"} IN
    IF bad = {} THEN Accept ELSE CHOOSE r \in bad : TRUE

\* the action property of the likelihood sequence: never decreases by more than Slack (in units of 10^-6)
LLVerdict ==
    LET bad == {k \in 1..(Len(T.ll) - 1) : T.ll[k + 1] < T.ll[k] - Slack} IN
    IF bad = {} THEN Accept
    ELSE LET k == CHOOSE k \in bad : \A j \in bad : k <= j IN Fail("ll_decreased", "", <<k>>, <<T.ll[k], 1>>)

Init == /\ tid \in 1..Len(Traces)
        /\ verdict = <<>>
ValidateFit == /\ verdict = <<>> /\ T.ev \in {"fit", "update"}
               /\ verdict' = FitVerdict
               /\ UNCHANGED tid
ValidateLL == /\ verdict = <<>> /\ T.ev = "em_ll"
              /\ verdict' = LLVerdict
              /\ UNCHANGED tid
Next == ValidateFit \/ ValidateLL

Report == verdict # <<>> => PrintT(ToJson([tid |-> T.tid, v |-> verdict]))
=============================================================================
