-------------------------------- MODULE MNLib --------------------------------
(***************************************************************************)
(* Markov networks / factor graphs / clique trees over the exact factor    *)
(* algebra.  An instance (JSON) is                                         *)
(*   [vars : Seq, dom : var -> Seq(state), factors : Seq([scope, cells]),  *)
(*    edges : Seq(<<u,v>>)  (interaction graph; for a BN: its moral graph  *)
(*    is derived from parents : var -> Seq(var))]                          *)
(* The distribution is the normalised product of ALL factors, each used    *)
(* exactly once (a bag: equal factors count twice).                        *)
(***************************************************************************)
EXTENDS FactorAlg, DagLib

FromJson(d, jf) ==
    [scope |-> ToSet(jf.scope),
     val |-> [a \in Assign(d, ToSet(jf.scope)) |-> LET c == CHOOSE c \in ToSet(jf.cells) : c.a = a IN R(c.n, c.d)]]
Factors(I) == [k \in 1..Len(I.factors) |-> FromJson(I.dom, I.factors[k])]
AllVars(I) == ToSet(I.vars)

\* unnormalised joint measure as one factor over all variables
FUnitOver(d, S) == [scope |-> S, val |-> [a \in Assign(d, S) |-> ROne]]
JointOf(d, V, fs) == FoldFunction(LAMBDA f, acc : FProduct(d, acc, f), FUnitOver(d, V), fs)
Joint(I) == JointOf(I.dom, AllVars(I), Factors(I))
PartitionZ(J) == FTotal(J)

\* posterior weights over Q given hard evidence e (function var -> state): unnormalised
PostTable(d, J, Q, e) == FMarg(d, FReduce(d, J, e), (J.scope \ DOMAIN e) \ Q)
MaxTable(d, J, Q, e) == FMaxim(d, FReduce(d, J, e), (J.scope \ DOMAIN e) \ Q)
Normalised(f) == FNormalize(f)
ArgMaxSet(f) == {a \in DOMAIN f.val : \A b \in DOMAIN f.val : RLe(f.val[b], f.val[a])}
\* two non-negative factors over the same scope are proportional
Proportional(f, g) == /\ f.scope = g.scope
                      /\ LET tf == FTotal(f)  tg == FTotal(g) IN
                         \A a \in DOMAIN f.val : RDiv(f.val[a], tf) = RDiv(g.val[a], tg)

(***************************************************************************)
(* Structural predicates                                                   *)
(***************************************************************************)
USet(pairs) == {{p[1], p[2]} : p \in pairs}              \* sequences/sets of 2-tuples -> undirected edge set
ScopeGraph(fs) == UNION {{{p[1], p[2]} : p \in {q \in fs[k].scope \X fs[k].scope : q[1] # q[2]}} : k \in 1..Len(fs)}

\* a clique tree: cliques : Seq(set of vars), tedges : set of 2-sets of indices
TreeOK(cliques, tedges) ==
    LET N == 1..Len(cliques) IN
    /\ \A e \in tedges : e \subseteq N /\ Cardinality(e) = 2
    /\ UConnected(N, tedges)
    /\ Cardinality(tedges) = Len(cliques) - 1
CoversFactors(cliques, fs) == \A k \in 1..Len(fs) : \E i \in 1..Len(cliques) : fs[k].scope \subseteq cliques[i]
\* running intersection: for every variable the cliques containing it induce a connected subtree
RIP(cliques, tedges) ==
    \A v \in UNION {cliques[i] : i \in 1..Len(cliques)} :
        LET Nv == {i \in 1..Len(cliques) : v \in cliques[i]}
            Ev == {e \in tedges : e \subseteq Nv}
        IN UConnected(Nv, Ev)
SepsetsNonEmpty(cliques, tedges) == \A e \in tedges : \A i, j \in e : i # j => cliques[i] \cap cliques[j] # {}

(***************************************************************************)
(* Belief-update message passing on a clique tree                          *)
(*   beta : Seq(factor)  (index = clique),  mu : edge -> factor or NoMsg   *)
(***************************************************************************)
NoMsg == [scope |-> {"_none_"}, val |-> <<>>]
Send(d, cliques, beta, mu, i, j, op) ==
    LET sep == cliques[i] \cap cliques[j]
        sigma == IF op = "marginalize" THEN FMarg(d, beta[i], cliques[i] \ sep) ELSE FMaxim(d, beta[i], cliques[i] \ sep)
        e == {i, j}
        upd == IF mu[e] = NoMsg THEN sigma ELSE FDivide(d, sigma, mu[e])
    IN [beta |-> [beta EXCEPT ![j] = FProduct(d, beta[j], upd)],
        mu |-> [mu EXCEPT ![e] = sigma],
        sigma |-> sigma]
\* calibrated: neighbouring cliques agree on their sepset (sum or max), and mu is that marginal
Calibrated(d, cliques, tedges, beta, mu, op) ==
    \A e \in tedges : \A i, j \in e : i # j =>
        LET sep == cliques[i] \cap cliques[j]
            mi == IF op = "marginalize" THEN FMarg(d, beta[i], cliques[i] \ sep) ELSE FMaxim(d, beta[i], cliques[i] \ sep)
            mj == IF op = "marginalize" THEN FMarg(d, beta[j], cliques[j] \ sep) ELSE FMaxim(d, beta[j], cliques[j] \ sep)
        IN FEqual(mi, mj) /\ FEqual(mi, mu[e])
=============================================================================
