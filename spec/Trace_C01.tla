----------------------------- MODULE Trace_C01 -----------------------------
(***************************************************************************)
(* Trace validation of variable elimination.  A trace is one query on a    *)
(* network recorded from the real code with hook H-VE:                     *)
(*   [tid, inst, q, ev, virt, steps : Seq([var, scope, vals]), result]     *)
(* Each step must be Eliminate(var) of the VE machine from the current     *)
(* spec state (var still to eliminate; the new factor phi equal to the     *)
(* spec's, entry by entry, by named assignment, as exact fractions), the   *)
(* sequence must eliminate exactly the variables the machine must, and the *)
(* returned table must be the exact posterior of the full joint.           *)
(* Verdicts are total; a mismatch reports the clause and the expected      *)
(* exact value so the harness can rule out a float-rationalisation artefact*)
(***************************************************************************)
EXTENDS VE, Json, IOUtils
Traces == JsonDeserialize(IOEnv.TRACE_FILE)

VARIABLES tid, l, fs, rem, verdict, aux
vars == <<tid, l, fs, rem, verdict, aux>>
T == Traces[tid]

Augment(bb, vt) ==
    LET VN == {bb.virtname[v] : v \in DOMAIN vt}
        src == [n \in VN |-> CHOOSE v \in DOMAIN vt : bb.virtname[v] = n]
    IN [id |-> bb.id,
        nodes |-> bb.nodes \o SetToSeq(VN),
        states |-> bb.states @@ [n \in VN |-> <<"t0", "t1">>],
        parents |-> bb.parents @@ [n \in VN |-> <<src[n]>>],
        cpd |-> bb.cpd @@ [n \in VN |-> [den |-> vt[src[n]].den,
                                         tab |-> <<vt[src[n]].w,
                                                   [i \in 1..Len(vt[src[n]].w) |-> vt[src[n]].den - vt[src[n]].w[i]]>>]],
        latents |-> bb.latents]
AugEv(bb, e, vt) == e @@ [n \in {bb.virtname[v] : v \in DOMAIN vt} |-> "t0"]
VirtWeights(vt) == [v \in DOMAIN vt |-> vt[v].w]

B == Augment(T.inst, T.virt)
EE == AugEv(T.inst, T.ev, T.virt)
Qs == ToSet(T.q)

Init == /\ tid \in 1..Len(Traces) /\ l = 0 /\ fs = <<>> /\ rem = {} /\ verdict = <<>> /\ aux = <<>>

Setup ==
    /\ l = 0
    /\ LET all == InitFactorsAll(B, Qs, EE) IN
       /\ fs' = NonConst(all)
       /\ rem' = Keep(B, Qs, EE) \ (Qs \cup DOMAIN EE)
    /\ l' = 1 /\ UNCHANGED <<tid, verdict, aux>>

\* compare a logged table (Seq of [a, n, d]) with a spec factor; returns <<>> or the first mismatch
TableDiff(logged, f) ==
    LET bad == {r \in ToSet(logged) : r.a \notin DOMAIN f.val \/ Red(f.val[r.a], f.den) # <<r.n, r.d>>}
    IN IF Len(logged) # Cardinality(DOMAIN f.val) THEN [clause |-> "size", a |-> <<>>, want |-> <<Cardinality(DOMAIN f.val), 0>>]
       ELSE IF bad = {} THEN <<>>
       ELSE LET r == CHOOSE r \in bad : TRUE IN
            [clause |-> "value", a |-> r.a,
             want |-> IF r.a \in DOMAIN f.val THEN <<f.val[r.a], f.den>> ELSE <<0, 0>>]

Step ==
    /\ l >= 1 /\ l <= Len(T.steps) /\ verdict = <<>>
    /\ LET s == T.steps[l] IN
       IF s.var \notin rem
       THEN verdict' = [l |-> l, clause |-> "VE.Eliminate.var_not_pending", a |-> <<>>, want |-> <<0, 0>>] /\ UNCHANGED <<fs, rem>>
       ELSE LET r == ElimStep(B, fs, s.var, "sum")
                d == IF ToSet(s.scope) # r.phi.scope THEN [clause |-> "scope", a |-> <<>>, want |-> <<0, 0>>]
                     ELSE TableDiff(s.vals, r.phi) IN
            /\ verdict' = IF d = <<>> THEN <<>> ELSE [l |-> l, clause |-> "VE.Eliminate.phi." \o d.clause, a |-> d.a, want |-> d.want]
            /\ fs' = IF r.phi.scope = {} THEN r.fs ELSE Append(r.fs, r.phi)
            /\ rem' = rem \ {s.var}
    /\ l' = l + 1 /\ UNCHANGED <<tid, aux>>

\* after the last step: everything eliminated, and the answer is the posterior of the FULL joint
Finish ==
    /\ l = Len(T.steps) + 1 /\ verdict = <<>>
    /\ LET J == JointTable(T.inst)
           post == Posterior(T.inst, J, Qs, T.ev, VirtWeights(T.virt))
           tot == PostTot(T.inst, J, T.ev, VirtWeights(T.virt))
           pf == [scope |-> Qs, val |-> post, den |-> tot]
           d == TableDiff(T.result, pf) IN
       verdict' = IF tot = 0 THEN [l |-> l, clause |-> "SKIP.zero_evidence", a |-> <<>>, want |-> <<0, 0>>]
                  ELSE IF rem # {} THEN [l |-> l, clause |-> "VE.incomplete_elimination", a |-> <<>>, want |-> <<0, 0>>]
                  ELSE IF d = <<>> THEN [l |-> l, clause |-> "ACCEPT", a |-> <<>>, want |-> <<0, 0>>]
                  ELSE [l |-> l, clause |-> "Query.result." \o d.clause, a |-> d.a, want |-> d.want]
    /\ l' = l + 1 /\ UNCHANGED <<tid, fs, rem, aux>>

Next == Setup \/ Step \/ Finish
Report == verdict # <<>> => PrintT(ToJson([tid |-> T.tid, v |-> verdict]))
=============================================================================
