------------------------------ MODULE FactorAlg ------------------------------
(***************************************************************************)
(* Discrete-factor algebra (property C04) as an object store with exact    *)
(* rational values.                                                        *)
(*   value   <<n, d>> with d >= 0; <<1,0>> = +inf (x/0), <<0,0>> = NaN     *)
(*   factor  [scope : SUBSET Var, val : Assign(scope) -> value]            *)
(*   store   Seq(factor)   -- object identities o1, o2, ...                *)
(* dom : Var -> Seq(state) is the (shared) declared state list of every    *)
(* variable: operands that share a variable agree on its state list.       *)
(* Every operation is the textbook pointwise definition on named           *)
(* assignments.  In-place variants replace exactly the target object,      *)
(* out-of-place variants append a fresh object; nothing else changes.      *)
(***************************************************************************)
EXTENDS Naturals, Integers, Sequences, FiniteSets, FiniteSetsExt, Functions, TLC

ToSet(s) == {s[i] : i \in 1..Len(s)}

RECURSIVE GCD(_, _)
GCD(a, c) == IF c = 0 THEN a ELSE GCD(c, a % c)
Inf == <<1, 0>>
NaN == <<0, 0>>
IsNaN(x) == x = NaN
IsInf(x) == x = Inf
Fin(x) == x[2] > 0
R(n, d) == IF d = 0 THEN (IF n = 0 THEN NaN ELSE Inf)
           ELSE IF n = 0 THEN <<0, 1>> ELSE LET g == GCD(n, d) IN <<n \div g, d \div g>>
RZero == <<0, 1>>
ROne == <<1, 1>>
RInt(k) == <<k, 1>>
RAdd(x, y) == IF IsNaN(x) \/ IsNaN(y) THEN NaN
              ELSE IF IsInf(x) \/ IsInf(y) THEN Inf
              ELSE LET g == GCD(x[2], y[2])      \* add over the least common denominator (keeps intermediates small)
                   IN R(x[1] * (y[2] \div g) + y[1] * (x[2] \div g), (x[2] \div g) * y[2])
\* product of reduced fractions with cross-cancellation first: no intermediate exceeds the (reduced) result
XMul(a, b, c, e) == IF a = 0 \/ c = 0 THEN <<0, 1>>
                    ELSE LET g1 == GCD(a, e)  g2 == GCD(c, b)
                         IN <<(a \div g1) * (c \div g2), (b \div g2) * (e \div g1)>>
RMul(x, y) == IF IsNaN(x) \/ IsNaN(y) THEN NaN
              ELSE IF IsInf(x) THEN (IF y[1] = 0 THEN NaN ELSE Inf)
              ELSE IF IsInf(y) THEN (IF x[1] = 0 THEN NaN ELSE Inf)
              ELSE XMul(x[1], x[2], y[1], y[2])
\* factor division: 0/0 = 0, x/0 = inf
RDiv(x, y) == IF IsNaN(x) \/ IsNaN(y) THEN NaN
              ELSE IF IsInf(x) THEN (IF IsInf(y) THEN NaN ELSE Inf)
              ELSE IF IsInf(y) THEN RZero
              ELSE IF y[1] = 0 THEN (IF x[1] = 0 THEN RZero ELSE Inf)
              ELSE XMul(x[1], x[2], y[2], y[1])
\* (compared over the least common denominator: values of one table share most of their denominators, the products stay small)
RLe(x, y) == IF IsInf(y) THEN TRUE ELSE IF IsInf(x) THEN FALSE
             ELSE LET g == GCD(x[2], y[2]) IN x[1] * (y[2] \div g) <= y[1] * (x[2] \div g)

Assign(dom, S) == {f \in [S -> UNION {ToSet(dom[v]) : v \in S}] : \A v \in S : f[v] \in ToSet(dom[v])}
Restr(a, S) == [v \in S |-> a[v]]

RSum(S, f(_)) == FoldSet(LAMBDA x, acc : RAdd(f(x), acc), RZero, S)
RMax(S, f(_)) == LET vals == {f(x) : x \in S} IN CHOOSE m \in vals : \A y \in vals : RLe(y, m)

FProduct(dom, f, g) == LET S == f.scope \cup g.scope IN
    [scope |-> S, val |-> [a \in Assign(dom, S) |-> RMul(f.val[Restr(a, f.scope)], g.val[Restr(a, g.scope)])]]
FSum(dom, f, g) == LET S == f.scope \cup g.scope IN
    [scope |-> S, val |-> [a \in Assign(dom, S) |-> RAdd(f.val[Restr(a, f.scope)], g.val[Restr(a, g.scope)])]]
FDivide(dom, f, g) ==     \* requires g.scope \subseteq f.scope
    [scope |-> f.scope, val |-> [a \in Assign(dom, f.scope) |-> RDiv(f.val[a], g.val[Restr(a, g.scope)])]]
FMarg(dom, f, V) == LET S == f.scope \ V IN
    [scope |-> S, val |-> [a \in Assign(dom, S) |-> RSum(Assign(dom, V), LAMBDA e : f.val[a @@ e])]]
FMaxim(dom, f, V) == LET S == f.scope \ V IN
    [scope |-> S, val |-> [a \in Assign(dom, S) |-> RMax(Assign(dom, V), LAMBDA e : f.val[a @@ e])]]
FReduce(dom, f, e) == LET S == f.scope \ DOMAIN e IN
    [scope |-> S, val |-> [a \in Assign(dom, S) |-> f.val[a @@ e]]]
FTotal(f) == RSum(DOMAIN f.val, LAMBDA a : f.val[a])
FNormalize(f) == LET t == FTotal(f) IN [scope |-> f.scope, val |-> [a \in DOMAIN f.val |-> RDiv(f.val[a], t)]]
FScalarMul(f, c) == [scope |-> f.scope, val |-> [a \in DOMAIN f.val |-> RMul(f.val[a], RInt(c))]]
FScalarAdd(f, c) == [scope |-> f.scope, val |-> [a \in DOMAIN f.val |-> RAdd(f.val[a], RInt(c))]]
FSetValue(f, a, c) == [scope |-> f.scope, val |-> [f.val EXCEPT ![a] = RInt(c)]]
FEqual(f, g) == f.scope = g.scope /\ \A a \in DOMAIN f.val : f.val[a] = g.val[a]
\* inner product of two factors over the same scope (pgmpy.factors.FactorDict.dot, one clique): sum over named assignments
FDot(dom, f, g) == FTotal(FProduct(dom, f, g))
HasNaN(f) == \E a \in DOMAIN f.val : IsNaN(f.val[a])
HasInf(f) == \E a \in DOMAIN f.val : IsInf(f.val[a])

(***************************************************************************)
(* Operations on the store.  An operation record is                        *)
(*   [op, i, j, vars : Seq(Var), asg : function, c : Int, inplace : BOOL]  *)
(***************************************************************************)
Binary == {"product", "sum", "divide"}
Result(dom, store, o) ==
    LET f == store[o.i] IN
    CASE o.op = "product"     -> FProduct(dom, f, store[o.j])
      [] o.op = "sum"         -> FSum(dom, f, store[o.j])
      [] o.op = "divide"      -> FDivide(dom, f, store[o.j])
      [] o.op = "marginalize" -> FMarg(dom, f, ToSet(o.vars))
      [] o.op = "maximize"    -> FMaxim(dom, f, ToSet(o.vars))
      [] o.op = "reduce"      -> FReduce(dom, f, o.asg)
      [] o.op = "normalize"   -> FNormalize(f)
      [] o.op = "scalar_product" -> FScalarMul(f, o.c)
      [] o.op = "scalar_sum"  -> FScalarAdd(f, o.c)
      [] o.op = "set_value"   -> FSetValue(f, o.asg, o.c)
      [] o.op = "copy"        -> f
      [] OTHER                -> f

\* precondition under which pgmpy is specified to succeed
Enabled(dom, store, o) ==
    /\ o.i \in 1..Len(store)
    /\ CASE o.op \in {"product", "sum"} -> o.j \in 1..Len(store)
         [] o.op = "divide" -> o.j \in 1..Len(store) /\ store[o.j].scope \subseteq store[o.i].scope
         [] o.op \in {"marginalize", "maximize"} -> ToSet(o.vars) # {} /\ ToSet(o.vars) \subseteq store[o.i].scope
         [] o.op = "reduce" -> DOMAIN o.asg # {} /\ DOMAIN o.asg \subseteq store[o.i].scope
         [] o.op = "set_value" -> DOMAIN o.asg = store[o.i].scope
         [] o.op = "eq" -> o.j \in 1..Len(store)
         [] OTHER -> TRUE

Apply(dom, store, o) ==
    IF o.op = "eq" THEN [store |-> store, ret |-> FEqual(store[o.i], store[o.j])]
    ELSE LET r == Result(dom, store, o) IN
         IF o.inplace /\ o.op # "copy"
         THEN [store |-> [store EXCEPT ![o.i] = r], ret |-> "none"]
         ELSE [store |-> Append(store, r), ret |-> "new"]

\* JSON-able projection of a factor / store
Proj(f) == [scope |-> f.scope, cells |-> {[a |-> a, v |-> f.val[a]] : a \in DOMAIN f.val}]
ProjStore(store) == [i \in 1..Len(store) |-> Proj(store[i])]
=============================================================================
