---------------------------------- MODULE VE ----------------------------------
(***************************************************************************)
(* Variable elimination as pgmpy codes it (inference/ExactInference.py,    *)
(* inference/base.py), as a step machine:                                  *)
(*   Prune        _prune_bayesian_model: keep nodes d-connected to the     *)
(*                query given the evidence (+ all evidence nodes), then    *)
(*                the ancestral graph of query+evidence; CPDs that lose a  *)
(*                parent are marginalised *uniformly* over it (what        *)
(*                TabularCPD.marginalize does)                             *)
(*   Reduce       _get_working_factors: slice every factor at the evidence *)
(*   Eliminate(v) one iteration of the loop, for ANY remaining variable v  *)
(*                (elimination order = nondeterminism; set iteration order *)
(*                of Python = the same nondeterminism)                     *)
(*   Finish       product of what is left, normalised                      *)
(* A factor is [scope, val : Assigns(scope) -> Nat, den : Nat] meaning     *)
(* val/den.  Factors whose scope becomes empty are constants; the code     *)
(* drops them, the spec multiplies them into const so that the invariant   *)
(* is an exact equality.                                                   *)
(* op \in {"sum","max"} selects sum-product or max-product.                *)
(***************************************************************************)
EXTENDS BNLib

\* ---- pruning ------------------------------------------------------------
EvVars(ev) == DOMAIN ev
Keep1(b, Q, ev) == UNION {ActiveSet(BNodes(b), BEdges(b), q, EvVars(ev)) : q \in Q} \cup EvVars(ev)
Keep(b, Q, ev) == LET K1 == Keep1(b, Q, ev)
                      E1 == {e \in BEdges(b) : e[1] \in K1 /\ e[2] \in K1}
                  IN AncOS(E1, Q \cup EvVars(ev)) \cap K1
Dropped(b, K, v) == BParSet(b, v) \ K
NConf(b, S) == FoldSet(LAMBDA p, acc : acc * BCard(b, p), 1, S)

\* CPD of v in the pruned network as a factor over ({v} + kept parents), dropped parents averaged out
PrunedCPD(b, K, v) ==
    LET D == Dropped(b, K, v)
        S == ({v} \cup BParSet(b, v)) \ D
    IN [scope |-> S,
        val |-> [a \in Assigns(b, S) |-> SumOver(Assigns(b, D), LAMBDA d : CPDNum(b, v, a @@ d))],
        den |-> CPDDen(b, v) * NConf(b, D)]

\* ---- factor operations (pointwise definitions) ---------------------------
FReduce(b, f, ev) ==
    LET S == f.scope \ DOMAIN ev
        e == [v \in f.scope \cap DOMAIN ev |-> ev[v]]
    IN [scope |-> S, val |-> [a \in Assigns(b, S) |-> f.val[a @@ e]], den |-> f.den]
FMul(b, f, g) ==
    LET S == f.scope \cup g.scope
    IN [scope |-> S, val |-> [a \in Assigns(b, S) |-> f.val[Restr(a, f.scope)] * g.val[Restr(a, g.scope)]],
        den |-> f.den * g.den]
FUnit == [scope |-> {}, val |-> [a \in {<<>>} |-> 1], den |-> 1]
RECURSIVE FProdSeq(_, _)
FProdSeq(b, fs) == IF fs = <<>> THEN FUnit
                   ELSE IF Len(fs) = 1 THEN fs[1] ELSE FMul(b, fs[1], FProdSeq(b, Tail(fs)))
MaxOver(S, f(_)) == CHOOSE m \in {f(x) : x \in S} : \A x \in S : f(x) <= m
FElim(b, f, v, op) ==
    LET S == f.scope \ {v} IN
    [scope |-> S,
     val |-> [a \in Assigns(b, S) |->
                IF op = "sum" THEN SumOver(Assigns(b, {v}), LAMBDA s : f.val[a @@ s])
                ELSE MaxOver(Assigns(b, {v}), LAMBDA s : f.val[a @@ s])],
     den |-> f.den]

SelectSeq2(s, T(_)) == SelectSeq(s, T)

\* ---- the machine ----------------------------------------------------------
\* initial working factors for (b, Q, ev): pruned CPDs reduced at the evidence, non-empty scopes only
InitFactorsAll(b, Q, ev) ==
    LET K == Keep(b, Q, ev)
        ks == SetToSeq(K)
    IN [i \in 1..Len(ks) |-> FReduce(b, PrunedCPD(b, K, ks[i]), ev)]
NonConst(fs) == SelectSeq(fs, LAMBDA f : f.scope # {})
ConstOf(fs) == LET cs == SelectSeq(fs, LAMBDA f : f.scope = {})
               IN [num |-> FoldFunction(LAMBDA f, acc : acc * f.val[<<>>], 1, cs),
                   den |-> FoldFunction(LAMBDA f, acc : acc * f.den, 1, cs)]

\* one elimination step on a factor list; returns [fs, phi]
ElimStep(b, fs, v, op) ==
    LET inv == SelectSeq(fs, LAMBDA f : v \in f.scope)
        rest == SelectSeq(fs, LAMBDA f : v \notin f.scope)
        phi == FElim(b, FProdSeq(b, inv), v, op)
    IN [fs |-> rest, phi |-> phi]

\* value of the product of a factor list at assignment a (a covers all scopes)
ProdAt(fs, a) == FoldFunction(LAMBDA f, acc : acc * f.val[Restr(a, f.scope)], 1, fs)
DenOf(fs) == FoldFunction(LAMBDA f, acc : acc * f.den, 1, fs)
=============================================================================
