-------------------------------- MODULE BNLib --------------------------------
(***************************************************************************)
(* Discrete Bayesian networks with exact integer arithmetic.               *)
(*                                                                         *)
(* An instance b (read from JSON, abstract tokens only) is a record        *)
(*   nodes   : Seq(var)                                                    *)
(*   states  : var -> Seq(state)          declared state order             *)
(*   parents : var -> Seq(var)            declared evidence order          *)
(*   cpd     : var -> [den : Nat, tab : Seq(Seq(Nat))]                     *)
(*   latents : Seq(var)                                                    *)
(* tab is the 2-D table exactly as handed to TabularCPD: row i = i-th      *)
(* state of the variable, column j = j-th parent configuration in          *)
(* row-major order of the declared evidence list (first parent slowest);   *)
(* the probability is tab[i][j] / den.  This layout rule is part of the    *)
(* specification (property C05).                                           *)
(*                                                                         *)
(* All probabilistic quantities are integer weights over a common          *)
(* denominator, so posteriors are ratios <<num, tot>> of naturals.         *)
(***************************************************************************)
EXTENDS DagLib, Functions, FiniteSetsExt

ToSet(s) == {s[i] : i \in 1..Len(s)}
Idx(seq, x) == CHOOSE i \in 1..Len(seq) : seq[i] = x

BNodes(b) == ToSet(b.nodes)
BStates(b, v) == b.states[v]
BCard(b, v) == Len(b.states[v])
BPar(b, v) == b.parents[v]
BParSet(b, v) == ToSet(b.parents[v])
BEdges(b) == UNION {{<<b.parents[v][i], v>> : i \in 1..Len(b.parents[v])} : v \in BNodes(b)}
BLatents(b) == ToSet(b.latents)
AllStateTokens(b) == UNION {ToSet(b.states[v]) : v \in BNodes(b)}

\* all assignments (functions) of the variable set S
Assigns(b, S) == {f \in [S -> AllStateTokens(b)] : \A v \in S : f[v] \in ToSet(b.states[v])}
Agrees(a, f) == \A v \in DOMAIN f : v \in DOMAIN a => a[v] = f[v]
Restr(a, S) == [v \in S |-> a[v]]

\* 0-based column of the parent configuration of a in the declared order ps (row-major)
RECURSIVE ColAcc(_, _, _, _, _)
ColAcc(b, ps, a, i, acc) ==
    IF i > Len(ps) THEN acc
    ELSE ColAcc(b, ps, a, i + 1, acc * BCard(b, ps[i]) + (Idx(b.states[ps[i]], a[ps[i]]) - 1))
NumCols(b, v) == FoldSet(LAMBDA p, acc : acc * BCard(b, p), 1, BParSet(b, v))

\* numerator of P(v = a[v] | parents = a[parents]); a must cover v and its parents
CPDNum(b, v, a) == b.cpd[v].tab[Idx(b.states[v], a[v])][ColAcc(b, b.parents[v], a, 1, 0) + 1]
CPDDen(b, v) == b.cpd[v].den

\* weight of a full assignment: product of all CPD numerators (denominator: product of all dens)
Weight(b, a) == FoldSet(LAMBDA v, acc : acc * CPDNum(b, v, a), 1, BNodes(b))
JointTable(b) == [a \in Assigns(b, BNodes(b)) |-> Weight(b, a)]

\* virtual evidence: virt is a function var -> Seq(Nat) (likelihood weights aligned with states)
VirtW(b, virt, a) == FoldSet(LAMBDA v, acc : acc * virt[v][Idx(b.states[v], a[v])], 1, DOMAIN virt)

SumOver(S, f(_)) == MapThenSumSet(f, S)

\* unnormalised posterior weight of the partial assignment q given hard evidence ev and virtual evidence
PostNum(b, joint, q, ev, virt) ==
    SumOver({a \in DOMAIN joint : Agrees(a, q) /\ Agrees(a, ev)}, LAMBDA a : joint[a] * VirtW(b, virt, a))
PostTot(b, joint, ev, virt) == PostNum(b, joint, <<>>, ev, virt)
\* the posterior table over the variable set Q: q |-> weight  (probability = weight / PostTot)
Posterior(b, joint, Q, ev, virt) == [q \in Assigns(b, Q) |-> PostNum(b, joint, q, ev, virt)]
\* set of maximisers of the posterior over Q
MAPSet(b, joint, Q, ev, virt) ==
    LET P == Posterior(b, joint, Q, ev, virt) IN {q \in DOMAIN P : \A r \in DOMAIN P : P[r] <= P[q]}

(***************************************************************************)
(* Validity (check_model) clauses                                          *)
(***************************************************************************)
ColSumsOK(b, v) == \A j \in 1..NumCols(b, v) :
    FoldSet(LAMBDA i, acc : acc + b.cpd[v].tab[i][j], 0, 1..BCard(b, v)) = b.cpd[v].den
ShapeOK(b, v) == /\ Len(b.cpd[v].tab) = BCard(b, v)
                 /\ \A i \in 1..BCard(b, v) : Len(b.cpd[v].tab[i]) = NumCols(b, v)
ValidBN(b) == /\ Acyclic(BNodes(b), BEdges(b))
              /\ \A v \in BNodes(b) : ShapeOK(b, v) /\ ColSumsOK(b, v)

(***************************************************************************)
(* Rational helpers (fractions <<n, d>> of naturals, d > 0)                *)
(***************************************************************************)
RECURSIVE GCD(_, _)
GCD(a, c) == IF c = 0 THEN a ELSE GCD(c, a % c)
Red(n, d) == IF n = 0 THEN <<0, 1>> ELSE LET g == GCD(n, d) IN <<n \div g, d \div g>>
=============================================================================
