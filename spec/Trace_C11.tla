----------------------------- MODULE Trace_C11 -----------------------------
(***************************************************************************)
(* Trace validation for hill climbing (property C11).                      *)
(*                                                                         *)
(* A trace is ONE call of HillClimbSearch.estimate recorded from the real  *)
(* code: the options, the integer score table the code was driven with     *)
(* (or the table read back from a real score object, scaled to integers,   *)
(* then tol > 0), and for EVERY iteration the arguments and the complete   *)
(* output of the legal-move generator:                                     *)
(*    ev[l].edges  the current graph      ev[l].tabu   the tabu list       *)
(*    ev[l].legal  every legal operation with its score delta              *)
(* plus the returned graph (final, final_nodes) and the caller's start     *)
(* graph object after the call (start_after).                              *)
(*                                                                         *)
(* One spec step per iteration, from the spec's own state (E, tabu):       *)
(*   state.*      the code's graph / tabu list equal the spec's            *)
(*   legal.*      the generated set EQUALS SearchLib!Legal (missing or     *)
(*                spurious operations are named with the broken side       *)
(*                condition)                                               *)
(*   delta.*      every delta equals the table difference (+- tol)         *)
(*   the next graph is the result of AN arg-max legal operation whose      *)
(*   delta is >= eps, or the run stops because there is none; a run that   *)
(*   ends after applying an operation must have used up max_iter           *)
(* Finish evaluates the CONTRACT (SearchLib!ContractFailures) on the       *)
(* returned graph whatever the steps said, and the frame condition that    *)
(* the caller's start graph is unchanged.  Verdicts are total: exactly one *)
(* line per trace.                                                         *)
(***************************************************************************)
EXTENDS SearchLib, Json, IOUtils
Traces == JsonDeserialize(IOEnv.TRACE_FILE)

\* tr = the trace, px = its sets (variables: IOEnv-dependent definitions are re-read at every use)
VARIABLES tr, px, l, E, tabu, fail, verdict
vars == <<tr, px, l, E, tabu, fail, verdict>>
T == tr
N == px.N
C == px.C
E0 == px.E0
NEv == Len(T.ev)

Px(t) == [N |-> ToSet(t.nodes), ops |-> AllOps(ToSet(t.nodes)),
          C |-> [fixed |-> ToSet(t.fixed), black |-> ToSet(t.black), white |-> ToSet(t.white), maxin |-> t.maxin],
          E0 |-> ToSet(t.start) \cup ToSet(t.fixed)]

Init == /\ \E s \in {Traces} : tr \in ToSet(s)      \* (the file is read once)
        /\ px = Px(tr)
        /\ l = 1 /\ E = ToSet(tr.start) \cup ToSet(tr.fixed) /\ tabu = <<>> /\ verdict = <<>>
        /\ fail = IF Len(tr.ev) > tr.maxiter THEN "exceeded_max_iter"
                  ELSE IF Len(tr.ev) = 0 /\ tr.maxiter > 0 THEN "terminated_without_cause"
                  ELSE IF Len(tr.ev) = 0 /\ ToSet(tr.final) # ToSet(tr.start) \cup ToSet(tr.fixed) THEN "result.edges"
                  ELSE ""

EvOps(ev) == {Op(r.t, r.x, r.y) : r \in ToSet(ev.legal)}
EvD(ev, o) == (CHOOSE r \in ToSet(ev.legal) : r.t = o.t /\ r.x = o.x /\ r.y = o.y).d
EvTabu(ev) == [i \in 1..Len(ev.tabu) |-> Op(ev.tabu[i].t, ev.tabu[i].x, ev.tabu[i].y)]
KindName(t) == CASE t = "+" -> "add" [] t = "-" -> "del" [] t = "flip" -> "flip"
KindOf(S) == IF \E o \in S : o.t = "+" THEN "+" ELSE IF \E o \in S : o.t = "-" THEN "-" ELSE "flip"
Reasons == <<"precondition", "cycle", "fixed", "black", "white", "indegree", "tabu">>
FirstReason(S) == LET k == CHOOSE k \in 1..Len(Reasons) : Reasons[k] \in S /\ \A j \in 1..(k - 1) : Reasons[j] \notin S IN Reasons[k]

\* L = spec's legal set, LL = logged legal set, D = {<<o, spec delta>> : o \in L}, nxt = the code's next graph
StepClause(ev, nxt, last, L, LL, D) ==
    IF ToSet(ev.edges) # E THEN "state.edges"
    ELSE IF EvTabu(ev) # tabu THEN "state.tabu"
    ELSE IF Len(ev.legal) # Cardinality(LL) THEN "legal.duplicate"
    ELSE IF L \ LL # {} THEN "legal.missing." \o KindName(KindOf(L \ LL))
    ELSE IF LL \ L # {} THEN
        LET k == KindOf(LL \ L) IN
        "legal.spurious." \o KindName(k) \o "." \o FirstReason({WhyIllegal(C, N, E, o) : o \in {p \in LL \ L : p.t = k}})
    ELSE IF \E p \in D : Abs(EvD(ev, p[1]) - p[2]) > T.tol THEN
        "delta." \o KindName(KindOf({p[1] : p \in {q \in D : Abs(EvD(ev, q[1]) - q[2]) > T.tol}}))
    ELSE IF nxt = E THEN       \* the code applied nothing in this iteration
        IF ~last THEN "iterated_without_change"
        ELSE IF L # {} /\ MaxOf({p[2] : p \in D}) >= T.eps + T.tol THEN "stopped_early"
        ELSE ""
    ELSE IF L = {} \/ ~\E p \in D : Apply(E, p[1]) = nxt THEN "illegal_move"
    ELSE IF MaxOf({p[2] : p \in D}) < T.eps - T.tol THEN "moved_below_epsilon"
    ELSE IF (CHOOSE p \in D : Apply(E, p[1]) = nxt)[2] < MaxOf({p[2] : p \in D}) - T.tol THEN "not_argmax"
    ELSE IF last /\ NEv < T.maxiter THEN "terminated_without_cause"
    ELSE ""

Step ==
    /\ l <= NEv /\ fail = "" /\ verdict = <<>>
    /\ \E ev \in {T.ev[l]} :
       \E nxt \in {IF l < NEv THEN ToSet(T.ev[l + 1].edges) ELSE ToSet(T.final)} :
       \E L \in {Legal(C, N, px.ops, E, tabu)} :
       \E D \in {{<<o, Delta(T, E, o)>> : o \in L}} :
         /\ fail' = StepClause(ev, nxt, l = NEv, L, EvOps(ev), D)
         /\ E' = nxt
         /\ tabu' = IF \E o \in L : Apply(E, o) = nxt
                    THEN Push(tabu, Undo(CHOOSE o \in L : Apply(E, o) = nxt), T.tabu) ELSE tabu
    /\ l' = l + 1
    /\ UNCHANGED <<tr, px, verdict>>

SelfStopped == NEv >= 1 /\ ToSet(T.ev[NEv].edges) = ToSet(T.final)
Finish ==
    /\ verdict = <<>> /\ (l = NEv + 1 \/ fail # "")
    /\ verdict' = [tid |-> T.tid, step |-> IF fail = "" THEN 0 ELSE l - 1, clause |-> fail,
                   contract |-> ContractFailures(T, C, N, px.ops, E0, ToSet(T.final), T.eps, T.tol, SelfStopped, T.tabu)
                                \cup (IF ToSet(T.final_nodes) # N \/ Len(T.final_nodes) # Cardinality(N) THEN {"nodes"} ELSE {})
                                \cup (IF ToSet(T.start_after) # ToSet(T.start) THEN {"start_dag_mutated"} ELSE {})]
    /\ UNCHANGED <<tr, px, l, E, tabu, fail>>
Next == Step \/ Finish
Report == verdict # <<>> => PrintT(ToJson(verdict))
=============================================================================
