----------------------------- MODULE Gen_C11H -----------------------------
(***************************************************************************)
(* Hill climbing as a step machine (property C11), model-checked and used  *)
(* as a generator.                                                         *)
(*                                                                         *)
(* An instance (JSON) gives the node list, an integer local-score table,   *)
(* fixed / black / white lists, and PALETTES of options: maxins, tabus,    *)
(* epss, maxiters, and the start graphs ("starts" = explicit list, or      *)
(* allstarts = TRUE: EVERY DAG over the nodes).  Init picks every          *)
(* combination whose start graph (start + fixed edges) is a DAG that       *)
(* satisfies black list and in-degree bound (the statement excludes the    *)
(* others).                                                                *)
(*                                                                         *)
(* Iterate: compute the legal operations; if there is none or the best     *)
(* score change is < eps, stop; otherwise apply AN arg-max operation       *)
(* (every tie is a successor), push its inverse on the bounded tabu list.  *)
(* MaxIter ends the run after maxiter iterations.                          *)
(*                                                                         *)
(* Invariants (design level):                                              *)
(*   Safe        in EVERY state: acyclic, fixed edges present, no black    *)
(*               edge, additions white-listed, in-degree respected, score  *)
(*               >= start score                                            *)
(*   Monotone    every applied step raises the score by >= eps             *)
(*   LegalLemma  definitional legality = path formulation, for every op    *)
(*   DeltaLemma  family-based delta = difference of network scores         *)
(*   NbrLemma    {Apply(E,o)} over operations with a DAG result = the DAGs *)
(*               one edge change away from E (by enumeration of ALL DAGs)  *)
(*   LegalIsAdmissible  results of legal operations = the admissible DAGs   *)
(*               one edge change away (enumeration of ALL DAGs)            *)
(*   Terminal    a terminal state satisfies the full contract; in          *)
(*               particular with tabu length 0 a self-stopped run is a     *)
(*               local optimum among all admissible neighbouring DAGs      *)
(* Emit prints every terminal state: the harness groups them per initial   *)
(* choice = the set of results the real code may return.                   *)
(***************************************************************************)
EXTENDS SearchLib, Json, IOUtils
CONSTANTS MaxN, Mode          \* Mode = "run" (step machine) | "lemma" (graph lemmas on EVERY DAG)
Insts == JsonDeserialize(IOEnv.INST_FILE)

Tokens == <<"v0", "v1", "v2", "v3", "v4", "v5">>
NodeSet(n) == {Tokens[i] : i \in 1..n}
\* ({d : d \in S} and @@ force TLC to enumerate the filtered set / the function once, at constant level)
DagTab == [k \in 1..MaxN |-> {d : d \in AllDAGs(NodeSet(k))}] @@ <<>>

\* pb = the instance with its JSON sequences converted to sets.  It is a VARIABLE (constant along a behaviour) because TLC
\* re-evaluates every definition that depends on IOEnv (i.e. re-reads the file) at each use; a state component is a plain value.
VARIABLES pb, sh, cf, E, tabu, it, st, hist, gain
vars == <<pb, sh, cf, E, tabu, it, st, hist, gain>>
Problem(inst) == [id |-> inst.id, n |-> Len(inst.nodes), N |-> ToSet(inst.nodes), ops |-> AllOps(ToSet(inst.nodes)),
                  bit |-> inst.bit, tab |-> inst.tab, pe |-> inst.pe,
                  fixed |-> ToSet(inst.fixed), black |-> ToSet(inst.black), white |-> ToSet(inst.white),
                  allstarts |-> inst.allstarts, starts |-> {ToSet(s) : s \in ToSet(inst.starts)},
                  maxins |-> ToSet(inst.maxins), tabus |-> ToSet(inst.tabus), epss |-> ToSet(inst.epss),
                  maxiters |-> ToSet(inst.maxiters)]
I == pb
N == pb.N
OPS == pb.ops
C == [fixed |-> pb.fixed, black |-> pb.black, white |-> pb.white, maxin |-> cf.maxin]
E0 == cf.start \cup pb.fixed
NoCf == [start |-> {}, maxin |-> 0, tabu |-> 0, eps |-> 1, maxiter |-> 0]

\* sh only spreads the initial choices over TLC's workers (start graphs with |edges| % 4 = sh)
Init == /\ \E s \in {Insts} : pb \in {Problem(s[i]) : i \in 1..Len(s)}      \* (the file is read once)
        /\ sh \in 0..3
        /\ cf = NoCf /\ E = {} /\ tabu = <<>> /\ it = 0 /\ st = "init" /\ hist = <<>> /\ gain = 1

\* the statement quantifies over start graphs that are DAGs and already satisfy black list and in-degree bound
GoodStart(c) == LET e0 == c.start \cup pb.fixed IN
                /\ Acyclic(N, e0)
                /\ e0 \cap pb.black = {}
                /\ \A v \in N : Cardinality(Pa(e0, v)) <= c.maxin
Pick == /\ st = "init"
        /\ \E c \in [start : IF pb.allstarts THEN DagTab[pb.n] ELSE pb.starts, maxin : pb.maxins,
                     tabu : IF Mode = "lemma" THEN {0} ELSE pb.tabus,
                     eps : IF Mode = "lemma" THEN {1} ELSE pb.epss,
                     maxiter : IF Mode = "lemma" THEN {0} ELSE pb.maxiters] :
              /\ Cardinality(c.start) % 4 = sh
              /\ GoodStart(c)
              /\ cf' = c /\ E' = c.start \cup pb.fixed
        /\ st' = (IF Mode = "lemma" THEN "lemma" ELSE "run")
        /\ UNCHANGED <<pb, sh, tabu, it, hist>> /\ gain' = cf'.eps

MaxIter == /\ st = "run" /\ it = cf.maxiter
           /\ st' = "maxiter" /\ UNCHANGED <<pb, sh, cf, E, tabu, it, hist, gain>>
\* one iteration: the legal set and its deltas are computed once
\* (\E over a singleton set = eager evaluation; TLC re-evaluates LET bodies at every use)
Iterate == /\ st = "run" /\ it < cf.maxiter
           /\ \E ld \in {{<<o, Delta(I, E, o)>> : o \in Legal(C, N, OPS, E, tabu)}} :
                IF ld = {} \/ MaxOf({p[2] : p \in ld}) < cf.eps
                THEN st' = "stopped" /\ UNCHANGED <<E, tabu, it, hist, gain>>
                ELSE \E best \in {MaxOf({p[2] : p \in ld})} : \E p \in ld :
                        /\ p[2] = best
                        /\ E' = Apply(E, p[1])
                        /\ tabu' = Push(tabu, Undo(p[1]), cf.tabu)
                        /\ it' = it + 1
                        /\ hist' = Append(hist, p[1])
                        /\ st' = st
                        /\ gain' = Score(I, N, Apply(E, p[1])) - Score(I, N, E)
           /\ UNCHANGED <<pb, sh, cf>>
Next == Pick \/ MaxIter \/ Iterate

\* ---- invariants of the machine (Mode = "run") ---------------------------------
Running == st \in {"run", "stopped", "maxiter"}
Safe == Running => ContractFailures(I, C, N, OPS, E0, E, cf.eps, 0, FALSE, cf.tabu) = {}
\* gain = network-score difference of the last move (by definition, not via Delta)
Monotone == gain >= cf.eps
\* A terminal state satisfies the whole contract.  Its clause "not_local_optimum" says: no operation whose result is an
\* admissible graph raises the network score by eps or more; by LegalIsAdmissible (lemma mode, EVERY DAG) these results are
\* exactly the admissible DAGs one edge addition / deletion / reversal away, which is the property's clause stated on graphs.
Terminal == st \in {"stopped", "maxiter"} =>
    /\ ContractFailures(I, C, N, OPS, E0, E, cf.eps, 0, st = "stopped", cf.tabu) = {}
    /\ (st = "maxiter" => it = cf.maxiter)
    /\ it = Len(hist)

\* ---- graph lemmas, checked on every admissible start graph (Mode = "lemma": every DAG) ----
LegalLemma == st = "lemma" => \A o \in OPS : StructLegal(C, N, E, o) <=> FastLegal(C, N, E, o)
DeltaLemma == st = "lemma" => \A o \in OPS : Pre(E, o) => Delta(I, E, o) = Score(I, N, Apply(E, o)) - Score(I, N, E)
NbrLemma == st = "lemma" =>
    {Apply(E, o) : o \in {p \in OPS : Pre(E, p) /\ Acyclic(N, Apply(E, p))}}
      = {F \in DagTab[pb.n] : OneEdgeChange(E, F)}
\* legal operations lead to admissible graphs and every admissible neighbouring DAG is reached by a legal operation
LegalIsAdmissible == st = "lemma" =>
    {Apply(E, o) : o \in Legal(C, N, OPS, E, <<>>)} = {F \in DagTab[pb.n] : OneEdgeChange(E, F) /\ Admissible(C, N, E, F)}

Emit == st \in {"stopped", "maxiter"} =>
    PrintT(ToJson([id |-> I.id, start |-> cf.start, maxin |-> cf.maxin, tabu |-> cf.tabu, eps |-> cf.eps,
                   maxiter |-> cf.maxiter, final |-> E, st |-> st, it |-> it, ops |-> hist,
                   s0 |-> Score(I, N, E0), s1 |-> Score(I, N, E)]))
=============================================================================
