----------------------------- MODULE Gen_C11H -----------------------------
(***************************************************************************)
(* Hill climbing as a step machine (property C11), model-checked and used  *)
(* as a generator.                                                         *)
(*                                                                         *)
(* An instance (JSON) gives the node list, an integer local-score table,   *)
(* fixed / black / white lists, and PALETTES of options: maxins, tabus,    *)
(* epss, maxiters, and the start graphs ("starts" = explicit list, or      *)
(* allstarts = TRUE: EVERY DAG over the nodes).  Init picks every          *)
(* combination whose start graph (start + fixed edges) is a DAG that       *)
(* satisfies black list and in-degree bound (the statement excludes the    *)
(* others).                                                                *)
(*                                                                         *)
(* Step: compute the legal operations; if there is none or the best score  *)
(* change is < eps, stop; otherwise apply AN arg-max operation (every tie  *)
(* is a successor), push its inverse on the bounded tabu list.  MaxIter    *)
(* ends the run after maxiter iterations.                                  *)
(*                                                                         *)
(* Invariants (design level):                                              *)
(*   Safe        in EVERY state: acyclic, fixed edges present, no black    *)
(*               edge, additions white-listed, in-degree respected, score  *)
(*               >= start score                                            *)
(*   Monotone    every applied step raises the score by >= eps             *)
(*   LegalLemma  definitional legality = path formulation, for every op    *)
(*   DeltaLemma  family-based delta = difference of network scores         *)
(*   NbrLemma    {Apply(E,o)} over operations with a DAG result = the DAGs *)
(*               one edge change away from E (by enumeration of ALL DAGs)  *)
(*   Terminal    a terminal state satisfies the full contract; in          *)
(*               particular with tabu length 0 a self-stopped run is a     *)
(*               local optimum among ALL admissible neighbouring DAGs      *)
(* Emit prints every terminal state: the harness groups them per initial   *)
(* choice = the set of results the real code may return.                   *)
(***************************************************************************)
EXTENDS SearchLib, Json, IOUtils
CONSTANT MaxN
Insts == JsonDeserialize(IOEnv.INST_FILE)

Tokens == <<"v0", "v1", "v2", "v3", "v4", "v5">>
NodeSet(n) == {Tokens[i] : i \in 1..n}
DagTab == [k \in 1..MaxN |-> AllDAGs(NodeSet(k))] @@ <<>>

VARIABLES ii, cf, E, tabu, it, st
vars == <<ii, cf, E, tabu, it, st>>
I == Insts[ii]
N == ToSet(I.nodes)
C == [fixed |-> ToSet(I.fixed), black |-> ToSet(I.black), white |-> ToSet(I.white), maxin |-> cf.maxin]
E0 == cf.start \cup ToSet(I.fixed)

Starts(inst) == IF inst.allstarts THEN DagTab[Len(inst.nodes)] ELSE {ToSet(s) : s \in ToSet(inst.starts)}

Init == /\ ii \in 1..Len(Insts)
        /\ cf \in {c \in [start : Starts(Insts[ii]), maxin : ToSet(Insts[ii].maxins), tabu : ToSet(Insts[ii].tabus),
                         eps : ToSet(Insts[ii].epss), maxiter : ToSet(Insts[ii].maxiters)] :
                    LET n == ToSet(Insts[ii].nodes)
                        e0 == c.start \cup ToSet(Insts[ii].fixed) IN
                    /\ Acyclic(n, e0)
                    /\ e0 \cap ToSet(Insts[ii].black) = {}
                    /\ \A v \in n : Cardinality(Pa(e0, v)) <= c.maxin}
        /\ E = cf.start \cup ToSet(Insts[ii].fixed)
        /\ tabu = <<>> /\ it = 0 /\ st = "run"

L == Legal(C, N, E, tabu)
Best == MaxOf({Delta(I, E, o) : o \in L})

MaxIter == /\ st = "run" /\ it = cf.maxiter
           /\ st' = "maxiter" /\ UNCHANGED <<ii, cf, E, tabu, it>>
Stop == /\ st = "run" /\ it < cf.maxiter
        /\ (L = {} \/ Best < cf.eps)
        /\ st' = "stopped" /\ UNCHANGED <<ii, cf, E, tabu, it>>
Move(o) == /\ st = "run" /\ it < cf.maxiter
           /\ o \in L /\ Delta(I, E, o) = Best /\ Best >= cf.eps
           /\ E' = Apply(E, o)
           /\ tabu' = Push(tabu, Undo(o), cf.tabu)
           /\ it' = it + 1
           /\ UNCHANGED <<ii, cf, st>>
MoveAdd == \E o \in AllOps(N) : o.t = "+" /\ Move(o)
MoveDel == \E o \in AllOps(N) : o.t = "-" /\ Move(o)
MoveFlip == \E o \in AllOps(N) : o.t = "flip" /\ Move(o)
Next == MaxIter \/ Stop \/ MoveAdd \/ MoveDel \/ MoveFlip

\* ---- invariants -------------------------------------------------------------
Safe == ContractFailures(I, C, N, E0, E, cf.eps, 0, FALSE, cf.tabu) = {}
Monotone == [][E' # E => Score(I, N, E') - Score(I, N, E) >= cf.eps]_vars
LegalLemma == st = "run" => \A o \in AllOps(N) : StructLegal(C, N, E, o) <=> FastLegal(C, N, E, o)
DeltaLemma == st = "run" => \A o \in AllOps(N) : Pre(E, o) => Delta(I, E, o) = Score(I, N, Apply(E, o)) - Score(I, N, E)
NbrLemma == st = "run" =>
    {Apply(E, o) : o \in {p \in AllOps(N) : Pre(E, p) /\ Acyclic(N, Apply(E, p))}}
      = {F \in DagTab[Len(I.nodes)] : OneEdgeChange(E, F)}
\* the property's local-optimality clause, stated on graphs (not on operations)
LocalOptimum ==
    \A F \in DagTab[Len(I.nodes)] :
        OneEdgeChange(E, F) /\ Admissible(C, N, E, F) => Score(I, N, F) - Score(I, N, E) < cf.eps
Terminal == st # "run" =>
    /\ ContractFailures(I, C, N, E0, E, cf.eps, 0, st = "stopped", cf.tabu) = {}
    /\ (st = "stopped" /\ cf.tabu = 0 => LocalOptimum)
    /\ (st = "maxiter" => it = cf.maxiter)

Emit == st # "run" =>
    PrintT(ToJson([id |-> I.id, start |-> cf.start, maxin |-> cf.maxin, tabu |-> cf.tabu, eps |-> cf.eps,
                   maxiter |-> cf.maxiter, final |-> E, st |-> st, it |-> it,
                   s0 |-> Score(I, N, E0), s1 |-> Score(I, N, E)]))
=============================================================================
