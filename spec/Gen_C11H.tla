----------------------------- MODULE Gen_C11H -----------------------------
(***************************************************************************)
(* Hill climbing as a step machine (property C11), model-checked and used  *)
(* as a generator.                                                         *)
(*                                                                         *)
(* An instance (JSON) gives the node list, an integer local-score table,   *)
(* fixed / black / white lists, and PALETTES of options: maxins, tabus,    *)
(* epss, maxiters, and the start graphs ("starts" = explicit list, or      *)
(* allstarts = TRUE: EVERY DAG over the nodes).  Init picks every          *)
(* combination whose start graph (start + fixed edges) is a DAG that       *)
(* satisfies black list and in-degree bound (the statement excludes the    *)
(* others).                                                                *)
(*                                                                         *)
(* Iterate: compute the legal operations; if there is none or the best     *)
(* score change is < eps, stop; otherwise apply AN arg-max operation       *)
(* (every tie is a successor), push its inverse on the bounded tabu list.  *)
(* MaxIter ends the run after maxiter iterations.                          *)
(*                                                                         *)
(* Invariants (design level):                                              *)
(*   Safe        in EVERY state: acyclic, fixed edges present, no black    *)
(*               edge, additions white-listed, in-degree respected, score  *)
(*               >= start score                                            *)
(*   Monotone    every applied step raises the score by >= eps             *)
(*   LegalLemma  definitional legality = path formulation, for every op    *)
(*   DeltaLemma  family-based delta = difference of network scores         *)
(*   NbrLemma    {Apply(E,o)} over operations with a DAG result = the DAGs *)
(*               one edge change away from E (by enumeration of ALL DAGs)  *)
(*   Terminal    a terminal state satisfies the full contract; in          *)
(*               particular with tabu length 0 a self-stopped run is a     *)
(*               local optimum among ALL admissible neighbouring DAGs      *)
(* Emit prints every terminal state: the harness groups them per initial   *)
(* choice = the set of results the real code may return.                   *)
(***************************************************************************)
EXTENDS SearchLib, Json, IOUtils
CONSTANTS MaxN, Mode          \* Mode = "run" (step machine) | "lemma" (graph lemmas on EVERY DAG)
Insts == JsonDeserialize(IOEnv.INST_FILE)

Tokens == <<"v0", "v1", "v2", "v3", "v4", "v5">>
NodeSet(n) == {Tokens[i] : i \in 1..n}
DagTab == [k \in 1..MaxN |-> AllDAGs(NodeSet(k))] @@ <<>>

VARIABLES ii, cf, E, tabu, it, st, hist
vars == <<ii, cf, E, tabu, it, st, hist>>
I == Insts[ii]
N == ToSet(I.nodes)
C == [fixed |-> ToSet(I.fixed), black |-> ToSet(I.black), white |-> ToSet(I.white), maxin |-> cf.maxin]
E0 == cf.start \cup ToSet(I.fixed)
NoCf == [start |-> {}, maxin |-> 0, tabu |-> 0, eps |-> 1, maxiter |-> 0]

Starts(inst) == IF inst.allstarts THEN DagTab[Len(inst.nodes)] ELSE {ToSet(s) : s \in ToSet(inst.starts)}

Init == /\ ii \in 1..Len(Insts)
        /\ cf = NoCf /\ E = {} /\ tabu = <<>> /\ it = 0 /\ st = "init" /\ hist = <<>>

\* the statement quantifies over start graphs that are DAGs and already satisfy black list and in-degree bound
GoodStart(c) == LET e0 == c.start \cup ToSet(I.fixed) IN
                /\ Acyclic(N, e0)
                /\ e0 \cap ToSet(I.black) = {}
                /\ \A v \in N : Cardinality(Pa(e0, v)) <= c.maxin
Pick == /\ st = "init"
        /\ \E c \in [start : Starts(I), maxin : ToSet(I.maxins),
                     tabu : IF Mode = "lemma" THEN {0} ELSE ToSet(I.tabus),
                     eps : IF Mode = "lemma" THEN {1} ELSE ToSet(I.epss),
                     maxiter : IF Mode = "lemma" THEN {0} ELSE ToSet(I.maxiters)] :
              /\ GoodStart(c)
              /\ cf' = c /\ E' = c.start \cup ToSet(I.fixed)
        /\ st' = (IF Mode = "lemma" THEN "lemma" ELSE "run")
        /\ UNCHANGED <<ii, tabu, it, hist>>

MaxIter == /\ st = "run" /\ it = cf.maxiter
           /\ st' = "maxiter" /\ UNCHANGED <<ii, cf, E, tabu, it, hist>>
\* one iteration: the legal set and its deltas are computed once
Iterate == /\ st = "run" /\ it < cf.maxiter
           /\ LET l == Legal(C, N, E, tabu)
                  d == [o \in l |-> Delta(I, E, o)]
                  best == MaxOf({d[o] : o \in l})
              IN IF l = {} \/ best < cf.eps
                 THEN st' = "stopped" /\ UNCHANGED <<E, tabu, it, hist>>
                 ELSE \E o \in {p \in l : d[p] = best} :
                        /\ E' = Apply(E, o)
                        /\ tabu' = Push(tabu, Undo(o), cf.tabu)
                        /\ it' = it + 1
                        /\ hist' = Append(hist, o)
                        /\ st' = st
           /\ UNCHANGED <<ii, cf>>
Next == Pick \/ MaxIter \/ Iterate

\* ---- invariants of the machine (Mode = "run") ---------------------------------
Running == st \in {"run", "stopped", "maxiter"}
Safe == Running => ContractFailures(I, C, N, E0, E, cf.eps, 0, FALSE, cf.tabu) = {}
Monotone == [][E' # E /\ st = "run" => Score(I, N, E') - Score(I, N, E) >= cf.eps]_vars
\* the property's local-optimality clause, stated on graphs (not on operations)
LocalOptimum ==
    \A F \in DagTab[Len(I.nodes)] :
        OneEdgeChange(E, F) /\ Admissible(C, N, E, F) => Score(I, N, F) - Score(I, N, E) < cf.eps
Terminal == st \in {"stopped", "maxiter"} =>
    /\ ContractFailures(I, C, N, E0, E, cf.eps, 0, st = "stopped", cf.tabu) = {}
    /\ (st = "stopped" /\ cf.tabu = 0 => LocalOptimum)
    /\ (st = "maxiter" => it = cf.maxiter)
    /\ it = Len(hist)

\* ---- graph lemmas, checked on every admissible start graph (Mode = "lemma": every DAG) ----
LegalLemma == st = "lemma" => \A o \in AllOps(N) : StructLegal(C, N, E, o) <=> FastLegal(C, N, E, o)
DeltaLemma == st = "lemma" => \A o \in AllOps(N) : Pre(E, o) => Delta(I, E, o) = Score(I, N, Apply(E, o)) - Score(I, N, E)
NbrLemma == st = "lemma" =>
    {Apply(E, o) : o \in {p \in AllOps(N) : Pre(E, p) /\ Acyclic(N, Apply(E, p))}}
      = {F \in DagTab[Len(I.nodes)] : OneEdgeChange(E, F)}
\* legal operations lead to admissible graphs and every admissible neighbouring DAG is reached by a legal operation
LegalIsAdmissible == st = "lemma" =>
    {Apply(E, o) : o \in Legal(C, N, E, <<>>)} = {F \in DagTab[Len(I.nodes)] : OneEdgeChange(E, F) /\ Admissible(C, N, E, F)}

Emit == st \in {"stopped", "maxiter"} =>
    PrintT(ToJson([id |-> I.id, start |-> cf.start, maxin |-> cf.maxin, tabu |-> cf.tabu, eps |-> cf.eps,
                   maxiter |-> cf.maxiter, final |-> E, st |-> st, it |-> it, ops |-> hist,
                   s0 |-> Score(I, N, E0), s1 |-> Score(I, N, E)]))
=============================================================================
