----------------------------- MODULE Gen_C05V -----------------------------
(***************************************************************************)
(* Model validation (check_model).  A model is                             *)
(*   [nodes, edges : set of pairs, cpd : node -> [parents : Seq, states :  *)
(*    var -> Seq(state) (the CPD's OWN view of every variable it mentions),*)
(*    tab, den]]                                                           *)
(* Valid(m) is the conjunction of the five validation clauses.  TLC takes  *)
(* every valid instance of the file and injects every single defect        *)
(* (missing CPD, graph/CPD parent mismatch in both directions, cardinality *)
(* mismatch, state-name / state-order mismatch, a column sum off by 0.005, 0.02 or    *)
(* 0.05; den = 200), evaluates Valid on the result and prints the case.              *)
(* Lemma checked on every model: Valid => the joint sums to 1 within the   *)
(* accumulated tolerance.                                                  *)
(***************************************************************************)
EXTENDS BNLib, Json, IOUtils, Integers
Insts == JsonDeserialize(IOEnv.INST_FILE)
VARIABLES mi, defect, model
vars == <<mi, defect, model>>

\* an instance of the BN file (BNLib format) as a model in the format above
AsModel(b) ==
    [nodes |-> BNodes(b), edges |-> BEdges(b),
     cpd |-> [v \in BNodes(b) |-> [parents |-> b.parents[v],
                                   states |-> [x \in {v} \cup BParSet(b, v) |-> b.states[x]],
                                   \* the cardinality the CPD DECLARES for every variable it mentions (normally the number of names)
                                   dcard |-> [x \in {v} \cup BParSet(b, v) |-> Len(b.states[x])],
                                   tab |-> b.cpd[v].tab, den |-> b.cpd[v].den]]]

MPa(m, v) == {e[1] : e \in {f \in m.edges : f[2] = v}}
NColsM(c) == FoldFunction(LAMBDA p, acc : acc * c.dcard[p], 1, c.parents)
Abs(x) == IF x < 0 THEN -x ELSE x
ColSumM(c, v, j) == FoldSet(LAMBDA i, acc : acc + c.tab[i][j], 0, 1..Len(c.states[v]))
\* numpy.allclose(sum, 1, atol=0.01) with the default rtol=1e-5 (probed away from the boundary only)
ColsOK(c, v) == \A j \in 1..NColsM(c) : Abs(ColSumM(c, v, j) - c.den) * 100 <= c.den
Valid(m) ==
    /\ \A v \in m.nodes : v \in DOMAIN m.cpd
    /\ \A v \in m.nodes : v \in DOMAIN m.cpd =>
          /\ ToSet(m.cpd[v].parents) = MPa(m, v)
          /\ ColsOK(m.cpd[v], v)
          /\ \A p \in ToSet(m.cpd[v].parents) : p \in DOMAIN m.cpd =>
                /\ m.cpd[p].states[p] = m.cpd[v].states[p]          \* same names, same order
                /\ m.cpd[p].dcard[p] = m.cpd[v].dcard[p]            \* same declared cardinality

Others(S, x) == S \ {x}
SetCell(tab, i, j, val) == [tab EXCEPT ![i] = [tab[i] EXCEPT ![j] = val]]
Defects(m) ==
    {[kind |-> "none", v |-> "", p |-> "", k |-> 0]}
    \cup {[kind |-> "missing_cpd", v |-> v, p |-> "", k |-> 0] : v \in m.nodes}
    \cup {[kind |-> "edge_removed", v |-> e[2], p |-> e[1], k |-> 0] : e \in m.edges}
    \cup {[kind |-> "edge_added", v |-> q[2], p |-> q[1], k |-> 0] :
              q \in {r \in m.nodes \X m.nodes : r[1] # r[2] /\ r \notin m.edges /\ ~HasPath(m.edges, r[2], r[1])}}
    \cup {[kind |-> "state_names", v |-> e[2], p |-> e[1], k |-> 0] : e \in m.edges}
    \* the child's view lists the SAME state names of the parent in another order (a rotation)
    \cup {[kind |-> "state_order", v |-> e[2], p |-> e[1], k |-> 0] : e \in {f \in m.edges : Len(m.cpd[f[2]].states[f[1]]) >= 2}}
    \cup {[kind |-> "cardinality", v |-> e[2], p |-> e[1], k |-> 0] : e \in m.edges}
    \* the child DECLARES one state more for a parent (more columns) while listing the parent's state names unchanged
    \cup {[kind |-> "cardinality_only", v |-> e[2], p |-> e[1], k |-> 0] : e \in m.edges}
    \cup {[kind |-> "colsum", v |-> v, p |-> "", k |-> k] : v \in m.nodes, k \in {1, 4, 10}}
    \* two columns wrong with compensating errors (the table total is unchanged)
    \cup {[kind |-> "colsum_compensating", v |-> v, p |-> "", k |-> k] :
              v \in {x \in m.nodes : NColsM(m.cpd[x]) >= 2 /\ m.cpd[x].tab[1][2] >= 10}, k \in {1, 4, 10}}

Inject(m, d) ==
    CASE d.kind = "none" -> m
      [] d.kind = "missing_cpd" -> [m EXCEPT !.cpd = [x \in DOMAIN m.cpd \ {d.v} |-> m.cpd[x]]]
      [] d.kind = "edge_removed" -> [m EXCEPT !.edges = m.edges \ {<<d.p, d.v>>}]
      [] d.kind = "edge_added" -> [m EXCEPT !.edges = m.edges \cup {<<d.p, d.v>>}]
      [] d.kind = "state_names" ->   \* the child's view of the parent's states renamed (same cardinality)
            [m EXCEPT !.cpd[d.v].states[d.p] = [i \in 1..Len(m.cpd[d.v].states[d.p]) |-> IF i = 1 THEN "other" ELSE m.cpd[d.v].states[d.p][i]]]
      [] d.kind = "state_order" ->
            LET ss == m.cpd[d.v].states[d.p] IN
            [m EXCEPT !.cpd[d.v].states[d.p] = [i \in 1..Len(ss) |-> ss[(i % Len(ss)) + 1]]]
      [] d.kind = "cardinality_only" ->
            LET c == m.cpd[d.v]
                c2 == [c EXCEPT !.dcard[d.p] = c.dcard[d.p] + 1]
            IN [m EXCEPT !.cpd[d.v] = [c2 EXCEPT !.tab = [i \in 1..Len(c.tab) |-> [j \in 1..NColsM(c2) |-> IF i = 1 THEN c.den ELSE 0]]]]
      [] d.kind = "cardinality" ->   \* the parent gains a probability-zero state that its child does not know
            [m EXCEPT !.cpd[d.p].states[d.p] = Append(m.cpd[d.p].states[d.p], "extra"),
                      !.cpd[d.p].dcard[d.p] = m.cpd[d.p].dcard[d.p] + 1,
                      !.cpd[d.p].tab = Append(m.cpd[d.p].tab, [j \in 1..NColsM(m.cpd[d.p]) |-> 0])]
      [] d.kind = "colsum_compensating" ->
            [m EXCEPT !.cpd[d.v].tab = SetCell(SetCell(m.cpd[d.v].tab, 1, 1, m.cpd[d.v].tab[1][1] + d.k), 1, 2, m.cpd[d.v].tab[1][2] - d.k)]
      [] d.kind = "colsum" -> [m EXCEPT !.cpd[d.v].tab = SetCell(m.cpd[d.v].tab, 1, 1, m.cpd[d.v].tab[1][1] + d.k)]

Init == /\ mi \in 1..Len(Insts)
        /\ defect \in Defects(AsModel(Insts[mi]))
        /\ model = Inject(AsModel(Insts[mi]), defect)
Next == UNCHANGED vars

\* lemma: a valid model's joint sums to 1 within n * 1% (each CPD column within 1%)
JointSumOK ==
    LET m == model
        N == m.nodes
        st == [v \in N |-> m.cpd[v].states[v]]
        AllA == {a \in [N -> UNION {ToSet(st[v]) : v \in N}] : \A v \in N : a[v] \in ToSet(st[v])}
        ColOf(v, a) == LET ps == m.cpd[v].parents IN
            FoldFunction(LAMBDA p, acc : acc * Len(st[p]) + (Idx(st[p], a[p]) - 1), 0, ps) + 1
        W(a) == FoldSet(LAMBDA v, acc : acc * m.cpd[v].tab[Idx(st[v], a[v])][ColOf(v, a)], 1, N)
        tot == MapThenSumSet(W, AllA)
        D == FoldSet(LAMBDA v, acc : acc * m.cpd[v].den, 1, N)
    IN Abs(tot - D) <= (D \div 100) * (Cardinality(N) + 1)
ValidImpliesNormalised == Valid(model) => JointSumOK

ModelJson == [nodes |-> model.nodes, edges |-> model.edges, cpd |-> model.cpd]
Emit == PrintT(ToJson([inst |-> Insts[mi].id, defect |-> defect, valid |-> Valid(model), model |-> ModelJson]))
=============================================================================
