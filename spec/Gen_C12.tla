------------------------------ MODULE Gen_C12 ------------------------------
(***************************************************************************)
(* Mode "pc":  states = all DAGs over Nodes (edge-adding machine); for each *)
(*   ground truth TLC prints skeleton, every valid separating set of every *)
(*   non-adjacent pair, the d-separation oracle table, the CPDAG and the   *)
(*   equivalence class.  A Meek-rule step machine is run alongside:        *)
(*   invariant MeekSound (every intermediate PDAG only orients compelled   *)
(*   edges) and MeekComplete (when no rule applies the PDAG is the CPDAG). *)
(* Mode "pdag": states = all well-formed partially directed graphs over    *)
(*   Nodes built edge by edge; for each TLC prints its consistent          *)
(*   extensions (empty = not extendable).                                  *)
(***************************************************************************)
EXTENDS PCLib, Json, IOUtils
CONSTANTS Nodes, Mode
VARIABLES E, P, phase, cls
vars == <<E, P, phase, cls>>
DAGS == AllDAGs(Nodes)

NoP == [dir |-> {}, und |-> {}]
\* Mode "pcfile": ground truths are read from a file (sampled larger DAGs, thorough tier); no edge-adding there
FileDags == IF Mode = "pcfile" THEN JsonDeserialize(IOEnv.INST_FILE) ELSE <<>>
SeqToSet(s) == {s[i] : i \in 1..Len(s)}
Init == IF Mode = "pcfile"
        THEN /\ E \in {SeqToSet(FileDags[k]) : k \in 1..Len(FileDags)}
             /\ P = NoP /\ phase = "fromfile" /\ cls = {{}}
        ELSE E = {} /\ P = NoP /\ phase = "build" /\ cls = {{}}
\* the class is computed in a step (parallel over workers), then printed
LoadClass == /\ phase = "fromfile" /\ cls' = ClassOf(DAGS, E) /\ phase' = "build" /\ UNCHANGED <<E, P>>

\* ---- mode pc ----------------------------------------------------------------
AddEdge(u, v) == /\ Mode = "pc" /\ phase = "build"
                 /\ <<u, v>> \notin E /\ ~HasPath(E, v, u)
                 /\ E' = E \cup {<<u, v>>} /\ cls' = ClassOf(DAGS, E \cup {<<u, v>>}) /\ UNCHANGED <<P, phase>>
StartMeek == /\ Mode \in {"pc", "pcfile"} /\ phase = "build"
             /\ phase' = "meek" /\ P' = Pattern(E) /\ UNCHANGED <<E, cls>>
MeekStep(a, b) == /\ phase = "meek" /\ Applicable(P, a, b)
                  /\ P' = Orient(P, a, b) /\ UNCHANGED <<E, phase, cls>>
\* ---- mode pdag --------------------------------------------------------------
AddDir(u, v) == /\ Mode = "pdag" /\ ~PAdj(P, u, v)
                /\ P' = [P EXCEPT !.dir = P.dir \cup {<<u, v>>}] /\ UNCHANGED <<E, phase, cls>>
AddUnd(u, v) == /\ Mode = "pdag" /\ ~PAdj(P, u, v)
                /\ P' = [P EXCEPT !.und = P.und \cup {{u, v}}] /\ UNCHANGED <<E, phase, cls>>

Next == \/ \E p \in AllPairs(Nodes) : AddEdge(p[1], p[2]) \/ MeekStep(p[1], p[2]) \/ AddDir(p[1], p[2]) \/ AddUnd(p[1], p[2])
        \/ StartMeek \/ LoadClass

\* ---- lemmas -----------------------------------------------------------------
Cls == cls
MeekSound == phase = "meek" => /\ P.dir \subseteq Compelled(Cls, E) /\ PSkel(P) = Skeleton(E)
MeekComplete == (phase = "meek" /\ \A p \in AllPairs(Nodes) : ~Applicable(P, p[1], p[2])) => P = CPDAGOf(Cls, E)
CPDAGExtendsToClass == phase = "build" /\ Mode \in {"pc", "pcfile"} => Extensions(DAGS, CPDAGOf(Cls, E)) = Cls

\* ---- output -----------------------------------------------------------------
Pairs == {S \in SUBSET Nodes : Cardinality(S) = 2}
TwoOf(S) == LET a == CHOOSE a \in S : TRUE IN <<a, CHOOSE b \in S : b # a>>
PcCase ==
  LET C == Cls  cp == CPDAGOf(C, E) IN
  [kind |-> "pc", nodes |-> Nodes, edges |-> E, skeleton |-> Skeleton(E),
   indep |-> {[x |-> TwoOf(pr)[1], y |-> TwoOf(pr)[2], z |-> Z] :
                <<pr, Z>> \in {q \in Pairs \X SUBSET Nodes : q[2] \cap q[1] = {} /\
                                  ~DConn(Nodes, E, TwoOf(q[1])[1], TwoOf(q[1])[2], q[2])}},
   cpdag |-> cp, class |-> C]
PdagCase == [kind |-> "pdag", nodes |-> Nodes, pdag |-> P, ext |-> Extensions(DAGS, P)]
Emit == IF Mode \in {"pc", "pcfile"} THEN (phase = "build" => PrintT(ToJson(PcCase)))
        ELSE PrintT(ToJson(PdagCase))
=============================================================================
