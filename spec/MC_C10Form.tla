----------------------------- MODULE MC_C10Form -----------------------------
(***************************************************************************)
(* Design-level check of the symbolic arithmetic used by property C10:     *)
(* TLC evaluates the LogForm lemmas (Legendre = product definition,        *)
(* Gamma recurrence, Gamma(1), Gamma(1/2), additivity of log, duplication  *)
(* formula) for every argument up to PMax.  One state per lemma so that    *)
(* TLC's workers share the work.                                           *)
(***************************************************************************)
EXTENDS LogForm, Json
VARIABLE lemma
Init == lemma \in {"legendre", "gamma_rec", "gamma_base", "log_mul", "duplication"}
Next == UNCHANGED lemma
Holds == CASE lemma = "legendre" -> LemmaLegendre
           [] lemma = "gamma_rec" -> LemmaGammaRec
           [] lemma = "gamma_base" -> LemmaGammaBase
           [] lemma = "log_mul" -> LemmaLogMul
           [] lemma = "duplication" -> LemmaDuplication
\* the lgamma table as forms, printed once so that the harness can validate its (trusted) form evaluator
\* against math.lgamma before using it on scores
Emit == lemma = "gamma_base" => PrintT(ToJson({[m |-> m, f |-> FJson(LGamma2(m))] : m \in 1..PMax}))
=============================================================================
