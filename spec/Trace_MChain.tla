---------------------------- MODULE Trace_MChain ----------------------------
(***************************************************************************)
(* pgmpy.models.MarkovChain as a state machine (outside the twenty listed  *)
(* properties; the base class of GibbsSampling, recorded by the C07        *)
(* harness and reported as an observation, never as a verdict on C07).     *)
(*                                                                         *)
(* State: card : variable -> Nat, tm : variable -> (state -> (state ->     *)
(* probability <<n, d>>)), cur : variable -> state (the chain's state).    *)
(* Events of a trace (one MarkovChain object):                             *)
(*   add_variable(v, card)            always accepted                      *)
(*   add_tm(v, rows, ok)              accepted iff rows are given for      *)
(*                                    exactly the states 0..card-1, every  *)
(*                                    entry is a probability and every row *)
(*                                    sums to one                          *)
(*   set_start(state, ok)             accepted iff every variable gets a   *)
(*                                    state below its cardinality          *)
(*   draw(v, from, p, to)             one logged call of sample_discrete:  *)
(*                                    p is the row tm[v][from] of the      *)
(*                                    CURRENT state of v, `to` has         *)
(*                                    positive probability; cur[v] := to   *)
(*   row(values)                      a row of the returned frame / a      *)
(*                                    yielded state: equals cur            *)
(* sample() pre-draws whole vectors per (variable, state) and consumes     *)
(* them afterwards, so its draws are logged per (v, from) block; the       *)
(* recorder re-orders them into chain order before writing the trace.      *)
(***************************************************************************)
EXTENDS Naturals, Integers, Sequences, FiniteSets, TLC, Json, IOUtils
Traces == JsonDeserialize(IOEnv.TRACE_FILE)
ToSet(s) == {s[i] : i \in 1..Len(s)}

VARIABLES tid, l, verdict, card, tm, cur
vars == <<tid, l, verdict, card, tm, cur>>
T == Traces[tid]

RECURSIVE GCD(_, _)
GCD(a, c) == IF c = 0 THEN a ELSE GCD(c, a % c)
RECURSIVE SumNum(_, _, _)
\* sum of the fractions row[k] over a common denominator D (D = product of the denominators, small here)
Den(row) == LET F[k \in 0..Len(row)] == IF k = 0 THEN 1 ELSE F[k - 1] * row[k][2] IN F[Len(row)]
SumNum(row, D, k) == IF k = 0 THEN 0 ELSE SumNum(row, D, k - 1) + row[k][1] * (D \div row[k][2])
RowOK(row, c) == /\ Len(row) = c
                 /\ \A k \in 1..Len(row) : row[k][2] > 0 /\ row[k][1] >= 0 /\ row[k][1] <= row[k][2]
                 /\ SumNum(row, Den(row), Len(row)) = Den(row)
TmOK(v, rows) == /\ v \in DOMAIN card
                 /\ Len(rows) = card[v]
                 /\ \A s \in 1..Len(rows) : RowOK(rows[s], card[v])
Same(p, q) == Len(p) = Len(q) /\ \A k \in 1..Len(p) : p[k][1] * q[k][2] = q[k][1] * p[k][2]

Fail(c) == [l |-> l, clause |-> c]
Check(e) ==
  CASE e.ev = "add_variable" -> <<>>
    [] e.ev = "add_tm" ->
         IF e.ok = TmOK(e.v, e.rows) THEN <<>>
         ELSE IF e.ok THEN Fail("add_tm.accepted_invalid_model") ELSE Fail("add_tm.rejected_valid_model")
    [] e.ev = "set_start" ->
         LET valid == DOMAIN e.state = DOMAIN card /\ \A v \in DOMAIN e.state : e.state[v] \in 0..(card[v] - 1) IN
         IF e.ok = valid THEN <<>> ELSE IF e.ok THEN Fail("set_start.accepted_invalid_state") ELSE Fail("set_start.rejected_valid_state")
    [] e.ev = "draw" ->
         IF e.v \notin DOMAIN cur \/ e.v \notin DOMAIN tm THEN Fail("draw.unknown_variable")
         ELSE IF e.from # cur[e.v] THEN Fail("draw.not_from_the_current_state")
         ELSE IF ~Same(e.p, tm[e.v][e.from + 1]) THEN Fail("draw.not_the_transition_row")
         ELSE IF e.to \notin 0..(card[e.v] - 1) \/ tm[e.v][e.from + 1][e.to + 1][1] = 0 THEN Fail("draw.impossible_next_state")
         ELSE <<>>
    [] e.ev = "row" -> IF e.state = cur THEN <<>> ELSE Fail("row.not_the_chain_state")
    [] e.ev = "raised" -> Fail(e.api \o ".raises")
    [] OTHER -> Fail("unknown_event")

Init == /\ tid \in 1..Len(Traces) /\ l = 1 /\ verdict = <<>>
        /\ card = <<>> /\ tm = <<>> /\ cur = <<>>
Step == /\ l <= Len(T.events) /\ verdict = <<>>
        /\ LET e == T.events[l] IN
           /\ verdict' = Check(e)
           /\ card' = IF e.ev = "add_variable" THEN (e.v :> e.card) @@ card ELSE card
           /\ tm' = IF e.ev = "add_tm" /\ e.ok /\ TmOK(e.v, e.rows) THEN (e.v :> e.rows) @@ tm ELSE tm
           /\ cur' = IF e.ev = "set_start" /\ e.ok THEN e.state
                     ELSE IF e.ev = "draw" /\ Check(e) = <<>> THEN [cur EXCEPT ![e.v] = e.to]
                     ELSE cur
        /\ l' = l + 1 /\ UNCHANGED tid
Finish == /\ l = Len(T.events) + 1 /\ verdict = <<>>
          /\ verdict' = [l |-> l, clause |-> "ACCEPT"] /\ l' = l + 1
          /\ UNCHANGED <<tid, card, tm, cur>>
Next == Step \/ Finish
Report == verdict # <<>> => PrintT(ToJson([tid |-> T.tid, v |-> verdict]))
=============================================================================
