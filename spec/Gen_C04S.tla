------------------------------ MODULE Gen_C04S ------------------------------
(***************************************************************************)
(* Factor sets (pgmpy.factors.FactorSet, property C04): a factor set is a  *)
(* SET of factors (value semantics: two factors with the same scope and    *)
(* the same value on every named assignment are one element), standing for *)
(* their product.  Object store fsets : Seq(set of factors).               *)
(*   product(i, j)      fsets[i] \cup fsets[j]                             *)
(*   divide(i, j)       fsets[i] \cup {1 / f : f \in fsets[j]}             *)
(*   marginalize(i, V)  every member summed over the part of V in its scope*)
(*   copy(i)                                                               *)
(* In-place variants replace exactly object i; out-of-place variants append*)
(* a new object; nothing else changes (the frame is the point: the members *)
(* of a result must not be the operand's own factor objects, because a     *)
(* later in-place marginalisation of the result would rewrite them).       *)
(* TLC enumerates every behaviour of MaxDepth steps (NSim = 0) or samples  *)
(* NSim behaviours per pool and prints the expected projection of ALL      *)
(* factor sets after every step.                                           *)
(***************************************************************************)
EXTENDS FactorAlg, Json, IOUtils
CONSTANTS MaxDepth, MaxObjs, NSim
Pools == JsonDeserialize(IOEnv.INST_FILE)      \* [id, dom, sets : Seq(Seq([scope, cells]))]

VARIABLES pi, sid, fsets, hist
vars == <<pi, sid, fsets, hist>>
P == Pools[pi]
dom == P.dom
Vars == DOMAIN dom

FromJson(d, jf) ==
    [scope |-> ToSet(jf.scope),
     val |-> [a \in Assign(d, ToSet(jf.scope)) |-> LET c == CHOOSE c \in ToSet(jf.cells) : c.a = a IN R(c.n, c.d)]]
SetOf(d, js) == {FromJson(d, js[k]) : k \in 1..Len(js)}

FInv(f) == [scope |-> f.scope, val |-> [a \in DOMAIN f.val |-> RDiv(ROne, f.val[a])]]
FSProduct(A, B) == A \cup B
FSDivide(A, B) == A \cup {FInv(f) : f \in B}
FSMarg(A, V) == {IF f.scope \cap V = {} THEN f ELSE FMarg(dom, f, f.scope \cap V) : f \in A}

NoOp == [op |-> "copy", i |-> 1, j |-> 1, vars |-> {}, inplace |-> FALSE]
Ops(st) ==
    LET I == 1..Len(st) IN
    {[NoOp EXCEPT !.op = b, !.i = i, !.j = j, !.inplace = ip] : b \in {"product", "divide"}, i \in I, j \in I, ip \in BOOLEAN}
    \cup {[NoOp EXCEPT !.op = "marginalize", !.i = i, !.vars = V, !.inplace = ip] : i \in I, V \in (SUBSET Vars) \ {{}}, ip \in BOOLEAN}
    \cup {[NoOp EXCEPT !.op = "copy", !.i = i] : i \in I}
FSResult(st, o) ==
    CASE o.op = "product" -> FSProduct(st[o.i], st[o.j])
      [] o.op = "divide" -> FSDivide(st[o.i], st[o.j])
      [] o.op = "marginalize" -> FSMarg(st[o.i], o.vars)
      [] OTHER -> st[o.i]
FSApply(st, o) == IF o.inplace /\ o.op # "copy" THEN [st EXCEPT ![o.i] = FSResult(st, o)] ELSE Append(st, FSResult(st, o))

\* a projection that survives JSON: every member as scope + cells
ProjSet(A) == {Proj(f) : f \in A}
ProjAll(st) == [k \in 1..Len(st) |-> ProjSet(st[k])]

Init == /\ pi \in 1..Len(Pools)
        /\ sid \in (IF NSim = 0 THEN {0} ELSE 1..NSim)
        /\ fsets = [k \in 1..Len(Pools[pi].sets) |-> SetOf(Pools[pi].dom, Pools[pi].sets[k])]
        /\ hist = <<>>
OK(o) == Len(FSApply(fsets, o)) <= MaxObjs
Do(o) == /\ fsets' = FSApply(fsets, o)
         /\ hist' = Append(hist, [o |-> o, sets |-> ProjAll(FSApply(fsets, o))])
         /\ UNCHANGED <<pi, sid>>
Next == /\ Len(hist) < MaxDepth
        /\ LET en == {o \in Ops(fsets) : OK(o)} IN
           IF NSim = 0 THEN \E o \in en : Do(o) ELSE en # {} /\ Do(RandomElement(en))

\* ---- laws that validate the oracle: a factor set stands for the product of its members ----------------
Joint(A) == FoldSet(LAMBDA f, acc : FProduct(dom, acc, f), [scope |-> {}, val |-> [a \in Assign(dom, {}) |-> ROne]], A)
\* summing a variable out of every member that mentions it equals summing it out of the product when only ONE member mentions it
LawMargSingle == \A k \in 1..Len(fsets) : \A v \in Vars :
    \* (a SET of factors is not a bag: when the marginalised member becomes equal to another member the two collapse)
    (Cardinality({f \in fsets[k] : v \in f.scope}) = 1 /\ Cardinality(fsets[k]) <= 3
        /\ Cardinality(FSMarg(fsets[k], {v})) = Cardinality(fsets[k]))
    => FEqual(Joint(FSMarg(fsets[k], {v})), FMarg(dom, Joint(fsets[k]), {v}))
\* marginalising in two steps or at once gives the same set
LawMargOrder == \A k \in 1..Len(fsets) : \A u, v \in Vars : u # v =>
    FSMarg(FSMarg(fsets[k], {u}), {v}) = FSMarg(fsets[k], {u, v})

Emit == Len(hist) = MaxDepth => PrintT(ToJson([pool |-> P.id, steps |-> hist]))
=============================================================================
