------------------------------ MODULE Gen_C05 ------------------------------
(***************************************************************************)
(* Tabular CPDs (property C05) as objects over the exact factor algebra.   *)
(*   object = [kind : "cpd" | "factor", child, parents : Seq(var), f]      *)
(* f is a FactorAlg factor over {child} + parents.  The MEANING of a CPD   *)
(* is f.val by named assignment; Table2D is the layout rule: row i = i-th  *)
(* child state, column j = j-th parent configuration, row-major over the   *)
(* parent sequence (first parent slowest).  The initial object is built    *)
(* from a 2-D integer table through that rule (FromTable), every operation *)
(* is specified on the meaning, and get_values()/reorder_parents() return  *)
(* Table2D of the resulting meaning.                                       *)
(* TLC enumerates every parent permutation, every subset of parents to     *)
(* marginalise / reduce (every state), in-place and out-of-place variants, *)
(* to depth MaxDepth; each terminal behaviour is replayed on TabularCPD.   *)
(***************************************************************************)
EXTENDS FactorAlg, Json, IOUtils
CONSTANTS MaxDepth
Insts == JsonDeserialize(IOEnv.INST_FILE)
VARIABLES ci, store, hist
vars == <<ci, store, hist>>
C == Insts[ci]
dom == C.dom

Card(v) == Len(dom[v])
Idx(seq, x) == CHOOSE i \in 1..Len(seq) : seq[i] = x
RECURSIVE ColAcc(_, _, _, _)
ColAcc(ps, a, i, acc) == IF i > Len(ps) THEN acc
                         ELSE ColAcc(ps, a, i + 1, acc * Card(ps[i]) + (Idx(dom[ps[i]], a[ps[i]]) - 1))
NCols(ps) == FoldFunction(LAMBDA p, acc : acc * Card(p), 1, ps)
\* the parent configuration (function) of column j (1-based) under parent order ps
ConfOfCol(ps, j) == CHOOSE a \in Assign(dom, ToSet(ps)) : ColAcc(ps, a, 1, 0) + 1 = j

FromTable(child, ps, tab, den) ==
    [kind |-> "cpd", child |-> child, parents |-> ps,
     f |-> [scope |-> {child} \cup ToSet(ps),
            val |-> [a \in Assign(dom, {child} \cup ToSet(ps)) |->
                        R(tab[Idx(dom[child], a[child])][ColAcc(ps, a, 1, 0) + 1], den)]]]
Table2D(o, ps) ==
    [i \in 1..Card(o.child) |-> [j \in 1..NCols(ps) |-> o.f.val[ConfOfCol(ps, j) @@ (o.child :> dom[o.child][i])]]]

\* per-column normalisation (what TabularCPD.normalize does); undefined when a column sums to 0
ColSum(o, a) == RSum(Assign(dom, {o.child}), LAMBDA s : o.f.val[Restr(a, o.f.scope \ {o.child}) @@ s])
NormCols(o) == [o EXCEPT !.f = [scope |-> o.f.scope, val |-> [a \in DOMAIN o.f.val |-> RDiv(o.f.val[a], ColSum(o, a))]]]
NormOK(o) == \A a \in DOMAIN o.f.val : ColSum(o, a)[1] # 0
Without(ps, V) == SelectSeq(ps, LAMBDA p : p \notin V)

Perms(ps) == {q \in [1..Len(ps) -> ToSet(ps)] : \A i, j \in 1..Len(ps) : i # j => q[i] # q[j]}
NoOp == [op |-> "copy", i |-> 1, order |-> <<>>, vars |-> <<>>, asg |-> <<>>, inplace |-> FALSE]
SeqOfSet(S) == CHOOSE s \in [1..Cardinality(S) -> S] : \A a, c \in 1..Cardinality(S) : a # c => s[a] # s[c]
Ops(st) ==
    LET I == {i \in 1..Len(st) : st[i].kind = "cpd"} IN
    UNION {{[NoOp EXCEPT !.op = "reorder", !.i = i, !.order = q, !.inplace = ip] :
                q \in Perms(st[i].parents), ip \in BOOLEAN} : i \in {k \in I : Len(st[k].parents) >= 1}}
    \cup UNION {{[NoOp EXCEPT !.op = "marginalize", !.i = i, !.vars = SeqOfSet(V), !.inplace = ip] :
                V \in (SUBSET ToSet(st[i].parents)) \ {{}}, ip \in BOOLEAN} : i \in I}
    \cup UNION {{[NoOp EXCEPT !.op = "reduce", !.i = i, !.asg = e, !.inplace = ip] :
                e \in UNION {Assign(dom, V) : V \in (SUBSET ToSet(st[i].parents)) \ {{}}}, ip \in BOOLEAN} : i \in I}
    \cup {[NoOp EXCEPT !.op = m, !.i = i, !.inplace = ip] : m \in {"normalize"}, i \in I, ip \in BOOLEAN}
    \cup {[NoOp EXCEPT !.op = m, !.i = i] : m \in {"copy", "to_factor", "get_values"}, i \in I}

\* result object of a transforming operation
Transform(o, op) ==
    CASE op.op = "marginalize" ->
            NormCols([o EXCEPT !.f = FMarg(dom, o.f, ToSet(op.vars)), !.parents = Without(o.parents, ToSet(op.vars))])
      [] op.op = "reduce" ->
            NormCols([o EXCEPT !.f = FReduce(dom, o.f, op.asg), !.parents = Without(o.parents, DOMAIN op.asg)])
      [] op.op = "normalize" -> NormCols(o)
      [] op.op = "reorder" -> [o EXCEPT !.parents = op.order]
      [] op.op = "to_factor" -> [o EXCEPT !.kind = "factor"]
      [] OTHER -> o
Defined(o, op) ==
    CASE op.op = "marginalize" -> NormOK([o EXCEPT !.f = FMarg(dom, o.f, ToSet(op.vars))])
      [] op.op = "reduce" -> NormOK([o EXCEPT !.f = FReduce(dom, o.f, op.asg)])
      [] op.op = "normalize" -> NormOK(o)
      [] OTHER -> TRUE

CProj(o) == [kind |-> o.kind, child |-> o.child, parents |-> o.parents,
            cells |-> {[a |-> a, v |-> o.f.val[a]] : a \in DOMAIN o.f.val},
            tab |-> IF o.kind = "cpd" THEN Table2D(o, o.parents) ELSE <<>>]
CProjStore(st) == [k \in 1..Len(st) |-> CProj(st[k])]

Init == /\ ci \in 1..Len(Insts)
        /\ store = <<FromTable(Insts[ci].child, Insts[ci].parents, Insts[ci].tab, Insts[ci].den)>>
        /\ hist = <<>>

Do(op) ==
    /\ Len(hist) < MaxDepth /\ Len(store) <= 3
    /\ Defined(store[op.i], op)
    /\ LET o == store[op.i]
           r == Transform(o, op)
           newstore == IF op.op \in {"copy", "to_factor"} THEN Append(store, r)
                       ELSE IF op.op = "get_values" THEN store
                       ELSE IF op.op = "reorder" THEN (IF op.inplace THEN [store EXCEPT ![op.i] = r] ELSE store)
                       ELSE IF op.inplace THEN [store EXCEPT ![op.i] = r] ELSE Append(store, r)
           ret == IF op.op = "reorder" THEN Table2D(o, op.order)
                  ELSE IF op.op = "get_values" THEN Table2D(o, o.parents) ELSE <<>>
       IN /\ \A k \in 1..Len(newstore) : \A a \in DOMAIN newstore[k].f.val :     \* stay inside TLC's 32-bit integers
                 newstore[k].f.val[a][1] <= 20000 /\ newstore[k].f.val[a][2] <= 20000
          /\ store' = newstore
          /\ hist' = Append(hist, [o |-> op, ret |-> ret, store |-> CProjStore(newstore)])
    /\ UNCHANGED ci
Next == \E op \in Ops(store) : Do(op)

\* ---- oracle lemmas ------------------------------------------------------------------
\* the layout rule is a bijection between columns and parent configurations
LayoutBijective == \A k \in 1..Len(store) : store[k].kind = "cpd" =>
    LET ps == store[k].parents IN
    {ColAcc(ps, a, 1, 0) + 1 : a \in Assign(dom, ToSet(ps))} = 1..NCols(ps)
\* reordering parents never changes the meaning
ReorderKeepsMeaning == \A k \in 1..Len(store) : store[k].kind = "cpd" =>
    \A q \in Perms(store[k].parents) : FEqual(Transform(store[k], [NoOp EXCEPT !.op = "reorder", !.order = q]).f, store[k].f)

Emit == Len(hist) = MaxDepth => PrintT(ToJson([inst |-> C.id, steps |-> hist]))
=============================================================================
