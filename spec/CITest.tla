------------------------------- MODULE CITest -------------------------------
(***************************************************************************)
(* Conditional-independence tests on discrete data (property C19).         *)
(*                                                                         *)
(* A data set is  D = [rows : Seq(row)],  row = function column -> value   *)
(* (values are opaque integers: only equality is used).                    *)
(* The test of  X _|_ Y | Z  is the STRATIFIED CONTINGENCY-TABLE TEST:     *)
(*   * strata  = the classes of rows that agree on every column of Z       *)
(*               (Z = <<>> : one stratum, all rows);                       *)
(*   * per stratum the r x c table of counts over the X- and Y-values      *)
(*     PRESENT in the stratum, expected counts E = rowtotal*coltotal/n,    *)
(*     dof = (r-1)(c-1); Yates' continuity correction when dof = 1         *)
(*     (each observed count moved by min(1/2,|E-O|) towards E);            *)
(*   * statistic = Cressie-Read power divergence                           *)
(*        2/(L(L+1)) * SUM O*((O/E)^L - 1)     (L # 0, -1)                 *)
(*        2 * SUM O*log(O/E)                   (L = 0,  G test)            *)
(*        2 * SUM E*log(E/O)                   (L = -1, modified G)        *)
(*     with the continuous extension at O = 0 (contribution 0 for L > -1,  *)
(*     +infinity for L <= -1), pooled (added) over the strata, as is dof;  *)
(*   * p-value = ChiSquareSF(statistic, dof)  -- UNINTERPRETED here, except*)
(*     for the three cases that need no real arithmetic:                   *)
(*        dof = 0 or statistic = 0 -> 1,    statistic = +inf -> 0;         *)
(*   * verdict(alpha) = (p-value >= alpha).                                *)
(*                                                                         *)
(* TLC has no reals.  The statistic is therefore an exact SYMBOLIC NORMAL  *)
(* FORM   value = q + SUM_{t in terms} t.c * f(t.b)                        *)
(*    f(b) = log(b) (kind "log")   or   b^(e[1]/e[2]) (kind "pow"),        *)
(* q, t.c, t.b reduced rationals, the t.b pairwise different and # 1.      *)
(* Which counts enter, with which coefficient, is decided here; the        *)
(* harness only evaluates the form with math.log / pow.                    *)
(***************************************************************************)
EXTENDS Naturals, Integers, Sequences, FiniteSets, FiniteSetsExt, TLC

ToSet(s) == {s[i] : i \in 1..Len(s)}
Abs(x) == IF x < 0 THEN -x ELSE x
RECURSIVE GCD(_, _)
GCD(a, c) == IF c = 0 THEN a ELSE GCD(c, a % c)

\* ---- exact rationals <<n, d>>, d > 0, gcd(n, d) = 1 ---------------------------------
R(n, d) == IF n = 0 THEN <<0, 1>>
           ELSE LET g == GCD(Abs(n), Abs(d)) IN
                IF d < 0 THEN <<(-n) \div g, (-d) \div g>> ELSE <<n \div g, d \div g>>
Zero == <<0, 1>>
One == <<1, 1>>
Half == <<1, 2>>
RInt(k) == <<k, 1>>
RNeg(x) == <<-x[1], x[2]>>
RAdd(x, y) == LET g == GCD(x[2], y[2]) IN R(x[1] * (y[2] \div g) + y[1] * (x[2] \div g), (x[2] \div g) * y[2])
RSub(x, y) == RAdd(x, RNeg(y))
RMul(x, y) == IF x[1] = 0 \/ y[1] = 0 THEN Zero
              ELSE LET g1 == GCD(Abs(x[1]), y[2])
                       g2 == GCD(Abs(y[1]), x[2])
                   IN <<(x[1] \div g1) * (y[1] \div g2), (x[2] \div g2) * (y[2] \div g1)>>
RInv(x) == IF x[1] < 0 THEN <<-x[2], -x[1]>> ELSE <<x[2], x[1]>>          \* x # 0
RDiv(x, y) == RMul(x, RInv(y))
RLe(x, y) == x[1] * y[2] <= y[1] * x[2]
RLt(x, y) == x[1] * y[2] < y[1] * x[2]
RAbs(x) == <<Abs(x[1]), x[2]>>
RSumSet(S, f(_)) == FoldSet(LAMBDA x, acc : RAdd(f(x), acc), Zero, S)
ISumSet(S, f(_)) == FoldSet(LAMBDA x, acc : f(x) + acc, 0, S)
RECURSIVE RPowNat(_, _)
RPowNat(x, k) == IF k = 0 THEN One ELSE RMul(x, RPowNat(x, k - 1))
RPowInt(x, k) == IF k >= 0 THEN RPowNat(x, k) ELSE RPowNat(RInv(x), -k)

\* ---- strata and contingency tables --------------------------------------------------
\* TLC evaluates [x \in S |-> e] lazily and re-evaluates e at every application; comparing the value with itself
\* converts it to an explicit table once (semantically the identity)
Force(f) == IF f = f THEN f ELSE f
Idx(D) == 1..Len(D.rows)
Key(D, Z, i) == [z \in ToSet(Z) |-> D.rows[i][z]]
Groups(D, Z) == {{j \in Idx(D) : Key(D, Z, j) = Key(D, Z, i)} : i \in Idx(D)}

\* table of stratum I (a set of row indices)
Tab(D, X, Y, I) ==
    LET xs == {D.rows[i][X] : i \in I}
        ys == {D.rows[i][Y] : i \in I}
    IN [n |-> Cardinality(I), xs |-> xs, ys |-> ys,
        O |-> Force([p \in xs \X ys |-> Cardinality({i \in I : D.rows[i][X] = p[1] /\ D.rows[i][Y] = p[2]})]),
        r |-> Force([a \in xs |-> Cardinality({i \in I : D.rows[i][X] = a})]),
        c |-> Force([b \in ys |-> Cardinality({i \in I : D.rows[i][Y] = b})])]
Cells(T) == T.xs \X T.ys
Dof(T) == (Cardinality(T.xs) - 1) * (Cardinality(T.ys) - 1)
Exp(T, p) == R(T.r[p[1]] * T.c[p[2]], T.n)                 \* > 0: only present values index the table
\* observed count after Yates' continuity correction (tables with dof = 1 only)
Adj(T, p) == LET e == Exp(T, p)
                 o == RInt(T.O[p])
                 d == RSub(e, o)
             IN IF Dof(T) # 1 THEN o
                ELSE IF RLe(RAbs(d), Half) THEN e
                ELSE IF RLt(Zero, d) THEN RAdd(o, Half) ELSE RSub(o, Half)

\* all strata of the test of X and Y given Z:  representative row index -> table
MinOf(I) == CHOOSE i \in I : \A j \in I : i <= j
Strata(D, X, Y, Z) ==
    LET G == Groups(D, Z) IN
    Force([g \in {MinOf(I) : I \in G} |-> Tab(D, X, Y, CHOOSE I \in G : MinOf(I) = g)])

TotalDof(S) == ISumSet(DOMAIN S, LAMBDA g : Dof(S[g]))
ExactlyIndependent(S) == \A g \in DOMAIN S : \A p \in Cells(S[g]) : S[g].O[p] * S[g].n = S[g].r[p[1]] * S[g].c[p[2]]
HasZeroCell(S) == \E g \in DOMAIN S : \E p \in Cells(S[g]) : Adj(S[g], p) = Zero     \* an empty cell that enters the statistic
HasYates(S) == \E g \in DOMAIN S : Dof(S[g]) = 1
AllDegenerate(S) == TotalDof(S) = 0

\* ---- the power-divergence statistic as a symbolic normal form ------------------------
\* contribution of one cell: [inf, q, k, b, c]  meaning  q + c*f(b)   (k = "none": just q)
CellTerm(T, p, L) ==
    LET o == Adj(T, p)
        e == Exp(T, p)
        none == [inf |-> FALSE, q |-> Zero, k |-> "none", b |-> One, c |-> Zero]
    IN IF o = Zero THEN [none EXCEPT !.inf = RLe(L, RInt(-1))]
       ELSE LET b == RDiv(o, e) IN
            IF L = Zero THEN [none EXCEPT !.k = "log", !.b = b, !.c = RMul(RInt(2), o)]
            ELSE IF L = RInt(-1) THEN [none EXCEPT !.k = "log", !.b = b, !.c = RMul(RInt(-2), e)]
            ELSE LET co == RMul(RDiv(RInt(2), RMul(L, RAdd(L, One))), o)
                 IN [none EXCEPT !.k = "pow", !.b = b, !.c = co, !.q = RNeg(co)]

RawTerms(S, L) == UNION {{[g |-> g, p |-> p, t |-> CellTerm(S[g], p, L)] : p \in Cells(S[g])} : g \in DOMAIN S}

Form(S, L) ==
    LET raw == RawTerms(S, L)
        live == {r \in raw : r.t.k # "none" /\ r.t.b # One}       \* log(1) = 0,  1^L = 1
        unit == {r \in raw : r.t.k = "pow" /\ r.t.b = One}
        bases == {r.t.b : r \in live}
        coef(b) == RSumSet({r \in live : r.t.b = b}, LAMBDA r : r.t.c)
    IN [inf |-> \E r \in raw : r.t.inf,
        kind |-> IF L = Zero \/ L = RInt(-1) THEN "log" ELSE "pow",
        e |-> L,
        q |-> RAdd(RSumSet(raw, LAMBDA r : r.t.q), RSumSet(unit, LAMBDA r : r.t.c)),
        terms |-> {[b |-> b, c |-> coef(b)] : b \in {bb \in bases : coef(bb) # Zero}}]
IsZeroForm(F) == ~F.inf /\ F.q = Zero /\ F.terms = {}

\* exact value of a "pow" form with integer exponent (used by the lemmas only)
EvalIntPow(F) == RAdd(F.q, RSumSet(F.terms, LAMBDA t : RMul(t.c, RPowInt(t.b, F.e[1]))))
\* Pearson's X^2 from its own textbook definition  SUM (O-E)^2/E
PearsonX2(S) ==
    RSumSet(DOMAIN S, LAMBDA g :
        RSumSet(Cells(S[g]), LAMBDA p : LET d == RSub(Adj(S[g], p), Exp(S[g], p)) IN RDiv(RMul(d, d), Exp(S[g], p))))

\* ---- p-value and verdict ------------------------------------------------------------
\* "one" / "zero" / "sf" (= ChiSquareSF(value of the form, dof), uninterpreted)
PKind(F, dof) == IF F.inf THEN "zero" ELSE IF dof = 0 \/ IsZeroForm(F) THEN "one" ELSE "sf"
\* verdict for significance level alpha (rational in [0,1]): "T", "F", or "SF" (= ChiSquareSF(..) >= alpha)
Verdict(pk, alpha) == IF pk = "one" THEN "T"
                      ELSE IF pk = "zero" THEN (IF alpha = Zero THEN "T" ELSE "F")
                      ELSE IF alpha = Zero THEN "T" ELSE "SF"
AlphaSeq == <<<<0, 1>>, <<1, 100>>, <<1, 20>>, <<1, 2>>>>

\* ---- the API surface ----------------------------------------------------------------
LamOf == [pearson |-> <<1, 1>>, loglik |-> <<0, 1>>, ft |-> <<-1, 2>>, modloglik |-> <<-1, 1>>,
          neyman |-> <<-2, 1>>, cr |-> <<2, 3>>]
LamName == [pearson |-> "pearson", loglik |-> "log-likelihood", ft |-> "freeman-tukey",
            modloglik |-> "mod-log-likelihood", neyman |-> "neyman", cr |-> "cressie-read"]
ExtraLams == {<<2, 1>>, <<1, 2>>, <<-3, 2>>}
AllLams == {LamOf[k] : k \in DOMAIN LamOf} \cup ExtraLams
\* one lambda of every structural kind of the form (integer power, log O/E, fractional power, log E/O, pole at O = 0)
LemmaLams == {<<1, 1>>, <<0, 1>>, <<-1, 2>>, <<-1, 1>>, <<-2, 1>>}
\* a call = <<function, lambda_ argument ("" = not passed, "num" = the number L), L>>
Calls == {<<"chi_square", "", LamOf.pearson>>, <<"g_sq", "", LamOf.loglik>>, <<"log_likelihood", "", LamOf.loglik>>,
          <<"modified_log_likelihood", "", LamOf.modloglik>>, <<"power_divergence", "", LamOf.cr>>}
         \cup {<<"power_divergence", LamName[k], LamOf[k]>> : k \in DOMAIN LamOf}
         \cup {<<"power_divergence", "num", L>> : L \in AllLams}
         \cup {<<"power_divergence", "freeman-tuckey", LamOf.ft>>}     \* the spelling pgmpy's own docstring lists for lambda = -1/2

Result(S, L) ==
    LET F == Form(S, L)
        pk == PKind(F, TotalDof(S))
    IN [L |-> L, F |-> F, pk |-> pk, verd |-> [i \in 1..Len(AlphaSeq) |-> Verdict(pk, AlphaSeq[i])]]

\* everything the harness needs for one (data, X, Y, Z)
Case(D, X, Y, Z) ==
    LET S == Strata(D, X, Y, Z) IN
    [X |-> X, Y |-> Y, Z |-> Z, n |-> Len(D.rows),
     dof |-> TotalDof(S),
     indep |-> ExactlyIndependent(S),
     zerocell |-> HasZeroCell(S),
     yates |-> HasYates(S),
     res |-> {Result(S, L) : L \in AllLams}]
\* printed once per TLC run: the calls to make for every case and the significance levels of the verd sequences
Header == [header |-> TRUE, calls |-> Calls, alphas |-> AlphaSeq]

\* ---- design-level lemmas (checked by TLC on every generated case) --------------------
Reverse(s) == [i \in 1..Len(s) |-> s[Len(s) + 1 - i]]
\* the same form for the transposed tables: symmetric in X and Y
LemmaSymmetric(S, St) ==
    /\ TotalDof(S) = TotalDof(St)
    /\ \A L \in LemmaLams : Form(S, L) = Form(St, L)
\* invariant under row order and under the order of the conditioning variables (Sr: rows and Z reversed)
LemmaOrder(S, Sr) ==
    /\ TotalDof(Sr) = TotalDof(S)
    /\ \A L \in LemmaLams : Form(Sr, L) = Form(S, L)
\* exactly independent tables (in particular all-degenerate ones) have statistic 0 and p-value 1
LemmaIndependent(S) ==
    /\ AllDegenerate(S) => ExactlyIndependent(S)
    /\ ExactlyIndependent(S) =>
          \A L \in AllLams : LET F == Form(S, L) IN IsZeroForm(F) /\ PKind(F, TotalDof(S)) = "one"
\* the lambda = 1 member of the family is Pearson's X^2; integer-lambda members are >= 0, and (without Yates) 0 only at
\* independence; the lambda <= -1 members are infinite exactly when an empty cell is tested
LemmaPearson(S) ==
    LET F1 == Form(S, <<1, 1>>)
        F2 == Form(S, <<2, 1>>)
        FN == Form(S, <<-2, 1>>)
    IN /\ EvalIntPow(F1) = PearsonX2(S)
       /\ RLe(Zero, EvalIntPow(F1)) /\ RLe(Zero, EvalIntPow(F2))
       /\ (~FN.inf => RLe(Zero, EvalIntPow(FN)))
       /\ (~HasYates(S) /\ EvalIntPow(F1) = Zero => ExactlyIndependent(S))
       /\ (FN.inf <=> HasZeroCell(S))
       /\ (Form(S, <<-1, 1>>).inf <=> HasZeroCell(S))
       /\ ~Form(S, <<-1, 2>>).inf /\ ~Form(S, <<0, 1>>).inf
Lemmas(D, X, Y, Z) ==
    LET S == Strata(D, X, Y, Z)
        St == Strata(D, Y, X, Z)
        Sr == Strata([D EXCEPT !.rows = Reverse(D.rows)], X, Y, Reverse(Z))
    IN /\ LemmaSymmetric(S, St) /\ LemmaOrder(S, Sr) /\ LemmaIndependent(S)
       /\ (Len(D.rows) <= 12 => LemmaPearson(S))      \* exact evaluation of squared ratios: small data only (32-bit integers)
=============================================================================
