------------------------------ MODULE GaussLib ------------------------------
(***************************************************************************)
(* Exact multivariate-normal algebra (property C20).                       *)
(*                                                                         *)
(*   rational   <<n, d>>  with d > 0 and gcd(|n|, d) = 1                    *)
(*   vector     [S -> rational]          (S a set of variable NAMES)       *)
(*   matrix     [S -> [S2 -> rational]]  (M[i][j], name-indexed)           *)
(*                                                                         *)
(* Everything is indexed by variable name, never by position; where a      *)
(* determinant needs an order, a sequence `ord` enumerating the index set  *)
(* is passed explicitly (the value of Det(M, ord, ord) and of the inverse  *)
(* does not depend on which enumeration is used).                          *)
(*                                                                         *)
(* Part 1 rationals, Part 2 matrices (product, determinant by Laplace      *)
(* expansion, inverse = adjugate / determinant), Part 3 linear-Gaussian    *)
(* Bayesian networks (structural equations), Part 4 Gaussian conditioning, *)
(* Part 5 least squares by normal equations, Part 6 Gaussian and canonical *)
(* form objects with the symbolic normal form of the constant g.           *)
(* All of it is textbook definition; nothing transcribes pgmpy.            *)
(***************************************************************************)
EXTENDS Integers, Sequences, FiniteSets, FiniteSetsExt, TLC

SeqSet(s) == {s[i] : i \in 1..Len(s)}
AbsI(x) == IF x < 0 THEN 0 - x ELSE x
RECURSIVE GcdI(_, _)
GcdI(a, b) == IF b = 0 THEN a ELSE GcdI(b, a % b)          \* a, b >= 0

(***************************************************************************)
(* Part 1 - rationals                                                      *)
(***************************************************************************)
QZ == <<0, 1>>
Q1 == <<1, 1>>
QI(k) == <<k, 1>>
Q(n, d) == IF n = 0 THEN QZ
           ELSE LET g == GcdI(AbsI(n), AbsI(d)) IN
                IF d < 0 THEN <<(0 - n) \div g, (0 - d) \div g>> ELSE <<n \div g, d \div g>>
QNeg(x) == <<0 - x[1], x[2]>>
\* addition over the least common denominator (keeps intermediate numbers as small as the result allows)
QAdd(x, y) == IF x[1] = 0 THEN y ELSE IF y[1] = 0 THEN x
              ELSE LET g == GcdI(x[2], y[2]) IN
                   Q(x[1] * (y[2] \div g) + y[1] * (x[2] \div g), (x[2] \div g) * y[2])
QSub(x, y) == QAdd(x, QNeg(y))
\* multiplication with cross-cancellation before multiplying
QMul(x, y) == IF x[1] = 0 \/ y[1] = 0 THEN QZ
              ELSE LET g1 == GcdI(AbsI(x[1]), y[2])
                       g2 == GcdI(AbsI(y[1]), x[2])
                   IN <<(x[1] \div g1) * (y[1] \div g2), (x[2] \div g2) * (y[2] \div g1)>>
QInv(x) == IF x[1] < 0 THEN <<0 - x[2], 0 - x[1]>> ELSE <<x[2], x[1]>>      \* x # 0
QDiv(x, y) == QMul(x, QInv(y))
QPos(x) == x[1] > 0
QHalf(x) == QMul(x, <<1, 2>>)
QSum(S, f(_)) == FoldSet(LAMBDA e, acc : QAdd(f(e), acc), QZ, S)
IsQ(x) == x[2] > 0 /\ (x[1] = 0 => x[2] = 1) /\ (x[1] # 0 => GcdI(AbsI(x[1]), x[2]) = 1)

(***************************************************************************)
(* Part 2 - vectors and matrices                                           *)
(***************************************************************************)
\* constructors that force TLC to evaluate every entry exactly once (TLC would otherwise keep the function lazy and
\* re-evaluate an entry at every application)
Vec(I, f(_)) == TLCEval([i \in I |-> f(i)])
Mat(I, J, f(_, _)) == TLCEval([i \in I |-> TLCEval([j \in J |-> f(i, j)])])
\* Bind(v, F) = F(v) with v evaluated once
Bind(v, F(_)) == CHOOSE r \in {F(x) : x \in {v}} : TRUE
VSub(v, I) == Vec(I, LAMBDA i : v[i])
VAdd(u, v, I) == Vec(I, LAMBDA i : QAdd(u[i], v[i]))
VMinus(u, v, I) == Vec(I, LAMBDA i : QSub(u[i], v[i]))
Dot(u, v, K) == QSum(K, LAMBDA k : QMul(u[k], v[k]))
MSub(M, I, J) == Mat(I, J, LAMBDA i, j : M[i][j])
MAdd(A, B, I, J) == Mat(I, J, LAMBDA i, j : QAdd(A[i][j], B[i][j]))
MMinus(A, B, I, J) == Mat(I, J, LAMBDA i, j : QSub(A[i][j], B[i][j]))
MMul(A, B, I, K, J) == Mat(I, J, LAMBDA i, j : QSum(K, LAMBDA k : QMul(A[i][k], B[k][j])))
MVec(A, v, I, K) == Vec(I, LAMBDA i : QSum(K, LAMBDA k : QMul(A[i][k], v[k])))
MT(A, I, J) == Mat(J, I, LAMBDA j, i : A[i][j])                \* transpose of an I x J matrix
MId(S) == Mat(S, S, LAMBDA i, j : IF i = j THEN Q1 ELSE QZ)
MScale(A, c, I, J) == Mat(I, J, LAMBDA i, j : QMul(c, A[i][j]))
\* matrix over S extended by zeros to T (scope extension of canonical forms)
MExt(A, S, T) == Mat(T, T, LAMBDA i, j : IF i \in S /\ j \in S THEN A[i][j] ELSE QZ)
VExt(v, S, T) == Vec(T, LAMBDA i : IF i \in S THEN v[i] ELSE QZ)
Symmetric(A, S) == \A i, j \in S : A[i][j] = A[j][i]
QuadForm(x, A, S) == QSum(S, LAMBDA i : QMul(x[i], Dot(A[i], x, S)))          \* x' A x

RemoveAt(s, j) == [i \in 1..(Len(s) - 1) |-> IF i < j THEN s[i] ELSE s[i + 1]]
Without(s, x) == SelectSeq(s, LAMBDA y : y # x)
PosIn(s, x) == CHOOSE i \in 1..Len(s) : s[i] = x
OrdOf(ord, S) == SelectSeq(ord, LAMBDA y : y \in S)               \* the members of S in the order of ord

\* determinant of the sub-matrix with rows rs and columns cs (sequences of equal length): Laplace expansion along the first row
RECURSIVE Det(_, _, _)
Det(M, rs, cs) ==
    IF Len(rs) = 0 THEN Q1
    ELSE LET r == rs[1]
             rest == Tail(rs)
         IN FoldSet(LAMBDA j, acc :
                        LET e == M[r][cs[j]] IN
                        IF e[1] = 0 THEN acc
                        ELSE LET t == QMul(e, Det(M, rest, RemoveAt(cs, j))) IN
                             QAdd(acc, IF j % 2 = 1 THEN t ELSE QNeg(t)),
                    QZ, 1..Len(cs))
DetOf(M, ord) == Det(M, ord, ord)
\* inverse = adjugate / determinant (ord enumerates the index set; determinant must be non-zero)
MInv(M, ord) ==
    LET S == SeqSet(ord) IN
    Bind(QInv(Det(M, ord, ord)), LAMBDA di :
        Mat(S, S, LAMBDA i, j :
            LET c == Det(M, Without(ord, j), Without(ord, i)) IN
            IF (PosIn(ord, i) + PosIn(ord, j)) % 2 = 0 THEN QMul(c, di) ELSE QNeg(QMul(c, di))))
\* Sylvester's criterion
PosDef(M, ord) == /\ Symmetric(M, SeqSet(ord))
                  /\ \A k \in 1..Len(ord) : QPos(Det(M, SubSeq(ord, 1, k), SubSeq(ord, 1, k)))
\* magnitude guard used by the generators before inverting (TLC integers are 32-bit)
Small(M, I, J, maxnum, maxden) == \A i \in I : \A j \in J : AbsI(M[i][j][1]) <= maxnum /\ M[i][j][2] <= maxden
SmallV(v, I, maxnum, maxden) == \A i \in I : AbsI(v[i][1]) <= maxnum /\ v[i][2] <= maxden

(***************************************************************************)
(* Part 3 - linear-Gaussian Bayesian networks                              *)
(*   N nodes, E set of <<parent, child>>, w[child][parent], b0[v], var[v]  *)
(*   structural equations  X_v = b0[v] + SUM_p w[v][p] X_p + eps_v,        *)
(*   eps_v ~ N(0, var[v]) independent.                                     *)
(***************************************************************************)
PaOf(E, v) == {e[1] : e \in {f \in E : f[2] = v}}
RECURSIVE DescOf(_, _)
DescOf(E, S) == LET T == S \cup {e[2] : e \in {f \in E : f[1] \in S}} IN IF T = S THEN S ELSE DescOf(E, T)
\* B[parent][child]
BMat(N, E, w) == Mat(N, N, LAMBDA p, c : IF <<p, c>> \in E THEN w[c][p] ELSE QZ)
\* (I - B)^-1 = I + B + ... + B^(n-1) because B is nilpotent on a DAG
RECURSIVE NilIter(_, _, _, _)
NilIter(N, B, T, k) == IF k = 0 THEN T ELSE NilIter(N, B, MAdd(MId(N), MMul(B, T, N, N, N), N, N), k - 1)
NilInv(N, B) == NilIter(N, B, MId(N), Cardinality(N) - 1)
\* Sigma = (I-B)^-T Omega (I-B)^-1 with T = (I-B)^-1
CovOf(N, T, var) == Mat(N, N, LAMBDA i, j : QSum(N, LAMBDA k : QMul(QMul(T[k][i], var[k]), T[k][j])))
\* mean by recursive substitution
RECURSIVE MeanRec(_, _, _, _)
MeanRec(E, w, b0, v) == QAdd(b0[v], QSum(PaOf(E, v), LAMBDA p : QMul(w[v][p], MeanRec(E, w, b0, p))))
MeanOf(N, E, w, b0) == Vec(N, LAMBDA v : MeanRec(E, w, b0, v))
\* covariance by recursive substitution in the structural equations: expand a node that is not an ancestor of the other
RECURSIVE CovRec(_, _, _, _, _)
CovRec(E, w, var, u, v) ==
    IF u = v
    THEN QAdd(var[v], QSum(PaOf(E, v), LAMBDA p : QMul(w[v][p], QSum(PaOf(E, v), LAMBDA q : QMul(w[v][q], CovRec(E, w, var, p, q))))))
    ELSE IF u \notin DescOf(E, {v})
         THEN QSum(PaOf(E, v), LAMBDA p : QMul(w[v][p], CovRec(E, w, var, u, p)))
         ELSE QSum(PaOf(E, u), LAMBDA p : QMul(w[u][p], CovRec(E, w, var, p, v)))
\* information form of the same joint: K = (I-B) Omega^-1 (I-B)^T
PrecOf(N, B, var) ==
    Bind(MMinus(MId(N), B, N, N), LAMBDA IB :
        Mat(N, N, LAMBDA i, j : QSum(N, LAMBDA k : QMul(QDiv(IB[i][k], var[k]), IB[j][k]))))

(***************************************************************************)
(* Part 4 - Gaussian conditioning (A given O = x)                          *)
(***************************************************************************)
CondW(cov, A, ordO) == LET O == SeqSet(ordO) IN MMul(MSub(cov, A, O), MInv(MSub(cov, O, O), ordO), A, O, O)
CondMean(mu, W, A, O, x) == Vec(A, LAMBDA a : QAdd(mu[a], QSum(O, LAMBDA o : QMul(W[a][o], QSub(x[o], mu[o])))))
CondCov(cov, W, A, O) == Mat(A, A, LAMBDA a, b : QSub(cov[a][b], QSum(O, LAMBDA o : QMul(W[a][o], cov[o][b]))))

(***************************************************************************)
(* Part 5 - least squares.  data: sequence of rows (name -> rational);     *)
(* regress y on an intercept and the parents ps (a sequence).  The column  *)
(* of ones is named One.                                                   *)
(***************************************************************************)
One == "_1"
XVal(row, c) == IF c = One THEN Q1 ELSE row[c]
Gram(data, C) == Mat(C, C, LAMBDA c, d : QSum(1..Len(data), LAMBDA i : QMul(XVal(data[i], c), XVal(data[i], d))))
XtY(data, C, y) == Vec(C, LAMBDA c : QSum(1..Len(data), LAMBDA i : QMul(XVal(data[i], c), data[i][y])))
FullRank(data, y, ps) == Det(Gram(data, {One} \cup SeqSet(ps)), <<One>> \o ps, <<One>> \o ps)[1] # 0
Beta(data, y, ps) == LET C == {One} \cup SeqSet(ps) IN MVec(MInv(Gram(data, C), <<One>> \o ps), XtY(data, C, y), C, C)
Resid(data, y, C, beta, i) == QSub(data[i][y], QSum(C, LAMBDA c : QMul(beta[c], XVal(data[i], c))))
\* residual sum of squares; r'r = r'y because the residual is orthogonal to every column (lemma NormalEquations)
RSS(data, y, C, beta) == QSum(1..Len(data), LAMBDA i : QMul(Resid(data, y, C, beta, i), data[i][y]))

(***************************************************************************)
(* Part 6 - Gaussian objects  [S, mu, cov]  and canonical forms            *)
(*   C(x; K, h, g) = exp(-1/2 x'Kx + h'x + g),   [S, K, h, g]              *)
(* The constant g is kept in the symbolic normal form                      *)
(*   g = q + c * log(2 pi) - 1/2 * log(X)      [q, c, X rational, X > 0]   *)
(* (unique because log(2 pi) and logs of rationals are linearly            *)
(* independent over the rationals); the harness only evaluates it.         *)
(***************************************************************************)
Sym(q, c, X) == [q |-> q, c |-> c, X |-> X]
SymAdd(a, b) == [q |-> QAdd(a.q, b.q), c |-> QAdd(a.c, b.c), X |-> QMul(a.X, b.X)]
SymAddQ(a, r) == [a EXCEPT !.q = QAdd(a.q, r)]

GMarg(G, V) == LET R == G.S \ V IN [S |-> R, mu |-> VSub(G.mu, R), cov |-> MSub(G.cov, R, R)]
GReduce(G, ord, y) ==                \* y : function on the reduced variables
    LET O == DOMAIN y
        R == G.S \ O
        W == CondW(G.cov, R, OrdOf(ord, O))
    IN [S |-> R, mu |-> CondMean(G.mu, W, R, O, y), cov |-> CondCov(G.cov, W, R, O)]
ToCanon(G, ord) ==
    LET o == OrdOf(ord, G.S)
        K == MInv(G.cov, o)
        h == MVec(K, G.mu, G.S, G.S)
    IN [S |-> G.S, K |-> K, h |-> h,
        g |-> Sym(QNeg(QHalf(Dot(G.mu, h, G.S))), Q(0 - Cardinality(G.S), 2), DetOf(G.cov, o))]
CToJoint(C, ord) ==
    LET cov == MInv(C.K, OrdOf(ord, C.S)) IN [S |-> C.S, mu |-> MVec(cov, C.h, C.S, C.S), cov |-> cov]
\* integrate out Y = V  (Koller & Friedman eq. 14.6)
CMarg(C, ord, V) ==
    LET X == C.S \ V
        oY == OrdOf(ord, V)
        KYYi == MInv(MSub(C.K, V, V), oY)
        KXY == MSub(C.K, X, V)
        M == MMul(KXY, KYYi, X, V, V)
        hY == VSub(C.h, V)
    IN [S |-> X,
        K |-> MMinus(MSub(C.K, X, X), MMul(M, MSub(C.K, V, X), X, V, X), X, X),
        h |-> VMinus(VSub(C.h, X), MVec(M, hY, X, V), X),
        g |-> SymAdd(C.g, Sym(QHalf(QuadForm(hY, KYYi, V)), Q(Cardinality(V), 2), DetOf(MSub(C.K, V, V), oY)))]
\* set Y = y
CReduce(C, y) ==
    LET V == DOMAIN y
        X == C.S \ V
    IN [S |-> X, K |-> MSub(C.K, X, X),
        h |-> VMinus(VSub(C.h, X), MVec(MSub(C.K, X, V), y, X, V), X),
        g |-> SymAddQ(C.g, QSub(Dot(VSub(C.h, V), y, V), QHalf(QuadForm(y, MSub(C.K, V, V), V))))]
CProduct(C1, C2) ==
    LET T == C1.S \cup C2.S IN
    [S |-> T, K |-> MAdd(MExt(C1.K, C1.S, T), MExt(C2.K, C2.S, T), T, T),
     h |-> VAdd(VExt(C1.h, C1.S, T), VExt(C2.h, C2.S, T), T), g |-> SymAdd(C1.g, C2.g)]
\* log of the canonical form at the point x (a function on C.S), as a symbolic normal form
CLogAt(C, x) == SymAddQ(C.g, QSub(Dot(C.h, x, C.S), QHalf(QuadForm(x, C.K, C.S))))
=============================================================================
