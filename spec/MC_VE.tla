------------------------------- MODULE MC_VE -------------------------------
(***************************************************************************)
(* Model-checking instance of the VE machine over a file of BN instances.  *)
(* TLC explores every (instance, query set, evidence, virtual evidence,    *)
(* elimination order).  Virtual evidence is modelled the way pgmpy encodes *)
(* it (a binary child observed in its first state, column (p, 1-p)): the   *)
(* machine runs on the augmented instance, the oracle is the definition    *)
(* (joint x likelihood weights) on the original one.                       *)
(* Invariants:                                                             *)
(*   PruneSound   the pruned network has the same posterior as the full    *)
(*   ProductInv   product of working factors = initial product summed      *)
(*                over the eliminated variables, exactly                   *)
(*   FinalOK      at the end the normalised product is the exact posterior *)
(* With Emit the same module is the behaviour generator for C01/C03:       *)
(* every terminal state prints the case and its expected answer.           *)
(***************************************************************************)
EXTENDS VE, Json, IOUtils
CONSTANTS MaxQ, MaxEv
Insts == JsonDeserialize(IOEnv.INST_FILE)

VARIABLES bi, Q, ev, virt, phase, B, fs, rem, order, const, aux
vars == <<bi, Q, ev, virt, phase, B, fs, rem, order, const, aux>>
b == Insts[bi]
op == "sum"

\* pgmpy's encoding of virtual evidence: node vn = b.virtname[v], child of v, states <<"t0","t1">>
Augment(bb, vt) ==
    LET VN == {bb.virtname[v] : v \in DOMAIN vt}
        src == [n \in VN |-> CHOOSE v \in DOMAIN vt : bb.virtname[v] = n]
    IN [id |-> bb.id,
        nodes |-> bb.nodes \o SetToSeq(VN),
        states |-> bb.states @@ [n \in VN |-> <<"t0", "t1">>],
        parents |-> bb.parents @@ [n \in VN |-> <<src[n]>>],
        cpd |-> bb.cpd @@ [n \in VN |-> [den |-> vt[src[n]].den,
                                         tab |-> <<vt[src[n]].w,
                                                   [i \in 1..Len(vt[src[n]].w) |-> vt[src[n]].den - vt[src[n]].w[i]]>>]],
        latents |-> bb.latents]
AugEv(bb, e, vt) == e @@ [n \in {bb.virtname[v] : v \in DOMAIN vt} |-> "t0"]
VirtWeights(vt) == [v \in DOMAIN vt |-> vt[v].w]

EvChoices(bb, Q0) ==
    UNION {Assigns(bb, S) : S \in {T \in SUBSET (BNodes(bb) \ Q0) : Cardinality(T) <= MaxEv}}

Init ==
    /\ bi \in 1..Len(Insts)
    /\ Q \in {S \in SUBSET BNodes(Insts[bi]) : S # {} /\ Cardinality(S) <= MaxQ}
    /\ ev \in EvChoices(Insts[bi], Q)
    /\ virt \in {vt \in ToSet(Insts[bi].virts) : DOMAIN vt \cap (Q \cup DOMAIN ev) = {}}
    /\ phase = "new"
    /\ B = <<>> /\ fs = <<>> /\ rem = {} /\ order = <<>> /\ const = <<>> /\ aux = <<>>

\* Setup = _virtual_evidence + _prune_bayesian_model + _get_working_factors
Setup ==
    /\ phase = "new"
    /\ LET J == JointTable(b)
           tot == PostTot(b, J, ev, VirtWeights(virt)) IN
       IF tot = 0
       THEN /\ phase' = "zero_evidence"      \* outside the property's quantifier
            /\ UNCHANGED <<B, fs, rem, order, const, aux>>
       ELSE LET BB == Augment(b, virt)
                EE == AugEv(b, ev, virt)
                all == InitFactorsAll(BB, Q, EE) IN
            /\ phase' = "elim"
            /\ B' = BB
            /\ fs' = NonConst(all)
            /\ const' = ConstOf(all)
            /\ rem' = Keep(BB, Q, EE) \ (Q \cup DOMAIN EE)
            /\ aux' = [init |-> NonConst(all), c0 |-> ConstOf(all), ee |-> EE,
                       post |-> Posterior(b, J, Q, ev, VirtWeights(virt)), tot |-> tot,
                       map |-> MAPSet(b, J, Q, ev, VirtWeights(virt)),
                       jden |-> PostTot(b, J, <<>>, <<>>)]
            /\ UNCHANGED order
    /\ UNCHANGED <<bi, Q, ev, virt>>

Eliminate(v) ==
    /\ phase = "elim" /\ v \in rem
    /\ LET r == ElimStep(B, fs, v, op) IN
       IF r.phi.scope = {}
       THEN /\ fs' = r.fs
            /\ const' = [num |-> const.num * r.phi.val[<<>>], den |-> const.den * r.phi.den]
       ELSE /\ fs' = Append(r.fs, r.phi)
            /\ UNCHANGED const
    /\ rem' = rem \ {v}
    /\ order' = Append(order, v)
    /\ UNCHANGED <<bi, Q, ev, virt, phase, B, aux>>

ElimAny == \E v \in rem : Eliminate(v)
Next == Setup \/ ElimAny
View == <<bi, Q, ev, virt, phase, fs, rem, order, const>>

\* ---- invariants -------------------------------------------------------------
Live == Q \cup rem
Elim == ToSet(order)
InitAt(a) == ProdAt(aux.init, a)
ProductInv ==
    phase = "elim" =>
    \A a \in Assigns(B, Live) :
        ProdAt(fs, a) * const.num = SumOver(Assigns(B, Elim), LAMBDA e : InitAt(a @@ e)) * aux.c0.num
DenInv == phase = "elim" => DenOf(fs) * const.den = DenOf(aux.init) * aux.c0.den

PruneSound ==
    phase = "elim" /\ order = <<>> =>
      LET K == (Keep(B, Q, aux.ee) \ DOMAIN aux.ee) \ Q
          pr == [q \in Assigns(B, Q) |-> SumOver(Assigns(B, K), LAMBDA e : InitAt(q @@ e))]
          ptot == SumOver(DOMAIN pr, LAMBDA q : pr[q])
      IN \A q \in DOMAIN pr : Red(pr[q], ptot) = Red(aux.post[q], aux.tot)

FinalTable == [q \in Assigns(B, Q) |-> ProdAt(fs, q)]
FinalOK ==
    phase = "elim" /\ rem = {} =>
      LET T == FinalTable
          tot == SumOver(DOMAIN T, LAMBDA q : T[q]) IN
      \A q \in DOMAIN T : Red(T[q], tot) = Red(aux.post[q], aux.tot)

\* ---- generator output ---------------------------------------------------------
Case == [inst |-> b.id, q |-> Q, ev |-> ev, virt |-> virt, order |-> order,
         post |-> {[a |-> q, w |-> aux.post[q]] : q \in DOMAIN aux.post}, tot |-> aux.tot,
         map |-> aux.map,
         jden |-> aux.jden,        \* total weight of the joint: P(q, ev) = w / jden when there is no virtual evidence
         \* is the moral graph of the pruned (augmented) network connected?  (belief propagation rejects the others)
         bpconn |-> LET K == Keep(B, Q, aux.ee) IN
                    /\ UConnected(BNodes(b), Moral(BEdges(b)))        \* the engine's own clique tree (constructor)
                    /\ UConnected(K, Moral({e \in BEdges(B) : e[1] \in K /\ e[2] \in K}))]
Emit == phase = "elim" /\ rem = {} => PrintT(ToJson(Case))
=============================================================================
