----------------------------- MODULE Trace_C07 -----------------------------
(***************************************************************************)
(* Samplers (property C07).  A trace = one network instance + the events   *)
(* recorded from one sampler run:                                          *)
(*  kernels  the distinct (parent assignment, weight vector) pairs the     *)
(*           sampler handed to numpy.random.choice for a node (logged by   *)
(*           a wrapper around sample_discrete / sample_discrete_maps and   *)
(*           joined with the returned frame)                               *)
(*  frame    the returned rows (by state name), requested size, columns,   *)
(*           evidence, likelihood weights                                  *)
(*  freq     per kernel: how often each state was drawn under it           *)
(*           (method "simulate": BayesianNetwork.simulate with do / evidence *)
(*           / virtual evidence = sampling from the mutilated network and  *)
(*           rejection: rows agree with do and evidence, intervened values *)
(*           are clamped, everything else has positive probability)        *)
(*  repro    two runs with the same seed returned identical frames         *)
(*  gibbs    one Gibbs transition kernel entry                             *)
(*  sweep    GibbsSampling.sample: row i+1 = row i updated by the logged    *)
(*           draws, each drawn from the full conditional given the CURRENT *)
(*           state of the chain (the draws' kernels are gibbs events)      *)
(*  partial  forward_sample / simulate with partial_samples: given columns *)
(*  missing  simulate(include_missing=True) frame                          *)
(*  xrepro   same call, same seed, other PYTHONHASHSEED: same frame        *)
(* Spec: the ancestral-sampling machine draws node n of a row from exactly *)
(* the CPD column of the row's sampled parent states; states of            *)
(* probability zero never occur; rejection/likelihood-weighted rows agree  *)
(* with the evidence; the likelihood weight is the product of the evidence *)
(* variables' CPD entries given the row; Gibbs kernels are the full        *)
(* conditionals of the joint.  numpy's generator is trusted to draw from   *)
(* the p it is given; a 6-sigma frequency bound per kernel is a backstop.  *)
(***************************************************************************)
EXTENDS BNLib, Json, IOUtils, Integers
Traces == JsonDeserialize(IOEnv.TRACE_FILE)
VARIABLES tid, l, verdict
vars == <<tid, l, verdict>>
T == Traces[tid]
b == T.inst
N == BNodes(b)
Lat == BLatents(b)

Column(v, pa) == [i \in 1..BCard(b, v) |-> Red(CPDNum(b, v, pa @@ (v :> b.states[v][i])), CPDDen(b, v))]
\* every SAMPLED value (clamped likelihood-weighting evidence excepted: its probability is the weight) is a state of its
\* column and has positive probability given the row's parents
RowOK(row, cols, clamped) ==
    \A v \in cols : /\ row[v] \in ToSet(b.states[v])
                    /\ (v \notin clamped /\ BParSet(b, v) \subseteq cols => CPDNum(b, v, row) > 0)
Agree(row, ev) == \A v \in DOMAIN ev : v \in DOMAIN row => row[v] = ev[v]
LWeight(row, ev) == LET E == DOMAIN ev IN
    Red(FoldSet(LAMBDA v, acc : acc * CPDNum(b, v, row), 1, E), FoldSet(LAMBDA v, acc : acc * CPDDen(b, v), 1, E))
Abs(x) == IF x < 0 THEN -x ELSE x
\* |c/n - p| <= 6 sqrt(p(1-p)/n)  with p = num/den, in integers
\* (the normal approximation behind the bound needs both expected counts >= 5; smaller kernels are left to the exact kernel checks)
SixSigma(c, n, num, den) == LET dd == c * den - n * num IN
    (n * num >= 5 * den /\ n * (den - num) >= 5 * den) => dd * dd <= 36 * n * num * (den - num)

\* full conditional of var v given the other variables' states o (exact, by the joint)
FullCond(v, o) == LET w == [i \in 1..BCard(b, v) |-> Weight(b, o @@ (v :> b.states[v][i]))]
                      tot == FoldFunction(LAMBDA x, acc : acc + x, 0, w)
                  IN [i \in 1..BCard(b, v) |-> Red(w[i], tot)]

Fail(cl) == [l |-> l, clause |-> cl]
Check(e) ==
  CASE e.ev = "kernels" ->
         IF \E k \in ToSet(e.pairs) : DOMAIN k.pa # BParSet(b, e.node) THEN Fail("kernel.parent_set")
         ELSE IF \E k \in ToSet(e.pairs) : [i \in 1..Len(k.w) |-> <<k.w[i][1], k.w[i][2]>>] # Column(e.node, k.pa)
              THEN Fail("kernel.not_the_cpd_column")
         ELSE <<>>
    [] e.ev = "frame" ->
         LET cols == ToSet(e.columns) IN
         IF Len(e.rows) # e.size THEN Fail("frame.row_count")
         ELSE IF cols # (IF e.include_latents THEN N ELSE N \ Lat) THEN Fail("frame.columns")
         ELSE IF \E r \in ToSet(e.rows) : \E v \in cols : r[v] \notin ToSet(b.states[v]) THEN Fail("frame.invalid_state_name")
         ELSE IF \E r \in ToSet(e.rows) : ~RowOK(r, cols, IF e.method = "lw" THEN DOMAIN e.evid ELSE ToSet(e.clamped)) THEN Fail("frame.zero_probability_state")
         ELSE IF \E r \in ToSet(e.rows) : ~Agree(r, e.evid) THEN Fail("frame.disagrees_with_evidence")
         ELSE IF e.method = "lw" /\ \E i \in 1..Len(e.rows) : <<e.weights[i][1], e.weights[i][2]>> # LWeight(e.rows[i], e.evid)
              THEN Fail("frame.likelihood_weight")
         ELSE <<>>
    [] e.ev = "freq" ->
         IF \E k \in ToSet(e.counts) : \E i \in 1..BCard(b, e.node) :
               ~SixSigma(k.c[i], k.n, CPDNum(b, e.node, k.pa @@ (e.node :> b.states[e.node][i])), CPDDen(b, e.node))
         THEN Fail("freq.six_sigma") ELSE <<>>
    \* partial_samples: the supplied columns come back as given, row by row (position i of the frame = position i of the input,
    \* whatever index labels the input frame carries); the other columns are sampled given them (kernels / frame events)
    [] e.ev = "partial" ->
         IF Len(e.rows) # e.size THEN Fail("partial.row_count")
         ELSE IF \E c \in DOMAIN e.given : \E i \in 1..Len(e.rows) : e.rows[i][c] # e.given[c][i]
              THEN Fail("partial.columns_not_as_given")
         ELSE <<>>
    \* simulate(include_missing=True): every entry is a state of its column or the missing marker
    [] e.ev = "missing" ->
         IF Len(e.rows) # e.size THEN Fail("frame.row_count")
         ELSE IF \E r \in ToSet(e.rows) : \E v \in DOMAIN r : r[v] \notin ToSet(b.states[v]) \cup {"NaN"} THEN Fail("missing.invalid_entry")
         ELSE <<>>
    \* the same call with the same seed in a process with another PYTHONHASHSEED returned the same frame (compared per column name)
    [] e.ev = "xrepro" -> IF e.same THEN <<>> ELSE Fail("repro.differs_across_hash_seeds")
    [] e.ev = "raised" -> Fail("sampler.raises")
    [] e.ev = "repro" -> IF e.same THEN <<>> ELSE Fail("repro.same_seed_differs")
    [] e.ev = "gibbs" ->
         IF [i \in 1..Len(e.p) |-> <<e.p[i][1], e.p[i][2]>>] = FullCond(e.var, e.others) THEN <<>> ELSE Fail("gibbs.not_full_conditional")
    \* one sweep of the Gibbs chain: the next returned row is the state reached by the logged draws (each draw's kernel is a "gibbs" event)
    \* samples handed out by a generator stay what they were when they were yielded
    [] e.ev = "kept" -> IF e.same THEN <<>> ELSE Fail("generate_sample.kept_sample_changed_after_yield")
    [] e.ev = "sweep" -> IF e.after = e.state THEN <<>> ELSE Fail("gibbs.chain_row_not_the_drawn_state")
    [] OTHER -> Fail("unknown_event")

Init == tid \in 1..Len(Traces) /\ l = 1 /\ verdict = <<>>
Step == /\ l <= Len(T.events) /\ verdict = <<>>
        /\ verdict' = Check(T.events[l]) /\ l' = l + 1 /\ UNCHANGED tid
Finish == /\ l = Len(T.events) + 1 /\ verdict = <<>>
          /\ verdict' = [l |-> l, clause |-> "ACCEPT"] /\ l' = l + 1 /\ UNCHANGED tid
Next == Step \/ Finish
Report == verdict # <<>> => PrintT(ToJson([tid |-> T.tid, v |-> verdict]))
=============================================================================
