----------------------------- MODULE Gen_C11X -----------------------------
(***************************************************************************)
(* Property C11, the two non-iterative searches.  One behaviour per        *)
(* instance (JSON): Init picks it, Work moves to the state whose Emit      *)
(* prints the expected result (so the evaluation runs on TLC's workers).   *)
(*                                                                         *)
(* kind = "xs"   exhaustive search.  Local scores are an uninterpreted     *)
(*    integer table (SearchLib).  TLC enumerates ALL DAGs over the nodes   *)
(*    (3 / 25 / 543), scores each, and prints the maximum, the set of      *)
(*    maximisers and the score of every DAG.                               *)
(*    Lemmas: XsCount (1, 3, 25, 543 labelled DAGs), XsOrderLemma (the     *)
(*    maximum over DAGs = the maximum over node orderings of the sum of    *)
(*    the best parent sets among the predecessors - an independent         *)
(*    characterisation of the optimum).                                    *)
(*                                                                         *)
(* kind = "tree"  Chow-Liu / TAN.  nodes = the tree nodes (features),      *)
(*    cls = class token ("" for Chow-Liu), weights as per-group integer    *)
(*    tables wk[g][u][v] with group sizes nk[g] (one group for Chow-Liu;   *)
(*    for TAN the groups are the class values and the conditional weight   *)
(*    times the number of rows is SUM_g nk[g] * wk[g][u][v]).  TLC         *)
(*    enumerates ALL spanning trees, keeps the maximum-weight ones (within *)
(*    tol units when the weights are scaled floats) and prints, for every  *)
(*    root, the set of admissible results: a maximum tree directed away    *)
(*    from the root, plus class -> feature edges for TAN.                  *)
(*    Lemmas: Cayley (n^(n-2) spanning trees), OrientLemma (every          *)
(*    orientation is acyclic, has the tree as skeleton, the root has no    *)
(*    parent and every other node exactly one).                            *)
(*                                                                         *)
(* kind = "mi"   mutual information of every pair of columns of a tiny     *)
(*    data set, times the number of rows, as an exact LogForm              *)
(*       SUM_groups SUM_ab n_ab (log n + log n_ab - log n_a - log n_b)     *)
(*    (one group = plain MI; groups = rows per class value = conditional   *)
(*    MI).  pos = the pair is NOT exactly independent in every group       *)
(*    (integer test n_ab n = n_a n_b).  Lemma MiZeroLemma: pos iff the     *)
(*    form is not the zero form; MiSymmetric.                              *)
(***************************************************************************)
EXTENDS SearchLib, LogForm, Json, IOUtils
CONSTANT MaxN
Insts == JsonDeserialize(IOEnv.INST_FILE)

Tokens == <<"v0", "v1", "v2", "v3", "v4", "v5">>
NodeSet(n) == {Tokens[i] : i \in 1..n}
DagTab == [k \in 1..MaxN |-> {d : d \in AllDAGs(NodeSet(k))}] @@ <<>>

\* pb is the instance itself (a variable: definitions depending on IOEnv are re-read at every use)
VARIABLES pb, ph
vars == <<pb, ph>>
Init == (\E s \in {Insts} : pb \in ToSet(s)) /\ ph = 0      \* (the file is read once)
Work == ph = 0 /\ ph' = 1 /\ UNCHANGED pb
Next == Work
N == ToSet(pb.nodes)

\* ---------------------------------------------------------------- exhaustive search
Dags == DagTab[Len(pb.nodes)]
Scored == {<<d, Score(pb, N, d)>> : d \in Dags}
XsCase == \E sc \in {Scored} : \E best \in {MaxOf({p[2] : p \in sc})} :
    PrintT(ToJson([id |-> pb.id, kind |-> "xs", ndags |-> Cardinality(sc), best |-> best,
                   argmax |-> {p[1] : p \in {q \in sc : q[2] = best}},
                   scores |-> {[e |-> p[1], s |-> p[2]] : p \in sc}]))
XsCount == (ph = 1 /\ pb.kind = "xs") =>
    Cardinality(Dags) = CASE Len(pb.nodes) = 1 -> 1 [] Len(pb.nodes) = 2 -> 3 [] Len(pb.nodes) = 3 -> 25 [] Len(pb.nodes) = 4 -> 543
Perms == {s \in [1..Len(pb.nodes) -> N] : \A i, j \in 1..Len(pb.nodes) : i # j => s[i] # s[j]}
BestFamily(v, preds) == MaxOf({LS(pb, v, P) + pb.pe * Cardinality(P) : P \in SUBSET preds})
OrderBest(s) == MapThenSumSet(LAMBDA i : BestFamily(s[i], {s[j] : j \in 1..(i - 1)}), 1..Len(pb.nodes))
XsOrderLemma == (ph = 1 /\ pb.kind = "xs") =>
    MaxOf({p[2] : p \in Scored}) = MaxOf({OrderBest(s) : s \in Perms})

\* ---------------------------------------------------------------- trees
Groups == 1..Len(pb.nk)
W == [u \in N |-> [v \in N |-> IF u = v THEN 0 ELSE MapThenSumSet(LAMBDA g : pb.nk[g] * pb.wk[g][u][v], Groups)]]
ClassEdges == IF pb.cls = "" THEN {} ELSE {<<pb.cls, f>> : f \in N}
TreeCase == \E w \in {W} : \E mt \in {MaxTrees(w, N, pb.tol)} :
    PrintT(ToJson([id |-> pb.id, kind |-> "tree", ntrees |-> Cardinality(SpanningTrees(N)),
                   maxw |-> MaxOf({TreeW(w, T) : T \in mt}), nopt |-> Cardinality(mt),
                   roots |-> {[r |-> r, dags |-> {OrientAway(N, T, r) \cup ClassEdges : T \in mt}] : r \in N},
                   auto |-> {n \in N : \A m \in N : WeightSum(w, N, n) >= WeightSum(w, N, m)}]))
RECURSIVE Pow(_, _)
Pow(a, k) == IF k = 0 THEN 1 ELSE a * Pow(a, k - 1)
Cayley == (ph = 1 /\ pb.kind = "tree") =>
    Cardinality(SpanningTrees(N)) = (IF Cardinality(N) = 1 THEN 1 ELSE Pow(Cardinality(N), Cardinality(N) - 2))
OrientLemma == (ph = 1 /\ pb.kind = "tree" /\ Cardinality(N) <= 5) =>
    \A T \in SpanningTrees(N) : \A r \in N : \E D \in {OrientAway(N, T, r)} :
        /\ Acyclic(N, D) /\ Skeleton(D) = T /\ Cardinality(D) = Cardinality(T)
        /\ Pa(D, r) = {} /\ \A n \in N \ {r} : Cardinality(Pa(D, n)) = 1

\* ---------------------------------------------------------------- mutual information
\* rows: Seq(Seq(Int)) aligned with pb.nodes; pb.groups: Seq(Seq(row index))
Col(v) == CHOOSE i \in 1..Len(pb.nodes) : pb.nodes[i] = v
Cnt(G, cu, a, cv, b) == Cardinality({i \in G : pb.rows[i][cu] = a /\ pb.rows[i][cv] = b})
Cnt1(G, cu, a) == Cardinality({i \in G : pb.rows[i][cu] = a})
GroupForm(G, cu, cv) ==
    LET n == Cardinality(G)
        cells == {c \in {pb.rows[i][cu] : i \in G} \X {pb.rows[i][cv] : i \in G} : Cnt(G, cu, c[1], cv, c[2]) > 0}
    IN FSumSet(cells, LAMBDA c : FScale(Cnt(G, cu, c[1], cv, c[2]),
                                       FSub(FAdd(FLog(n), FLog(Cnt(G, cu, c[1], cv, c[2]))),
                                            FAdd(FLog(Cnt1(G, cu, c[1])), FLog(Cnt1(G, cv, c[2]))))))
GroupIndep(G, cu, cv) ==
    \A a \in {pb.rows[i][cu] : i \in G} : \A b \in {pb.rows[i][cv] : i \in G} :
        Cnt(G, cu, a, cv, b) * Cardinality(G) = Cnt1(G, cu, a) * Cnt1(G, cv, b)
RowGroups == {ToSet(pb.groups[g]) : g \in 1..Len(pb.groups)}
PairForm(u, v) == FSumSet(RowGroups, LAMBDA G : GroupForm(G, Col(u), Col(v)))
PairPos(u, v) == \E G \in RowGroups : ~GroupIndep(G, Col(u), Col(v))
MiCase == PrintT(ToJson([id |-> pb.id, kind |-> "mi", nrows |-> Len(pb.rows),
                         pairs |-> {[u |-> p[1], v |-> p[2], f |-> FJson(PairForm(p[1], p[2])), pos |-> PairPos(p[1], p[2])] :
                                      p \in {q \in N \X N : Col(q[1]) < Col(q[2])}}]))
MiZeroLemma == (ph = 1 /\ pb.kind = "mi") =>
    \A p \in AllPairs(N) : PairPos(p[1], p[2]) <=> PairForm(p[1], p[2]) # FZero
MiSymmetric == (ph = 1 /\ pb.kind = "mi") =>
    \A p \in AllPairs(N) : PairForm(p[1], p[2]) = PairForm(p[2], p[1])

Emit == ph = 1 => CASE pb.kind = "xs" -> XsCase [] pb.kind = "tree" -> TreeCase [] pb.kind = "mi" -> MiCase
=============================================================================
