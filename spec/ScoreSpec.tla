------------------------------ MODULE ScoreSpec ------------------------------
(***************************************************************************)
(* Structure scores of discrete Bayesian networks (property C10) by their  *)
(* PUBLISHED closed forms, as exact LogForm normal forms.                  *)
(*                                                                         *)
(*   dom  : column -> Seq(state)   the DECLARED states of every column     *)
(*   rows : Seq([column -> state]) the data set                            *)
(* For a variable v with r = Len(dom[v]) states and a parent SET P, the    *)
(* parent configurations are ALL q = PROD_{p in P} Len(dom[p]) functions   *)
(* j : P -> states (observed in the data or not), and                      *)
(*   N_ijk = #rows with v = k and parents = j,    N_ij = SUM_k N_ijk.      *)
(*                                                                         *)
(*  K2    SUM_j [ lgG(r) - lgG(N_ij + r) + SUM_k lgG(N_ijk + 1) ]          *)
(*        (Cooper & Herskovits 1992; Koller & Friedman 18.3.4)             *)
(*  BDeu  SUM_j [ lgG(a) - lgG(N_ij + a) + SUM_k (lgG(N_ijk + b) - lgG(b))]*)
(*        a = ess / q,  b = ess / (q r)        (Heckerman et al. 1995)     *)
(*  BDs   the same sum over the OBSERVED configurations only (N_ij > 0),   *)
(*        a = ess / q~, b = ess / (q~ r), q~ = #observed configurations    *)
(*        (Scutari 2016), with the marginal uniform graph prior            *)
(*        log P(G) = -(|E| + n(n-1)/2) log 2                               *)
(*  LL    SUM_jk N_ijk log (N_ijk / N_ij)                                  *)
(*  BIC   LL - (1/2) log(N) q (r - 1)           AIC   LL - q (r - 1)       *)
(*  network score = SUM_v local(v, Pa(v)) + log prior (0 unless BDs)       *)
(*                                                                         *)
(* The equivalent sample size is the rational ess = en / ed.  Gamma        *)
(* arguments are handled as DOUBLED integers (LogForm!LGamma2), so         *)
(* BDeu/BDs have a closed form here iff 2 ess is a multiple of q r         *)
(* (Admissible: all Gamma arguments are integers or half-integers);        *)
(* otherwise only relations between runs are checked.                      *)
(***************************************************************************)
EXTENDS LogForm

SeqToSet(s) == {s[i] : i \in 1..Len(s)}
Configs(dom, P) == {a \in [P -> UNION {SeqToSet(dom[p]) : p \in P}] : \A p \in P : a[p] \in SeqToSet(dom[p])}
NConfigs(dom, P) == Cardinality(Configs(dom, P))

NJ(rows, P, j) == Cardinality({i \in 1..Len(rows) : \A p \in P : rows[i][p] = j[p]})
NJK(rows, v, P, j, k) == Cardinality({i \in 1..Len(rows) : rows[i][v] = k /\ \A p \in P : rows[i][p] = j[p]})
ObservedConfigs(dom, rows, P) == {j \in Configs(dom, P) : NJ(rows, P, j) > 0}

\* ------------------------------------------------------------------ Bayesian-Dirichlet family
\* one parent configuration j with doubled hyper-parameters a2 = 2a (per configuration), b2 = 2b (per cell)
BDTerm(dom, rows, v, P, j, a2, b2) ==
    FAdd(FSub(LGamma2(a2), LGamma2(2 * NJ(rows, P, j) + a2)),
         FSumSet(SeqToSet(dom[v]), LAMBDA k : FSub(LGamma2(2 * NJK(rows, v, P, j, k) + b2), LGamma2(b2))))

K2Local(dom, rows, v, P) ==
    LET r == Len(dom[v]) IN
    FSumSet(Configs(dom, P), LAMBDA j : BDTerm(dom, rows, v, P, j, 2 * r, 2))

\* doubled hyper-parameter 2 (en / ed) / parts, defined when Divides
Divides(en, ed, parts) == parts > 0 /\ (2 * en) % (parts * ed) = 0
Hyper2(en, ed, parts) == (2 * en) \div (parts * ed)

BDeuAdmissible(dom, v, P, en, ed) == Divides(en, ed, NConfigs(dom, P) * Len(dom[v]))
BDeuLocal(dom, rows, v, P, en, ed) ==
    LET q == NConfigs(dom, P)
        r == Len(dom[v]) IN
    FSumSet(Configs(dom, P), LAMBDA j : BDTerm(dom, rows, v, P, j, Hyper2(en, ed, q), Hyper2(en, ed, q * r)))

BDsAdmissible(dom, rows, v, P, en, ed) ==
    Divides(en, ed, Cardinality(ObservedConfigs(dom, rows, P)) * Len(dom[v]))
BDsLocal(dom, rows, v, P, en, ed) ==
    LET O == ObservedConfigs(dom, rows, P)
        qo == Cardinality(O)
        r == Len(dom[v]) IN
    FSumSet(O, LAMBDA j : BDTerm(dom, rows, v, P, j, Hyper2(en, ed, qo), Hyper2(en, ed, qo * r)))

\* ------------------------------------------------------------------ penalised likelihood family
LogLik(dom, rows, v, P) ==
    FSumSet(ObservedConfigs(dom, rows, P), LAMBDA j :
        LET nj == NJ(rows, P, j) IN
        FSumSet({k \in SeqToSet(dom[v]) : NJK(rows, v, P, j, k) > 0}, LAMBDA k :
            LET n == NJK(rows, v, P, j, k) IN FScale(n, FSub(FLog(n), FLog(nj)))))
NParams(dom, v, P) == NConfigs(dom, P) * (Len(dom[v]) - 1)
BicLocal(dom, rows, v, P) == FSub(LogLik(dom, rows, v, P), FScale(NParams(dom, v, P), FHalfLog(Len(rows))))
AicLocal(dom, rows, v, P) == FSub(LogLik(dom, rows, v, P), FConst(NParams(dom, v, P)))

\* ------------------------------------------------------------------ by name
\* ty = [t |-> "k2" | "bdeu" | "bds" | "bic" | "aic", en |-> Nat, ed |-> Nat]   (ess = en / ed)
Admissible(dom, rows, ty, v, P) ==
    CASE ty.t = "bdeu" -> BDeuAdmissible(dom, v, P, ty.en, ty.ed)
      [] ty.t = "bds"  -> BDsAdmissible(dom, rows, v, P, ty.en, ty.ed)
      [] OTHER -> TRUE
Local(dom, rows, ty, v, P) ==
    CASE ty.t = "k2"   -> K2Local(dom, rows, v, P)
      [] ty.t = "bdeu" -> BDeuLocal(dom, rows, v, P, ty.en, ty.ed)
      [] ty.t = "bds"  -> BDsLocal(dom, rows, v, P, ty.en, ty.ed)
      [] ty.t = "bic"  -> BicLocal(dom, rows, v, P)
      [] ty.t = "aic"  -> AicLocal(dom, rows, v, P)

\* log prior over graphs: uniform (constant 0) except the marginal uniform prior of BDs
LogPrior(ty, nnodes, nedges) ==
    IF ty.t = "bds" THEN FScale(0 - ((2 * nedges + nnodes * (nnodes - 1)) \div 2), FLog(2)) ELSE FZero
=============================================================================
