------------------------------ MODULE Gen_C04 ------------------------------
(***************************************************************************)
(* Behaviour generator / model checker for the factor-algebra store.       *)
(* Init picks a pool of base factors from the instance file; Next applies  *)
(* ANY enabled operation (in-place or out-of-place) to ANY objects.  Every *)
(* state of depth MaxDepth prints the behaviour: the operations and the    *)
(* expected projection of the WHOLE store after every step (so aliasing    *)
(* between a result and its operands is visible as a frame violation).     *)
(* Invariants are algebraic laws that validate the oracle itself.          *)
(***************************************************************************)
EXTENDS FactorAlg, Json, IOUtils
CONSTANTS MaxDepth, MaxObjs, EmitAll, NSim
Pools == JsonDeserialize(IOEnv.INST_FILE)

VARIABLES pi, sid, store, hist
vars == <<pi, sid, store, hist>>
P == Pools[pi]
dom == P.dom

FromJson(d, jf) ==
    [scope |-> ToSet(jf.scope),
     val |-> [a \in Assign(d, ToSet(jf.scope)) |-> LET c == CHOOSE c \in ToSet(jf.cells) : c.a = a IN R(c.n, c.d)]]

NoOp == [op |-> "copy", i |-> 1, j |-> 1, vars |-> <<>>, asg |-> <<>>, c |-> 0, inplace |-> FALSE]
SeqOfSet(S) == CHOOSE s \in [1..Cardinality(S) -> S] : \A a, c \in 1..Cardinality(S) : a # c => s[a] # s[c]
Ops(st) ==
    LET I == 1..Len(st) IN
    {[NoOp EXCEPT !.op = b, !.i = i, !.j = j, !.inplace = ip] : b \in Binary, i \in I, j \in I, ip \in BOOLEAN}
    \cup {[NoOp EXCEPT !.op = "eq", !.i = i, !.j = j] : i \in I, j \in I}
    \cup UNION {{[NoOp EXCEPT !.op = m, !.i = i, !.vars = SeqOfSet(V), !.inplace = ip] :
                    m \in {"marginalize", "maximize"}, V \in (SUBSET st[i].scope) \ {{}}, ip \in BOOLEAN} : i \in I}
    \cup UNION {{[NoOp EXCEPT !.op = "reduce", !.i = i, !.asg = e, !.inplace = ip] :
                    e \in UNION {Assign(dom, V) : V \in (SUBSET st[i].scope) \ {{}}}, ip \in BOOLEAN} : i \in I}
    \cup {[NoOp EXCEPT !.op = m, !.i = i, !.inplace = ip] : m \in {"normalize", "copy"}, i \in I, ip \in BOOLEAN}
    \cup {[NoOp EXCEPT !.op = m, !.i = i, !.c = c, !.inplace = ip] :
                    m \in {"scalar_product", "scalar_sum"}, i \in I, c \in {0, 3}, ip \in BOOLEAN}
    \cup UNION {{[NoOp EXCEPT !.op = "set_value", !.i = i, !.asg = a, !.c = 7, !.inplace = TRUE] :
                    a \in {CHOOSE x \in DOMAIN st[i].val : TRUE}} : i \in {k \in I : st[k].scope # {}}}

\* NSim = 0: exhaustive (every enabled operation is a successor).  NSim > 0: NSim sampled behaviours per pool,
\* each step applying ONE operation drawn uniformly (TLC!RandomElement) from the enabled ones.
Init == /\ pi \in 1..Len(Pools)
        /\ sid \in (IF NSim = 0 THEN {0} ELSE 1..NSim)
        /\ store = [k \in 1..Len(Pools[pi].factors) |-> FromJson(Pools[pi].dom, Pools[pi].factors[k])]
        /\ hist = <<>>

OK(o) ==
    /\ Enabled(dom, store, o)
    /\ (o.op = "normalize" => LET t == FTotal(store[o.i]) IN Fin(t) /\ t[1] # 0)
    /\ LET r == Apply(dom, store, o) IN
       /\ Len(r.store) <= MaxObjs
       /\ \A k \in 1..Len(r.store) : ~HasNaN(r.store[k])          \* NaN arithmetic is not specified
       /\ \A k \in 1..Len(r.store) : \A a \in DOMAIN r.store[k].val :       \* keep within TLC's 32-bit integers
               r.store[k].val[a][1] <= 20000 /\ r.store[k].val[a][2] <= 20000
Do(o) ==
    /\ LET r == Apply(dom, store, o) IN
       /\ store' = r.store
       /\ hist' = Append(hist, [o |-> o, ret |-> r.ret, store |-> ProjStore(r.store)])
    /\ UNCHANGED <<pi, sid>>
Next == /\ Len(hist) < MaxDepth
        /\ LET en == {o \in Ops(store) : OK(o)} IN
           IF NSim = 0 THEN \E o \in en : Do(o)
           ELSE en # {} /\ Do(RandomElement(en))

\* ---- oracle laws (checked on every reachable store) ---------------------------------
Finite(f) == ~HasInf(f) /\ ~HasNaN(f)
LawCommute == \A i, j \in 1..Len(store) :
    /\ FEqual(FProduct(dom, store[i], store[j]), FProduct(dom, store[j], store[i]))
    /\ FEqual(FSum(dom, store[i], store[j]), FSum(dom, store[j], store[i]))
LawMargOrder == \A i \in 1..Len(store) : \A u, v \in store[i].scope : u # v /\ Finite(store[i]) =>
    FEqual(FMarg(dom, FMarg(dom, store[i], {u}), {v}), FMarg(dom, store[i], {u, v}))
LawReduceMarg == \A i \in 1..Len(store) : \A u, v \in store[i].scope : u # v /\ Finite(store[i]) =>
    \A e \in Assign(dom, {u}) :
       FEqual(FReduce(dom, FMarg(dom, store[i], {v}), e), FMarg(dom, FReduce(dom, store[i], e), {v}))
LawDistribute == \A i, j \in 1..Len(store) : Finite(store[i]) /\ Finite(store[j]) =>
    \A v \in store[i].scope \ store[j].scope :   \* sum-out commutes with product when v is private to one operand
       FEqual(FMarg(dom, FProduct(dom, store[i], store[j]), {v}), FProduct(dom, FMarg(dom, store[i], {v}), store[j]))

\* FactorDict.dot on the final store: for every pair of objects over the same non-empty scope the sum over named assignments of the
\* product (whatever the axis orders of the two objects are)
\* (integer-valued operands with entries <= 3000 only: the sum of <= 81 products stays inside TLC's 32-bit integers)
SmallInt(f) == \A a \in DOMAIN f.val : f.val[a][2] = 1 /\ f.val[a][1] <= 3000
Dots == UNION {{[i |-> i, j |-> j, v |-> FDot(dom, store[i], store[j])] :
                    j \in {k \in i..Len(store) : store[k].scope = store[i].scope /\ SmallInt(store[k])}}
               : i \in {k \in 1..Len(store) : store[k].scope # {} /\ SmallInt(store[k])}}
Emit == (Len(hist) = MaxDepth \/ (EmitAll /\ Len(hist) > 0)) =>
           PrintT(ToJson([pool |-> P.id, steps |-> hist, dots |-> Dots]))
=============================================================================
