------------------------------ MODULE Gen_C19P ------------------------------
(***************************************************************************)
(* Partial-correlation cases: tiny integer data sets from an instance file,*)
(* TLC enumerates every ordered (X, Y), every ordered conditioning         *)
(* sequence Z (|Z| <= 2) and every affine re-parametrisation  v -> a*v + b *)
(* (a in As, b in Bs; a > 0) of every variable involved; the lemmas of     *)
(* PCorr are checked on each and the expected r-form is printed.           *)
(***************************************************************************)
EXTENDS PCorr, Json, IOUtils
CONSTANTS Wide
As == IF Wide THEN {1, 2, 3, 5} ELSE {1, 2, 3}
Bs == IF Wide THEN {-7, -2, 0, 1, 5} ELSE {-2, 0, 5}
Insts == JsonDeserialize(IOEnv.INST_FILE)
VARIABLES di, sel, tr
vars == <<di, sel, tr>>
CS(i) == Insts[i].cols
None == [X |-> "", Y |-> "", Z |-> <<>>]
NoTr == [v |-> "", a |-> 1, b |-> 0]
InjSeqs(S, k) == {q \in [1..k -> S] : \A a, c \in 1..k : a # c => q[a] # q[c]}
ToSet(s) == {s[i] : i \in 1..Len(s)}
D == [rows |-> Insts[di].rows]

Init == di \in 1..Len(Insts) /\ sel = None /\ tr = NoTr
Choose(X, Y, Z) == /\ sel = None /\ Defined(D, X, Y, Z)
                   /\ sel' = [X |-> X, Y |-> Y, Z |-> Z] /\ UNCHANGED <<di, tr>>
Pick == \E X \in ToSet(CS(di)) : \E Y \in ToSet(CS(di)) \ {X} :
          \E k \in 0..2 : \E Z \in InjSeqs(ToSet(CS(di)) \ {X, Y}, k) : Choose(X, Y, Z)
Transform == /\ sel # None /\ tr = NoTr
             /\ \E v \in {sel.X, sel.Y} \cup ToSet(sel.Z) : \E a \in As : \E b \in Bs :
                    /\ <<a, b>> # <<1, 0>>
                    /\ tr' = [v |-> v, a |-> a, b |-> b]
             /\ UNCHANGED <<di, sel>>
Next == Pick \/ Transform

Chosen == sel # None
LemmasHold == Chosen =>
    /\ LemmaNormalEq(D, sel.Z, sel.X) /\ LemmaNormalEq(D, sel.Z, sel.Y) /\ LemmaPositive(D, sel.Z)
    /\ LemmaSym(D, sel.X, sel.Y, sel.Z) /\ LemmaCauchy(D, sel.X, sel.Y, sel.Z)
    /\ (tr # NoTr => LemmaAffine(D, sel.X, sel.Y, sel.Z, tr.v, tr.a, tr.b))
\* the data the implementation is run on: the instance re-parametrised by tr
DT == IF tr = NoTr THEN D ELSE Affine(D, tr.v, tr.a, tr.b)
Emit == Chosen => LET F == RForm(D, sel.X, sel.Y, sel.Z) IN
    PrintT(ToJson([inst |-> Insts[di].id, X |-> sel.X, Y |-> sel.Y, Z |-> sel.Z, tr |-> tr, F |-> F, pk |-> RKind(D, sel.X, sel.Y, sel.Z),
                   dev |-> IF DevDefined(DT, sel.X, sel.Y, sel.Z) THEN DevRForm(DT, sel.X, sel.Y, sel.Z) ELSE [n |-> 0]]))
=============================================================================
