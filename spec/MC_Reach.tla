------------------------------ MODULE MC_Reach ------------------------------
(***************************************************************************)
(* Step machine of DAG.active_trail_nodes (Koller-Friedman Alg. 3.1 as     *)
(* coded in pgmpy/base/DAG.py): the visit list is a *set* popped in hash   *)
(* order, so the pop is nondeterministic here.  TLC checks, for every DAG  *)
(* over Nodes, every start and every observed set, that every terminal     *)
(* state yields exactly the trail-definition answer.                       *)
(***************************************************************************)
EXTENDS DSep
CONSTANT Nodes
VARIABLES E, start, Z, visit, traversed, active, oracle
vars == <<E, start, Z, visit, traversed, active, oracle>>

Init == /\ E \in AllDAGs(Nodes)
        /\ start \in Nodes
        /\ Z \in SUBSET (Nodes \ {start})
        /\ visit = {<<start, "up">>}
        /\ traversed = {}
        /\ active = {}
        /\ oracle = ActiveSet(Nodes, E, start, Z)      \* computed once (hidden by VIEW)

Pop(nd) ==
    /\ nd \in visit
    /\ LET n == nd[1]  d == nd[2]  AncZ == AncOS(E, Z) IN
       IF nd \in traversed
       THEN /\ visit' = visit \ {nd}
            /\ UNCHANGED <<traversed, active>>
       ELSE /\ active' = IF n \notin Z THEN active \cup {n} ELSE active
            /\ traversed' = traversed \cup {nd}
            /\ visit' = (visit \ {nd}) \cup
                 (IF d = "up" /\ n \notin Z
                  THEN {<<p, "up">> : p \in Pa(E, n)} \cup {<<c, "down">> : c \in Ch(E, n)}
                  ELSE IF d = "down"
                  THEN (IF n \notin Z THEN {<<c, "down">> : c \in Ch(E, n)} ELSE {}) \cup
                       (IF n \in AncZ THEN {<<p, "up">> : p \in Pa(E, n)} ELSE {})
                  ELSE {})
    /\ UNCHANGED <<E, start, Z, oracle>>

Next == \E nd \in visit : Pop(nd)
Spec == Init /\ [][Next]_vars

View == <<E, start, Z, visit, traversed, active>>
\* every intermediate active set is sound, every terminal one complete
Sound == active \subseteq oracle
Complete == visit = {} => active = oracle
Monotone == [][active \subseteq active' /\ traversed \subseteq traversed']_vars
=============================================================================
