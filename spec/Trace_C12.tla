------------------------------ MODULE Trace_C12 ------------------------------
(***************************************************************************)
(* Trace validation of the SKELETON phase of PC (property C12): the        *)
(* conditional-independence queries that PC.build_skeleton puts to its     *)
(* oracle are logged (the harness's oracle callable answers from the       *)
(* ground-truth DAG) and must be a behaviour of the skeleton machine       *)
(* MC_PCSkel, whose state is reconstructed here from the trace alone:      *)
(*   G     current undirected graph (complete at the start)                *)
(*   lvl   size of the conditioning sets being tried                       *)
(*   snap  the graph at the start of the level (adjacency source of the    *)
(*         "stable" and "parallel" variants; "orig" uses G itself)         *)
(*   asked the (edge, set) pairs queried at this level                     *)
(* One logged query (x, y, S, answer) is one step:                         *)
(*   - a larger |S| than lvl silently closes the running level (End) and   *)
(*     opens level |S| (Begin); the closed level must have been complete:  *)
(*     every candidate set of every surviving edge was asked               *)
(*   - {x, y} is still an edge, S has lvl elements and lies inside the     *)
(*     adjacency of x or of y (current graph / snapshot) without the other *)
(*     end point                                                           *)
(*   - the answer is the d-separation truth of the ground-truth DAG        *)
(*   - a positive answer removes the edge and records S; no further query  *)
(*     on a removed edge                                                   *)
(* The closing event carries the returned skeleton and separating sets:    *)
(* they are G and sep, the last level was complete, and no further level   *)
(* was due (every node has fewer than lvl + 1 neighbours) unless the       *)
(* maximal size was reached.  Verdicts are total (failing clause named).   *)
(***************************************************************************)
EXTENDS DagLib, Json, IOUtils
Traces == JsonDeserialize(IOEnv.TRACE_FILE)
ToSet(s) == {s[i] : i \in 1..Len(s)}

VARIABLES tid, l, verdict, G, lvl, snap, asked, sep
vars == <<tid, l, verdict, G, lvl, snap, asked, sep>>
T == Traces[tid]
Nodes == ToSet(T.nodes)
E == ToSet(T.edges)                       \* ground truth (directed pairs)
AllU == {{a, b} : a, b \in Nodes} \ {{a} : a \in Nodes}
UAdj(U, a) == {b \in Nodes : {a, b} \in U}
Subsets(S, k) == {X \in SUBSET S : Cardinality(X) = k}
AdjSrc == IF T.variant = "orig" THEN G ELSE snap
Cands(A, x, y, k) == Subsets(UAdj(A, x) \ {y}, k) \cup Subsets(UAdj(A, y) \ {x}, k)
\* level j was complete: every surviving edge saw all its candidate sets of size j (adjacency source A, queries Q)
\* (adjacency only shrinks during a level, so the candidates w.r.t. the graph at the END of the level were candidates
\* when the edge was visited)
LevelCompleteAt(j, A, Q) == \A e \in G : LET x == CHOOSE a \in e : TRUE
                                            y == CHOOSE b \in e : b # x
                                        IN \A S \in Cands(A, x, y, j) : <<e, S>> \in Q

Fail(c) == <<c>>
QueryFails(e) ==
    LET S == ToSet(e.z)
        k == Cardinality(S)
        ed == {e.x, e.y}
        newlevel == k > lvl
        A == IF newlevel \/ T.variant = "orig" THEN G ELSE snap
    IN IF k < lvl THEN Fail("query.level_decreases")
       ELSE IF newlevel /\ ~LevelCompleteAt(lvl, AdjSrc, asked) THEN Fail("query.level_left_incomplete")
       ELSE IF newlevel /\ \E j \in (lvl + 1)..(k - 1) : ~LevelCompleteAt(j, G, {}) THEN Fail("query.level_skipped")
       ELSE IF ed \notin G THEN Fail("query.on_removed_edge")
       ELSE IF S \notin Cands(A, e.x, e.y, k) THEN Fail("query.set_outside_adjacency")
       ELSE IF e.ans # ~DConn(Nodes, E, e.x, e.y, S) THEN Fail("query.oracle_answer")
       ELSE <<>>
FinalFails(e) ==
    LET skel == {{p[1], p[2]} : p \in ToSet(e.skeleton)}
    IN IF skel # G THEN Fail("final.skeleton_is_not_the_machine_graph")
       ELSE IF {{p.x, p.y} : p \in ToSet(e.seps)} # DOMAIN sep THEN Fail("final.sepset_keys")
       ELSE IF \E p \in ToSet(e.seps) : ToSet(p.s) # sep[{p.x, p.y}] THEN Fail("final.sepset_not_the_recorded_one")
       ELSE IF ~LevelCompleteAt(lvl, AdjSrc, asked) THEN Fail("final.level_left_incomplete")
       ELSE IF lvl < T.maxcond /\ ~LevelCompleteAt(lvl + 1, G, {}) THEN Fail("final.stopped_early")
       ELSE IF G # Skeleton(E) THEN Fail("final.not_the_true_skeleton")
       ELSE <<>>

Init == /\ tid \in 1..Len(Traces) /\ l = 1 /\ verdict = <<>>
        /\ G = {{a, b} : a, b \in ToSet(Traces[tid].nodes)} \ {{a} : a \in ToSet(Traces[tid].nodes)}
        /\ lvl = 0 /\ snap = G /\ asked = {} /\ sep = <<>>
Query == /\ verdict = <<>> /\ l <= Len(T.events) /\ T.events[l].ev = "query"
         /\ LET e == T.events[l]
                S == ToSet(e.z)
                k == Cardinality(S)
                ed == {e.x, e.y}
                f == QueryFails(e)
            IN /\ verdict' = IF f = <<>> THEN <<>> ELSE [l |-> l, clause |-> f[1]]
               /\ lvl' = k
               /\ snap' = IF k > lvl THEN G ELSE snap
               /\ asked' = (IF k > lvl THEN {} ELSE asked) \cup {<<ed, S>>}
               \* ("parallel" removes the edges found separable only when the level ends; its adjacency source is the snapshot anyway)
               /\ G' = IF e.ans /\ f = <<>> THEN G \ {ed} ELSE G
               /\ sep' = IF e.ans /\ f = <<>> THEN (ed :> S) @@ sep ELSE sep
         /\ l' = l + 1 /\ UNCHANGED tid
Final == /\ verdict = <<>> /\ l <= Len(T.events) /\ T.events[l].ev = "final"
         /\ LET f == FinalFails(T.events[l]) IN
            verdict' = IF f = <<>> THEN [l |-> l, clause |-> "ACCEPT"] ELSE [l |-> l, clause |-> f[1]]
         /\ l' = l + 1 /\ UNCHANGED <<tid, G, lvl, snap, asked, sep>>
Next == Query \/ Final
Report == verdict # <<>> => PrintT(ToJson([tid |-> T.tid, v |-> verdict]))
=============================================================================
