------------------------------ MODULE GraphEdit ------------------------------
(***************************************************************************)
(* Edit machines of the other model classes named by property C15:         *)
(*   "dbn"  DynamicBayesianNetwork: nodes are <<name, slice>>, slice 0/1;  *)
(*          add_edge folds time slices (t,t) -> (0,0) mirrored into slice  *)
(*          1, (t,t+1) -> (0,1) (+ the end node in slice 0); backward and  *)
(*          multi-slice edges, self loops and cycle-closing edges are      *)
(*          rejected.  Invariant: the 2-slice graph is acyclic.            *)
(*   "jt"   JunctionTree: nodes are cliques (sets of variables from a      *)
(*          palette); add_edge needs a non-empty sepset and is rejected    *)
(*          when the endpoints are already connected.  Invariant: forest.  *)
(*   "mn"   MarkovNetwork: undirected edges (no self loops) and a BAG of   *)
(*          factors (palette ids).                                         *)
(* All kinds: copy creates an independent object; a rejected operation     *)
(* changes nothing; an operation touches only its target.                  *)
(***************************************************************************)
EXTENDS DagLib, Json, Integers
CONSTANTS Kind, Names, MaxObjs, MaxDepth, NSim, KeepHist, Cliques, NFactors
VARIABLES sid, objs, hist, last
vars == <<sid, objs, hist, last>>

Empty == [nodes |-> {}, edges |-> {}, factors |-> <<>>]
NoOp == [op |-> "none", k |-> 1, u |-> "", tu |-> 0, v |-> "", tv |-> 0, c1 |-> {}, c2 |-> {}, fid |-> 0]

\* ---- DBN -------------------------------------------------------------------
Fold(o) == IF o.tu = o.tv THEN [s |-> <<o.u, 0>>, e |-> <<o.v, 0>>, ok |-> TRUE]
           ELSE IF o.tu = o.tv - 1 THEN [s |-> <<o.u, 0>>, e |-> <<o.v, 1>>, ok |-> TRUE]
           ELSE [s |-> <<o.u, 0>>, e |-> <<o.v, 0>>, ok |-> FALSE]
DbnPre(m, o) ==
    CASE o.op = "add_node" -> TRUE
      [] o.op = "add_edge" -> LET f == Fold(o) IN
            /\ f.ok /\ f.s # f.e
            /\ ~(f.s \in m.nodes /\ f.e \in m.nodes /\ HasPath(m.edges, f.e, f.s))
      [] OTHER -> TRUE
DbnEff(m, o) ==
    CASE o.op = "add_node" -> [m EXCEPT !.nodes = m.nodes \cup {<<o.v, 0>>}]
      [] o.op = "add_edge" -> LET f == Fold(o) IN
            IF f.s[2] = f.e[2]
            THEN [m EXCEPT !.nodes = m.nodes \cup {f.s, f.e, <<f.s[1], 1>>, <<f.e[1], 1>>},
                           !.edges = m.edges \cup {<<f.s, f.e>>, <<<<f.s[1], 1>>, <<f.e[1], 1>>>>}]
            ELSE [m EXCEPT !.nodes = m.nodes \cup {f.s, f.e, <<f.e[1], 0>>},
                           !.edges = m.edges \cup {<<f.s, f.e>>}]
      [] OTHER -> m
DbnOps(K) ==
    {[NoOp EXCEPT !.op = "add_node", !.k = k, !.v = n] : k \in K, n \in Names}
    \cup {[NoOp EXCEPT !.op = "add_edge", !.k = k, !.u = a, !.tu = ta, !.v = c, !.tv = tc] :
              k \in K, a \in Names, c \in Names, ta \in 0..2, tc \in 0..2}

\* ---- JunctionTree ----------------------------------------------------------
UPath(U, a, c) == c \in UReach(U, {a})
JtPre(m, o) ==
    CASE o.op = "add_node" -> TRUE
      [] o.op = "add_edge" -> /\ o.c1 \cap o.c2 # {}
                              /\ o.c1 # o.c2                       \* a self loop is a cycle
                              /\ ~(o.c1 \in m.nodes /\ o.c2 \in m.nodes /\ UPath(m.edges, o.c1, o.c2))
      [] OTHER -> TRUE
JtEff(m, o) ==
    CASE o.op = "add_node" -> [m EXCEPT !.nodes = m.nodes \cup {o.c1}]
      [] o.op = "add_edge" -> [m EXCEPT !.nodes = m.nodes \cup {o.c1, o.c2}, !.edges = m.edges \cup {{o.c1, o.c2}}]
      [] OTHER -> m
JtOps(K) ==
    {[NoOp EXCEPT !.op = "add_node", !.k = k, !.c1 = c] : k \in K, c \in Cliques}
    \cup {[NoOp EXCEPT !.op = "add_edge", !.k = k, !.c1 = c, !.c2 = d] : k \in K, c \in Cliques, d \in Cliques}

\* ---- MarkovNetwork ---------------------------------------------------------
\* factor palette: factor i has scope FScope(i) (two consecutive names, cyclically)
NameSeq == SetToSeq(Names)
FScope(i) == {NameSeq[((i - 1) % Len(NameSeq)) + 1], NameSeq[(i % Len(NameSeq)) + 1]}
MnPre(m, o) ==
    CASE o.op = "add_edge" -> o.u # o.v
      [] o.op = "add_factor" -> FScope(o.fid) \subseteq m.nodes
      [] o.op = "remove_factor" -> \E i \in 1..Len(m.factors) : m.factors[i] = o.fid
      [] OTHER -> TRUE
RemoveFirst(s, x) == LET i == CHOOSE i \in 1..Len(s) : s[i] = x /\ \A j \in 1..(i - 1) : s[j] # x
                     IN SubSeq(s, 1, i - 1) \o SubSeq(s, i + 1, Len(s))
MnEff(m, o) ==
    CASE o.op = "add_node" -> [m EXCEPT !.nodes = m.nodes \cup {o.v}]
      [] o.op = "add_edge" -> [m EXCEPT !.nodes = m.nodes \cup {o.u, o.v}, !.edges = m.edges \cup {{o.u, o.v}}]
      [] o.op = "add_factor" -> [m EXCEPT !.factors = Append(m.factors, o.fid)]
      [] o.op = "remove_factor" -> [m EXCEPT !.factors = RemoveFirst(m.factors, o.fid)]
      [] OTHER -> m
MnOps(K) ==
    {[NoOp EXCEPT !.op = "add_node", !.k = k, !.v = n] : k \in K, n \in Names}
    \cup {[NoOp EXCEPT !.op = "add_edge", !.k = k, !.u = a, !.v = c] : k \in K, a \in Names, c \in Names}
    \cup {[NoOp EXCEPT !.op = "add_factor", !.k = k, !.fid = i] : k \in K, i \in 1..NFactors}
    \cup {[NoOp EXCEPT !.op = "remove_factor", !.k = k, !.fid = i] : k \in K, i \in 1..NFactors}

\* ---- common machine --------------------------------------------------------
\* DynamicBayesianNetwork.copy() walks get_cpds() over every (name, slice) pair of the slices present and raises when
\* such a node does not exist (a variable added in one slice only): the code's own precondition, modelled as such
DbnCopyOK(m) == \A t \in {n[2] : n \in m.nodes} : \A nm \in {n[1] : n \in m.nodes} : <<nm, t>> \in m.nodes
Pre(m, o) == IF o.op = "copy" THEN (Kind = "dbn" => DbnCopyOK(m))
             ELSE IF Kind = "dbn" THEN DbnPre(m, o) ELSE IF Kind = "jt" THEN JtPre(m, o) ELSE MnPre(m, o)
Eff(m, o) == IF Kind = "dbn" THEN DbnEff(m, o) ELSE IF Kind = "jt" THEN JtEff(m, o) ELSE MnEff(m, o)
Ops(os) == LET K == 1..Len(os) IN
    (IF Kind = "dbn" THEN DbnOps(K) ELSE IF Kind = "jt" THEN JtOps(K) ELSE MnOps(K))
    \cup {[NoOp EXCEPT !.op = "copy", !.k = k] : k \in {j \in K : Len(os) < MaxObjs}}

Proj(m) == [nodes |-> m.nodes, edges |-> m.edges, factors |-> m.factors]
ProjAll(os) == [k \in 1..Len(os) |-> Proj(os[k])]

Step(o) ==
    LET m == objs[o.k]
        ok == Pre(m, o)
        newobjs == IF ~ok THEN objs
                   ELSE IF o.op = "copy" THEN Append(objs, m)
                   ELSE [objs EXCEPT ![o.k] = Eff(m, o)]
        ret == IF ok THEN "ok" ELSE "rejected"
    IN /\ objs' = newobjs
       /\ last' = [o |-> o, ret |-> ret]
       /\ hist' = IF KeepHist THEN Append(hist, [o |-> o, ret |-> ret, objs |-> ProjAll(newobjs)]) ELSE hist
       /\ UNCHANGED sid
Init == /\ sid \in (IF NSim = 0 THEN {0} ELSE 1..NSim)
        /\ objs = <<Empty>> /\ hist = <<>> /\ last = [o |-> NoOp, ret |-> "init"]
Next == /\ (KeepHist => Len(hist) < MaxDepth)
        /\ IF NSim = 0 THEN \E o \in Ops(objs) : Step(o) ELSE Step(RandomElement(Ops(objs)))

\* ---- properties ------------------------------------------------------------
DbnAcyclic == Kind = "dbn" => \A k \in 1..Len(objs) : Acyclic(objs[k].nodes, objs[k].edges)
DbnMirrored == Kind = "dbn" => \A k \in 1..Len(objs) : \A e \in objs[k].edges :
                   e[1][2] = e[2][2] => <<<<e[1][1], 1 - e[1][2]>>, <<e[2][1], 1 - e[2][2]>>>> \in objs[k].edges
JtForest == Kind = "jt" => \A k \in 1..Len(objs) : UAcyclic(objs[k].nodes, objs[k].edges)
JtSepsets == Kind = "jt" => \A k \in 1..Len(objs) : \A e \in objs[k].edges : \A c, d \in e : c \cap d # {}
RejectedUnchanged == [][last'.ret = "rejected" => objs' = objs]_vars
Frame == [][\A j \in 1..Len(objs) : j # last'.o.k => objs'[j] = objs[j]]_vars
CopyEqual == [][last'.o.op = "copy" /\ last'.ret = "ok" => objs'[Len(objs')] = objs[last'.o.k] /\ objs'[last'.o.k] = objs[last'.o.k]]_vars

DepthBound4 == TLCGet("level") <= 4
DepthBound5 == TLCGet("level") <= 5
DepthBound6 == TLCGet("level") <= 6
DepthBound7 == TLCGet("level") <= 7
Emit == (KeepHist /\ Len(hist) = MaxDepth) => PrintT(ToJson([kind |-> Kind, steps |-> hist]))
=============================================================================
