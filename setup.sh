#!/bin/sh
# Offline setup: nothing is installed; parse every TLA+ module and byte-compile the harness.
cd "$(dirname "$0")" || exit 2
rc=0
for f in spec/*.tla; do
  m=$(basename "$f" .tla)
  out=$(cd spec && java -cp /opt/veriftools/tla/tla2tools.jar:/opt/veriftools/tla/CommunityModules-deps.jar tla2sany.SANY "$m.tla" 2>&1)
  if echo "$out" | grep -q -E "Semantic errors|Parse Error|\*\*\*Parse|Could not"; then echo "SANY FAILED: $m"; echo "$out" | tail -20; rc=2; fi
done
/venv/bin/python -m compileall -q harness || rc=2
/venv/bin/python -c "import pgmpy, sys; sys.exit(0 if pgmpy.__file__.startswith('/repo/') else 1)" || { echo "pgmpy is not imported from /repo"; rc=2; }
mkdir -p evidence/replays
echo "setup rc=$rc"
exit $rc
