"""TLC runner and output parser (stdlib only)."""
import json
import os
import re
import shutil
import subprocess
import time

VERIF = os.path.dirname(os.path.dirname(os.path.abspath(__file__)))
SPEC = os.path.join(VERIF, "spec")
JAR = "/opt/veriftools/tla/tla2tools.jar:/opt/veriftools/tla/CommunityModules-deps.jar"


class TLCError(Exception):
    """Machinery failure (parse error, overflow, TLC crash) -- never a property violation."""


class TLCResult:
    def __init__(self):
        self.generated = 0      # "states generated"  (= transitions explored incl. initial)
        self.distinct = 0       # "distinct states found"
        self.prints = []        # decoded PrintT payloads (python objects)
        self.raw = ""
        self.ok = False         # "No error has been found"
        self.invariant_violated = None
        self.coverage = {}      # action name -> (distinct, total) when -coverage was on
        self.wall = 0.0
        self.depth = 0


_PRINT_RE = re.compile(r'^"(.*)"$')


def _decode_print(line):
    """PrintT(ToJson(x)) shows up as a quoted, escaped JSON string."""
    m = _PRINT_RE.match(line)
    if not m:
        return None
    try:
        s = json.loads(line)
        return json.loads(s)
    except Exception:
        return None


def run_tlc(module, cfg, workdir, env=None, workers=8, simulate=None, depth=None,
            coverage=False, seed=None, timeout=3600, deadlock=False, extra=None,
            java_opts=None, tag=None, allow_invariant_violation=False, dfs=False):
    """Run TLC on spec/<module>.tla with configuration text `cfg`.

    Returns a TLCResult.  Raises TLCError on any outcome other than normal completion
    (or an invariant violation when allow_invariant_violation is set).
    """
    os.makedirs(workdir, exist_ok=True)
    tag = tag or module
    cfgpath = os.path.join(workdir, tag + ".cfg")
    with open(cfgpath, "w") as f:
        f.write(cfg)
    meta = os.path.join(workdir, "meta_" + tag)
    shutil.rmtree(meta, ignore_errors=True)
    jtmp = os.path.join(workdir, "jtmp")
    os.makedirs(jtmp, exist_ok=True)
    cmd = ["java", "-XX:+UseParallelGC", "-Xss64m", "-Xmx" + os.environ.get("VERIF_TLC_HEAP", "6g"), "-Djava.io.tmpdir=" + jtmp]
    if dfs:
        cmd.append("-Dtlc2.tool.queue.IStateQueue=StateDeque")
    if java_opts:
        cmd += list(java_opts)
    cmd += ["-cp", JAR, "tlc2.TLC", "-workers", str(workers), "-metadir", meta,
            "-noGenerateSpecTE", "-config", cfgpath]
    if not deadlock:
        cmd.append("-deadlock")  # -deadlock DISABLES deadlock checking
    if simulate:
        cmd += ["-simulate", simulate]
    if depth:
        cmd += ["-depth", str(depth)]
    if seed is not None:
        cmd += ["-seed", str(seed)]
    if coverage:
        cmd += ["-coverage", "1"]
    if extra:
        cmd += list(extra)
    cmd.append(os.path.join(SPEC, module + ".tla"))
    e = dict(os.environ)
    if env:
        e.update({k: str(v) for k, v in env.items()})
    t0 = time.time()
    try:
        p = subprocess.run(cmd, cwd=SPEC, env=e, stdout=subprocess.PIPE, stderr=subprocess.STDOUT,
                           timeout=timeout, text=True)
    except subprocess.TimeoutExpired as ex:
        subprocess.run(["pkill", "-f", meta], check=False)
        raise TLCError(f"TLC timeout after {timeout}s on {module} ({tag})") from ex
    finally:
        shutil.rmtree(meta, ignore_errors=True)
    r = TLCResult()
    r.wall = time.time() - t0
    r.raw = p.stdout
    for line in p.stdout.splitlines():
        line = line.strip()
        if line.startswith('"'):
            v = _decode_print(line)
            if v is not None:
                r.prints.append(v)
                continue
        m = re.match(r"^(\d+) states generated, (\d+) distinct states found", line)
        if m:
            r.generated, r.distinct = int(m.group(1)), int(m.group(2))
        m = re.match(r"^The depth of the complete state graph search is (\d+)", line)
        if m:
            r.depth = int(m.group(1))
        if "No error has been found" in line:
            r.ok = True
        m = re.match(r"^Error: Invariant (\S+) is violated", line)
        if m:
            r.invariant_violated = m.group(1)
        m = re.match(r"^Error: Action property (\S+) is violated", line)
        if m:
            r.invariant_violated = m.group(1)
        m = re.match(r"^<(\w+) line \d+, col \d+ to line \d+, col \d+ of module (\w+)(?: \([\d ]+\))?>: (\d+):(\d+)", line)
        if m:
            d0, t0_ = r.coverage.get(m.group(1), (0, 0))
            r.coverage[m.group(1)] = (d0 + int(m.group(3)), t0_ + int(m.group(4)))
    with open(os.path.join(workdir, tag + ".out"), "w") as f:
        f.write(p.stdout)
    if simulate and not r.ok:
        # simulation mode ends without the "No error" banner when num is reached
        if "Error:" not in p.stdout and p.returncode == 0:
            r.ok = True
    if not r.ok:
        if r.invariant_violated and allow_invariant_violation:
            return r
        tail = "\n".join([ln[:300] for ln in p.stdout.splitlines() if not ln.startswith('"')][-25:])
        errs = "\n".join([ln[:300] for ln in p.stdout.splitlines() if ln.startswith("Error:")][:5])
        raise TLCError(f"TLC failed on {module} ({tag}), rc={p.returncode}:\n{errs}\n...\n{tail}")
    return r


def sany(module):
    p = subprocess.run(["java", "-cp", JAR, "tla2sany.SANY", os.path.join(SPEC, module + ".tla")],
                       cwd=SPEC, stdout=subprocess.PIPE, stderr=subprocess.STDOUT, text=True)
    ok = p.returncode == 0 and "Semantic errors" not in p.stdout and "Parse Error" not in p.stdout \
        and "***Parse" not in p.stdout and "Could not" not in p.stdout
    return ok, p.stdout
