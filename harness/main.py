"""./check <id> [--tier quick|thorough] [--replay FILE] [--selftest]"""
import argparse
import importlib
import json
import os
import sys
import traceback

from .core import Ctx, Machinery


def main():
    ap = argparse.ArgumentParser()
    ap.add_argument("pid")
    ap.add_argument("--tier", default=os.environ.get("VERIF_TIER", "quick"), choices=["quick", "thorough"])
    ap.add_argument("--replay")
    ap.add_argument("--selftest", action="store_true")
    a = ap.parse_args()
    seed = int(os.environ.get("VERIF_SEED", "0") or 0)
    pid = a.pid.upper()
    try:
        mod = importlib.import_module("harness.props." + pid.lower())
    except ImportError:
        print(f"MACHINERY: no check for {pid}")
        traceback.print_exc()
        return 2
    ctx = Ctx(pid, a.tier, seed, a.selftest)
    try:
        if a.replay:
            with open(a.replay) as f:
                rec = json.load(f)
            still = mod.replay(ctx, rec)
            if still:
                print(f"VIOLATION property={pid} replay={a.replay}")
                print("  " + json.dumps(still, default=str)[:2000])
                return 1
            print(f"[{pid}] replay: case no longer fails")
            return 0
        if a.selftest:
            mod.selftest(ctx)
            print(f"[{pid}] selftest ok")
            return 0
        mod.run(ctx)
        return ctx.finish()
    except Machinery as e:
        print(f"MACHINERY: {pid}: {e}")
        return 2
    except Exception:
        print(f"MACHINERY: {pid}: unexpected harness error")
        traceback.print_exc()
        return 2


if __name__ == "__main__":
    sys.exit(main())
