"""Check context: accumulates coverage, violations, known findings; writes evidence and replay files."""
import hashlib
import json
import os
import shutil
import subprocess
import sys
import time

from . import tlc as tlcmod

VERIF = tlcmod.VERIF
EVID = os.environ.get("VERIF_EVIDENCE_DIR") or os.path.join(VERIF, "evidence")   # (tools/seedtest.sh redirects it: runs against a patched scratch tree never touch the committed evidence)
REPLAYS = os.path.join(EVID, "replays")
FINDINGS = os.path.join(VERIF, "known_findings.json")
PY = "/venv/bin/python"
HOOK_GUARD = "PGMPY_VERIF"


class Machinery(Exception):
    pass


def jhash(x):
    return hashlib.sha1(json.dumps(x, sort_keys=True, default=str).encode()).hexdigest()[:16]


def load_findings():
    if not os.path.exists(FINDINGS):
        return []
    with open(FINDINGS) as f:
        return json.load(f)["findings"]


class Ctx:
    def __init__(self, pid, tier="quick", seed=0, selftest=False):
        self.pid, self.tier, self.seed, self.selftest = pid, tier, seed, selftest
        self.t0 = time.time()
        self.work = os.path.join(VERIF, ".work", f"{pid}-{os.getpid()}")      # per process: concurrent runs do not collide
        shutil.rmtree(self.work, ignore_errors=True)
        os.makedirs(self.work, exist_ok=True)
        self.states = 0
        self.transitions = 0
        self.traces = 0
        self.evaluations = 0
        self.distinct = set()
        self.samples = []
        self.violations = []       # unmatched
        self.known = {}            # finding id -> count
        self.known_what = {}
        self.actions = {}          # spec action -> times taken
        self.assumptions = []
        self.extra = {}
        self.tlc_runs = []
        self.hash_seeds = set()
        self.backends = set()
        self.findings = [f for f in load_findings() if f["property"] == pid]
        self.exhaustive = None
        self.rule = ""

    @property
    def thorough(self):
        return self.tier == "thorough"

    # ------------------------------------------------------------------ TLC
    def tlc(self, module, cfg, **kw):
        kw.setdefault("workers", int(os.environ.get("VERIF_TLC_WORKERS", "16")))
        try:
            r = tlcmod.run_tlc(module, cfg, self.work, **kw)
        except tlcmod.TLCError as e:
            raise Machinery(str(e))
        self.states += r.distinct
        self.transitions += r.generated
        for a, (d, t) in r.coverage.items():
            self.actions[a] = self.actions.get(a, 0) + t
        self.tlc_runs.append({"module": module, "tag": kw.get("tag", module), "distinct": r.distinct,
                              "generated": r.generated, "wall_s": round(r.wall, 1),
                              "mode": "simulate" if kw.get("simulate") else "bfs"})
        return r

    def require_actions(self, names):
        """Vacuity control: every named spec action must have been taken at least once."""
        missing = [n for n in names if self.actions.get(n, 0) == 0]
        if missing:
            raise Machinery(f"vacuity: spec actions never taken: {missing}")

    # ------------------------------------------------------------ accounting
    def count(self, case_key=None, nontrivial=True, n=1):
        self.evaluations += n
        if case_key is not None and nontrivial:
            self.distinct.add(case_key if isinstance(case_key, str) else jhash(case_key))

    def sample(self, s, limit=6):
        if len(self.samples) < limit:
            self.samples.append(s)

    def artefact(self, msg):
        """a trace whose only mismatch is the float -> fraction conversion (the raw float equals the spec's exact value): it is neither
        a violation nor validated; a few are tolerated and listed in the evidence, many mean the trace format needs larger denominators"""
        lst = self.extra.setdefault("rationalisation_artefacts_not_counted_as_validated", [])
        lst.append(msg[:200])
        if len(lst) > 25:
            raise Machinery(f"{len(lst)} rationalisation artefacts: enlarge the denominators of the trace format ({msg})")

    # ------------------------------------------------------------ violations
    def violation(self, rec):
        """rec: dict with api, clause, features(dict), case(anything re-runnable), observed, expected."""
        rec.setdefault("features", {})
        for f in self.findings:
            if f.get("status", "open") != "open":
                continue
            if f["api"] == rec.get("api") and f["clause"] == rec.get("clause") and \
                    all(rec["features"].get(k) == v for k, v in f.get("match", {}).items()):
                self.known[f["id"]] = self.known.get(f["id"], 0) + 1
                self.known_what[f["id"]] = f["what"]
                return False
        self.violations.append(rec)
        return True

    # ---------------------------------------------------------------- finish
    def finish(self):
        os.makedirs(REPLAYS, exist_ok=True)
        for fn in os.listdir(REPLAYS):
            if fn.startswith(self.pid + "-"):
                os.remove(os.path.join(REPLAYS, fn))
        lines = []
        for fid, n in sorted(self.known.items()):
            lines.append(f"KNOWN-FINDING: property={self.pid} {fid}: {self.known_what[fid]} (reproduced {n}x)")
        # every OPEN finding listed for this property gets its line, also when this run's sample did not reach it
        for f in self.findings:
            if f.get("status", "open") == "open" and f.get("property") == self.pid and f["id"] not in self.known and not self.selftest:
                lines.append(f"KNOWN-FINDING: property={self.pid} {f['id']}: {f['what']} (listed; not reached by this run's sample)")
        seen = {}
        for v in self.violations:
            key = (v.get("api"), v.get("clause"), jhash(v.get("features")))
            seen.setdefault(key, []).append(v)
        k = 0
        for key, vs in seen.items():
            k += 1
            path = os.path.join(REPLAYS, f"{self.pid}-{k}.json")
            v = dict(vs[0])
            v["property"] = self.pid
            v["tier"], v["seed"] = self.tier, self.seed
            v["same_signature_count"] = len(vs)
            with open(path, "w") as f:
                json.dump(v, f, indent=1, default=str)
            lines.append(f"VIOLATION property={self.pid} replay={path}")
            lines.append(f"  api={v.get('api')} clause={v.get('clause')} features={json.dumps(v.get('features'), default=str)} ({len(vs)} cases)")
        cov = {
            "states": self.states,
            "transitions": self.transitions,
            "traces_validated_against_impl": self.traces,
            "samples": self.samples or ["(none)"],
            "evaluations": self.evaluations,
            "distinct_nontrivial": len(self.distinct),
            "rule": self.rule,
            "tlc_runs": self.tlc_runs,
            "spec_actions_covered": {k: v for k, v in sorted(self.actions.items())},
            "hash_seeds": sorted(self.hash_seeds),
            "backends": sorted(self.backends),
            "known_findings_reproduced": dict(self.known),
        }
        if self.exhaustive is not None:
            cov["exhaustive"] = self.exhaustive
        cov.update(self.extra)
        ev = {
            "property_id": self.pid, "tier": self.tier, "seed": self.seed, "level": "model_checking",
            "coverage": cov, "assumptions": self.assumptions,
            "wall_s": round(time.time() - self.t0, 2), "violations": len(seen),
        }
        os.makedirs(EVID, exist_ok=True)
        with open(os.path.join(EVID, self.pid + ".json"), "w") as f:
            json.dump(ev, f, indent=1, default=str)
        for l in lines:
            print(l)
        print(f"[{self.pid}] tier={self.tier} seed={self.seed} states={self.states} transitions={self.transitions} "
              f"traces={self.traces} evaluations={self.evaluations} distinct={len(self.distinct)} "
              f"known={sum(self.known.values())} violations={len(seen)} wall={ev['wall_s']}s")
        shutil.rmtree(self.work, ignore_errors=True)
        return 1 if seen else 0


# ---------------------------------------------------------------------- workers
def run_workers(ctx, module, func, payloads, backend="numpy", timeout=3600):
    """payloads: list of (hash_seed, payload_obj).  Each is processed by
    `python -m harness.worker <module> <func>` in its own process with hooks on.
    Returns list of result objects in order."""
    procs = []
    for i, (hs, payload) in enumerate(payloads):
        inp = os.path.join(ctx.work, f"w{module}_{func}_{i}.in.json")
        out = os.path.join(ctx.work, f"w{module}_{func}_{i}.out.json")
        with open(inp, "w") as f:
            json.dump(payload, f)
        env = dict(os.environ)
        env.update({"PYTHONHASHSEED": str(hs), HOOK_GUARD: "1", "PYTHONPATH": os.environ.get("VERIF_REPO", "/repo") + ":" + VERIF,
                    "VERIF_BACKEND": backend, "OMP_NUM_THREADS": "1", "MKL_NUM_THREADS": "1",
                    "OPENBLAS_NUM_THREADS": "1", "PYTHONWARNINGS": "ignore"})
        p = subprocess.Popen([PY, "-m", "harness.worker", module, func, inp, out], cwd=VERIF, env=env,
                             stdout=subprocess.PIPE, stderr=subprocess.STDOUT, text=True)
        procs.append((p, out, hs))
        ctx.hash_seeds.add(hs)
        ctx.backends.add(backend)
    results = []
    for p, out, hs in procs:
        try:
            so, _ = p.communicate(timeout=timeout)
        except subprocess.TimeoutExpired:
            p.kill()
            raise Machinery(f"worker {module}.{func} timeout")
        if p.returncode != 0 or not os.path.exists(out):
            raise Machinery(f"worker {module}.{func} (hashseed {hs}) failed rc={p.returncode}:\n{so[-3000:]}")
        with open(out) as f:
            results.append(json.load(f))
    return results


def chunks(lst, n):
    """Split lst into n nearly equal contiguous chunks (some may be empty)."""
    k, m = divmod(len(lst), n)
    out, i = [], 0
    for j in range(n):
        sz = k + (1 if j < m else 0)
        out.append(lst[i:i + sz])
        i += sz
    return out
