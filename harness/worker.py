"""Worker process entry: python -m harness.worker <module> <func> <in.json> <out.json>
Runs inside /venv/bin/python with PYTHONPATH=/repo, imports pgmpy from the working tree."""
import importlib
import json
import logging
import sys
import warnings


def main():
    mod, func, inp, out = sys.argv[1:5]
    warnings.filterwarnings("ignore")
    logging.disable(logging.CRITICAL)
    import os
    from pgmpy import config
    config.set_show_progress(False)
    be = os.environ.get("VERIF_BACKEND", "numpy")
    if be != "numpy":
        config.set_backend(be)
    logging.disable(logging.CRITICAL)
    m = importlib.import_module("harness.props." + mod)
    with open(inp) as f:
        payload = json.load(f)
    res = getattr(m, func)(payload)
    with open(out + ".tmp", "w") as f:
        json.dump(res, f, default=str)
    os.replace(out + ".tmp", out)


if __name__ == "__main__":
    main()
