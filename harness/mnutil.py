"""Markov-network / factor-graph / junction-tree instances, builders and projections (shared by C02, C14, C03)."""
import itertools
import json
import random
from fractions import Fraction

MN_SHAPES = {
    "edge": (2, [(0, 1)]),
    "chain4": (4, [(0, 1), (1, 2), (2, 3)]),
    "star4": (4, [(0, 1), (0, 2), (0, 3)]),
    "tri": (3, [(0, 1), (1, 2), (0, 2)]),
    "tri_tail": (4, [(0, 1), (1, 2), (0, 2), (2, 3)]),
    "cycle4": (4, [(0, 1), (1, 2), (2, 3), (3, 0)]),
    "cycle5": (5, [(0, 1), (1, 2), (2, 3), (3, 4), (4, 0)]),
    "cycle6": (6, [(0, 1), (1, 2), (2, 3), (3, 4), (4, 5), (5, 0)]),
    "cycle7": (7, [(0, 1), (1, 2), (2, 3), (3, 4), (4, 5), (5, 6), (6, 0)]),
    "grid23": (6, [(0, 1), (1, 2), (3, 4), (4, 5), (0, 3), (1, 4), (2, 5)]),
    "k4": (4, [(0, 1), (0, 2), (0, 3), (1, 2), (1, 3), (2, 3)]),
    "two_tri": (5, [(0, 1), (1, 2), (0, 2), (2, 3), (3, 4), (2, 4)]),
    # clique trees whose sepsets have THREE variables (axis permutations of a sepset that are not involutions exist from 3 on)
    "k5m": (5, [(0, 1), (0, 2), (0, 3), (0, 4), (1, 2), (1, 3), (1, 4), (2, 3), (2, 4)]),
    "wheel5": (5, [(0, 1), (0, 2), (0, 3), (0, 4), (1, 2), (2, 3), (3, 4), (4, 1)]),
    "core3x3": (6, [(0, 1), (0, 2), (1, 2), (0, 3), (1, 3), (2, 3), (0, 4), (1, 4), (2, 4), (0, 5), (1, 5), (2, 5)]),
}


def _cells(rng, scope, dom, zeros=False, lo=1, hi=3):
    out = []
    for combo in itertools.product(*[dom[v] for v in scope]):
        n = rng.randint(lo, hi)
        if zeros and rng.random() < 0.12:
            n = 0
        out.append({"a": dict(zip(scope, combo)), "n": n, "d": 1})
    return out


def mn_instance(rng, iid, shape, maxcard=3, dup=False, unary=False, ternary=False, zeros=False, same_scope=None):
    n, edges = MN_SHAPES[shape]
    vs = [f"v{i}" for i in range(n)]
    dom = {v: [f"s{j}" for j in range(rng.choice([2, 2, 3][:maxcard]) if rng.random() < 0.93 else 1)] for v in vs}
    facs = []
    for a, b in edges:
        sc = [vs[a], vs[b]]
        if rng.random() < 0.5:
            sc.reverse()
        facs.append({"scope": sc, "cells": _cells(rng, sc, dom, zeros)})
    if unary:
        for v in rng.sample(vs, max(1, n // 2)):
            facs.append({"scope": [v], "cells": _cells(rng, [v], dom)})
    if ternary:
        tri = [(a, b, c) for a, b, c in itertools.combinations(range(n), 3)
               if all(((x, y) in edges or (y, x) in edges) for x, y in ((a, b), (b, c), (a, c)))]
        if tri:
            t = rng.choice(tri)
            sc = [vs[i] for i in t]
            facs.append({"scope": sc, "cells": _cells(rng, sc, dom)})
    if same_scope is None:
        same_scope = rng.random() < 0.5
    if same_scope:   # two DIFFERENT factors over the same variables (e.g. a prior and a likelihood): both count
        f0 = rng.choice(facs)
        sc = list(f0["scope"])
        if rng.random() < 0.5:
            sc.reverse()
        for _ in range(20):
            cells = _cells(rng, sc, dom, zeros)
            if sorted((json.dumps(c["a"], sort_keys=True), c["n"]) for c in cells) != sorted((json.dumps(c["a"], sort_keys=True), c["n"]) for c in f0["cells"]):
                facs.append({"scope": sc, "cells": cells})
                break
    if dup:   # value-identical factors on the same scope (must each be used once)
        f0 = rng.choice(facs)
        facs.append(json.loads(json.dumps(f0)))
        if rng.random() < 0.5:
            facs.append(json.loads(json.dumps(f0)))
    rng.shuffle(facs)
    return {"id": iid, "kind": "mn", "shape": shape, "vars": vs, "dom": dom, "edges": [[vs[a], vs[b]] for a, b in edges], "factors": facs}


def bn_as_factors(inst):
    """re-encode a BNLib instance's CPDs as factor cells (child first, parents in declared order)"""
    facs = []
    for v in inst["nodes"]:
        ps = inst["parents"][v]
        c = inst["cpd"][v]
        cells = []
        for j, pc in enumerate(itertools.product(*[inst["states"][p] for p in ps])):
            for i, s in enumerate(inst["states"][v]):
                cells.append({"a": dict(zip([v] + ps, (s,) + pc)), "n": c["tab"][i][j], "d": c["den"]})
        facs.append({"scope": [v] + ps, "cells": cells})
    out = dict(inst)
    out.update({"kind": "bn", "vars": inst["nodes"], "dom": inst["states"], "factors": facs, "edges": []})
    return out


class MConc:
    def __init__(self, inst, rng, state_kind="any"):
        from .concretise import state_names, var_names
        self.dom = inst["dom"]
        self.vn = var_names(inst["vars"], rng, "str")
        self.inv = {c: t for t, c in self.vn.items()}
        self.sn, self.sinv = {}, {}
        for v in inst["vars"]:
            k = rng.choice(["str", "int", "range", "perm", "tuple", "mixed"]) if state_kind == "any" else state_kind
            self.sn[v] = state_names(self.dom[v], rng, k)
            self.sinv[v] = {c: t for t, c in self.sn[v].items()}
        # BN builders (bnutil) use the same attribute names
        self.var_kind, self.state_kind = "str", state_kind

    def ev(self, ev):
        return {self.vn[v]: self.sn[v][s] for v, s in ev.items()}

    def names(self, v):
        return [self.sn[v][s] for s in self.dom[v]]


def make_factor(jf, conc, rng):
    import numpy as np
    from pgmpy.factors.discrete import DiscreteFactor
    scope = list(jf["scope"])
    rng.shuffle(scope)
    card = [len(conc.dom[v]) for v in scope]
    vals = np.zeros(card)
    for c in jf["cells"]:
        vals[tuple(conc.dom[v].index(c["a"][v]) for v in scope)] = c["n"] / c["d"]
    return DiscreteFactor([conc.vn[v] for v in scope], card, vals, state_names={conc.vn[v]: conc.names(v) for v in scope})


def build_mn(inst, conc, rng, scale=1.0):
    """scale: every factor multiplied by this constant (the normalised distribution is that of the instance)"""
    from pgmpy.models import MarkovNetwork
    from .concretise import shuffled
    m = MarkovNetwork()
    for v in shuffled(inst["vars"], rng):
        m.add_node(conc.vn[v])
    for u, v in shuffled(inst["edges"], rng):
        m.add_edge(conc.vn[u], conc.vn[v])
    made = {}
    for jf in inst["factors"]:
        # value-identical factors are sometimes handed over as ONE Python object listed twice, sometimes as equal copies
        key = json.dumps(jf, sort_keys=True)
        if key in made and rng.random() < 0.5:
            m.add_factors(made[key])
        else:
            made[key] = make_factor(jf, conc, rng)
            if scale != 1.0:
                made[key].values = made[key].values * scale
            m.add_factors(made[key])
    return m


def build_fg(inst, conc, rng):
    from pgmpy.models import FactorGraph
    g = FactorGraph()
    g.add_nodes_from([conc.vn[v] for v in inst["vars"]])
    for jf in inst["factors"]:
        f = make_factor(jf, conc, rng)
        g.add_factors(f)
        g.add_edges_from([(v, f) for v in f.variables])
    return g


def rat(x, D=10 ** 6):
    x = float(x)
    if x != x:
        return 0, 0
    if x in (float("inf"), float("-inf")):
        return 1, 0
    f = Fraction(x).limit_denominator(D)
    return f.numerator, f.denominator


def proj_factor(f, conc):
    """{scope: [tokens], cells: [{a, n, d, x}]}; names_ok: the factor carries the model's state names"""
    import numpy as np
    toks = [conc.inv[v] for v in f.variables]
    vals = np.asarray(f.values)
    cells = []
    names_ok = True
    for combo in itertools.product(*[conc.dom[t] for t in toks]):
        try:
            idx = tuple(f.name_to_no[conc.vn[t]][conc.sn[t][s]] for t, s in zip(toks, combo))
        except KeyError:
            names_ok = False
            idx = tuple(conc.dom[t].index(s) for t, s in zip(toks, combo))
        x = float(vals[idx]) if toks else float(vals.reshape(-1)[0])
        n, d = rat(x)
        cells.append({"a": dict(zip(toks, combo)), "n": n, "d": d, "x": repr(x)})
    return {"scope": toks, "cells": cells}, names_ok


def raw_of(cells, a):
    key = json.dumps(a if isinstance(a, dict) else {}, sort_keys=True)
    for c in cells:
        if json.dumps(c["a"], sort_keys=True) == key:
            return float(c["x"])
    return None
