"""Build pgmpy objects from abstract instances under a concretisation; project results by NAME lookup."""
import os
import random

from .concretise import shuffled, state_names, var_names


class Conc:
    """token -> concrete name maps for one instance"""

    def __init__(self, inst, rng, var_kind="str", state_kind="str"):
        self.vn = var_names(inst["nodes"], rng, var_kind)
        self.inv = {v: k for k, v in self.vn.items()}
        self.sn = {}
        self.sinv = {}
        for v in inst["nodes"]:
            kind = state_kind
            if state_kind == "any":
                kind = rng.choice(["str", "int", "range", "perm", "tuple", "mixed"])
            elif state_kind == "any_noperm":
                kind = rng.choice(["str", "int", "range", "tuple", "mixed"])
            m = state_names(inst["states"][v], rng, kind)
            self.kinds = getattr(self, "kinds", {})
            self.kinds[v] = kind
            self.sn[v] = m
            self.sinv[v] = {c: t for t, c in m.items()}
        self.var_kind, self.state_kind = var_kind, state_kind

    def ev(self, ev):
        return {self.vn[v]: self.sn[v][s] for v, s in ev.items()}


def make_cpd(inst, conc, v):
    from pgmpy.factors.discrete import TabularCPD
    c = inst["cpd"][v]
    ps = inst["parents"][v]
    vals = [[x / c["den"] for x in row] for row in c["tab"]]
    sn = {conc.vn[x]: [conc.sn[x][s] for s in inst["states"][x]] for x in [v] + ps}
    return TabularCPD(variable=conc.vn[v], variable_card=len(inst["states"][v]), values=vals,
                      evidence=[conc.vn[p] for p in ps] if ps else None,
                      evidence_card=[len(inst["states"][p]) for p in ps] if ps else None,
                      state_names=sn)


def build_bn(inst, conc, rng, cls=None):
    from pgmpy.models import BayesianNetwork
    lat = set(inst.get("latents", []))
    edges = [(p, v) for v in inst["nodes"] for p in inst["parents"][v]]
    if rng.random() < 0.35:
        # the constructor route: edge list + latent set at once, nodes without edges added afterwards
        m = (cls or BayesianNetwork)([(conc.vn[p], conc.vn[v]) for p, v in shuffled(edges, rng)], latents={conc.vn[v] for v in lat})
        for v in shuffled(inst["nodes"], rng):
            if conc.vn[v] not in m.nodes():
                m.add_node(conc.vn[v], latent=v in lat)
    else:
        m = (cls or BayesianNetwork)()
        for v in shuffled(inst["nodes"], rng):
            m.add_node(conc.vn[v], latent=v in lat)
        for p, v in shuffled(edges, rng):
            m.add_edge(conc.vn[p], conc.vn[v])
    for v in shuffled(inst["nodes"], rng):
        m.add_cpds(make_cpd(inst, conc, v))
    return m


def fval(factor, assign):
    """value of a DiscreteFactor at a {concrete var: concrete state} assignment, via the factor's own maps"""
    idx = tuple(factor.name_to_no[v][assign[v]] for v in factor.variables)
    x = factor.values[idx]
    return float(x)


def close(x, num, den, tol=1e-9):
    return abs(x - num / den) <= tol * max(1.0, abs(num / den))


def check_factor(factor, conc, inst, Q, post, tot, tol=1e-9):
    """compare a result factor over token set Q with the spec's posterior table. returns None or mismatch dict"""
    want_scope = {conc.vn[v] for v in Q}
    if set(factor.variables) != want_scope or len(factor.variables) != len(want_scope):
        return {"clause": "result.scope", "got": [str(v) for v in factor.variables]}
    for v in Q:
        if list(factor.state_names[conc.vn[v]]) != [conc.sn[v][s] for s in inst["states"][v]]:
            if set(map(repr, factor.state_names[conc.vn[v]])) != {repr(conc.sn[v][s]) for s in inst["states"][v]}:
                return {"clause": "result.state_names", "got": repr(factor.state_names[conc.vn[v]])}
    if tuple(factor.cardinality) != tuple(len(inst["states"][conc.inv[n]]) for n in factor.variables):
        return {"clause": "result.cardinality", "got": [int(c) for c in factor.cardinality]}
    bad = []
    for row in post:
        a = {conc.vn[v]: conc.sn[v][s] for v, s in row["a"].items()}
        x = fval(factor, a)
        if not close(x, row["w"], tot, tol):
            bad.append({"a": row["a"], "got": x, "want": [row["w"], tot]})
    if bad:
        return {"clause": "result.value", "got": bad[:4]}
    return None


def marginal_of(post, v):
    """marginalise the spec's posterior table onto one variable (pure bookkeeping on TLC's integers)"""
    out = {}
    for row in post:
        out[row["a"][v]] = out.get(row["a"][v], 0) + row["w"]
    return [{"a": {v: s}, "w": w} for s, w in out.items()]


def _vw(rng, c):
    w = [rng.randint(1, 9) for _ in range(c)]
    if rng.random() < 0.3 and c > 1:
        w[rng.randrange(c)] = 0
    if sum(w) == 0:
        w[0] = 3
    return {"den": 10, "w": w}


def add_virts(instances, rng, per=2):
    """virtual-evidence palettes: the same variable with two different likelihoods (so that a stale cache or
    engine state shows), plus a two-variable list"""
    for i in instances:
        i["virtname"] = {v: "w" + v[1:] for v in i["nodes"]}
        vs = [{}]
        v = rng.choice(i["nodes"])
        c = len(i["states"][v])
        vs.append({v: _vw(rng, c)})
        if per >= 2:
            w2 = _vw(rng, c)
            if w2 != vs[1][v]:
                vs.append({v: w2})
            if len(i["nodes"]) > 1:
                u = rng.choice([x for x in i["nodes"] if x != v])
                vs.append({v: _vw(rng, c), u: _vw(rng, len(i["states"][u]))})
        i["virts"] = vs
    return instances


def make_virtual(inst, conc, virt):
    from pgmpy.factors.discrete import TabularCPD
    out = []
    for v, d in virt.items():
        # (a virtual-evidence CPD must list the states in the model's order: another order is rejected by check_model with a ValueError)
        states, w = list(inst["states"][v]), list(d["w"])
        out.append(TabularCPD(conc.vn[v], len(w), [[x / d["den"]] for x in w],
                              state_names={conc.vn[v]: [conc.sn[v][s] for s in states]}))
    return out
