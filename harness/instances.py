"""Deterministic generators of abstract model instances (tokens only) handed to TLC as JSON."""
import itertools
import random

SHAPES = {  # name -> (n, edges as (parent, child) index pairs)
    "single": (1, []),
    "pair": (2, [(0, 1)]),
    "two_isolated": (2, []),
    "chain3": (3, [(0, 1), (1, 2)]),
    "fork3": (3, [(0, 1), (0, 2)]),
    "collider3": (3, [(0, 2), (1, 2)]),
    "tri3": (3, [(0, 1), (0, 2), (1, 2)]),
    "pair_iso": (3, [(0, 1)]),
    "diamond": (4, [(0, 1), (0, 2), (1, 3), (2, 3)]),
    "collider_desc": (4, [(0, 2), (1, 2), (2, 3)]),
    "chain4": (4, [(0, 1), (1, 2), (2, 3)]),
    "two_comp": (4, [(0, 1), (2, 3)]),
    "family3": (4, [(0, 3), (1, 3), (2, 3)]),
    "fork4": (4, [(0, 1), (0, 2), (0, 3)]),
    # two children of the same THREE parents (declared in independently shuffled orders: factor pairs sharing 3 variables in rotated order)
    "fam3two": (5, [(0, 3), (1, 3), (2, 3), (0, 4), (1, 4), (2, 4)]),
    "confmed": (4, [(0, 1), (0, 2), (1, 2), (2, 3)]),          # A->X, A->M, X->M, M->Y : confounded mediator
    "frontdoor": (4, [(0, 1), (0, 3), (1, 2), (2, 3)]),        # U->X, U->Y, X->M, M->Y
    "mshape": (5, [(0, 2), (1, 2), (1, 3), (4, 3)]),
    "student": (5, [(0, 2), (1, 2), (1, 3), (2, 4)]),
    "chain_coll": (5, [(0, 1), (1, 2), (3, 2), (2, 4)]),
}


def _column(rng, card, den, kind):
    if card == 1:
        return [den]
    if kind == "uniform" and den % card == 0:
        return [den // card] * card
    if kind == "zeros" and rng.random() < 0.5:
        # deterministic or partially-zero column
        k = rng.randrange(card)
        if rng.random() < 0.5:
            return [den if i == k else 0 for i in range(card)]
        col = _column(rng, card - 1, den, "generic") if card > 2 else [den]
        return col[:k] + [0] + col[k:]
    # generic: strictly positive, pairwise distinct where possible
    for _ in range(50):
        cuts = sorted(rng.sample(range(1, den), card - 1))
        col = [b - a for a, b in zip([0] + cuts, cuts + [den])]
        if len(set(col)) == card or den < card * (card + 1) // 2 + 1:
            return col
    return col


def bn_instance(rng, iid, n, edges, cards, kind, dens=(10, 12), perm_parents=True):
    nodes = [f"v{i}" for i in range(n)]
    parents = {v: [] for v in nodes}
    for p, c in edges:
        parents[nodes[c]].append(nodes[p])
    if perm_parents:
        for v in nodes:
            rng.shuffle(parents[v])
    states = {v: [f"s{j}" for j in range(cards[i])] for i, v in enumerate(nodes)}
    cpd = {}
    for i, v in enumerate(nodes):
        den = rng.choice(dens)
        ncol = 1
        for p in parents[v]:
            ncol *= len(states[p])
        cols = [_column(rng, cards[i], den, kind) for _ in range(ncol)]
        cpd[v] = {"den": den, "tab": [[cols[j][r] for j in range(ncol)] for r in range(cards[i])]}
    if kind == "twins":
        # value-identical CPDs on distinct nodes (same parents/cardinality), and identical root CPDs
        for a, b in itertools.combinations(nodes, 2):
            if sorted(parents[a]) == sorted(parents[b]) and len(states[a]) == len(states[b]):
                parents[b] = list(parents[a])
                cpd[b] = {"den": cpd[a]["den"], "tab": [list(r) for r in cpd[a]["tab"]]}
    return {"id": iid, "kind": kind, "nodes": nodes, "states": states, "parents": parents, "cpd": cpd, "latents": []}


def bn_instances(seed, shapes, per_shape, max_card=3, kinds=("generic", "twins", "zeros", "uniform")):
    rng = random.Random(seed)
    out = []
    for name in shapes:
        n, edges = SHAPES[name]
        for k in range(per_shape):
            if k == 0:
                cards = [2 + (i % 2) if max_card >= 3 else 2 for i in range(n)]
            elif kinds[k % len(kinds)] == "twins":
                c0 = rng.choice([2, 3])
                cards = [c0] * n
            else:
                cards = [rng.choice([1, 2, 2, 3, 3][:max_card + 2]) if rng.random() < 0.9 else 1 for _ in range(n)]
                cards = [min(c, max_card) for c in cards]
            inst = bn_instance(rng, len(out) + 1, n, edges, cards, kinds[k % len(kinds)])
            inst["shape"] = name
            out.append(inst)
    return out


def random_bn(rng, iid, n, max_card=4, p=0.4, dens=(2, 3, 4, 5, 10), kind=None, max_parents=3):
    order = list(range(n))
    rng.shuffle(order)
    edges = []
    indeg = [0] * n
    for i in range(n):
        for j in range(i + 1, n):
            if rng.random() < p and indeg[order[j]] < max_parents:
                edges.append((order[i], order[j]))
                indeg[order[j]] += 1
    cards = [rng.choice([2, 2, 3, 3, 4][:max_card + 1]) if rng.random() < 0.92 else 1 for _ in range(n)]
    cards = [min(c, max_card) for c in cards]
    kind = kind or rng.choice(["generic", "zeros", "generic"])
    dd = tuple(d for d in dens if d >= max(cards) + 2) or (max(cards) * 2 + 2,)
    inst = bn_instance(rng, iid, n, edges, cards, kind, dens=dd)
    inst["shape"] = "random"
    return inst
