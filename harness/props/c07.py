"""C07 samplers: runs of forward / rejection / likelihood-weighted sampling and Gibbs kernel construction are recorded (a harness-side
wrapper around sample_discrete / sample_discrete_maps logs the weight vectors handed to numpy) and validated by TLC (Trace_C07.tla)."""
import itertools
import json
import os
import random
from fractions import Fraction

from .. import instances
from ..core import Machinery, chunks, run_workers

CFG = "INIT Init\nNEXT Next\nINVARIANT Report\n"


def make_instances(ctx):
    rng = random.Random(ctx.seed + 7)
    shapes = ["single", "pair", "chain3", "fork3", "collider3", "diamond", "collider_desc", "family3", "two_comp", "mshape", "student"]
    insts = instances.bn_instances(ctx.seed + 70, shapes if ctx.thorough else shapes[:9], 3 if ctx.thorough else 2,
                                   kinds=("generic", "zeros", "twins"))
    for i in insts:
        i["latents"] = [v for v in i["nodes"] if rng.random() < 0.2] if len(i["nodes"]) > 2 else []
    return insts


def run(ctx):
    ctx.rule = ("one trace per (instance, hash seed): forward (with/without latents), rejection and likelihood-weighted sampling with evidence "
                "of positive probability, seed reproducibility, Gibbs kernels (strictly positive instances). Instances: 9-11 shapes x "
                "{generic, zeros, twin CPDs}, random latent sets. distinct = (instance, hash seed); non-trivial iff the network has an edge.")
    ctx.assumptions += ["numpy.random.choice draws from the p it is given (trusted); frequencies are only a 6-sigma backstop",
                        "evidence is taken from a forward-sampled row, hence has positive probability"]
    insts = make_instances(ctx)
    hseeds = list(range(4)) if ctx.thorough else [0, 1]
    # (the per-instance seed does not depend on the hash seed: the workers of different hash seeds make the SAME calls)
    pl = [(hs, {"insts": ch, "seed": ctx.seed * 100 + j, "tid0": (hs * 8 + j) * 1000, "n": 600 if ctx.thorough else 300})
          for hs in hseeds for j, ch in enumerate(chunks(insts, 16 // len(hseeds)))]
    traces = []
    for res in run_workers(ctx, "c07", "record", pl):
        traces += res["traces"]
    cross_compare(traces)
    # the torch backend (forward / rejection / likelihood-weighted sampling have their own tensor code paths): a third of the instances
    pt = [(0, {"insts": ch[:1], "seed": ctx.seed * 100 + 50 + j, "tid0": 500000 + j * 1000, "n": 200, "torch": True})
          for j, ch in enumerate(chunks(insts, 8)) if ch]
    for res in run_workers(ctx, "c07", "record", pt, backend="torch"):
        for t in res["traces"]:
            t["backend"] = "torch"
        traces += res["traces"]
    validate(ctx, traces)
    extra_markov_chain(ctx)


def extra_markov_chain(ctx):
    """pgmpy.models.MarkovChain (the base class of GibbsSampling) against spec/Trace_MChain.tla.  It is outside the listed properties:
    the outcome is recorded in the evidence as an OBSERVATION and never becomes a verdict on C07."""
    pl = [(hs, {"seed": ctx.seed * 10 + hs, "n": 12 if ctx.thorough else 5, "tid0": hs * 1000}) for hs in (0, 1)]
    traces = []
    notes = {}
    for res in run_workers(ctx, "c07", "record_mc", pl):
        traces += res["traces"]
        for k, v in res["notes"].items():
            notes[k] = notes.get(k, 0) + v
    tf = os.path.join(ctx.work, "trace_mchain.json")
    with open(tf, "w") as f:
        json.dump([{"tid": t["tid"], "events": t["events"]} for t in traces], f)
    r = ctx.tlc("Trace_MChain", CFG, env={"TRACE_FILE": tf}, tag="Trace_MChain", coverage=True)
    out = {"traces": len(traces), "accepted": 0, "rejected": {}, "notes": notes}
    for p in r.prints:
        cl = p["v"]["clause"]
        if cl == "ACCEPT":
            out["accepted"] += 1
        else:
            out["rejected"][cl] = out["rejected"].get(cl, 0) + 1
    ctx.extra["markov_chain_machine_observation"] = out


def cross_compare(traces):
    """append the xrepro events: frames of the same (instance, call) obtained under different hash seeds"""
    by = {}
    for t in traces:
        by.setdefault((t["inst"]["id"], t["seed"]), []).append(t)
    for group in by.values():
        if len(group) < 2:
            continue
        ref = group[0].get("digests", {})
        for t in group[1:]:
            d = t.get("digests", {})
            for m in sorted(set(ref) & set(d)):
                t["events"].append({"ev": "xrepro", "method": m, "same": ref[m] == d[m], "other_hashseed": group[0]["hashseed"]})


def validate(ctx, traces):
    tf = os.path.join(ctx.work, "trace_c07.json")
    with open(tf, "w") as f:
        json.dump([{"tid": t["tid"], "inst": t["inst"], "events": t["events"]} for t in traces], f)
    r = ctx.tlc("Trace_C07", CFG, env={"TRACE_FILE": tf}, tag="Trace", coverage=True, timeout=7200)
    by = {t["tid"]: t for t in traces}
    seen = set()
    for p in r.prints:
        tid, v = p["tid"], p["v"]
        seen.add(tid)
        t = by[tid]
        edges = any(t["inst"]["parents"][x] for x in t["inst"]["nodes"])
        ctx.count(("t", t["inst"]["id"], t["hashseed"]), nontrivial=edges, n=len(t["events"]))
        if v["clause"] == "ACCEPT":
            ctx.traces += 1
            continue
        e = t["events"][v["l"] - 1]
        api = {"kernels": e.get("method", ""), "frame": e.get("method", ""), "freq": e.get("method", ""), "gibbs": "GibbsSampling",
               "repro": e.get("method", ""), "xrepro": e.get("method", ""), "partial": e.get("method", ""), "missing": e.get("method", ""), "sweep": "GibbsSampling", "kept": e.get("method", "")}.get(e["ev"], e["ev"])
        feat = {"has_latents": bool(t["inst"]["latents"]), "kind": t["inst"]["kind"]}
        if t.get("backend"):
            feat["backend"] = t["backend"]
        node = e.get("node") or e.get("var")
        if node and set(t.get("colliding", [])) & (set(t["inst"]["parents"].get(node, [])) if e["ev"] != "gibbs" else set(t["inst"]["nodes"])):
            feat["int_state_names_collide_with_state_numbers"] = True       # ... of a parent of the sampled node (Gibbs: of any variable)
        ctx.violation({"api": api, "clause": v["clause"], "features": feat,
                       "case": {"inst": t["inst"], "seed": t["seed"], "hashseed": t["hashseed"], "tid": tid, "n": t["n"]},
                       "observed": {k: e[k] for k in e if k not in ("rows", "weights", "pairs", "counts", "given")}, "expected": None})
    if seen != set(by):
        raise Machinery(f"Trace_C07: verdicts missing for {len(set(by) - seen)} traces")
    t = traces[0]
    ctx.sample({"kind": "trace", "inst": t["inst"]["id"], "events": [{k: e[k] for k in ("ev", "method", "node") if k in e} for e in t["events"]][:8]})


def replay(ctx, rec):
    c = rec["case"]
    pay = {"insts": [c["inst"]], "seed": c["seed"], "tid0": c["tid"], "n": c["n"], "exact_seed": True}
    hss = [c["hashseed"]]
    if rec.get("clause") == "repro.differs_across_hash_seeds":       # needs the partner process
        hss = [rec["observed"].get("other_hashseed", 0), c["hashseed"]]
    traces = []
    for i, res in enumerate(run_workers(ctx, "c07", "record", [(h, dict(pay, tid0=c["tid"] + i)) for i, h in enumerate(hss)])):
        traces += res["traces"]
    cross_compare(traces)
    n0 = len(ctx.violations)
    validate(ctx, traces)
    return ctx.violations[n0:][:1] or None


def selftest(ctx):
    insts = instances.bn_instances(3, ["collider3"], 1, kinds=("generic",))
    insts[0]["latents"] = []
    res = run_workers(ctx, "c07", "record", [(0, {"insts": insts, "seed": 1, "tid0": 0, "n": 100})])[0]
    t = res["traces"][0]
    t2 = json.loads(json.dumps(t))
    e = next(e for e in t["events"] if e["ev"] == "kernels" and e["pairs"] and e["pairs"][0]["pa"])
    e["pairs"][0]["w"] = list(reversed(e["pairs"][0]["w"]))       # a transposed kernel
    t2["tid"] = 1
    f = next(e for e in t2["events"] if e["ev"] == "frame" and e["method"] == "lw")
    f["weights"][0] = [f["weights"][0][0] + 1, f["weights"][0][1] + 1]
    validate(ctx, [t, t2])
    cl = {v["clause"] for v in ctx.violations}
    if not {"kernel.not_the_cpd_column", "frame.likelihood_weight"} <= cl:
        raise Machinery(f"selftest: corrupted sampler traces not rejected: {cl}")
    ctx.violations.clear()
    # the MarkovChain machine must reject a chain row that is not the state reached by the logged draws and a foreign transition row
    mt = run_workers(ctx, "c07", "record_mc", [(0, {"seed": 4, "n": 3, "tid0": 0})])[0]["traces"]
    a, b = json.loads(json.dumps(mt[0])), json.loads(json.dumps(mt[1]))
    a["tid"], b["tid"] = 100, 101
    ra = [e for e in a["events"] if e["ev"] == "row"][2]
    k0 = sorted(ra["state"])[0]
    ra["state"][k0] = 1 - ra["state"][k0] if ra["state"][k0] in (0, 1) else 0
    db = next(e for e in b["events"] if e["ev"] == "draw")
    db["p"] = list(reversed(db["p"])) if db["p"] != list(reversed(db["p"])) else [[1, 1]] + db["p"][1:]
    tf = os.path.join(ctx.work, "trace_mchain_self.json")
    with open(tf, "w") as f:
        json.dump([{"tid": t["tid"], "events": t["events"]} for t in (mt[2], a, b)], f)
    r = ctx.tlc("Trace_MChain", CFG, env={"TRACE_FILE": tf}, tag="Trace_MChain_self")
    got = {p["tid"]: p["v"]["clause"] for p in r.prints}
    if got.get(mt[2]["tid"]) != "ACCEPT" or got.get(100) != "row.not_the_chain_state" or got.get(101) not in ("draw.not_the_transition_row", "draw.impossible_next_state"):
        raise Machinery(f"selftest: MarkovChain machine verdicts {got}")


# =========================================================================== worker side
def _rat(x, D=None):
    # the torch backend carries float32 values (relative error ~1e-7): snap to denominators <= 4000 there (fractions with such
    # denominators are >= 6e-8 apart); the recorder does not emit events whose exact values may have larger denominators under torch
    D = D or (10 ** 6 if os.environ.get("VERIF_BACKEND", "numpy") == "numpy" else 4000)
    f = Fraction(float(x)).limit_denominator(D)
    return [f.numerator, f.denominator]


def record_mc(payload):
    """MarkovChain objects: construction events (valid and invalid transition models / start states), sample() and generate_sample()
    with every sample_discrete call logged and re-ordered into chain order"""
    import numpy as np
    import importlib
    M = importlib.import_module("pgmpy.models.MarkovChain")      # the MODULE (pgmpy.models.MarkovChain the attribute is the class)
    from pgmpy.factors.discrete import State
    rng = random.Random(payload["seed"])
    calls = []
    orig = M.sample_discrete

    def logged(values, weights, size=1, seed=None):
        r = orig(values, weights, size, seed)
        calls.append((list(values), [float(x) for x in weights], [int(x) for x in np.array(r).ravel()]))
        return r
    M.sample_discrete = logged
    out, notes = [], {}
    try:
        for k in range(payload["n"]):
            events = []
            nv = rng.choice([1, 2, 2, 3])
            names = rng.sample(["alpha", "b", "node_c", "x1", "zz"], nv)
            card = {v: rng.choice([2, 2, 3]) for v in names}
            mc = M.MarkovChain()
            for v in names:
                mc.add_variable(v, card[v])
                events.append({"ev": "add_variable", "v": v, "card": card[v]})

            def row(c, bad=False):
                den = rng.choice([4, 5, 10])
                cuts = sorted(rng.sample(range(0, den + 1), c - 1)) if den + 1 >= c - 1 else [0] * (c - 1)
                r_ = [b - a for a, b in zip([0] + cuts, cuts + [den])]
                if bad:
                    r_[0] += 1
                return [[x, den] for x in r_]
            for v in names:
                for attempt in ("bad_sum", "missing_row", "good"):
                    if attempt != "good" and rng.random() < 0.6:
                        continue
                    rows = [row(card[v], bad=(attempt == "bad_sum" and s_ == 0)) for s_ in range(card[v] - (1 if attempt == "missing_row" else 0))]
                    as_dict = rng.random() < 0.5
                    model = ({s_: {t_: rows[s_][t_][0] / rows[s_][t_][1] for t_ in range(card[v])} for s_ in range(len(rows))} if as_dict
                             else [[x[0] / x[1] for x in r_] for r_ in rows])
                    ok = True
                    try:
                        mc.add_transition_model(v, model if as_dict or len(rows) == card[v] else np.array(model + [[0.0] * card[v]])[:len(rows)])
                    except ValueError:
                        ok = False
                    except Exception as ex:  # noqa
                        events.append({"ev": "raised", "api": "add_transition_model", "exc": repr(ex)[:200]})
                        ok = False
                    events.append({"ev": "add_tm", "v": v, "rows": rows, "ok": ok})
            start = {v: rng.randrange(card[v]) for v in names}
            if rng.random() < 0.3:
                bad = dict(start)
                bad[names[0]] = card[names[0]]
                ok = True
                try:
                    mc.set_start_state([State(v, s_) for v, s_ in bad.items()])
                except ValueError:
                    ok = False
                events.append({"ev": "set_start", "state": bad, "ok": ok})
            mc.set_start_state([State(v, s_) for v, s_ in start.items()])
            events.append({"ev": "set_start", "state": start, "ok": True})
            # ---- sample(): vectors are pre-drawn per (variable, state), in the iteration order of the transition models
            size = rng.choice([4, 6])
            del calls[:]
            try:
                df = mc.sample(size=size, seed=rng.choice([None, 7]))
                blocks = {}
                it = iter(calls)
                for v in mc.transition_models.keys():
                    for st in mc.transition_models[v]:
                        blocks[(v, st)] = next(it)
                cur = dict(start)
                events.append({"ev": "row", "state": {v: int(df[v].iloc[0]) for v in names}})
                for i in range(size - 1):
                    for v in [s_.var for s_ in mc.state]:
                        vals, w, vec = blocks[(v, cur[v])]
                        to = vec[i]
                        events.append({"ev": "draw", "v": v, "from": cur[v], "p": [_rat(x) for x in w], "to": int(to)})
                        cur[v] = int(to)
                    events.append({"ev": "row", "state": {v: int(df[v].iloc[i + 1]) for v in names}})
            except Exception as ex:  # noqa
                events.append({"ev": "raised", "api": "sample", "exc": repr(ex)[:200]})
            # ---- generate_sample(): one logged draw per variable and step, already in chain order
            mc.set_start_state([State(v, s_) for v, s_ in start.items()])
            events.append({"ev": "set_start", "state": start, "ok": True})
            del calls[:]
            seed2 = rng.choice([None, 3])
            try:
                gen = list(mc.generate_sample(size=5, seed=seed2))
                cur = dict(start)
                ci = 0
                tos = {}
                for st_list in gen:
                    for s_ in st_list:
                        vals, w, vec = calls[ci]
                        ci += 1
                        events.append({"ev": "draw", "v": s_.var, "from": cur[s_.var], "p": [_rat(x) for x in w], "to": int(vec[0])})
                        tos.setdefault((s_.var, cur[s_.var]), set()).add(int(vec[0]))
                        cur[s_.var] = int(vec[0])
                    events.append({"ev": "row", "state": {s_.var: int(s_.state) for s_ in st_list}})
                if seed2 is not None:
                    # observation: with a seed every draw re-seeds numpy, so each (variable, state) always moves to the same next state
                    notes["seeded_generate_sample_runs"] = notes.get("seeded_generate_sample_runs", 0) + 1
                    if all(len(x) == 1 for x in tos.values()):
                        notes["seeded_generate_sample_runs_with_a_deterministic_chain"] = notes.get("seeded_generate_sample_runs_with_a_deterministic_chain", 0) + 1
            except Exception as ex:  # noqa
                events.append({"ev": "raised", "api": "generate_sample", "exc": repr(ex)[:200]})
            for e in events:
                for key, dv in (("v", ""), ("card", 0), ("rows", []), ("ok", True), ("state", {}), ("from", 0), ("p", []), ("to", 0), ("api", "")):
                    e.setdefault(key, dv)
            out.append({"tid": payload["tid0"] + k, "events": events})
    finally:
        M.sample_discrete = orig
    return {"traces": out, "notes": notes}


def record(payload):
    import numpy as np
    import pgmpy.sampling.Sampling as S
    from pgmpy.sampling import BayesianModelSampling, GibbsSampling
    from ..bnutil import Conc, build_bn
    hs = int(os.environ.get("PYTHONHASHSEED", "0"))
    rng0 = random.Random(payload["seed"])
    out = []
    calls = []
    orig_maps, orig_disc = S.sample_discrete_maps, S.sample_discrete

    def w_maps(states, weight_indices, index_to_weight, size=1, seed=None):
        r = orig_maps(states, weight_indices, index_to_weight, size, seed)
        calls.append(("maps", np.array(weight_indices).astype(int).copy(), {int(k): np.array(v, dtype=float) for k, v in index_to_weight.items()}, np.array(r)))
        return r

    def w_disc(values, weights, size=1, seed=None):
        r = orig_disc(values, weights, size, seed)
        calls.append(("disc", None, np.array(weights, dtype=float), np.array(r)))
        return r
    S.sample_discrete_maps, S.sample_discrete = w_maps, w_disc
    import signal

    def _alarm(signum, frame):
        raise TimeoutError("sampler call did not return within 60 s")
    signal.signal(signal.SIGALRM, _alarm)
    try:
        for k, inst in enumerate(payload["insts"]):
            seed = payload["seed"] if payload.get("exact_seed") else rng0.randrange(10 ** 9)
            rng = random.Random(seed)
            # integer state names that collide with state NUMBERS ("perm") in one trace out of four only (known finding C07-int-names-vs-numbers)
            conc = Conc(inst, rng, "str", "any" if rng.random() < 0.3 else "any_noperm")
            colliding = sorted(v for v, kd in conc.kinds.items() if kd == "perm" and len(inst["states"][v]) > 1)
            model = build_bn(inst, conc, rng)
            n = payload["n"]
            events = []
            bms = BayesianModelSampling(model)
            topo = list(bms.topological_order)

            def snap_model(m):
                return (sorted(map(repr, m.nodes())), sorted(map(repr, m.edges())), sorted(map(repr, m.latents)),
                        sorted((repr(c.variables), np.asarray(c.values).round(12).tobytes()) for c in m.cpds))
            snap0 = snap_model(model)

            def rows_of(df):
                rows = []
                for _, r in df.iterrows():
                    row = {}
                    for c in df.columns:
                        if c == "_weight" or c not in conc.inv:
                            continue
                        v = conc.inv[c]
                        val = r[c]
                        val = val.item() if hasattr(val, "item") else val
                        try:
                            row[v] = conc.sinv[v].get(val, "INVALID")
                        except TypeError:
                            row[v] = "INVALID"
                    rows.append(row)
                return rows

            def kernel_events(method, df, sampled_nodes):
                """join the logged numpy calls (one per sampled node, topological order) with the returned frame"""
                rows = rows_of(df)
                if len(calls) != len(sampled_nodes):
                    events.append({"ev": "kernels", "method": method, "node": inst["nodes"][0], "pairs": [{"pa": {"_call_count_": "x"}, "w": []}]})
                    return
                for node, call in zip(sampled_nodes, calls):
                    v = conc.inv[node]
                    ps = inst["parents"][v]
                    pairs, counts = {}, {}
                    for i, row in enumerate(rows):
                        pa = {p: row[p] for p in ps}
                        key = json.dumps(pa, sort_keys=True)
                        w = call[2][int(call[1][i])] if call[0] == "maps" else call[2]
                        wkey = key + "|" + json.dumps([_rat(x) for x in w])
                        pairs[wkey] = {"pa": pa, "w": [_rat(x) for x in w]}
                        c = counts.setdefault(key, {"pa": pa, "n": 0, "c": [0] * len(inst["states"][v])})
                        c["n"] += 1
                        if row[v] in inst["states"][v]:
                            c["c"][inst["states"][v].index(row[v])] += 1
                    events.append({"ev": "kernels", "method": method, "node": v, "pairs": list(pairs.values())})
                    events.append({"ev": "freq", "method": method, "node": v, "counts": list(counts.values())})

            def frame_event(method, df, size, incl, evid, weights=None, clamped=()):
                events.append({"ev": "frame", "method": method, "size": size, "include_latents": incl,
                               "columns": [conc.inv[c] for c in df.columns if c != "_weight" and c in conc.inv], "rows": rows_of(df), "evid": evid,
                               "weights": weights or [], "clamped": list(clamped)})
            digests = {}

            def digest(label, df):
                import hashlib
                cols = sorted((conc.inv[c], c) for c in df.columns if c in conc.inv)
                body = []
                for v, c in cols:
                    vals = []
                    for x in df[c].tolist():
                        try:
                            vals.append("NaN" if (isinstance(x, float) and x != x) else conc.sinv[v].get(x, "INVALID"))
                        except TypeError:
                            vals.append("INVALID")
                    body.append((v, vals))
                digests[label] = hashlib.sha1(json.dumps(body).encode()).hexdigest()
            s1 = rng.randrange(10 ** 6)
            calls.clear()
            signal.alarm(60)

            def perturb():
                """leave numpy's global generator in an unrelated state (as in another process): a seeded call must not depend on it"""
                np.random.seed(rng.randrange(2 ** 31))
                np.random.random(rng.randint(1, 7))
            try:
                df = bms.forward_sample(size=n, include_latents=True, seed=s1, show_progress=False, n_jobs=1)
                kernel_events("forward", df, topo)
                frame_event("forward", df, n, True, {})
                digest("forward", df)
                calls.clear()
                perturb()
                df2 = bms.forward_sample(size=n, include_latents=True, seed=s1, show_progress=False, n_jobs=1)
                events.append({"ev": "repro", "method": "forward", "same": bool(df.equals(df2))})
                df3 = bms.forward_sample(size=17, include_latents=False, seed=s1 + 1, show_progress=False, n_jobs=1)
                frame_event("forward", df3, 17, False, {})
                # evidence with positive probability: taken from a sampled row
                row0 = rows_of(df)[rng.randrange(n)]
                evv = rng.sample(inst["nodes"], min(len(inst["nodes"]), rng.choice([1, 1, 2])))
                evid = {v: row0[v] for v in evv}
                ev_list = [S.State(conc.vn[v], conc.sn[v][s]) for v, s in evid.items()]
                calls.clear()
                dfr = bms.rejection_sample(evidence=ev_list, size=40, include_latents=True, seed=s1 + 2, show_progress=False)
                frame_event("rejection", dfr, 40, True, evid)
                digest("rejection", dfr)
                perturb()
                dfr2 = bms.rejection_sample(evidence=ev_list, size=40, include_latents=True, seed=s1 + 2, show_progress=False)
                events.append({"ev": "repro", "method": "rejection", "same": bool(dfr.equals(dfr2))})
                dfr3 = bms.rejection_sample(evidence=ev_list, size=9, include_latents=False, seed=s1 + 3, show_progress=False)
                frame_event("rejection", dfr3, 9, False, evid)
                calls.clear()
                dfl = bms.likelihood_weighted_sample(evidence=ev_list, size=n // 2, include_latents=True, seed=s1 + 4, show_progress=False, n_jobs=1)
                kernel_events("lw", dfl, [t for t in topo if conc.inv[t] not in evid])
                frame_event("lw", dfl, n // 2, True, evid, [_rat(w) for w in dfl["_weight"]])
                digest("lw", dfl)
                calls.clear()
                # simulate(): do-intervention (+ evidence taken from an interventional sample, + virtual evidence)
                # (simulate() ends with DataFrame.astype("category"); pandas cannot hash columns mixing tuple and scalar labels)
                if len(inst["nodes"]) >= 2 and not any(isinstance(x, tuple) for m in conc.sn.values() for x in m.values()):
                    from ..bnutil import make_virtual, _vw
                    xdo = rng.choice(inst["nodes"])
                    # the intervened state is taken from a forward-sampled row: simulate() realises do() by rejection
                    # sampling on the intervened node's marginalised CPD and never returns for a state of probability
                    # zero there (observation recorded in DESIGN.md section 13; not generated)
                    dod = {xdo: row0[xdo]}
                    dkw = {conc.vn[v]: conc.sn[v][s] for v, s in dod.items()}
                    ds = model.simulate(n_samples=30, do=dkw, include_latents=True, seed=s1 + 5, show_progress=False)
                    frame_event("simulate", ds, 30, True, dod, clamped=[xdo])
                    r1 = rows_of(ds)[rng.randrange(30)]
                    ev2 = {v: r1[v] for v in rng.sample([n2 for n2 in inst["nodes"] if n2 != xdo], 1)}
                    ds2 = model.simulate(n_samples=25, do=dkw, evidence={conc.vn[v]: conc.sn[v][s] for v, s in ev2.items()},
                                         include_latents=False, seed=s1 + 6, show_progress=False)
                    frame_event("simulate", ds2, 25, False, {**dod, **{v: s for v, s in ev2.items() if v not in inst["latents"]}}, clamped=[xdo])
                    vv = rng.choice([n2 for n2 in inst["nodes"] if n2 != xdo])
                    vw = _vw(rng, len(inst["states"][vv]))
                    vw["w"] = [max(1, x) for x in vw["w"]]          # strictly positive: P(virtual evidence) > 0
                    ds3 = model.simulate(n_samples=20, virtual_evidence=make_virtual(inst, conc, {vv: vw}),
                                         include_latents=True, seed=s1 + 7, show_progress=False)
                    frame_event("simulate", ds3, 20, True, {})
                    ds4 = model.simulate(n_samples=20, include_latents=True, seed=s1 + 7, show_progress=False)
                    perturb()
                    ds5 = model.simulate(n_samples=20, include_latents=True, seed=s1 + 7, show_progress=False)
                    events.append({"ev": "repro", "method": "simulate", "same": bool(ds4.equals(ds5))})
                    digest("simulate", ds4)
                    # do() together with a virtual intervention, a large sample: every node that is neither intervened nor softly
                    # intervened keeps its conditional distribution given its parents (6-sigma per kernel; conditioning on the do-variable
                    # instead of cutting its incoming edges shifts its parents)
                    if len(inst["nodes"]) >= 3:
                        # (the intervened variable has parents where possible: that is where intervening and conditioning differ)
                        xdo = rng.choice([n2 for n2 in inst["nodes"] if inst["parents"][n2]] or inst["nodes"])
                        dod = {xdo: row0[xdo]}
                        dkw = {conc.vn[v]: conc.sn[v][s] for v, s in dod.items()}
                        wv = rng.choice([n2 for n2 in inst["nodes"] if n2 != xdo])
                        vwi = _vw(rng, len(inst["states"][wv]))
                        vwi["w"] = [max(1, x) for x in vwi["w"]]
                        nbig = 3000
                        dsb = model.simulate(n_samples=nbig, do=dkw, virtual_intervention=make_virtual(inst, conc, {wv: vwi}),
                                             include_latents=True, seed=s1 + 15, show_progress=False)
                        frame_event("simulate", dsb, nbig, True, dod, clamped=[xdo, wv])
                        rows_b = rows_of(dsb)
                        for v in inst["nodes"]:
                            if v in (xdo, wv):
                                continue
                            counts = {}
                            for row in rows_b:
                                pa = {p: row[p] for p in inst["parents"][v]}
                                c = counts.setdefault(json.dumps(pa, sort_keys=True), {"pa": pa, "n": 0, "c": [0] * len(inst["states"][v])})
                                c["n"] += 1
                                if row[v] in inst["states"][v]:
                                    c["c"][inst["states"][v].index(row[v])] += 1
                            events.append({"ev": "freq", "method": "simulate_do_virtual", "node": v, "counts": list(counts.values())})
                    # missing values: the mask is part of the seeded result
                    dm = model.simulate(n_samples=40, include_latents=False, seed=s1 + 9, show_progress=False, include_missing=True,
                                        missing_prob=rng.choice([0.1, 0.3, 0.5]))
                    mrows = []
                    for _, r in dm.iterrows():
                        row = {}
                        for c in dm.columns:
                            if c in conc.inv:
                                x = r[c]
                                x = x.item() if hasattr(x, "item") else x
                                row[conc.inv[c]] = "NaN" if (isinstance(x, float) and x != x) else conc.sinv[conc.inv[c]].get(x, "INVALID")
                        mrows.append(row)
                    events.append({"ev": "missing", "method": "simulate", "size": 40, "rows": mrows})
                    digest("simulate_missing", dm)
                    if snap_model(model) != snap0:
                        events.append({"ev": "raised", "method": "simulate", "exc": "model changed by simulate()"})
                calls.clear()
                # Gibbs transition kernels (strictly positive tables only: the full conditional must be defined everywhere)
                if inst["kind"] != "zeros" and len(inst["nodes"]) >= 2 and not payload.get("torch"):
                    gs = GibbsSampling(model)
                    order = [conc.inv[v] for v in gs.variables]
                    for var in gs.variables:
                        v = conc.inv[var]
                        others = [o for o in order if o != v]
                        for tup, p in gs.transition_models[var].items():
                            events.append({"ev": "gibbs", "var": v, "others": {o: inst["states"][o][int(s)] for o, s in zip(others, tup)},
                                           "p": [_rat(x) for x in np.array(p, dtype=float)]})
                    # the chain itself: every logged draw is replayed from the returned rows
                    ng = 8
                    calls.clear()
                    gdf = gs.sample(size=ng, seed=s1 + 12, include_latents=True)
                    gcalls = list(calls)
                    calls.clear()
                    grow = [{v: inst["states"][v][int(gdf[str(conc.vn[v])].iloc[i])] for v in order} for i in range(ng)]
                    if len(gcalls) != (ng - 1) * len(order) or len(gdf) != ng:
                        events.append({"ev": "raised", "method": "gibbs", "exc": f"{len(gcalls)} draws logged for {ng} rows of {len(order)} variables"})
                    else:
                        for i in range(ng - 1):
                            state = dict(grow[i])
                            for j, v in enumerate(order):
                                call = gcalls[i * len(order) + j]
                                events.append({"ev": "gibbs", "var": v, "others": {o: state[o] for o in order if o != v},
                                               "p": [_rat(x) for x in np.array(call[2], dtype=float)]})
                                state[v] = inst["states"][v][int(np.array(call[3]).ravel()[0])]
                            events.append({"ev": "sweep", "method": "gibbs", "after": grow[i + 1], "state": state})
                    perturb()
                    # generate_sample: every yielded state is copied at yield time and compared with what the caller kept
                    for incl in (True, False):
                        kept, snaps = [], []
                        for st_ in GibbsSampling(model).generate_sample(size=5, include_latents=incl, seed=s1 + 14):
                            kept.append(st_)
                            snaps.append([(x.var, int(x.state)) for x in st_])
                        events.append({"ev": "kept", "method": "gibbs_generate", "include_latents": incl,
                                       "same": [[(x.var, int(x.state)) for x in st_] for st_ in kept] == snaps})
                    gdf2 = GibbsSampling(model).sample(size=ng, seed=s1 + 12, include_latents=True)
                    perturb()
                    gdf3 = GibbsSampling(model).sample(size=ng, seed=s1 + 12, include_latents=True)
                    events.append({"ev": "repro", "method": "gibbs", "same": bool(gdf2.equals(gdf3))})
                    import hashlib
                    digests["gibbs"] = hashlib.sha1(json.dumps([[v, [int(x) for x in gdf2[str(conc.vn[v])]]] for v in sorted(order)]).encode()).hexdigest()
                    gdf4 = GibbsSampling(model).sample(size=3, seed=s1 + 13, include_latents=False)
                    if set(gdf4.columns) != {str(conc.vn[v]) for v in order if v not in inst["latents"]}:
                        events.append({"ev": "raised", "method": "gibbs", "exc": f"columns {sorted(gdf4.columns)} with include_latents=False"})
                    calls.clear()
                # partial_samples (values are state NUMBERS: asked on a model with range(card) state names, where numbers = names).
                # The input frame carries a non-default index (as after shuffling / filtering a DataFrame).
                if len(inst["nodes"]) >= 2:
                    import pandas as pd
                    conc = Conc(inst, rng, "str", "range")
                    model_r = build_bn(inst, conc, rng)
                    bms_r = BayesianModelSampling(model_r)
                    topo_r = list(bms_r.topological_order)
                    npart = 24
                    pcols = rng.sample(inst["nodes"], rng.choice([1, 1, 2]) if len(inst["nodes"]) > 2 else 1)
                    given = {v: [rng.choice(inst["states"][v]) for _ in range(npart)] for v in pcols}
                    idx = {"shuffled": rng.sample(range(npart), npart), "offset": list(range(100, 100 + npart)),
                           "strided": list(range(0, 2 * npart, 2)), "labels": [f"r{i}" for i in range(npart)],
                           "default": list(range(npart))}[rng.choice(["shuffled", "shuffled", "offset", "strided", "labels", "default"])]
                    pdf = pd.DataFrame({conc.vn[v]: [conc.sn[v][s] for s in given[v]] for v in pcols}, index=idx)
                    pdf0 = pdf.copy(deep=True)
                    calls.clear()
                    dfp = bms_r.forward_sample(size=npart, include_latents=True, seed=s1 + 10, show_progress=False, n_jobs=1, partial_samples=pdf)
                    kernel_events("forward", dfp, [t for t in topo_r if conc.inv[t] not in pcols])
                    frame_event("forward", dfp, npart, True, {}, clamped=pcols)
                    events.append({"ev": "partial", "method": "forward", "size": npart, "given": given, "rows": rows_of(dfp)})
                    calls.clear()
                    dsp = model_r.simulate(n_samples=npart, include_latents=True, seed=s1 + 11, show_progress=False, partial_samples=pdf)
                    frame_event("simulate", dsp, npart, True, {}, clamped=pcols)
                    events.append({"ev": "partial", "method": "simulate", "size": npart, "given": given, "rows": rows_of(dsp)})
                    if not pdf.equals(pdf0):
                        events.append({"ev": "raised", "method": "forward", "exc": "partial_samples argument changed by the call"})
                    digest("partial", dfp)
                    calls.clear()
            except Exception as ex:  # noqa
                import traceback
                events.append({"ev": "raised", "method": "sampler", "exc": repr(ex)[:200], "tb": traceback.format_exc()[-700:]})
            signal.alarm(0)
            out.append({"tid": payload["tid0"] + k, "seed": seed, "hashseed": hs, "n": n, "inst": inst, "events": events, "digests": digests,
                        "colliding": colliding})
    finally:
        S.sample_discrete_maps, S.sample_discrete = orig_maps, orig_disc
    return {"traces": out}
