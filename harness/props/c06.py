"""C06 parameter learning returns the closed-form estimates.

Oracle: spec/LearnLib.tla (counts over a BAG of weighted rows, MLE, Bayesian estimates from K2 / BDeu / explicit Dirichlet pseudo
counts, incremental update = Bayes with previous CPD * previous sample size, one exact EM iteration) evaluated by TLC.
  Gen_C06    every DAG over the columns (or a listed subset) x declared/observed state mode x estimator and hyper-parameters ->
               expected CPD of every node by named assignment; lemmas ResultIsCPD, ClosedForms, RowOrderInvariant, ExpandInvariant,
               CountsCoverData, UpdateRootPooled, PriorVanishes.
  Gen_C06EM  latent-variable models x which initial CPDs are handed over -> exact first EM iteration; lemmas StepIsCPD,
               ObservedPartIsMLE, InitOfObservedPartIrrelevant, WeightsPartition.
  Trace_C06  recorded fits on larger random data (5-6 columns, 20-40 rows, card <= 4) validated cell by cell by TLC, and recorded
               EM likelihood sequences (max_iter = 0..K, same start) checked against the action property ll' >= ll - eps.
Replay (workers, real pgmpy): every case under permuted rows / columns / parent declaration orders, int / object / categorical
columns, weighted rows vs repeated rows, n_jobs 1/2, explicit state_names in NON-sorted declared order incl. unobserved states,
through BayesianNetwork.fit, DAG.fit, estimator.get_parameters, estimator.estimate_cpd, fit_update (after fit, and on hand-built
CPDs with arbitrary parent order), ExpectationMaximization without latents; results compared by NAME lookup; check_model required.
The harness never computes an estimate: expected numbers come from TLC."""
import json
import math
import os
import random

from ..core import Machinery, chunks, jhash, run_workers

TOKENS = ["v0", "v1", "v2", "v3", "v4", "v5", "v6", "v7"]
HSEEDS_Q = [0, 1]
HSEEDS_T = [0, 1, 2, 3]


# ============================================================================================ instances (harness -> TLC)
def _frac(n, d):
    g = math.gcd(n, d)
    return [n // g, d // g]


def data_instance(rng, iid, cards, extras, nrows, wkind, dags=(), big=False):
    """cards[i] = number of states of column i that may OCCUR; extras[i] = declared-but-never-observed states on top.
    Rows are skewed (geometric weights + a sticky base row) so that unseen parent configurations and unseen states of the
    occurring ones are common.  wkind: unit | int | frac (halves / quarters, possibly one zero weight)."""
    cols = TOKENS[:len(cards)]
    dom = {c: [f"s{j}" for j in range(cards[i] + extras[i])] for i, c in enumerate(cols)}
    rows = []
    base = {c: rng.choice(dom[c][:cards[i]]) for i, c in enumerate(cols)}
    for _ in range(nrows):
        a = {}
        for i, c in enumerate(cols):
            pool = dom[c][:cards[i]]
            w = [3.0 ** (-k) for k in range(len(pool))]
            rng.shuffle(w)
            a[c] = base[c] if rng.random() < 0.3 else rng.choices(pool, weights=w)[0]
        if wkind == "unit":
            w = [1, 1]
        elif wkind == "int":
            w = [rng.choice([1, 1, 2, 3]), 1]
        else:
            w = _frac(rng.choice([1, 2, 3, 4, 5, 6, 8]), rng.choice([1, 2, 4]))
        rows.append({"a": a, "w": w})
    if wkind == "frac" and nrows >= 4 and rng.random() < 0.5:
        rows[rng.randrange(nrows)]["w"] = [0, 1]
    split = rng.randint(1, nrows - 1) if nrows >= 2 else 0
    n1 = sum(r["w"][0] for r in rows[:split]) if wkind != "frac" else 0
    nprev = sorted({0, rng.choice([1, 2, 7, 10])} | ({n1} if n1 > 0 else set()))
    return {"id": iid, "cols": cols, "dom": dom, "rows": rows, "split": split, "wkind": wkind,
            "dags": [list(map(list, g)) for g in dags],
            "ess": [[5, 1], _frac(rng.choice([1, 3, 7, 10]), rng.choice([1, 2]))] if not big else [_frac(rng.choice([1, 5, 10, 3]), rng.choice([1, 2]))],
            "scal": [_frac(rng.choice([1, 2, 3, 5]), rng.choice([1, 2, 4]))] + ([[1, 1]] if not big else []),
            "nprev": nprev if not big else nprev[:2], "prevkinds": ["mle", "k2", "bdeu"] if not big else [rng.choice(["mle", "k2"])],
            "abase": {c: {s: rng.randint(1, 5) for s in dom[c]} for c in cols},
            "aadd": {c: {s: rng.randint(0, 3) for s in dom[c]} for c in cols},
            "aden": rng.choice([1, 1, 2])}


def random_dags(rng, cols, k):
    """k distinct DAGs over cols as edge lists (random order, random density)"""
    out, seen = [], set()
    tries = 0
    while len(out) < k and tries < 50 * k:
        tries += 1
        order = list(cols)
        rng.shuffle(order)
        p = rng.choice([0.3, 0.5, 0.8, 1.0])
        es = sorted((order[i], order[j]) for i in range(len(order)) for j in range(i + 1, len(order)) if rng.random() < p)
        if tuple(es) not in seen:
            seen.add(tuple(es))
            out.append(es)
    return out


def gen_instances(rng, thorough):
    spec = [  # cards, extras, nrows, wkind, ndags (0 = all DAGs)
        ((2,), (1,), 3, "int", 0),
        ((2, 3), (0, 0), 5, "unit", 0),
        ((3, 2), (1, 0), 6, "frac", 0),
        ((2, 2, 2), (0, 0, 0), 6, "unit", 0),
        ((2, 3, 2), (1, 0, 1), 8, "int", 0),
        ((3, 1, 2), (0, 1, 0), 7, "frac", 0),
        ((2, 2, 3, 2), (0, 1, 0, 0), 12, "int", 14),
    ]
    if thorough:
        spec += [
            ((1,), (0,), 1, "unit", 0),
            ((3, 3), (0, 1), 9, "int", 0),
            ((3, 2, 3), (0, 0, 0), 12, "unit", 0),
            ((2, 3, 3), (1, 1, 0), 10, "frac", 0),
            ((3, 3, 2), (0, 0, 2), 12, "int", 0),
            ((2, 2, 2, 2), (0, 0, 0, 0), 10, "int", 0),       # all 543 DAGs on four columns
            ((3, 2, 2, 3), (0, 1, 0, 0), 12, "frac", 60),
            ((2, 3, 1, 2), (1, 0, 0, 1), 11, "unit", 60),
        ]
    out = []
    for k, (cards, extras, n, wk, nd) in enumerate(spec):
        cols = TOKENS[:len(cards)]
        dags = random_dags(rng, cols, nd) if nd else ()
        out.append(data_instance(rng, f"I{k}_{'x'.join(map(str, cards))}n{n}{wk}", cards, extras, n, wk, dags,
                                 big=(len(cards) == 4 and nd == 0)))
    return out


GEN_CFG = ("INIT Init\nNEXT Next\nINVARIANT WellFormed\nINVARIANT ResultIsCPD\nINVARIANT ClosedForms\nINVARIANT RowOrderInvariant\n"
           "INVARIANT ExpandInvariant\nINVARIANT CountsCoverData\nINVARIANT UpdateRootPooled\nINVARIANT PriorVanishes\nINVARIANT Emit\n")
GEN_ACTIONS = ["FitMLE", "FitK2", "FitBDeu", "FitDirScalar", "FitDirTable", "FitUpdate"]



# =========================================================================== worker side (real pgmpy)
TOL = 1e-9 if os.environ.get("VERIF_BACKEND", "numpy") == "numpy" else 1e-6   # torch builds tensors through float32


def _to_np(x):
    try:
        return x.detach().cpu().numpy()
    except AttributeError:
        return x


def _case_rng(seed, hs, case):
    return random.Random(f"{seed}:{hs}:{jhash(case)}")


class DConc:
    """concretisation of a data instance: column names, state labels, column dtypes"""

    def __init__(self, inst, rng):
        from ..concretise import state_names, var_names
        cols = inst["cols"]
        # column names are strings: with integer names pandas' unstack() reads a parent list as level NUMBERS (>= 2 parents
        # fail inside pandas) and EM passes names as keyword arguments; the property does not quantify over name types
        self.vn = var_names(cols, rng, "str")
        self.inv = {c: t for t, c in self.vn.items()}
        self.sn, self.dtype = {}, {}
        for c in cols:
            k = rng.choice(["int", "range", "str", "str"])
            self.sn[c] = state_names(inst["dom"][c], rng, k)
            self.dtype[c] = rng.choice(["int64", "category"]) if k in ("int", "range") else rng.choice(["object", "category"])

    def labels(self, c, toks):
        return [self.sn[c][t] for t in toks]


def make_df(conc, inst, rows, rng, mode):
    """mode: plain (one line per row, weights ignored) | expand (integer weight = repeated lines) | weighted (_weight column).
    Row order and column order are random; categorical columns get their categories in random order incl. never-observed ones."""
    import pandas as pd
    recs, ws = [], []
    for r in rows:
        k = r["w"][0] if mode == "expand" else 1
        recs += [r["a"]] * k
        ws += [r["w"][0] / r["w"][1]] * k
    order = list(range(len(recs)))
    rng.shuffle(order)
    cols = list(inst["cols"])
    rng.shuffle(cols)
    data = {}
    for c in cols:
        vals = [conc.sn[c][recs[i][c]] for i in order]
        dt = conc.dtype[c]
        if dt == "int64":
            ser = pd.Series(vals, dtype="int64")
        elif dt == "category":
            cats = conc.labels(c, inst["dom"][c])
            rng.shuffle(cats)
            ser = pd.Series(pd.Categorical(vals, categories=cats))
        else:
            ser = pd.Series(vals, dtype=object)
        data[conc.vn[c]] = ser
    df = pd.DataFrame(data)
    if mode == "weighted":
        df.insert(rng.randint(0, len(cols)), "_weight", [ws[i] for i in order])
    return df


def make_model(conc, inst, edges, rng, cls):
    m = cls()
    nodes = [conc.vn[c] for c in inst["cols"]]
    rng.shuffle(nodes)
    m.add_nodes_from(nodes)
    es = [(conc.vn[u], conc.vn[v]) for u, v in edges]
    rng.shuffle(es)                      # = parent declaration order
    for u, v in es:
        m.add_edge(u, v)
    return m


def state_lists(conc, case, rng, explicit):
    """the state_names argument and, per column, the state list the result must carry.
    explicit (declared mode, or forced): every column gets its states in a random NON-sorted order.
    otherwise: nothing, {} or a random subset of columns is declared (with exactly the observed states); the remaining
    columns are left to the estimator (sorted observed values; only the SET is then compared)."""
    dom = case["dom"]
    lists, arg, strict = {}, {}, {}
    how = "all" if explicit else rng.choice(["none", "none", "empty", "some"])
    for c in dom:
        lab = conc.labels(c, dom[c])
        if how == "all" or (how == "some" and rng.random() < 0.5):
            rng.shuffle(lab)
            arg[conc.vn[c]] = list(lab)
            strict[c] = True
        else:
            lab = sorted(lab)
            strict[c] = False
        lists[c] = lab
    if how == "none":
        arg = None
    return arg, lists, strict


def _num(x, rng):
    n, d = x
    if d == 1 and rng.random() < 0.5:
        return int(n)
    return n / d


def _cellmap(cells):
    return {tuple(sorted(c["a"].items())): c["p"] for c in cells}


def table_2d(conc, v, ps_order, lists, cells):
    """lay a named-assignment table out the way the library takes tables: row = state of v in its list order,
    column = parent configuration, row-major over ps_order (first parent slowest)."""
    import itertools
    cm = _cellmap(cells)
    inv = {c: {lab: t for t, lab in conc.sn[c].items()} for c in [v] + list(ps_order)}
    tab = []
    for sv in lists[v]:
        row = []
        for combo in itertools.product(*[lists[p] for p in ps_order]):
            a = {v: inv[v][sv]}
            a.update({p: inv[p][s] for p, s in zip(ps_order, combo)})
            n, d = cm[tuple(sorted(a.items()))]
            row.append(n / d)
        tab.append(row)
    return tab


def check_cpd(cpd, conc, v, exp, lists, strict, tol=None):
    """exp = {"ps": [...], "cells": [...]} from TLC.  Returns (clause, detail) or None.  Everything by NAME lookup."""
    tol = tol or TOL
    if cpd is None:
        return "missing_cpd", None
    if cpd.variable != conc.vn[v] or cpd.variables[0] != conc.vn[v]:
        return "variable", repr(cpd.variable)
    got_ps = list(cpd.variables[1:])
    if len(got_ps) != len(exp["ps"]) or set(got_ps) != {conc.vn[p] for p in exp["ps"]}:
        return "parents", repr(got_ps)
    fam = [v] + [conc.inv[x] for x in got_ps]
    if [int(c) for c in cpd.cardinality] != [len(lists[t]) for t in fam]:
        return "cardinality", repr([int(c) for c in cpd.cardinality])
    for t in fam:
        got = list(cpd.state_names[conc.vn[t]])
        if len(got) != len(lists[t]) or (got != lists[t] if strict[t] else set(got) != set(lists[t])):
            return "state_names", repr(got)
    vals = _to_np(cpd.values)
    bad = []
    for c in exp["cells"]:
        try:
            idx = tuple(cpd.name_to_no[conc.vn[t]][conc.sn[t][c["a"][t]]] for t in fam)
        except KeyError:
            return "state_names", "lookup " + repr(c["a"])
        n, d = c["p"]
        x = float(vals[idx])
        if not (abs(x - n / d) <= tol * max(1.0, abs(n / d))):
            bad.append({"a": c["a"], "got": x, "want": [n, d]})
    if bad:
        return "value", bad[:4]
    return None


def _est_call(case, conc, lists, rng, weighted):
    """estimator class name + keyword arguments of get_parameters / fit for the case's prior"""
    kind = case["kind"] if case["kind"] != "update" else case["pk"]
    kw = {}
    if weighted:
        kw["weighted"] = True
    if kind == "mle":
        return "mle", kw
    if kind == "k2":
        kw["prior_type"] = rng.choice(["K2", "k2"])
    elif kind == "bdeu":
        kw["prior_type"] = rng.choice(["BDeu", "bdeu"])
        x = _num(case["x"], rng)
        kw["equivalent_sample_size"] = {conc.vn[c]: x for c in case["dom"]} if rng.random() < 0.3 else x
    elif kind == "dir_scalar":
        kw["prior_type"] = "dirichlet"
        kw["pseudo_counts"] = _num(case["x"], rng)
    elif kind == "dir_table":
        kw["prior_type"] = "dirichlet"
        al = {a["v"]: a["cells"] for a in case["alpha"]}
        ps = {c["v"]: c["ps"] for c in case["cpds"]}
        kw["pseudo_counts"] = {conc.vn[v]: table_2d(conc, v, sorted(ps[v], key=lambda p: conc.vn[p]), lists, al[v]) for v in al}
    return "bayes", kw


def _classes():
    from pgmpy.base import DAG
    from pgmpy.estimators import BayesianEstimator, ExpectationMaximization, MaximumLikelihoodEstimator
    from pgmpy.models import BayesianNetwork
    return {"mle": MaximumLikelihoodEstimator, "bayes": BayesianEstimator, "em": ExpectationMaximization,
            "BN": BayesianNetwork, "DAG": DAG}


API_NAMES = {("fit", "mle"): "BayesianNetwork.fit", ("fit", "bayes"): "BayesianNetwork.fit", ("fit", "em"): "BayesianNetwork.fit",
             ("dag_fit", "mle"): "DAG.fit", ("dag_fit", "bayes"): "DAG.fit",
             ("get_parameters", "mle"): "MaximumLikelihoodEstimator.get_parameters",
             ("get_parameters", "bayes"): "BayesianEstimator.get_parameters",
             ("get_parameters", "em"): "ExpectationMaximization.get_parameters",
             ("estimate_cpd", "mle"): "MaximumLikelihoodEstimator.estimate_cpd",
             ("estimate_cpd", "bayes"): "BayesianEstimator.estimate_cpd"}


def replay_one(case, inst, seed, hs, p_nj2=0.0, stub=None):
    """one abstract case -> one concretisation -> the real calls.  Returns (ncalls, violation or None)."""
    K = _classes()
    rng = _case_rng(seed, hs, case)
    conc = DConc(inst, rng)
    edges = [tuple(e) for e in case["edges"]]
    exp = {c["v"]: c for c in case["cpds"]}
    cols = inst["cols"]
    n_jobs = 2 if rng.random() < p_nj2 else 1
    allone = all(r["w"] == [1, 1] for r in inst["rows"])
    ncalls = [0]
    feats = {}                                           # signature features: few and meaningful
    detail = {"kind": case["kind"], "sn": case["sn"]}    # everything else about the concretisation
    isolated = {c for c in cols if all(c not in e for e in edges)}

    def viol(api, clause, observed=None, expected=None, **more):
        f = dict(feats)
        f.update(more)
        return {"api": api, "clause": clause, "features": f, "observed": observed, "expected": expected, "detail": dict(detail),
                "case": {"kind": "gen", "inst": inst, "case": case, "seed": seed, "hashseed": hs, "p_nj2": p_nj2}}

    def compare(api, cpds_by_var, lists, strict, **more):
        """first violation per clause over all nodes (a node without CPD does not hide a wrong value elsewhere)"""
        out, seen = [], set()
        for v in cols:
            r = check_cpd(cpds_by_var.get(conc.vn[v]), conc, v, exp[v], lists, strict)
            if r and r[0] not in seen:
                seen.add(r[0])
                extra = {"isolated_node": v in isolated} if (r[0] == "missing_cpd" or feats.get("estimator") == "update") else {}
                out.append(viol(api, r[0], r[1], {"node": v, "cells": exp[v]["cells"][:6]}, **extra, **more))
        return out

    def validated(api, bn, **more):
        try:
            ok = bn.check_model()
        except Exception as ex:  # noqa
            return [viol(api, "check_model", repr(ex)[:200], True, **more)]
        return [] if ok is True else [viol(api, "check_model", repr(ok), True, **more)]

    def both(api, got, lists, strict, bn, **more):
        vs = compare(api, got, lists, strict, **more)
        return vs if vs else validated(api, bn, **more)          # an invalid network is reported when nothing more specific was

    # ------------------------------------------------------------------ incremental update
    if case["kind"] == "update":
        rows1, rows2 = inst["rows"][:inst["split"]], inst["rows"][inst["split"]:]
        arg, lists, strict = state_lists(conc, case, rng, True)
        df2 = make_df(conc, inst, rows2, rng, "expand")
        nprev = case["nprev"] if case["nprev"] else None
        how = rng.choice(["after_fit", "manual", "manual"])
        detail["how"] = how
        feats["estimator"] = "update"
        bn = make_model(conc, inst, edges, rng, K["BN"])
        api = "BayesianNetwork.fit_update"
        sorted_prev = True
        try:
            if how == "after_fit":
                est, kw = _est_call(case, conc, lists, rng, False)
                df1 = make_df(conc, inst, rows1, rng, "expand")
                bn.fit(df1, estimator=K[est], state_names=arg, **kw)
                ncalls[0] += 1
                prev = {c["v"]: c for c in case["prev"]}
                for v in cols:
                    r = check_cpd(bn.get_cpds(conc.vn[v]), conc, v, {"ps": exp[v]["ps"], "cells": prev[v]["cells"]}, lists, strict)
                    if r:
                        extra = {"isolated_node": v in isolated} if r[0] == "missing_cpd" else {}
                        return ncalls[0], [viol("BayesianNetwork.fit", r[0], r[1], {"node": v, "cells": prev[v]["cells"][:6]},
                                                estimator=est, **extra)]
            else:
                from pgmpy.factors.discrete import TabularCPD
                prev = {c["v"]: c for c in case["prev"]}
                for v in cols:
                    ps = list(exp[v]["ps"])
                    rng.shuffle(ps)
                    if [conc.vn[p] for p in ps] != sorted(conc.vn[p] for p in ps):
                        sorted_prev = False
                    tab = table_2d(conc, v, ps, lists, prev[v]["cells"])
                    bn.add_cpds(TabularCPD(conc.vn[v], len(lists[v]), tab, evidence=[conc.vn[p] for p in ps] or None,
                                           evidence_card=[len(lists[p]) for p in ps] or None,
                                           state_names={conc.vn[x]: list(lists[x]) for x in [v] + ps}))
            feats["prev_parents_sorted"] = sorted_prev
            detail["n_jobs"] = n_jobs
            if stub:
                stub(bn, df2, nprev)
            else:
                bn.fit_update(df2, n_prev_samples=nprev, n_jobs=n_jobs)
            ncalls[0] += 1
        except Exception as ex:  # noqa
            if os.environ.get("C06_DEBUG"):
                raise
            return ncalls[0], [viol(api, "raises", repr(ex)[:300])]
        got = {c.variable: c for c in bn.get_cpds()}
        return ncalls[0], both(api, got, lists, strict, bn)

    # ------------------------------------------------------------------ one-shot fits
    apis = ["fit", "get_parameters", "estimate_cpd", "dag_fit"]
    if case["kind"] == "mle" and case["intw"]:
        apis += ["em_fit", "em_get_parameters"]
    how = rng.choice(apis)
    if how.startswith("em_"):
        mode = "plain" if allone else "expand"
    elif allone:
        mode = rng.choice(["plain", "weighted"])
    elif case["intw"]:
        mode = rng.choice(["expand", "weighted"])
    else:
        mode = "weighted"
    arg, lists, strict = state_lists(conc, case, rng, case["sn"] == "declared")
    df = make_df(conc, inst, inst["rows"], rng, mode)
    est, kw = _est_call(case, conc, lists, rng, mode == "weighted")
    snkw = {} if arg is None else {"state_names": arg}
    detail.update({"how": how, "data": mode, "n_jobs": n_jobs})
    feats["estimator"] = "em" if how.startswith("em_") else est
    try:
        if how in ("em_fit", "em_get_parameters"):
            feats["ncols"] = len(cols)
            bn = make_model(conc, inst, edges, rng, K["BN"])
            ekw = {"max_iter": rng.randint(1, 3)}
            if how == "em_fit":
                api = API_NAMES[("fit", "em")]
                bn.fit(df, estimator=K["em"], **snkw, **ekw)
                got = {c.variable: c for c in bn.get_cpds()}
            else:
                api = API_NAMES[("get_parameters", "em")]
                res = K["em"](bn, df, **snkw).get_parameters(show_progress=False, **ekw)
                got = {c.variable: c for c in res}
                bn.add_cpds(*res)
            ncalls[0] += 1
            feats["latents"] = 0
            return ncalls[0], both(api, got, lists, strict, bn)
        if how == "fit":
            api = API_NAMES[("fit", est)]
            bn = make_model(conc, inst, edges, rng, K["BN"])
            if est == "mle" and rng.random() < 0.5:
                ret = bn.fit(df, n_jobs=n_jobs, **snkw, **kw)           # default estimator
            else:
                ret = bn.fit(df, estimator=K[est], n_jobs=n_jobs, **snkw, **kw)
            ncalls[0] += 1
            got = {c.variable: c for c in bn.get_cpds()}
            return ncalls[0], both(api, got, lists, strict, bn)
        if how == "dag_fit":
            api = API_NAMES[("dag_fit", est)]
            dag = make_model(conc, inst, edges, rng, K["DAG"])
            bn = dag.fit(df, estimator=K[est], n_jobs=n_jobs, **snkw, **kw)
            ncalls[0] += 1
            got = {c.variable: c for c in bn.get_cpds()}
            vs = []
            if set(bn.nodes()) != {conc.vn[c] for c in cols}:
                vs.append(viol(api, "nodes", sorted(map(str, bn.nodes())), sorted(str(conc.vn[c]) for c in cols),
                               has_isolated_node=bool(isolated)))
                got_present = {k: c for k, c in got.items()}
                cmpv = [x for x in compare(api, got_present, lists, strict) if x["clause"] != "missing_cpd"]
                return ncalls[0], vs + cmpv
            return ncalls[0], both(api, got, lists, strict, bn)
        bn = make_model(conc, inst, edges, rng, K["BN"])
        e = K[est](bn, df, **snkw)
        if how == "get_parameters":
            api = API_NAMES[("get_parameters", est)]
            res = e.get_parameters(n_jobs=n_jobs, **kw)
            ncalls[0] += 1
            got = {c.variable: c for c in res}
            if len(res) != len(got):
                return ncalls[0], [viol(api, "duplicate_cpds", [str(c.variable) for c in res], len(cols))]
            bn.add_cpds(*res)
            return ncalls[0], both(api, got, lists, strict, bn)
        api = API_NAMES[("estimate_cpd", est)]
        got = {}
        order = list(cols)
        rng.shuffle(order)
        for v in order:
            k2 = dict(kw)
            if isinstance(k2.get("pseudo_counts"), dict):
                k2["pseudo_counts"] = k2["pseudo_counts"][conc.vn[v]]
            if isinstance(k2.get("equivalent_sample_size"), dict):
                k2["equivalent_sample_size"] = k2["equivalent_sample_size"][conc.vn[v]]
            try:
                got[conc.vn[v]] = e.estimate_cpd(conc.vn[v], **k2)
            except Exception as ex:  # noqa
                if os.environ.get("C06_DEBUG"):
                    raise
                return ncalls[0] + 1, [viol(api, "raises", repr(ex)[:300], None, isolated_node=v in isolated)]
            ncalls[0] += 1
        bn.add_cpds(*got.values())
        return ncalls[0], both(api, got, lists, strict, bn)
    except Exception as ex:  # noqa
        if os.environ.get("C06_DEBUG"):
            raise
        api = {"em_fit": "BayesianNetwork.fit", "em_get_parameters": "ExpectationMaximization.get_parameters", "fit": "BayesianNetwork.fit",
               "dag_fit": "DAG.fit"}.get(how) or API_NAMES[(how, est)]
        return max(1, ncalls[0]), [viol(api, "raises", repr(ex)[:300])]


def replay_gen(payload):
    insts = {i["id"]: i for i in payload["insts"]}
    hs = int(os.environ.get("PYTHONHASHSEED", "0"))
    fails, ncalls = [], 0
    for case in payload["cases"]:
        n, vs = replay_one(case, insts[case["inst"]], payload["seed"], hs, payload.get("p_nj2", 0.0))
        ncalls += n
        fails += vs
    return {"n": len(payload["cases"]), "calls": ncalls, "fails": fails[:int(os.environ.get("C06_MAXFAILS", "60"))], "nfails": len(fails)}


def run(ctx):
    raise Machinery("not yet")


def replay(ctx, rec):
    return None


def selftest(ctx):
    raise Machinery("not yet")
