"""C06 parameter learning returns the closed-form estimates.

Oracle: spec/LearnLib.tla (counts over a BAG of weighted rows, MLE, Bayesian estimates from K2 / BDeu / explicit Dirichlet pseudo
counts, incremental update = Bayes with previous CPD * previous sample size, one exact EM iteration) evaluated by TLC.
  Gen_C06    every DAG over the columns (or a listed subset) x declared/observed state mode x estimator and hyper-parameters ->
               expected CPD of every node by named assignment; lemmas ResultIsCPD, ClosedForms, RowOrderInvariant, ExpandInvariant,
               CountsCoverData, UpdateRootPooled, PriorVanishes.
  Gen_C06EM  latent-variable models x which initial CPDs are handed over -> exact first EM iteration; lemmas StepIsCPD,
               ObservedPartIsMLE, InitOfObservedPartIrrelevant, WeightsPartition, RowOrderInvariant.
  Trace_C06  recorded fits / updates on larger random data (4-6 columns, 15-40 rows, card <= 4 (+1 unobserved), <= 3 parents)
               validated cell by cell by TLC, and recorded EM likelihood sequences (max_iter = 0..K from the same start) checked
               against the action property ll' >= ll - eps.
Replay (workers, real pgmpy): every case under permuted rows / columns / parent declaration orders, int / object / categorical
columns, weighted rows vs repeated rows, n_jobs 1/2, explicit state_names in NON-sorted declared order incl. unobserved states,
through BayesianNetwork.fit, DAG.fit, estimator.get_parameters, estimator.estimate_cpd, fit_update (after fit, and on hand-built
CPDs with arbitrary parent order), ExpectationMaximization without latents; results compared by NAME lookup; check_model required.
The harness never computes an estimate: expected numbers come from TLC."""
import json
import math
import os
import random

from ..core import Machinery, chunks, jhash, run_workers

TOKENS = ["v0", "v1", "v2", "v3", "v4", "v5", "v6", "v7"]
HSEEDS_Q = [0, 1]
HSEEDS_T = [0, 1, 2, 3]


# ============================================================================================ instances (harness -> TLC)
def _frac(n, d):
    g = math.gcd(n, d)
    return [n // g, d // g]


def data_instance(rng, iid, cards, extras, nrows, wkind, dags=(), big=False):
    """cards[i] = number of states of column i that may OCCUR; extras[i] = declared-but-never-observed states on top.
    Rows are skewed (geometric weights + a sticky base row) so that unseen parent configurations and unseen states of the
    occurring ones are common.  wkind: unit | int | frac (halves / quarters, possibly one zero weight)."""
    cols = TOKENS[:len(cards)]
    dom = {c: [f"s{j}" for j in range(cards[i] + extras[i])] for i, c in enumerate(cols)}
    rows = []
    base = {c: rng.choice(dom[c][:cards[i]]) for i, c in enumerate(cols)}
    for _ in range(nrows):
        a = {}
        for i, c in enumerate(cols):
            pool = dom[c][:cards[i]]
            w = [3.0 ** (-k) for k in range(len(pool))]
            rng.shuffle(w)
            a[c] = base[c] if rng.random() < 0.3 else rng.choices(pool, weights=w)[0]
        if wkind == "unit":
            w = [1, 1]
        elif wkind == "int":
            w = [rng.choice([1, 1, 2, 3]), 1]
        else:
            w = _frac(rng.choice([1, 2, 3, 4, 5, 6, 8]), rng.choice([1, 2, 4]))
        rows.append({"a": a, "w": w})
    if wkind == "frac" and nrows >= 4 and rng.random() < 0.5:
        rows[rng.randrange(nrows)]["w"] = [0, 1]
    split = rng.randint(1, nrows - 1) if nrows >= 2 else 0
    n1 = sum(r["w"][0] for r in rows[:split]) if wkind != "frac" else 0
    # 0 = n_prev_samples left at its default (None); -1 = an explicit n_prev_samples of zero (Gen_C06!NPrevEff)
    nprev = sorted({-1, 0, rng.choice([1, 2, 7, 10])} | ({n1} if n1 > 0 else set()))
    return {"id": iid, "cols": cols, "dom": dom, "rows": rows, "split": split, "wkind": wkind,
            "dags": [list(map(list, g)) for g in dags],
            "ess": [[5, 1], _frac(rng.choice([1, 3, 7, 10]), rng.choice([1, 2]))] if not big else [_frac(rng.choice([1, 5, 10, 3]), rng.choice([1, 2]))],
            "scal": [_frac(rng.choice([1, 2, 3, 5]), rng.choice([1, 2, 4]))] + ([[1, 1]] if not big else []),
            "nprev": nprev if not big else nprev[:2], "prevkinds": ["mle", "k2", "bdeu"] if not big else [rng.choice(["mle", "k2"])],
            "abase": {c: {s: rng.randint(1, 5) for s in dom[c]} for c in cols},
            "aadd": {c: {s: rng.randint(0, 3) for s in dom[c]} for c in cols},
            "aden": rng.choice([1, 1, 2])}


def random_dags(rng, cols, k):
    """k distinct DAGs over cols as edge lists (random order, random density)"""
    out, seen = [], set()
    tries = 0
    while len(out) < k and tries < 50 * k:
        tries += 1
        order = list(cols)
        rng.shuffle(order)
        p = rng.choice([0.3, 0.5, 0.8, 1.0])
        es = sorted((order[i], order[j]) for i in range(len(order)) for j in range(i + 1, len(order)) if rng.random() < p)
        if tuple(es) not in seen:
            seen.add(tuple(es))
            out.append(es)
    return out


def gen_instances(rng, thorough):
    spec = [  # cards, extras, nrows, wkind, ndags (0 = all DAGs)
        ((2,), (1,), 3, "int", 0),
        ((2, 3), (0, 0), 5, "unit", 0),
        ((3, 2), (1, 0), 6, "frac", 0),
        ((2, 2, 2), (0, 0, 0), 6, "unit", 0),
        ((2, 3, 2), (1, 0, 1), 8, "int", 0),
        ((3, 1, 2), (0, 1, 0), 7, "frac", 0),
        ((2, 2, 3, 2), (0, 1, 0, 0), 12, "int", 14),
    ]
    if thorough:
        spec += [
            ((1,), (0,), 1, "unit", 0),
            ((3, 3), (0, 1), 9, "int", 0),
            ((3, 2, 3), (0, 0, 0), 12, "unit", 0),
            ((2, 3, 3), (1, 1, 0), 10, "frac", 0),
            ((3, 3, 2), (0, 0, 2), 12, "int", 0),
            ((2, 2, 2, 2), (0, 0, 0, 0), 10, "int", 0),       # all 543 DAGs on four columns
            ((3, 2, 2, 3), (0, 1, 0, 0), 12, "frac", 60),
            ((2, 3, 1, 2), (1, 0, 0, 1), 11, "unit", 60),
        ]
    out = []
    for k, (cards, extras, n, wk, nd) in enumerate(spec):
        cols = TOKENS[:len(cards)]
        dags = random_dags(rng, cols, nd) if nd else ()
        out.append(data_instance(rng, f"I{k}_{'x'.join(map(str, cards))}n{n}{wk}", cards, extras, n, wk, dags,
                                 big=(len(cards) == 4 and nd == 0)))
    return out


# ---- latent-variable instances.  The pool is FIXED (its own seed, independent of VERIF_SEED): the exact E-step scales the
# completed data by lcm_r Z(r), which must stay inside TLC's 32-bit integers; the pool below was checked to do so.
EM_SHAPES = [  # name, observed (card), latent (card), edges, nrows, den
    ("naive2", {"v0": 2, "v1": 2}, {"h0": 2}, [("h0", "v0"), ("h0", "v1")], 5, 4),
    ("naive2b", {"v0": 2, "v1": 3}, {"h0": 2}, [("h0", "v0"), ("h0", "v1")], 5, 4),
    ("mediator", {"v0": 2, "v1": 2}, {"h0": 2}, [("v0", "h0"), ("h0", "v1")], 5, 4),
    ("tail", {"v0": 2, "v1": 2}, {"h0": 2}, [("h0", "v0"), ("v0", "v1")], 4, 5),
    ("lat3", {"v0": 2, "v1": 2}, {"h0": 3}, [("h0", "v0"), ("h0", "v1")], 4, 4),
    ("single", {"v0": 3}, {"h0": 2}, [("h0", "v0")], 4, 5),
]
EM_SHAPES_T = [
    ("naive3", {"v0": 2, "v1": 2, "v2": 2}, {"h0": 2}, [("h0", "v0"), ("h0", "v1"), ("h0", "v2")], 4, 3),
    ("twolat", {"v0": 2, "v1": 2}, {"h0": 2, "h1": 2}, [("h0", "v0"), ("h1", "v0"), ("h0", "v1")], 3, 3),
    ("conf", {"v0": 2, "v1": 2}, {"h0": 2}, [("h0", "v0"), ("h0", "v1"), ("v0", "v1")], 4, 3),
    ("iso", {"v0": 2, "v1": 2, "v2": 2}, {"h0": 2}, [("h0", "v0"), ("h0", "v1")], 5, 4),
    ("naive2c", {"v0": 3, "v1": 2}, {"h0": 2}, [("h0", "v0"), ("h0", "v1")], 6, 5),
]


def em_instances(thorough):
    import itertools
    rng = random.Random(60606)
    out = []
    for name, obs, lat, edges, nrows, den in EM_SHAPES + (EM_SHAPES_T if thorough else []):
        for rep in range(2):
            dom = {v: [f"s{j}" for j in range(c)] for v, c in {**obs, **lat}.items()}
            pa = {v: sorted(u for u, w in edges if w == v) for v in dom}
            # few distinct row types (they bound lcm_r Z(r)), integer weights
            types = []
            ntypes = min(3, nrows)
            while len(types) < ntypes:
                a = {v: rng.choice(dom[v]) for v in obs}
                if a not in types:
                    types.append(a)
                if len(types) == math.prod(obs.values()):
                    break
            rows = [{"a": dict(types[k % len(types)]), "w": [rng.choice([1, 1, 2]), 1]} for k in range(nrows)]
            th0 = {}
            for v in dom:
                cells = []
                for combo in itertools.product(*[dom[p] for p in pa[v]]):
                    r = len(dom[v])
                    while True:
                        cuts = sorted(rng.sample(range(1, den), r - 1)) if r > 1 else []
                        col = [b - a for a, b in zip([0] + cuts, cuts + [den])]
                        if r == 1 or len(set(col)) > 1 or den % r:
                            break
                    for s, n in zip(dom[v], col):
                        a = {v: s}
                        a.update(dict(zip(pa[v], combo)))
                        cells.append({"a": a, "n": n})
                th0[v] = {"den": den, "cells": cells}
            out.append({"id": f"E_{name}_{rep}", "obs": sorted(obs), "lat": sorted(lat), "dom": dom, "edges": [list(e) for e in edges],
                        "rows": rows, "th0": th0})
    return out


EM_CFG = ("INIT Init\nNEXT Next\nINVARIANT WellFormed\nINVARIANT StepIsCPD\nINVARIANT WeightsPartition\nINVARIANT ObservedPartIsMLE\n"
          "INVARIANT InitOfObservedPartIrrelevant\nINVARIANT RowOrderInvariant\nINVARIANT Emit\n")

GEN_CFG = ("INIT Init\nNEXT Next\nINVARIANT WellFormed\nINVARIANT ResultIsCPD\nINVARIANT ClosedForms\nINVARIANT RowOrderInvariant\n"
           "INVARIANT ExpandInvariant\nINVARIANT CountsCoverData\nINVARIANT UpdateRootPooled\nINVARIANT PriorVanishes\nINVARIANT Emit\n")


# =========================================================================== worker side (real pgmpy)
TOL = 1e-9 if os.environ.get("VERIF_BACKEND", "numpy") == "numpy" else 1e-6   # torch builds tensors through float32


def _to_np(x):
    try:
        return x.detach().cpu().numpy()
    except AttributeError:
        return x


def _case_rng(seed, hs, case):
    return random.Random(f"{seed}:{hs}:{jhash(case)}")


class DConc:
    """concretisation of a data instance: column names, state labels, column dtypes"""

    def __init__(self, inst, rng):
        from ..concretise import state_names, var_names
        cols = inst["cols"]
        # column names are strings: with integer names pandas' unstack() reads a parent list as level NUMBERS (>= 2 parents
        # fail inside pandas) and EM passes names as keyword arguments; the property does not quantify over name types
        self.vn = var_names(cols, rng, "str")
        self.inv = {c: t for t, c in self.vn.items()}
        self.sn, self.dtype = {}, {}
        for c in cols:
            k = rng.choice(["int", "range", "str", "str"])
            self.sn[c] = state_names(inst["dom"][c], rng, k)
            self.dtype[c] = rng.choice(["int64", "category"]) if k in ("int", "range") else rng.choice(["object", "category"])

    def labels(self, c, toks):
        return [self.sn[c][t] for t in toks]


_FRAMES = []      # every data frame handed to the library during one case, with its snapshot (C16: estimation never changes its data)


def make_df(conc, inst, rows, rng, mode):
    from ..frames import df_snapshot
    df = _make_df(conc, inst, rows, rng, mode)
    _FRAMES.append((df, df_snapshot(df)))
    return df


def _make_df(conc, inst, rows, rng, mode):
    """mode: plain (one line per row, weights ignored) | expand (integer weight = repeated lines) | weighted (_weight column).
    Row order and column order are random; categorical columns get their categories in random order incl. never-observed ones."""
    import pandas as pd
    recs, ws = [], []
    for r in rows:
        k = r["w"][0] if mode == "expand" else 1
        recs += [r["a"]] * k
        ws += [r["w"][0] / r["w"][1]] * k
    order = list(range(len(recs)))
    rng.shuffle(order)
    cols = list(inst["cols"])
    rng.shuffle(cols)
    data = {}
    for c in cols:
        vals = [conc.sn[c][recs[i][c]] for i in order]
        dt = conc.dtype[c]
        if dt == "int64":
            ser = pd.Series(vals, dtype="int64")
        elif dt == "category":
            cats = conc.labels(c, inst["dom"][c])
            rng.shuffle(cats)
            ser = pd.Series(pd.Categorical(vals, categories=cats))
        else:
            ser = pd.Series(vals, dtype=object)
        data[conc.vn[c]] = ser
    df = pd.DataFrame(data)
    if mode == "weighted":
        df.insert(rng.randint(0, len(cols)), "_weight", [ws[i] for i in order])
    return df


def make_model(conc, inst, edges, rng, cls):
    m = cls()
    nodes = [conc.vn[c] for c in inst["cols"]]
    rng.shuffle(nodes)
    m.add_nodes_from(nodes)
    es = [(conc.vn[u], conc.vn[v]) for u, v in edges]
    rng.shuffle(es)                      # = parent declaration order
    for u, v in es:
        m.add_edge(u, v)
    return m


def state_lists(conc, case, rng, explicit):
    """the state_names argument and, per column, the state list the result must carry.
    explicit (declared mode, or forced): every column gets its states in a random NON-sorted order.
    otherwise: nothing, {} or a random subset of columns is declared (with exactly the observed states); the remaining
    columns are left to the estimator (sorted observed values; only the SET is then compared)."""
    dom = case["dom"]
    lists, arg, strict = {}, {}, {}
    how = "all" if explicit else rng.choice(["none", "none", "empty", "some"])
    for c in dom:
        lab = conc.labels(c, dom[c])
        if how == "all" or (how == "some" and rng.random() < 0.5):
            rng.shuffle(lab)
            arg[conc.vn[c]] = list(lab)
            strict[c] = True
        else:
            lab = sorted(lab)
            strict[c] = False
        lists[c] = lab
    if how == "none":
        arg = None
    return arg, lists, strict


def _num(x, rng):
    n, d = x
    if d == 1 and rng.random() < 0.5:
        return int(n)
    return n / d


def _cellmap(cells):
    return {tuple(sorted(c["a"].items())): c["p"] for c in cells}


def table_2d(conc, v, ps_order, lists, cells):
    """lay a named-assignment table out the way the library takes tables: row = state of v in its list order,
    column = parent configuration, row-major over ps_order (first parent slowest)."""
    import itertools
    cm = _cellmap(cells)
    inv = {c: {lab: t for t, lab in conc.sn[c].items()} for c in [v] + list(ps_order)}
    tab = []
    for sv in lists[v]:
        row = []
        for combo in itertools.product(*[lists[p] for p in ps_order]):
            a = {v: inv[v][sv]}
            a.update({p: inv[p][s] for p, s in zip(ps_order, combo)})
            n, d = cm[tuple(sorted(a.items()))]
            row.append(n / d)
        tab.append(row)
    return tab


def check_cpd(cpd, conc, v, exp, lists, strict, tol=None):
    """exp = {"ps": [...], "cells": [...]} from TLC.  Returns (clause, detail) or None.  Everything by NAME lookup."""
    tol = tol or TOL
    if cpd is None:
        return "missing_cpd", None
    if cpd.variable != conc.vn[v] or cpd.variables[0] != conc.vn[v]:
        return "variable", repr(cpd.variable)
    got_ps = list(cpd.variables[1:])
    if len(got_ps) != len(exp["ps"]) or set(got_ps) != {conc.vn[p] for p in exp["ps"]}:
        return "parents", repr(got_ps)
    fam = [v] + [conc.inv[x] for x in got_ps]
    if [int(c) for c in cpd.cardinality] != [len(lists[t]) for t in fam]:
        return "cardinality", repr([int(c) for c in cpd.cardinality])
    for t in fam:
        got = list(cpd.state_names[conc.vn[t]])
        if len(got) != len(lists[t]) or (got != lists[t] if strict[t] else set(got) != set(lists[t])):
            return "state_names", repr(got)
    vals = _to_np(cpd.values)
    bad = []
    for c in exp["cells"]:
        try:
            idx = tuple(cpd.name_to_no[conc.vn[t]][conc.sn[t][c["a"][t]]] for t in fam)
        except KeyError:
            return "state_names", "lookup " + repr(c["a"])
        n, d = c["p"]
        x = float(vals[idx])
        if not (abs(x - n / d) <= tol * max(1.0, abs(n / d))):
            bad.append({"a": c["a"], "got": x, "want": [n, d]})
    if bad:
        return "value", bad[:4]
    return None


def _est_call(case, conc, lists, rng, weighted):
    """estimator class name + keyword arguments of get_parameters / fit for the case's prior"""
    kind = case["kind"] if case["kind"] != "update" else case["pk"]
    kw = {}
    if weighted:
        kw["weighted"] = True
    if kind == "mle":
        return "mle", kw
    if kind == "k2":
        kw["prior_type"] = rng.choice(["K2", "k2"])
    elif kind == "bdeu":
        kw["prior_type"] = rng.choice(["BDeu", "bdeu"])
        x = _num(case["x"], rng)
        kw["equivalent_sample_size"] = {conc.vn[c]: x for c in case["dom"]} if rng.random() < 0.3 else x
    elif kind == "dir_scalar":
        kw["prior_type"] = "dirichlet"
        kw["pseudo_counts"] = _num(case["x"], rng)
    elif kind == "dir_table":
        kw["prior_type"] = "dirichlet"
        al = {a["v"]: a["cells"] for a in case["alpha"]}
        ps = {c["v"]: c["ps"] for c in case["cpds"]}
        kw["pseudo_counts"] = {conc.vn[v]: table_2d(conc, v, sorted(ps[v], key=lambda p: conc.vn[p]), lists, al[v]) for v in al}
        if rng.random() < 0.5:          # the prior as a caller-owned float array (must not be written to)
            import numpy as np
            kw["pseudo_counts"] = {k: np.array(t, dtype=float) for k, t in kw["pseudo_counts"].items()}
    return "bayes", kw


def _freeze(kw):
    import copy
    return copy.deepcopy({k: v for k, v in kw.items()})


def _same_args(a, b):
    import numpy as np
    if set(a) != set(b):
        return False
    for k in a:
        x, y = a[k], b[k]
        if isinstance(x, dict):
            if set(x) != set(y) or any(not np.array_equal(np.asarray(x[q]), np.asarray(y[q])) for q in x):
                return False
        elif not np.array_equal(np.asarray(x), np.asarray(y)):
            return False
    return True


def _classes():
    from pgmpy.base import DAG
    from pgmpy.estimators import BayesianEstimator, ExpectationMaximization, MaximumLikelihoodEstimator
    from pgmpy.models import BayesianNetwork
    return {"mle": MaximumLikelihoodEstimator, "bayes": BayesianEstimator, "em": ExpectationMaximization,
            "BN": BayesianNetwork, "DAG": DAG}


API_NAMES = {("fit", "mle"): "BayesianNetwork.fit", ("fit", "bayes"): "BayesianNetwork.fit", ("fit", "em"): "BayesianNetwork.fit",
             ("dag_fit", "mle"): "DAG.fit", ("dag_fit", "bayes"): "DAG.fit",
             ("get_parameters", "mle"): "MaximumLikelihoodEstimator.get_parameters",
             ("get_parameters", "bayes"): "BayesianEstimator.get_parameters",
             ("get_parameters", "em"): "ExpectationMaximization.get_parameters",
             ("estimate_cpd", "mle"): "MaximumLikelihoodEstimator.estimate_cpd",
             ("estimate_cpd", "bayes"): "BayesianEstimator.estimate_cpd"}


def replay_one(case, inst, seed, hs, p_nj2=0.0, stub=None):
    """one abstract case -> one concretisation -> the real calls.  Returns (ncalls, violation or None)."""
    K = _classes()
    rng = _case_rng(seed, hs, case)
    conc = DConc(inst, rng)
    edges = [tuple(e) for e in case["edges"]]
    exp = {c["v"]: c for c in case["cpds"]}
    cols = inst["cols"]
    n_jobs = 2 if rng.random() < p_nj2 else 1
    allone = all(r["w"] == [1, 1] for r in inst["rows"])
    ncalls = [0]
    feats = {}                                           # signature features: few and meaningful
    detail = {"kind": case["kind"], "sn": case["sn"]}    # everything else about the concretisation
    isolated = {c for c in cols if all(c not in e for e in edges)}

    def viol(api, clause, observed=None, expected=None, **more):
        f = dict(feats)
        f.update(more)
        return {"api": api, "clause": clause, "features": f, "observed": observed, "expected": expected, "detail": dict(detail),
                "case": {"kind": "gen", "inst": inst, "case": case, "seed": seed, "hashseed": hs, "p_nj2": p_nj2}}

    def compare(api, cpds_by_var, lists, strict, **more):
        """first violation per clause over all nodes (a node without CPD does not hide a wrong value elsewhere)"""
        out, seen = [], set()
        for v in cols:
            r = check_cpd(cpds_by_var.get(conc.vn[v]), conc, v, exp[v], lists, strict)
            if r and (r[0], v in isolated) not in seen:
                seen.add((r[0], v in isolated))
                extra = {"isolated_node": v in isolated} if (r[0] == "missing_cpd" or feats.get("estimator") == "update") else {}
                out.append(viol(api, r[0], r[1], {"node": v, "cells": exp[v]["cells"][:6]}, **extra, **more))
        return out

    def validated(api, bn, **more):
        try:
            ok = bn.check_model()
        except Exception as ex:  # noqa
            return [viol(api, "check_model", repr(ex)[:200], True, **more)]
        return [] if ok is True else [viol(api, "check_model", repr(ok), True, **more)]

    def both(api, got, lists, strict, bn, **more):
        vs = compare(api, got, lists, strict, **more)
        return vs if vs else validated(api, bn, **more)          # an invalid network is reported when nothing more specific was

    # ------------------------------------------------------------------ incremental update
    if case["kind"] == "update":
        rows1, rows2 = inst["rows"][:inst["split"]], inst["rows"][inst["split"]:]
        arg, lists, strict = state_lists(conc, case, rng, True)
        df2 = make_df(conc, inst, rows2, rng, "expand")
        nprev = case["nprev"] if case["nprev"] else None
        if nprev == -1:
            nprev = rng.choice([0, 0.0])
        how = rng.choice(["after_fit", "manual", "manual"])
        detail["how"] = how
        feats["estimator"] = "update"
        bn = make_model(conc, inst, edges, rng, K["BN"])
        api = "BayesianNetwork.fit_update"
        sorted_prev = True
        try:
            if how == "after_fit":
                est, kw = _est_call(case, conc, lists, rng, False)
                df1 = make_df(conc, inst, rows1, rng, "expand")
                bn.fit(df1, estimator=K[est], state_names=arg, **kw)
                ncalls[0] += 1
                prev = {c["v"]: c for c in case["prev"]}
                for v in cols:
                    r = check_cpd(bn.get_cpds(conc.vn[v]), conc, v, {"ps": exp[v]["ps"], "cells": prev[v]["cells"]}, lists, strict)
                    if r:
                        extra = {"isolated_node": v in isolated} if r[0] == "missing_cpd" else {}
                        return ncalls[0], [viol("BayesianNetwork.fit", r[0], r[1], {"node": v, "cells": prev[v]["cells"][:6]},
                                                estimator=est, **extra)]
            else:
                from pgmpy.factors.discrete import TabularCPD
                prev = {c["v"]: c for c in case["prev"]}
                for v in cols:
                    ps = list(exp[v]["ps"])
                    rng.shuffle(ps)
                    if [conc.vn[p] for p in ps] != sorted(conc.vn[p] for p in ps):
                        sorted_prev = False
                    tab = table_2d(conc, v, ps, lists, prev[v]["cells"])
                    bn.add_cpds(TabularCPD(conc.vn[v], len(lists[v]), tab, evidence=[conc.vn[p] for p in ps] or None,
                                           evidence_card=[len(lists[p]) for p in ps] or None,
                                           state_names={conc.vn[x]: list(lists[x]) for x in [v] + ps}))
            feats["prev_parents_sorted"] = sorted_prev
            detail["n_jobs"] = n_jobs
            if stub:
                stub(bn, df2, nprev)
            else:
                bn.fit_update(df2, n_prev_samples=nprev, n_jobs=n_jobs)
            ncalls[0] += 1
        except Exception as ex:  # noqa
            if os.environ.get("C06_DEBUG"):
                raise
            return ncalls[0], [viol(api, "raises", repr(ex)[:300])]
        got = {c.variable: c for c in bn.get_cpds()}
        # after an update only the SET of state names is demanded (the order is that of the previous CPDs by construction of
        # the library, but the property does not fix it); values are compared by name
        return ncalls[0], both(api, got, lists, {c: False for c in strict}, bn)

    # ------------------------------------------------------------------ one-shot fits
    apis = ["fit", "get_parameters", "estimate_cpd", "dag_fit"]
    if case["kind"] == "mle" and case["intw"]:
        apis += ["em_fit", "em_get_parameters"]
    how = rng.choice(apis)
    if how.startswith("em_"):
        mode = "plain" if allone else "expand"
    elif allone:
        mode = rng.choice(["plain", "weighted"])
    elif case["intw"]:
        mode = rng.choice(["expand", "weighted"])
    else:
        mode = "weighted"
    arg, lists, strict = state_lists(conc, case, rng, case["sn"] == "declared")
    df = make_df(conc, inst, inst["rows"], rng, mode)
    est, kw = _est_call(case, conc, lists, rng, mode == "weighted")
    snkw = {} if arg is None else {"state_names": arg}
    detail.update({"how": how, "data": mode, "n_jobs": n_jobs})
    feats["estimator"] = "em" if how.startswith("em_") else est
    try:
        if how in ("em_fit", "em_get_parameters"):
            feats["ncols"] = len(cols)
            feats["latents"] = 0
            bn = make_model(conc, inst, edges, rng, K["BN"])
            ekw = {"max_iter": rng.randint(1, 3)}
            if how == "em_fit":
                api = API_NAMES[("fit", "em")]
                bn.fit(df, estimator=K["em"], **snkw, **ekw)
                got = {c.variable: c for c in bn.get_cpds()}
            else:
                api = API_NAMES[("get_parameters", "em")]
                res = K["em"](bn, df, **snkw).get_parameters(show_progress=False, **ekw)
                got = {c.variable: c for c in res}
                bn.add_cpds(*res)
            ncalls[0] += 1
            return ncalls[0], both(api, got, lists, strict, bn)
        if how == "fit":
            api = API_NAMES[("fit", est)]
            bn = make_model(conc, inst, edges, rng, K["BN"])
            if est == "mle" and rng.random() < 0.5:
                ret = bn.fit(df, n_jobs=n_jobs, **snkw, **kw)           # default estimator
            else:
                ret = bn.fit(df, estimator=K[est], n_jobs=n_jobs, **snkw, **kw)
            ncalls[0] += 1
            got = {c.variable: c for c in bn.get_cpds()}
            return ncalls[0], both(api, got, lists, strict, bn)
        if how == "dag_fit":
            api = API_NAMES[("dag_fit", est)]
            dag = make_model(conc, inst, edges, rng, K["DAG"])
            bn = dag.fit(df, estimator=K[est], n_jobs=n_jobs, **snkw, **kw)
            ncalls[0] += 1
            got = {c.variable: c for c in bn.get_cpds()}
            vs = []
            if set(bn.nodes()) != {conc.vn[c] for c in cols}:
                vs.append(viol(api, "nodes", sorted(map(str, bn.nodes())), sorted(str(conc.vn[c]) for c in cols),
                               has_isolated_node=bool(isolated)))
                got_present = {k: c for k, c in got.items()}
                cmpv = [x for x in compare(api, got_present, lists, strict) if x["clause"] != "missing_cpd"]
                return ncalls[0], vs + cmpv
            return ncalls[0], both(api, got, lists, strict, bn)
        bn = make_model(conc, inst, edges, rng, K["BN"])
        e = K[est](bn, df, **snkw)
        if how == "get_parameters":
            api = API_NAMES[("get_parameters", est)]
            kw0 = _freeze(kw)
            res = e.get_parameters(n_jobs=n_jobs, **kw)
            ncalls[0] += 1
            if not _same_args(kw, kw0):
                return ncalls[0], [viol(api, "argument_changed", None, None)]
            if rng.random() < 0.3:          # the same call again (same estimator object, same prior objects): same estimates
                res = e.get_parameters(n_jobs=n_jobs, **kw)
                ncalls[0] += 1
            got = {c.variable: c for c in res}
            if len(res) != len(got):
                return ncalls[0], [viol(api, "duplicate_cpds", [str(c.variable) for c in res], len(cols))]
            bn.add_cpds(*res)
            return ncalls[0], both(api, got, lists, strict, bn)
        api = API_NAMES[("estimate_cpd", est)]
        got = {}
        order = list(cols)
        rng.shuffle(order)
        for v in order:
            k2 = dict(kw)
            if isinstance(k2.get("pseudo_counts"), dict):
                k2["pseudo_counts"] = k2["pseudo_counts"][conc.vn[v]]
            if isinstance(k2.get("equivalent_sample_size"), dict):
                k2["equivalent_sample_size"] = k2["equivalent_sample_size"][conc.vn[v]]
            try:
                k0 = _freeze(k2)
                got[conc.vn[v]] = e.estimate_cpd(conc.vn[v], **k2)
                if not _same_args(k2, k0):
                    return ncalls[0] + 1, [viol(api, "argument_changed", str(v), None)]
                if rng.random() < 0.4:      # asked twice with the same (caller-owned) prior object: the second answer counts
                    got[conc.vn[v]] = e.estimate_cpd(conc.vn[v], **k2)
                    ncalls[0] += 1
            except Exception as ex:  # noqa
                if os.environ.get("C06_DEBUG"):
                    raise
                return ncalls[0] + 1, [viol(api, "raises", repr(ex)[:300], None, isolated_node=v in isolated)]
            ncalls[0] += 1
        bn.add_cpds(*got.values())
        return ncalls[0], both(api, got, lists, strict, bn)
    except Exception as ex:  # noqa
        if os.environ.get("C06_DEBUG"):
            raise
        api = {"em_fit": "BayesianNetwork.fit", "em_get_parameters": "ExpectationMaximization.get_parameters", "fit": "BayesianNetwork.fit",
               "dag_fit": "DAG.fit"}.get(how) or API_NAMES[(how, est)]
        return max(1, ncalls[0]), [viol(api, "raises", repr(ex)[:300])]


def replay_gen(payload):
    insts = {i["id"]: i for i in payload["insts"]}
    hs = int(os.environ.get("PYTHONHASHSEED", "0"))
    fails, ncalls = [], 0
    from ..frames import df_snapshot
    for case in payload["cases"]:
        del _FRAMES[:]
        n, vs = replay_one(case, insts[case["inst"]], payload["seed"], hs, payload.get("p_nj2", 0.0))
        ncalls += n
        fails += vs
        if any(df_snapshot(df) != snap for df, snap in _FRAMES):
            fails.append({"api": "fit", "clause": "data_argument_changed", "features": {"kind": case["kind"]}, "observed": None,
                          "expected": "the data frame as passed in", "detail": {},
                          "case": {"kind": "gen", "inst": insts[case["inst"]], "case": case, "seed": payload["seed"], "hashseed": hs,
                                   "p_nj2": payload.get("p_nj2", 0.0)}})
    return {"n": len(payload["cases"]), "calls": ncalls, "fails": fails[:int(os.environ.get("C06_MAXFAILS", "60"))], "nfails": len(fails)}


# ------------------------------------------------------------------------------------------- EM with latent variables
class EConc:
    """concretisation of a latent-variable instance.  Latent states are the integers 0..card-1 (EM fixes that)."""

    def __init__(self, inst, rng):
        from ..concretise import state_names, var_names
        nodes = inst["obs"] + inst["lat"]
        self.vn = var_names(nodes, rng, "str")
        self.inv = {c: t for t, c in self.vn.items()}
        self.sn, self.dtype = {}, {}
        for c in inst["obs"]:
            k = rng.choice(["int", "range", "str", "str"])
            self.sn[c] = state_names(inst["dom"][c], rng, k)
            self.dtype[c] = rng.choice(["int64", "category"]) if k in ("int", "range") else rng.choice(["object", "category"])
        for c in inst["lat"]:
            self.sn[c] = {s: j for j, s in enumerate(inst["dom"][c])}

    def labels(self, c, toks):
        return [self.sn[c][t] for t in toks]


def _loglik(cpds, rows, lat_labels):
    """observed-data log-likelihood of weighted concrete rows under a list of CPDs, by brute-force summation over the
    latent assignments (harness-side evaluation, stated as an assumption of the check)."""
    import itertools
    lats = list(lat_labels)
    ll = 0.0
    for a, w in rows:
        tot = 0.0
        for combo in itertools.product(*[lat_labels[l] for l in lats]):
            full = dict(a)
            full.update(dict(zip(lats, combo)))
            pr = 1.0
            for c in cpds:
                vals = _to_np(c.values)
                pr *= float(vals[tuple(c.name_to_no[x][full[x]] for x in c.variables)])
            tot += pr
        ll += w * (math.log(tot) if tot > 0 else -1e3)
    return ll


def _scaled(ll):
    return int(math.floor(max(ll, -2000.0) * 1e6))


def replay_em_one(case, inst, seed, hs, K, stub=None):
    """exact first iteration, composition of iterations, likelihood sequences.  Returns (ncalls, violations, ll-traces)."""
    from pgmpy.factors.discrete import TabularCPD
    C = _classes()
    rng = _case_rng(seed, hs, case)
    conc = EConc(inst, rng)
    obs, lat = inst["obs"], inst["lat"]
    nodes = obs + lat
    edges = [tuple(e) for e in inst["edges"]]
    exp = {c["v"]: c for c in case["cpds"]}
    given = sorted(case["given"])
    feats = {"estimator": "em", "latents": len(lat), "ncols": len(obs)}
    detail = {"given": given}
    ncalls = [0]

    def viol(api, clause, observed=None, expected=None, **more):
        f = dict(feats)
        f.update(more)
        return {"api": api, "clause": clause, "features": f, "observed": observed, "expected": expected, "detail": dict(detail),
                "case": {"kind": "em", "inst": inst, "case": case, "seed": seed, "hashseed": hs, "K": K}}

    observed_all = all(any(r["a"][c] == s for r in inst["rows"]) for c in obs for s in inst["dom"][c])
    pseudo_case = {"dom": {c: inst["dom"][c] for c in obs}}
    arg, lists, strict = state_lists(conc, pseudo_case, rng, (not observed_all) or rng.random() < 0.5)
    for l in lat:
        lists[l] = list(range(len(inst["dom"][l])))
        strict[l] = False
    pseudo_inst = {"cols": obs, "dom": inst["dom"]}
    snkw = {} if arg is None else {"state_names": arg}
    lat_card = {conc.vn[l]: len(inst["dom"][l]) for l in lat}
    lckw = {} if (all(v == 2 for v in lat_card.values()) and rng.random() < 0.4) else {"latent_card": lat_card}

    def model(r=None):
        r = r or rng
        cls = C["BN"] if r.random() < 0.7 else C["DAG"]
        m = cls()
        ns = list(nodes)
        r.shuffle(ns)
        for n in ns:
            m.add_node(conc.vn[n], latent=n in lat)
        es = [(conc.vn[u], conc.vn[v]) for u, v in edges]
        r.shuffle(es)
        for u, v in es:
            m.add_edge(u, v)
        return m

    def cpd_from(v, cells, as_frac):
        ps = list(exp[v]["ps"])
        rng.shuffle(ps)
        ll = {x: list(lists[x]) for x in [v] + ps}
        for x in ll:
            if x in lat and rng.random() < 0.3:
                rng.shuffle(ll[x])
        tab = table_2d(conc, v, ps, ll, cells)
        return TabularCPD(conc.vn[v], len(ll[v]), tab, evidence=[conc.vn[p] for p in ps] or None,
                          evidence_card=[len(ll[p]) for p in ps] or None, state_names={conc.vn[x]: ll[x] for x in [v] + ps})

    th0_cells = {v: [{"a": c["a"], "p": [c["n"], inst["th0"][v]["den"]]} for c in inst["th0"][v]["cells"]] for v in nodes}

    def em(max_iter, init_cells, seed_=None):
        df = make_df(conc, pseudo_inst, inst["rows"], rng, "expand")
        init = {conc.vn[v]: cpd_from(v, init_cells[v], True) for v in given} if init_cells else {}
        ncalls[0] += 1
        kw = dict(lckw)
        # the E-step works through the distinct data rows in batches: sizes below the number of distinct rows (several batches),
        # the default and a huge one must all give the specified result
        bs = rng.choice([None, None, 1, 2, 3, 5, 10 ** 6])
        if bs is not None:
            kw["batch_size"] = bs
        mdl = model()
        if seed_ is not None:
            # the random start depends on the seed AND on the parent order of the model: the same construction order every time
            kw["seed"] = seed_
            mdl = model(random.Random(seed_))
        if stub:
            return stub(mdl, df, snkw, kw, max_iter, init)
        return C["em"](mdl, df, **snkw).get_parameters(max_iter=max_iter, init_cpds=init, show_progress=False, **kw)

    api = "ExpectationMaximization.get_parameters"
    vs, traces = [], []
    try:
        # (iii) the first iteration from the given start equals the specification's exact E+M step
        res = em(1, th0_cells)
        got = {c.variable: c for c in res}
        for v in nodes:
            r = check_cpd(got.get(conc.vn[v]), conc, v, exp[v], lists, strict)
            if r:
                vs.append(viol(api, "first_iteration." + r[0], r[1], {"node": v, "cells": exp[v]["cells"][:6]},
                               latent_involved=v in lat or any(p in lat for p in exp[v]["ps"])))
                break
        if not vs:
            bn = C["BN"]()
            bn.add_nodes_from(conc.vn[n] for n in nodes)
            bn.add_edges_from((conc.vn[u], conc.vn[v]) for u, v in edges)
            bn.add_cpds(*res)
            try:
                ok = bn.check_model()
            except Exception as ex:  # noqa
                ok = repr(ex)[:200]
            if ok is not True:
                vs.append(viol(api, "check_model", ok, True))
        # composition: two iterations from the start = one iteration from the specification's first iterate
        if not vs:
            r2 = {c.variable: c for c in em(2, th0_cells)}
            r1 = {c.variable: c for c in em(1, {v: exp[v]["cells"] for v in nodes})}
            for v in nodes:
                a, b = r2.get(conc.vn[v]), r1.get(conc.vn[v])
                cells = []
                if a is None or b is None:
                    vs.append(viol(api, "second_iteration.missing_cpd", None, None))
                    break
                fam = [conc.inv[x] for x in a.variables]
                import itertools
                bad = None
                for combo in itertools.product(*[inst["dom"][t] for t in fam]):
                    ia = tuple(a.name_to_no[conc.vn[t]][conc.sn[t][s]] for t, s in zip(fam, combo))
                    ib = tuple(b.name_to_no[x][conc.sn[conc.inv[x]][dict(zip(fam, combo))[conc.inv[x]]]] for x in b.variables)
                    xa, xb = float(_to_np(a.values)[ia]), float(_to_np(b.values)[ib])
                    if not abs(xa - xb) <= 1e-6:
                        bad = {"a": dict(zip(fam, combo)), "two_iterations": xa, "one_from_first_iterate": xb}
                        break
                if bad:
                    vs.append(viol(api, "second_iteration.value", bad, None))
                    break
        # (ii) likelihood never decreases: runs of 0..K iterations from the same start
        rows_c = []
        for r in inst["rows"]:
            rows_c.append(({conc.vn[c]: conc.sn[c][r["a"][c]] for c in obs}, r["w"][0]))
        latl = {conc.vn[l]: list(range(len(inst["dom"][l]))) for l in lat}
        if set(given) == set(nodes):
            start = [cpd_from(v, th0_cells[v], True) for v in nodes]
            lls = [_loglik(start, rows_c, latl)] + [_loglik(em(k, th0_cells), rows_c, latl) for k in range(1, K + 1)]
            traces.append({"ev": "em_ll", "ll": [_scaled(x) for x in lls], "raw": lls, "start": "given", "inst": inst["id"]})
        sd = rng.randint(0, 10 ** 6)
        lls = [_loglik(em(k, None, sd), rows_c, latl) for k in range(1, K + 1)]
        traces.append({"ev": "em_ll", "ll": [_scaled(x) for x in lls], "raw": lls, "start": "seed", "inst": inst["id"]})
    except Exception as ex:  # noqa
        if os.environ.get("C06_DEBUG"):
            raise
        vs.append(viol(api, "raises", repr(ex)[:300]))
    for t in traces:
        t["case"] = {"kind": "em", "inst": inst, "case": case, "seed": seed, "hashseed": hs, "K": K}
        t["features"] = dict(feats)
    return ncalls[0], vs, traces


def replay_em(payload):
    insts = {i["id"]: i for i in payload["insts"]}
    hs = int(os.environ.get("PYTHONHASHSEED", "0"))
    fails, traces, ncalls = [], [], 0
    for case in payload["cases"]:
        n, vs, ts = replay_em_one(case, insts[case["inst"]], payload["seed"], hs, payload["K"])
        ncalls += n
        fails += vs
        traces += ts
    return {"n": len(payload["cases"]), "calls": ncalls, "fails": fails[:60], "nfails": len(fails), "traces": traces}


# ------------------------------------------------------------------------------------------- RECORD -> VALIDATE (Trace_C06)
DMAX = 10 ** 6


def _rat(x):
    from fractions import Fraction
    f = Fraction(float(x)).limit_denominator(DMAX)
    return [f.numerator, f.denominator]


def _layout(cells, v, ps, dom):
    """named cells -> 2-D table in the abstract layout Trace_C06 reads (rows: dom[v]; columns row-major over ps, dom orders)"""
    import itertools
    cm = _cellmap(cells)
    tab = []
    for s_ in dom[v]:
        row = []
        for combo in itertools.product(*[dom[p] for p in ps]):
            a = {v: s_}
            a.update(dict(zip(ps, combo)))
            row.append(cm[tuple(sorted(a.items()))])
        tab.append(row)
    return tab


def _project(cpd, conc, v, ps, dom):
    """a returned CPD, every cell looked up by NAME, in the abstract layout: (table of [n, d], table of raw floats) or a clause"""
    import itertools
    if cpd.variables[0] != conc.vn[v] or set(cpd.variables[1:]) != {conc.vn[p] for p in ps} or len(cpd.variables) != len(ps) + 1:
        return "parents", repr(list(cpd.variables))
    fam = [v] + list(ps)
    for t in fam:
        if set(cpd.state_names[conc.vn[t]]) != {conc.sn[t][s_] for s_ in dom[t]} or len(cpd.state_names[conc.vn[t]]) != len(dom[t]):
            return "state_names", repr(cpd.state_names[conc.vn[t]])
    vals = _to_np(cpd.values)
    tab, raw = [], []
    for s_ in dom[v]:
        row, rrow = [], []
        for combo in itertools.product(*[dom[p] for p in ps]):
            a = {v: s_}
            a.update(dict(zip(ps, combo)))
            x = float(vals[tuple(cpd.name_to_no[x_][conc.sn[conc.inv[x_]][a[conc.inv[x_]]]] for x_ in cpd.variables)])
            if math.isnan(x) or math.isinf(x):
                return "nan", repr((a, x))
            row.append(_rat(x))
            rrow.append(x)
        tab.append(row)
        raw.append(rrow)
    return tab, raw


def record_one(spec):
    """one recorded call on seeded random data larger than what Gen_C06 enumerates.  Returns (trace or None, violations)."""
    from pgmpy.factors.discrete import TabularCPD
    K = _classes()
    rng = random.Random(f"rec:{spec['seed']}:{spec['tid']}")
    ncol = rng.choice([4, 5, 5, 6])
    cards = tuple(rng.choice([1, 2, 2, 3, 3, 4]) for _ in range(ncol))
    extras = tuple(rng.choice([0, 0, 0, 1]) for _ in range(ncol))
    wkind = rng.choice(["unit", "int", "frac"])
    ev = spec["ev"]
    if ev == "update":
        wkind = rng.choice(["unit", "int"])
    inst = data_instance(rng, f"T{spec['tid']}", cards, extras, rng.randint(15, 40), wkind)
    cols = inst["cols"]
    # random DAG with at most three parents per node
    order = list(cols)
    rng.shuffle(order)
    parents = {c: [] for c in cols}
    dens = rng.choice([0.2, 0.4, 0.7])
    for i, u in enumerate(order):
        for v in order[i + 1:]:
            if rng.random() < dens and len(parents[v]) < 3:
                parents[v].append(u)
    edges = [(u, v) for v in cols for u in parents[v]]
    isolated = {c for c in cols if all(c not in e for e in edges)}
    sn_mode = rng.choice(["declared", "observed"])
    if sn_mode == "declared":
        dom = {c: list(inst["dom"][c]) for c in cols}
    else:
        dom = {c: [s for s in inst["dom"][c] if any(r["a"][c] == s for r in inst["rows"])] for c in cols}
    conc = DConc(inst, rng)
    case = {"dom": dom}
    arg, lists, strict = state_lists(conc, case, rng, sn_mode == "declared" or ev == "update")
    kind = rng.choice(["mle", "k2", "bdeu", "dir_scalar", "dir_table"]) if ev == "fit" else "update"
    x = _frac(rng.choice([1, 2, 3, 5, 7, 10]), rng.choice([1, 1, 2, 4]))
    tr = {"tid": spec["tid"], "ev": ev, "dom": dom, "parents": parents, "prior": {"kind": kind, "x": x}, "nprev": 0}
    feats = {"estimator": "mle" if kind == "mle" else ("update" if ev == "update" else "bayes")}
    meta = {"features": feats, "detail": {"kind": kind, "sn": sn_mode, "ncols": ncol}, "case": {"kind": "rec", "spec": spec},
            "isolated": sorted(isolated), "prev_sorted": {}}

    def viol(api, clause, observed=None, expected=None, **more):
        f = dict(feats)
        f.update(more)
        return {"api": api, "clause": clause, "features": f, "observed": observed, "expected": expected, "detail": meta["detail"],
                "case": meta["case"]}

    def rand_cells(v, lo, hi, den):
        import itertools
        fam = [v] + parents[v]
        return [{"a": dict(zip(fam, combo)), "p": _frac(rng.randint(lo, hi), den)} for combo in itertools.product(*[dom[t] for t in fam])]

    api = "BayesianNetwork.fit_update" if ev == "update" else "BayesianNetwork.fit"
    try:
        if ev == "fit":
            allone = all(r["w"] == [1, 1] for r in inst["rows"])
            intw = all(r["w"][1] == 1 and r["w"][0] >= 1 for r in inst["rows"])
            mode = rng.choice(["plain", "weighted"]) if allone else (rng.choice(["expand", "weighted"]) if intw else "weighted")
            tr["rows"] = inst["rows"]
            df = make_df(conc, inst, inst["rows"], rng, mode)
            c2 = {"kind": kind, "pk": "none", "x": x, "dom": dom, "alpha": [], "cpds": [{"v": v, "ps": parents[v]} for v in cols]}
            if kind == "dir_table":
                tr["alpha"] = {v: rand_cells(v, 0 if rng.random() < 0.3 else 1, 6, rng.choice([1, 2])) for v in cols}
                for v in cols:                      # no all-zero pseudo-count column
                    for c in tr["alpha"][v]:
                        if c["a"][v] == dom[v][0] and c["p"][0] == 0:
                            c["p"] = [1, 1]
                c2["alpha"] = [{"v": v, "cells": tr["alpha"][v]} for v in cols]
                tr["alpha"] = {v: _layout(tr["alpha"][v], v, parents[v], dom) for v in cols}
            est, kw = _est_call(c2, conc, lists, rng, mode == "weighted")
            snkw = {} if arg is None else {"state_names": arg}
            bn = make_model(conc, inst, edges, rng, K["BN"])
            api = "BayesianNetwork.fit" if rng.random() < 0.5 else API_NAMES[("get_parameters", est)]
            if api == "BayesianNetwork.fit":
                bn.fit(df, estimator=K[est], **snkw, **kw)
                res = bn.get_cpds()
            else:
                res = K[est](bn, df, **snkw).get_parameters(**kw)
        else:
            bn = make_model(conc, inst, edges, rng, K["BN"])
            tr["prev"] = {}
            for v in cols:
                import itertools
                den = rng.choice([6, 10, 12])
                cells = []
                for combo in itertools.product(*[dom[p] for p in parents[v]]):
                    r = len(dom[v])
                    cuts = sorted(rng.sample(range(1, den), r - 1)) if r > 1 else []
                    col = [b - a for a, b in zip([0] + cuts, cuts + [den])]
                    for s_, n in zip(dom[v], col):
                        a = {v: s_}
                        a.update(dict(zip(parents[v], combo)))
                        cells.append({"a": a, "p": _frac(n, den)})
                tr["prev"][v] = _layout(cells, v, parents[v], dom)
                ps = list(parents[v])
                rng.shuffle(ps)
                meta["prev_sorted"][v] = [conc.vn[p] for p in ps] == sorted(conc.vn[p] for p in ps)
                bn.add_cpds(TabularCPD(conc.vn[v], len(lists[v]), table_2d(conc, v, ps, lists, cells),
                                       evidence=[conc.vn[p] for p in ps] or None, evidence_card=[len(lists[p]) for p in ps] or None,
                                       state_names={conc.vn[t]: list(lists[t]) for t in [v] + ps}))
            rows2 = inst["rows"]
            tr["rows"] = rows2
            np_ = rng.choice([None, 1, 5, 20, 50])
            tr["nprev"] = np_ if np_ is not None else sum(r["w"][0] for r in rows2)
            df = make_df(conc, inst, rows2, rng, "expand")
            bn.fit_update(df, n_prev_samples=np_)
            res = bn.get_cpds()
    except Exception as ex:  # noqa
        if os.environ.get("C06_DEBUG"):
            raise
        return None, [viol(api, "raises", repr(ex)[:300], has_isolated_node=bool(isolated))], meta
    got, raw = {}, {}
    for c in res:
        v = conc.inv.get(c.variable)
        tab, r = _project(c, conc, v, parents[v], dom)
        if isinstance(tab, str):
            return None, [viol(api, tab, r, None)], meta
        got[v], raw[v] = tab, r
    tr["got"] = got
    meta["raw"] = raw
    meta["api"] = api
    return tr, [], meta


def record(payload):
    traces, fails, metas = [], [], {}
    for spec in payload["specs"]:
        tr, vs, meta = record_one(spec)
        fails += vs
        if tr is not None:
            traces.append(tr)
            metas[str(spec["tid"])] = meta
    return {"n": len(payload["specs"]), "calls": len(payload["specs"]), "traces": traces, "fails": fails, "metas": metas}


def work(payload):
    """dispatcher so that all kinds of jobs run side by side in one run_workers call"""
    return {"job": payload["job"], "res": {"gen": replay_gen, "em": replay_em, "rec": record}[payload["job"]](payload)}


# =========================================================================== orchestration (no pgmpy / numpy here)
TRACE_CFG = "CONSTANT Slack = 2\nINIT Init\nNEXT Next\nINVARIANT Report\n"
KINDS = {"mle", "k2", "bdeu", "dir_scalar", "dir_table", "update"}


def _gen_cases(ctx, insts, tag="Gen", timeout=7200):
    f = os.path.join(ctx.work, f"inst_{tag}.json")
    with open(f, "w") as fh:
        json.dump(insts, fh)
    r = ctx.tlc("Gen_C06", GEN_CFG, env={"INST_FILE": f}, tag=tag, coverage=True, timeout=timeout)
    return r.prints


def _em_cases(ctx, insts, tag="GenEM"):
    f = os.path.join(ctx.work, f"inst_{tag}.json")
    with open(f, "w") as fh:
        json.dump(insts, fh)
    r = ctx.tlc("Gen_C06EM", EM_CFG, env={"INST_FILE": f}, tag=tag, coverage=True)
    return r.prints


def _cell_index(tr, v, a):
    ps = tr["parents"][v]
    i = tr["dom"][v].index(a[v])
    j = 0
    for p in ps:
        j = j * len(tr["dom"][p]) + tr["dom"][p].index(a[p])
    return i, j


def validate_traces(ctx, traces, metas, tag="Trace"):
    """TLC validates every recorded trace; returns (accepted, violations).  A `value` rejection is re-checked on the raw float
    against TLC's exact expected value, so that a rationalisation artefact can never become a false alarm."""
    if not traces:
        return 0, []
    f = os.path.join(ctx.work, f"traces_{tag}.json")
    with open(f, "w") as fh:
        json.dump(traces, fh)
    r = ctx.tlc("Trace_C06", TRACE_CFG, env={"TRACE_FILE": f}, tag=tag, coverage=True, timeout=7200)
    verd = {p["tid"]: p["v"] for p in r.prints}
    if set(verd) != {t["tid"] for t in traces} or len(r.prints) != len(traces):
        raise Machinery(f"Trace_C06: {len(r.prints)} verdicts for {len(traces)} traces")
    by = {t["tid"]: t for t in traces}
    acc, out = 0, []
    for tid, v in sorted(verd.items()):
        if v["clause"] == "ACCEPT":
            acc += 1
            continue
        tr, m = by[tid], metas[tid]
        feats = dict(m["features"])
        if tr["ev"] == "em_ll":
            k = v["at"][0]
            out.append({"api": "ExpectationMaximization.get_parameters", "clause": "likelihood_decreased", "features": feats,
                        "observed": {"iterations": [k - 1 + m.get("first_k", 0), k + m.get("first_k", 0)], "loglik": m["raw"][k - 1:k + 1]},
                        "expected": "ll[k+1] >= ll[k] - 2e-6", "detail": {"start": m.get("start"), "all": m["raw"]}, "case": m["case"]})
            continue
        node = v["node"]
        if v["clause"] == "value":
            i, j = _cell_index(tr, node, v["at"])
            x = m["raw"][node][i][j]
            n, d = v["want"]
            if d != 0 and abs(x - n / d) <= 1e-9 * max(1.0, abs(n / d)):
                ctx.artefact(f"Trace_C06 trace {tid} node {node}: {x} vs {n}/{d}")
                continue
            obs = {"node": node, "a": v["at"], "got": x}
        else:
            obs = {"node": node}
        if feats.get("estimator") == "update":
            feats["prev_parents_sorted"] = all(m["prev_sorted"].values()) if v["clause"] != "value" else bool(m["prev_sorted"].get(node))
            feats["isolated_node"] = node in m["isolated"]
        elif v["clause"] == "missing_cpd":
            feats["isolated_node"] = node in m["isolated"]
        out.append({"api": m["api"], "clause": v["clause"], "features": feats, "observed": obs, "expected": {"want": v["want"]},
                    "detail": m["detail"], "case": m["case"]})
    return acc, out


def _collect(ctx, results):
    """fold worker results; returns the traces still to be validated by TLC with their metadata"""
    traces, metas = [], {}
    for wr in results:
        res = wr["res"]
        ctx.evaluations += res["calls"]
        for fl in res["fails"]:
            ctx.violation(fl)
        if wr["job"] == "gen":
            ctx.traces += res["n"]
            if res["nfails"] > len(res["fails"]):
                ctx.extra["violations_truncated"] = ctx.extra.get("violations_truncated", 0) + res["nfails"] - len(res["fails"])
        elif wr["job"] == "em":
            ctx.traces += res["n"]
            for t in res["traces"]:
                tid = len(traces) + 1
                traces.append({"tid": tid, "ev": "em_ll", "ll": t["ll"]})
                metas[tid] = {"features": t["features"], "raw": t["raw"], "start": t["start"], "case": t["case"],
                              "first_k": 0 if t["start"] == "given" else 1}
        else:
            for t in res["traces"]:
                m = res["metas"][str(t["tid"])]
                tid = len(traces) + 1
                t = dict(t)
                t["tid"] = tid
                traces.append(t)
                metas[tid] = m
    return traces, metas


def run(ctx):
    ctx.rule = ("Gen_C06: data sets of 1-4 columns (1-3 occurring states + declared-but-unobserved ones, <= 12 weighted rows) x EVERY DAG over "
                "the columns (a seeded sample of DAGs for most 4-column data sets) x declared/observed state mode x {MLE, K2, BDeu(ess), "
                "Dirichlet scalar, Dirichlet table, update(prev estimator, n_prev)}; distinct = (instance, DAG, mode, estimator, parameters) "
                "with >= 1 edge.  Gen_C06EM: fixed pool of latent-variable models x sets of given initial CPDs.  Trace_C06: recorded fits on "
                "random 4-6 column data (15-40 rows, card <= 4(+1)) and EM likelihood sequences.")
    ctx.assumptions += [
        "EM likelihood monotonicity is decided on observed-data log-likelihoods computed by the harness from the returned CPDs "
        "(brute-force sum over latent assignments, math.log), scaled by 1e6; TLC checks the action property ll' >= ll - 2e-6",
        "EM beyond the first iteration is checked by composition (2 iterations = 1 iteration from TLC's exact first iterate, 1e-6) "
        "and monotonicity only; initial CPDs are strictly positive (pgmpy floors likelihoods at 1e-10)",
        "column names are strings (integer names hit pandas' level-number reading of unstack and EM's keyword lookup); state labels "
        "are ints or strings of one type per column; max_iter >= 1 (max_iter = 0 raises UnboundLocalError in pgmpy and is not demanded)",
        "explicit pseudo-count tables are laid out over the estimator's sorted parents and its state order (the library's convention)",
        "float results compared at 1e-9 (numpy) / 1e-6 (torch, float32 tensors) against TLC's exact rationals",
    ]
    rng = random.Random(ctx.seed + 6)
    insts = gen_instances(rng, ctx.thorough)
    cases = _gen_cases(ctx, insts)
    ctx.require_actions(["Finish", "FitBDeu", "FitDirScalar", "FitEarlier", "FitUpdate"])
    if {c["kind"] for c in cases} != KINDS:
        raise Machinery(f"vacuity: estimator kinds generated: {sorted({c['kind'] for c in cases})}")
    ctx.exhaustive = True
    for c in cases:
        ctx.count(json.dumps([c["inst"], sorted(c["edges"]), c["sn"], c["kind"], c["x"], c["pk"], c["nprev"]]),
                  nontrivial=len(c["edges"]) >= 1, n=0)
    ctx.sample({"kind": "gen", "inst": cases[-1]["inst"], "edges": cases[-1]["edges"], "estimator": cases[-1]["kind"],
                "expected_first_cells": {"v": cases[-1]["cpds"][0]["v"], "cells": cases[-1]["cpds"][0]["cells"][:4]}})
    em_insts = em_instances(ctx.thorough)
    em_cases = _em_cases(ctx, em_insts)
    ctx.require_actions(["Step"])
    for c in em_cases:
        ctx.count(json.dumps(["em", c["inst"], sorted(c["given"])]), n=0)
    ctx.sample({"kind": "em_first_iteration", "inst": em_cases[-1]["inst"], "given": em_cases[-1]["given"],
                "expected_first_cells": {"v": em_cases[-1]["cpds"][0]["v"], "cells": em_cases[-1]["cpds"][0]["cells"][:4]}})

    hseeds = HSEEDS_T if ctx.thorough else HSEEDS_Q
    nchunk = 2 if ctx.thorough else 3
    K = 6 if ctx.thorough else 3
    nrec = 600 if ctx.thorough else 64
    jobs = []
    order = list(range(len(cases)))
    random.Random(ctx.seed).shuffle(order)                       # balance the chunks
    shuffled_cases = [cases[i] for i in order]
    for hs in hseeds:
        for ch in chunks(shuffled_cases, nchunk):
            jobs.append((hs, {"job": "gen", "insts": insts, "cases": ch, "seed": ctx.seed, "p_nj2": 0.01}))
    for hs in hseeds[:2]:
        jobs.append((hs, {"job": "em", "insts": em_insts, "cases": em_cases, "seed": ctx.seed, "K": K}))
    specs = [{"tid": k + 1, "seed": ctx.seed, "ev": "update" if k % 4 == 0 else "fit"} for k in range(nrec)]
    nrecw = 4 if ctx.thorough else 2
    for k, ch in enumerate(chunks(specs, nrecw)):
        for sp in ch:
            sp["hashseed"] = hseeds[k % len(hseeds)]
        jobs.append((hseeds[k % len(hseeds)], {"job": "rec", "specs": ch}))
    results = run_workers(ctx, "c06", "work", jobs)
    traces, metas = _collect(ctx, results)
    if ctx.thorough:                                             # torch back-end: one hash seed, half of the cases
        tj = [(0, {"job": "gen", "insts": insts, "cases": ch, "seed": ctx.seed + 1, "p_nj2": 0.0})
              for ch in chunks(shuffled_cases[::2], 3)]
        tj.append((0, {"job": "em", "insts": em_insts, "cases": em_cases[::2], "seed": ctx.seed + 1, "K": 3}))
        t2, m2 = _collect(ctx, run_workers(ctx, "c06", "work", tj, backend="torch"))
        off = len(traces)
        for t in t2:
            metas[t["tid"] + off] = m2[t["tid"]]
            t["tid"] += off
            traces.append(t)
    acc, vs = validate_traces(ctx, traces, metas)
    ctx.require_actions(["ValidateFit", "ValidateLL"])
    ctx.traces += acc
    for v in vs:
        ctx.violation(v)
    ctx.extra["recorded_traces"] = {"fit_or_update": sum(1 for t in traces if t["ev"] != "em_ll"),
                                    "em_likelihood_sequences": sum(1 for t in traces if t["ev"] == "em_ll"), "accepted": acc}
    lls = [t for t in traces if t["ev"] == "em_ll"]
    if lls:
        ctx.sample({"kind": "em_loglik_sequence(x1e6)", "ll": lls[0]["ll"]})


def replay(ctx, rec):
    case = rec["case"]
    if case["kind"] == "gen":
        res = run_workers(ctx, "c06", "work", [(case["hashseed"], {"job": "gen", "insts": [case["inst"]], "cases": [case["case"]],
                                                                  "seed": case["seed"], "p_nj2": case.get("p_nj2", 0.0)})])
        fails = res[0]["res"]["fails"]
    elif case["kind"] == "em":
        res = run_workers(ctx, "c06", "work", [(case["hashseed"], {"job": "em", "insts": [case["inst"]], "cases": [case["case"]],
                                                                  "seed": case["seed"], "K": case["K"]})])
        fails = list(res[0]["res"]["fails"])
        traces, metas = _collect(Ctx_dummy(ctx), res)
        fails += validate_traces(ctx, traces, metas, tag="replay")[1]
    else:
        res = run_workers(ctx, "c06", "work", [(case["spec"].get("hashseed", 0), {"job": "rec", "specs": [case["spec"]]})])
        fails = list(res[0]["res"]["fails"])
        traces, metas = _collect(Ctx_dummy(ctx), res)
        fails += validate_traces(ctx, traces, metas, tag="replay")[1]
    same = [f for f in fails if f["api"] == rec.get("api") and f["clause"] == rec.get("clause")]
    return (same or fails)[:1] or None


class Ctx_dummy:
    """accounting sink for _collect during replay (violations are returned, not registered)"""

    def __init__(self, ctx):
        self.evaluations, self.traces, self.extra = 0, 0, {}

    def violation(self, rec):
        return False


def _corrupt(cells):
    c = json.loads(json.dumps(cells))
    n, d = c[0]["p"]
    c[0]["p"] = [0, 1] if n == d else [n + 1, d + 1]
    return c


def selftest(ctx):
    """anti-vacuity: (1) TLC's expected tables with one cell altered must be rejected by the replayer for EVERY case (one-shot fits,
    updates, EM first iteration); (2) a deliberately wrong stub (previous sample size off by one) must be rejected; (3) hand-written
    traces: the correct one is accepted, an altered cell / a dropped CPD / a decreasing likelihood sequence is rejected by TLC with the
    right clause and expected value; (4) every generator action was taken."""
    rng = random.Random(1)
    inst = data_instance(rng, "S0", (2, 3), (1, 0), 7, "int")
    cases = _gen_cases(ctx, [inst], tag="self")
    ctx.require_actions(["Finish", "FitBDeu", "FitDirScalar", "FitEarlier", "FitUpdate"])
    bad = []
    for c in cases:
        c = json.loads(json.dumps(c))
        c["cpds"][0]["cells"] = _corrupt(c["cpds"][0]["cells"])
        bad.append(c)
    em_insts = em_instances(False)[:4]
    em_cases = _em_cases(ctx, em_insts, tag="selfEM")
    ebad = []
    for c in em_cases:
        c = json.loads(json.dumps(c))
        c["cpds"][0]["cells"] = _corrupt(c["cpds"][0]["cells"])
        ebad.append(c)
    res = run_workers(ctx, "c06", "selftest_worker", [(0, {"insts": [inst], "cases": bad, "good": cases, "em_insts": em_insts, "em_cases": ebad})])[0]
    if res["accepted_corrupt"]:
        raise Machinery(f"selftest: {res['accepted_corrupt']} case(s) with an altered expected cell were accepted")
    if res["accepted_corrupt_em"]:
        raise Machinery(f"selftest: {res['accepted_corrupt_em']} EM case(s) with an altered expected cell were accepted")
    if not res["stub_rejected"]:
        raise Machinery("selftest: fit_update stub with n_prev_samples off by one was never rejected")
    # (3) hand-written traces
    rows = [{"a": {"v0": "s0", "v1": "s0"}, "w": [1, 1]}, {"a": {"v0": "s0", "v1": "s1"}, "w": [2, 1]}, {"a": {"v0": "s1", "v1": "s1"}, "w": [1, 1]}]
    base = {"ev": "fit", "dom": {"v0": ["s0", "s1"], "v1": ["s0", "s1"]}, "parents": {"v0": [], "v1": ["v0"]}, "prior": {"kind": "mle", "x": [0, 1]},
            "nprev": 0, "rows": rows}
    good = {"v0": [[[3, 4]], [[1, 4]]], "v1": [[[1, 3], [0, 1]], [[2, 3], [1, 1]]]}
    t1 = dict(base, tid=1, got=good)
    t2 = dict(base, tid=2, got={"v0": good["v0"], "v1": [[[2, 3], [0, 1]], [[1, 3], [1, 1]]]})      # transposed column
    t3 = dict(base, tid=3, got={"v1": good["v1"]})
    t4 = {"tid": 4, "ev": "em_ll", "ll": [-5000000, -4000000, -4000001, -3999999]}
    t5 = {"tid": 5, "ev": "em_ll", "ll": [-5000000, -4000000, -4000010]}
    t6 = dict(base, tid=6, prior={"kind": "k2", "x": [0, 1]}, got={"v0": [[[2, 3]], [[1, 3]]], "v1": [[[2, 5], [1, 3]], [[3, 5], [2, 3]]]})
    f = os.path.join(ctx.work, "self_traces.json")
    with open(f, "w") as fh:
        json.dump([t1, t2, t3, t4, t5, t6], fh)
    r = ctx.tlc("Trace_C06", TRACE_CFG, env={"TRACE_FILE": f}, tag="selfTrace", coverage=True)
    ctx.require_actions(["ValidateFit", "ValidateLL"])
    v = {p["tid"]: p["v"] for p in r.prints}
    want = {1: "ACCEPT", 2: "value", 3: "missing_cpd", 4: "ACCEPT", 5: "ll_decreased", 6: "ACCEPT"}
    got = {k: v[k]["clause"] for k in sorted(v)}
    if got != want:
        raise Machinery(f"selftest: trace verdicts {got}, expected {want}")
    if v[2]["node"] != "v1" or v[2]["want"] not in ([1, 3], [2, 3]):
        raise Machinery(f"selftest: wrong diagnostic for the altered trace: {v[2]}")
    if v[5]["at"] != [2]:
        raise Machinery(f"selftest: wrong position of the likelihood decrease: {v[5]}")


def selftest_worker(payload):
    insts = {i["id"]: i for i in payload["insts"]}
    acc = 0
    for case in payload["cases"]:
        _, vs = replay_one(case, insts[case["inst"]], 1, 0)
        if not vs:
            acc += 1
    einsts = {i["id"]: i for i in payload["em_insts"]}
    eacc = 0
    for case in payload["em_cases"]:
        _, vs, _ = replay_em_one(case, einsts[case["inst"]], 1, 0, 1)
        if not vs:
            eacc += 1

    def stub(bn, df2, nprev):
        bn.fit_update(df2, n_prev_samples=(nprev if nprev is not None else len(df2)) + 1)
    rej = 0
    for case in payload["good"]:
        if case["kind"] == "update":
            _, vs = replay_one(case, insts[case["inst"]], 1, 0, stub=stub)
            rej += any(v["clause"] == "value" for v in vs)
    return {"accepted_corrupt": acc, "accepted_corrupt_em": eacc, "stub_rejected": rej}
