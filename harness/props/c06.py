"""C06 parameter learning returns the closed-form estimates.

Oracle: spec/LearnLib.tla (counts over a BAG of weighted rows, MLE, Bayesian estimates from K2 / BDeu / explicit Dirichlet pseudo
counts, incremental update = Bayes with previous CPD * previous sample size, one exact EM iteration) evaluated by TLC.
  Gen_C06    every DAG over the columns (or a listed subset) x declared/observed state mode x estimator and hyper-parameters ->
               expected CPD of every node by named assignment; lemmas ResultIsCPD, ClosedForms, RowOrderInvariant, ExpandInvariant,
               CountsCoverData, UpdateRootPooled, PriorVanishes.
  Gen_C06EM  latent-variable models x which initial CPDs are handed over -> exact first EM iteration; lemmas StepIsCPD,
               ObservedPartIsMLE, InitOfObservedPartIrrelevant, WeightsPartition.
  Trace_C06  recorded fits on larger random data (5-6 columns, 20-40 rows, card <= 4) validated cell by cell by TLC, and recorded
               EM likelihood sequences (max_iter = 0..K, same start) checked against the action property ll' >= ll - eps.
Replay (workers, real pgmpy): every case under permuted rows / columns / parent declaration orders, int / object / categorical
columns, weighted rows vs repeated rows, n_jobs 1/2, explicit state_names in NON-sorted declared order incl. unobserved states,
through BayesianNetwork.fit, DAG.fit, estimator.get_parameters, estimator.estimate_cpd, fit_update (after fit, and on hand-built
CPDs with arbitrary parent order), ExpectationMaximization without latents; results compared by NAME lookup; check_model required.
The harness never computes an estimate: expected numbers come from TLC."""
import json
import math
import os
import random

from ..core import Machinery, chunks, jhash, run_workers

TOKENS = ["v0", "v1", "v2", "v3", "v4", "v5", "v6", "v7"]
HSEEDS_Q = [0, 1]
HSEEDS_T = [0, 1, 2, 3]


# ============================================================================================ instances (harness -> TLC)
def _frac(n, d):
    g = math.gcd(n, d)
    return [n // g, d // g]


def data_instance(rng, iid, cards, extras, nrows, wkind, dags=(), big=False):
    """cards[i] = number of states of column i that may OCCUR; extras[i] = declared-but-never-observed states on top.
    Rows are skewed (geometric weights + a sticky base row) so that unseen parent configurations and unseen states of the
    occurring ones are common.  wkind: unit | int | frac (halves / quarters, possibly one zero weight)."""
    cols = TOKENS[:len(cards)]
    dom = {c: [f"s{j}" for j in range(cards[i] + extras[i])] for i, c in enumerate(cols)}
    rows = []
    base = {c: rng.choice(dom[c][:cards[i]]) for i, c in enumerate(cols)}
    for _ in range(nrows):
        a = {}
        for i, c in enumerate(cols):
            pool = dom[c][:cards[i]]
            w = [3.0 ** (-k) for k in range(len(pool))]
            rng.shuffle(w)
            a[c] = base[c] if rng.random() < 0.3 else rng.choices(pool, weights=w)[0]
        if wkind == "unit":
            w = [1, 1]
        elif wkind == "int":
            w = [rng.choice([1, 1, 2, 3]), 1]
        else:
            w = _frac(rng.choice([1, 2, 3, 4, 5, 6, 8]), rng.choice([1, 2, 4]))
        rows.append({"a": a, "w": w})
    if wkind == "frac" and nrows >= 4 and rng.random() < 0.5:
        rows[rng.randrange(nrows)]["w"] = [0, 1]
    split = rng.randint(1, nrows - 1) if nrows >= 2 else 0
    n1 = sum(r["w"][0] for r in rows[:split]) if wkind != "frac" else 0
    nprev = sorted({0, rng.choice([1, 2, 7, 10])} | ({n1} if n1 > 0 else set()))
    return {"id": iid, "cols": cols, "dom": dom, "rows": rows, "split": split, "wkind": wkind,
            "dags": [list(map(list, g)) for g in dags],
            "ess": [[5, 1], _frac(rng.choice([1, 3, 7, 10]), rng.choice([1, 2]))] if not big else [_frac(rng.choice([1, 5, 10, 3]), rng.choice([1, 2]))],
            "scal": [_frac(rng.choice([1, 2, 3, 5]), rng.choice([1, 2, 4]))] + ([[1, 1]] if not big else []),
            "nprev": nprev if not big else nprev[:2], "prevkinds": ["mle", "k2", "bdeu"] if not big else [rng.choice(["mle", "k2"])],
            "abase": {c: {s: rng.randint(1, 5) for s in dom[c]} for c in cols},
            "aadd": {c: {s: rng.randint(0, 3) for s in dom[c]} for c in cols},
            "aden": rng.choice([1, 1, 2])}


def random_dags(rng, cols, k):
    """k distinct DAGs over cols as edge lists (random order, random density)"""
    out, seen = [], set()
    tries = 0
    while len(out) < k and tries < 50 * k:
        tries += 1
        order = list(cols)
        rng.shuffle(order)
        p = rng.choice([0.3, 0.5, 0.8, 1.0])
        es = sorted((order[i], order[j]) for i in range(len(order)) for j in range(i + 1, len(order)) if rng.random() < p)
        if tuple(es) not in seen:
            seen.add(tuple(es))
            out.append(es)
    return out


def gen_instances(rng, thorough):
    spec = [  # cards, extras, nrows, wkind, ndags (0 = all DAGs)
        ((2,), (1,), 3, "int", 0),
        ((2, 3), (0, 0), 5, "unit", 0),
        ((3, 2), (1, 0), 6, "frac", 0),
        ((2, 2, 2), (0, 0, 0), 6, "unit", 0),
        ((2, 3, 2), (1, 0, 1), 8, "int", 0),
        ((3, 1, 2), (0, 1, 0), 7, "frac", 0),
        ((2, 2, 3, 2), (0, 1, 0, 0), 12, "int", 14),
    ]
    if thorough:
        spec += [
            ((1,), (0,), 1, "unit", 0),
            ((3, 3), (0, 1), 9, "int", 0),
            ((3, 2, 3), (0, 0, 0), 12, "unit", 0),
            ((2, 3, 3), (1, 1, 0), 10, "frac", 0),
            ((3, 3, 2), (0, 0, 2), 12, "int", 0),
            ((2, 2, 2, 2), (0, 0, 0, 0), 10, "int", 0),       # all 543 DAGs on four columns
            ((3, 2, 2, 3), (0, 1, 0, 0), 12, "frac", 60),
            ((2, 3, 1, 2), (1, 0, 0, 1), 11, "unit", 60),
        ]
    out = []
    for k, (cards, extras, n, wk, nd) in enumerate(spec):
        cols = TOKENS[:len(cards)]
        dags = random_dags(rng, cols, nd) if nd else ()
        out.append(data_instance(rng, f"I{k}_{'x'.join(map(str, cards))}n{n}{wk}", cards, extras, n, wk, dags,
                                 big=(len(cards) == 4 and nd == 0)))
    return out


GEN_CFG = ("INIT Init\nNEXT Next\nINVARIANT WellFormed\nINVARIANT ResultIsCPD\nINVARIANT ClosedForms\nINVARIANT RowOrderInvariant\n"
           "INVARIANT ExpandInvariant\nINVARIANT CountsCoverData\nINVARIANT UpdateRootPooled\nINVARIANT PriorVanishes\nINVARIANT Emit\n")
GEN_ACTIONS = ["FitMLE", "FitK2", "FitBDeu", "FitDirScalar", "FitDirTable", "FitUpdate"]


def run(ctx):
    raise Machinery("not yet")


def replay(ctx, rec):
    return None


def selftest(ctx):
    raise Machinery("not yet")
