"""C05 CPD column meaning + model validation: Gen_C05 (all permutations/subsets, depth<=2) -> replay on TabularCPD;
Gen_C05V (one-defect models) -> replay on check_model."""
import itertools
import json
import os
import random

from ..core import Machinery, chunks, run_workers


def cpd_instances(rng, thorough):
    out = []
    shapes = [(2, []), (3, [2]), (2, [3, 2]), (3, [2, 3]), (2, [2, 3, 2]), (1, [2]), (2, [1, 3])]
    if thorough:
        shapes += [(3, [3, 2, 2]), (2, [2, 2, 2]), (3, [3, 3]), (2, [3, 1, 2]), (3, [2, 3, 2])]
    for k, (cc, pcs) in enumerate(shapes):
        for variant in ("distinct", "normalised"):
            child = "v0"
            parents = [f"v{i + 1}" for i in range(len(pcs))]
            rng.shuffle(parents)
            dom = {"v0": [f"s{j}" for j in range(cc)]}
            for p, c in zip(parents, pcs):
                dom[p] = [f"s{j}" for j in range(c)]
            ncol = 1
            for c in pcs:
                ncol *= c
            # every column sums to S = 60 with pairwise-distinct entries across the whole table where possible, so any
            # transposition / mis-indexing is visible and exact arithmetic stays small.  "distinct": handed over
            # unnormalised (den = 1, which TabularCPD accepts); "normalised": den = 60.
            S = 60
            used = set()
            cols = []
            for _ in range(ncol):
                for _try in range(200):
                    if cc == 1:
                        col = [S]
                    else:
                        cuts = sorted(rng.sample(range(1, S), cc - 1))
                        col = [b - a for a, b in zip([0] + cuts, cuts + [S])]
                    if cc == 1 or (len(set(col)) == cc and not (set(col) & used)) or _try > 150:
                        break
                used |= set(col)
                cols.append(col)
            tab = [[cols[j][r] for j in range(ncol)] for r in range(cc)]
            den = 1 if variant == "distinct" else S
            out.append({"id": len(out) + 1, "child": child, "parents": parents, "dom": dom, "tab": tab, "den": den})
    return out


def model_instances(rng, thorough):
    """small valid BNs (den 1000) handed to Gen_C05V, which injects every single defect"""
    from .. import instances
    shapes = ["pair", "collider3", "chain3"] + (["diamond", "fork3", "tri3"] if thorough else [])
    out = []
    for name in shapes:
        n, edges = instances.SHAPES[name]
        cards = [rng.choice([2, 3]) for _ in range(n)]
        inst = instances.bn_instance(rng, len(out) + 1, n, edges, cards, "generic", dens=(200,))
        out.append(inst)
    return out


CFG_V = "INIT Init\nNEXT Next\nINVARIANT ValidImpliesNormalised\nINVARIANT Emit\n"


def run(ctx):
    ctx.rule = ("Gen_C05: CPDs with child card 1-3 and 0-3 parents (cards 1-3), pairwise-distinct unnormalised and normalised tables; "
                "every op (all parent permutations, all subsets/states to marginalise/reduce, in/out of place) to depth 2; "
                "distinct = (instance, op sequence). Gen_C05V: every single-defect variant of small valid models.")
    ctx.assumptions += ["marginalising a parent = uniform mixing + column renormalisation (the code's documented behaviour)",
                        "tolerance of is_valid_cpd probed away from the boundary (+0.005 accepted; 0.02/0.05 rejected)"]
    rng = random.Random(ctx.seed + 5)
    insts = cpd_instances(rng, ctx.thorough)
    f = os.path.join(ctx.work, "cpds.json")
    with open(f, "w") as fh:
        json.dump(insts, fh)
    cfg = "CONSTANT MaxDepth = %d\nINIT Init\nNEXT Next\nINVARIANT LayoutBijective\nINVARIANT ReorderKeepsMeaning\nINVARIANT Emit\n"
    behs = []
    r = ctx.tlc("Gen_C05", cfg % 1, env={"INST_FILE": f}, tag="Gen_d1", coverage=True)
    behs += r.prints
    r = ctx.tlc("Gen_C05", cfg % 2, env={"INST_FILE": f}, tag="Gen_d2", coverage=True, timeout=7200)
    behs += r.prints
    ctx.require_actions(["Next"])
    ctx.exhaustive = True
    for b in behs:
        ctx.count(json.dumps([b["inst"], [s["o"] for s in b["steps"]]], sort_keys=True), n=0)
    ctx.sample({"kind": "gen", "inst": behs[-1]["inst"], "ops": [s["o"] for s in behs[-1]["steps"]]})
    hseeds = [0, 1]
    pl = []
    for be in (["numpy", "torch"] if ctx.thorough else ["numpy"]):
        pl = [(hs, {"insts": insts, "behs": ch, "seed": ctx.seed * 100 + hs * 8 + j})
              for hs in hseeds for j, ch in enumerate(chunks(behs, 8))]
        for res in run_workers(ctx, "c05", "replay_gen", pl, backend=be):
            ctx.traces += res["n"]
            ctx.evaluations += res["calls"]
            for fl in res["fails"]:
                ctx.violation(fl)
    # ---- validation
    models = model_instances(rng, ctx.thorough)
    f2 = os.path.join(ctx.work, "models.json")
    with open(f2, "w") as fh:
        json.dump(models, fh)
    r = ctx.tlc("Gen_C05V", CFG_V, env={"INST_FILE": f2}, tag="Gen_valid", coverage=True)
    cases = r.prints
    for c in cases:
        ctx.count(json.dumps([c["inst"], c["defect"]], sort_keys=True), n=0)
    ctx.sample({"kind": "validation", "defect": cases[-1]["defect"], "valid": cases[-1]["valid"]})
    pl = [(hs, {"cases": ch, "seed": ctx.seed * 100 + hs}) for hs in hseeds for ch in chunks(cases, 4)]
    for res in run_workers(ctx, "c05", "replay_valid", pl):
        ctx.traces += res["n"]
        ctx.evaluations += res["calls"]
        for fl in res["fails"]:
            ctx.violation(fl)


def replay(ctx, rec):
    case = rec["case"]
    if case["kind"] == "gen":
        res = run_workers(ctx, "c05", "replay_gen", [(case["hashseed"], {"insts": [case["inst"]], "behs": [case["beh"]], "seed": case["seed"]})])[0]
    else:
        res = run_workers(ctx, "c05", "replay_valid", [(case["hashseed"], {"cases": [case["case"]], "seed": case["seed"]})])[0]
    return res["fails"][:1] or None


def selftest(ctx):
    """a deliberately wrong stub (transposed table) must be rejected by the replayer"""
    rng = random.Random(1)
    insts = cpd_instances(rng, False)
    inst = next(i for i in insts if len(i["parents"]) == 2 and i["den"] == 1)
    f = os.path.join(ctx.work, "cpds.json")
    bad = dict(inst)
    with open(f, "w") as fh:
        json.dump([inst], fh)
    r = ctx.tlc("Gen_C05", "CONSTANT MaxDepth = 1\nINIT Init\nNEXT Next\nINVARIANT Emit\n", env={"INST_FILE": f}, tag="self")
    bad["parents"] = list(reversed(inst["parents"]))     # builds the CPD with the evidence list reversed: wrong column meaning
    res = run_workers(ctx, "c05", "replay_gen", [(0, {"insts": [bad], "behs": r.prints, "seed": 1})])[0]
    if not res["fails"]:
        raise Machinery("selftest: CPD built with reversed evidence order was accepted")


# =========================================================================== worker side
class CConc:
    def __init__(self, dom, rng):
        from ..concretise import state_names, var_names
        self.dom = dom
        self.vn = var_names(list(dom), rng, "str")
        self.inv = {c: t for t, c in self.vn.items()}
        self.sn = {v: state_names(dom[v], rng, rng.choice(["str", "int", "range", "perm", "tuple", "mixed"])) for v in dom}

    def names(self, v):
        return [self.sn[v][s] for s in self.dom[v]]


TOL = 1e-9 if os.environ.get("VERIF_BACKEND", "numpy") == "numpy" else 1e-6   # torch builds tensors through float32


def _tab_ok(got, want, tol=None):
    tol = tol or TOL
    import numpy as np
    got = np.asarray(got, dtype=float)
    if got.shape != (len(want), len(want[0]) if want else 0):
        return False
    for i, row in enumerate(want):
        for j, (n, d) in enumerate(row):
            if d == 0:
                return False
            if not (abs(got[i, j] - n / d) <= tol * max(1.0, abs(n / d))):
                return False
    return True


def _to_np(x):
    try:
        return x.detach().cpu().numpy()
    except AttributeError:
        return x


def _check_obj(obj, exp, conc):
    """returns clause or None"""
    toks = [conc.inv.get(v) for v in obj.variables]
    if exp["kind"] == "cpd":
        if toks[0] != exp["child"] or conc.inv.get(obj.variable) != exp["child"]:
            return "child"
        if toks[1:] != list(exp["parents"]):
            return "parent_order"
        if int(obj.variable_card) != len(conc.dom[exp["child"]]):
            return "variable_card"
    else:
        if sorted(toks) != sorted([exp["child"]] + list(exp["parents"])):
            return "scope"
    if [int(c) for c in obj.cardinality] != [len(conc.dom[t]) for t in toks]:
        return "cardinality"
    for t in toks:
        if list(obj.state_names.get(conc.vn[t], [])) != conc.names(t):
            return "state_names"
    vals = _to_np(obj.values)
    for c in exp["cells"]:
        a = c["a"] if isinstance(c["a"], dict) else {}
        try:
            idx = tuple(obj.name_to_no[conc.vn[t]][conc.sn[t][a[t]]] for t in toks)
        except KeyError:
            return "state_names"
        n, d = c["v"]
        if d == 0 or not (abs(float(vals[idx]) - n / d) <= TOL * max(1.0, abs(n / d))):
            return "value"
    if exp["kind"] == "cpd" and not _tab_ok(_to_np(obj.get_values()), exp["tab"]):
        return "get_values"
    return None


def replay_gen(payload):
    from pgmpy.factors.discrete import TabularCPD
    rng = random.Random(payload["seed"])
    hs = int(os.environ.get("PYTHONHASHSEED", "0"))
    insts = {i["id"]: i for i in payload["insts"]}
    fails, ncalls = [], 0
    for beh in payload["behs"]:
        inst = insts[beh["inst"]]
        conc = CConc(inst["dom"], rng)
        ps = inst["parents"]
        cpd = TabularCPD(conc.vn[inst["child"]], len(inst["dom"][inst["child"]]),
                         [[x / inst["den"] for x in row] for row in inst["tab"]],
                         evidence=[conc.vn[p] for p in ps] if ps else None,
                         evidence_card=[len(inst["dom"][p]) for p in ps] if ps else None,
                         state_names={conc.vn[v]: conc.names(v) for v in [inst["child"]] + ps})
        objs = [cpd]

        def fail(api, clause, step, obs=None):
            fails.append({"api": "TabularCPD." + api, "clause": clause, "features": {"inplace": beh["steps"][step]["o"]["inplace"]},
                          "case": {"kind": "gen", "inst": inst, "beh": beh, "seed": payload["seed"], "hashseed": hs},
                          "observed": obs, "step": step + 1})
        for si, st in enumerate(beh["steps"]):
            o = st["o"]
            tgt = objs[o["i"] - 1]
            ncalls += 1
            ret = None
            try:
                if o["op"] == "reorder":
                    ret = tgt.reorder_parents([conc.vn[p] for p in o["order"]], inplace=o["inplace"])
                elif o["op"] == "marginalize":
                    r = tgt.marginalize([conc.vn[v] for v in o["vars"]], inplace=o["inplace"])
                    if not o["inplace"]:
                        objs.append(r)
                elif o["op"] == "reduce":
                    r = tgt.reduce([(conc.vn[v], conc.sn[v][s]) for v, s in o["asg"].items()], inplace=o["inplace"])
                    if not o["inplace"]:
                        objs.append(r)
                elif o["op"] == "normalize":
                    r = tgt.normalize(inplace=o["inplace"])
                    if not o["inplace"]:
                        objs.append(r)
                elif o["op"] == "copy":
                    objs.append(tgt.copy())
                elif o["op"] == "to_factor":
                    objs.append(tgt.to_factor())
                elif o["op"] == "get_values":
                    ret = tgt.get_values()
            except Exception as ex:  # noqa
                fail(o["op"], "raises", si, repr(ex)[:200])
                break
            if o["op"] in ("reorder", "get_values") and not _tab_ok(_to_np(ret), st["ret"]):
                fail(o["op"], "returned_table", si, str(_to_np(ret).tolist())[:300])
                break
            if len(objs) != len(st["store"]):
                fail(o["op"], "object_count", si)
                break
            bad = None
            for k, (obj, exp) in enumerate(zip(objs, st["store"])):
                cl = _check_obj(obj, exp, conc)
                if cl:
                    is_result = (k == o["i"] - 1 and o["inplace"]) or (k == len(objs) - 1 and (not o["inplace"]) and o["op"] not in ("reorder", "get_values"))
                    bad = ("result." if is_result else "frame.") + cl
                    break
            if bad:
                fail(o["op"], bad, si)
                break
    return {"n": len(payload["behs"]), "calls": ncalls, "fails": fails[:40]}


def replay_valid(payload):
    from pgmpy.factors.discrete import TabularCPD
    from pgmpy.models import BayesianNetwork
    from ..concretise import shuffled, var_names
    rng = random.Random(payload["seed"])
    hs = int(os.environ.get("PYTHONHASHSEED", "0"))
    fails, ncalls = [], 0
    for case in payload["cases"]:
        m = case["model"]
        vn = var_names(m["nodes"], rng, "str")
        bn = BayesianNetwork()
        for v in shuffled(m["nodes"], rng):
            bn.add_node(vn[v])
        for e in shuffled(m["edges"], rng):
            bn.add_edge(vn[e[0]], vn[e[1]])
        for v in shuffled(sorted(m["cpd"]), rng):
            c = m["cpd"][v]
            ps = c["parents"]
            cpd = TabularCPD(vn[v], c["dcard"][v], [[x / c["den"] for x in row] for row in c["tab"]],
                             evidence=[vn[p] for p in ps] if ps else None,
                             evidence_card=[c["dcard"][p] for p in ps] if ps else None,
                             state_names={vn[x]: list(c["states"][x]) for x in [v] + ps})
            bn.add_cpds(cpd)
        ncalls += 1
        try:
            ok = bool(bn.check_model())
        except Exception as ex:  # noqa
            ok = False
        if ok != case["valid"]:
            fails.append({"api": "BayesianNetwork.check_model", "clause": "accepts_invalid" if ok else "rejects_valid",
                          "features": {"defect": case["defect"]["kind"]},
                          "case": {"kind": "valid", "case": case, "seed": payload["seed"], "hashseed": hs},
                          "observed": ok, "expected": case["valid"]})
    return {"n": len(payload["cases"]), "calls": ncalls, "fails": fails[:40]}
