"""C17 dynamic networks: Gen_C17 (2-TBN templates unrolled inside TLA+, brute-force filtered/smoothed marginals) -> replay on
DBNInference.forward_inference / backward_inference / query; get_constant_bn and initialize_initial_state projections."""
import itertools
import json
import os
import random

from ..core import Machinery, chunks, run_workers

CFG = "CONSTANT MaxT = %d\nCONSTANT MaxEv = %d\nINIT Init\nNEXT Next\nINVARIANT Emit\n"


def _cols(rng, card, ncol, den=10, zeros=False):
    cols = []
    for _ in range(ncol):
        if zeros and rng.random() < 0.4:        # deterministic column (exact zeros in the messages)
            k = rng.randrange(card)
            cols.append([den if i == k else 0 for i in range(card)])
            continue
        cuts = sorted(rng.sample(range(1, den), card - 1))
        cols.append([b - a for a, b in zip([0] + cuts, cuts + [den])])
    return [[cols[j][r] for j in range(ncol)] for r in range(card)]


def hmm_template(rng, tid):
    """the textbook shape: one persistent hidden variable with two observation variables per slice (only v0 is an interface node),
    so that evidence on different NON-interface variables in different slices is plentiful"""
    vs = ["v0", "v1", "v2"]
    dom = {v: ["s0", "s1"] for v in vs}
    cpd0 = {"v0": {"parents": [], "den": 10, "tab": _cols(rng, 2, 1)},
            "v1": {"parents": ["v0"], "den": 10, "tab": _cols(rng, 2, 2)},
            "v2": {"parents": ["v0"], "den": 10, "tab": _cols(rng, 2, 2)}}
    cpd1 = {"v0": {"parents": [["v0", 0]], "den": 10, "tab": _cols(rng, 2, 2)},
            "v1": {"parents": [["v0", 1]], "den": 10, "tab": cpd0["v1"]["tab"]},
            "v2": {"parents": [["v0", 1]], "den": 10, "tab": cpd0["v2"]["tab"]}}
    return {"id": tid, "vars": vs, "dom": dom, "cpd0": cpd0, "cpd1": cpd1, "regular": True, "inter": {"v0": ["v0"], "v1": [], "v2": []}}


def fam3_template(rng, tid):
    """v3 has the three intra-slice parents v0, v1, v2 (edges inserted in that order, CPD evidence in a ROTATED order) and v0 persists;
    used for the initialize_initial_state / get_constant_bn clauses only"""
    vs = ["v0", "v1", "v2", "v3"]
    dom = {v: ["s0", "s1"] for v in vs}
    rot = rng.choice([["v1", "v2", "v0"], ["v2", "v0", "v1"]])
    cpd0 = {v: {"parents": [], "den": 10, "tab": _cols(rng, 2, 1)} for v in vs[:3]}
    cpd0["v3"] = {"parents": rot, "den": 10, "tab": _cols(rng, 2, 8)}
    cpd1 = {"v0": {"parents": [["v0", 0]], "den": 10, "tab": _cols(rng, 2, 2)},
            "v1": {"parents": [], "den": 10, "tab": cpd0["v1"]["tab"]},
            "v2": {"parents": [], "den": 10, "tab": cpd0["v2"]["tab"]},
            "v3": {"parents": [[p, 1] for p in rot], "den": 10, "tab": cpd0["v3"]["tab"]}}
    return {"id": tid, "vars": vs, "dom": dom, "cpd0": cpd0, "cpd1": cpd1, "regular": True, "inter": {"v0": ["v0"], "v1": [], "v2": [], "v3": []},
            "edge_order": [["v0", "v3"], ["v1", "v3"], ["v2", "v3"]]}


def make_templates(rng, n, max_vars=3, ternary=False, regular=True):
    """regular = the region in which the interface algorithm as coded is meant to work: every variable takes part in an
    intra-slice edge (when there are >= 2 variables) and inter-slice edges are persistence edges v(t) -> v(t+1) of a
    non-empty interface set (so the sets of inter-edge sources and targets coincide)."""
    out = []
    for k in range(n):
        nv = rng.choice([1, 2, 2, 3][:max_vars + 1])
        vs = [f"v{i}" for i in range(nv)]
        dom = {v: ["s0", "s1"] + (["s2"] if ternary and nv <= 2 and rng.random() < 0.4 else []) for v in vs}
        order = vs[:]
        rng.shuffle(order)
        intra = {v: [] for v in vs}
        for i in range(nv):
            for j in range(i + 1, nv):
                if rng.random() < 0.5:
                    intra[order[j]].append(order[i])
        if regular:
            for i, v in enumerate(order):          # connect every variable inside the slice
                if nv > 1 and not intra[v] and not any(v in intra[u] for u in vs):
                    if i == 0:
                        intra[order[1]].append(v)
                    else:
                        intra[v].append(order[i - 1])
            iface = [v for v in vs if rng.random() < 0.6] or [vs[0]]
            inter = {v: ([v] if v in iface else []) for v in vs}
        else:
            inter = {v: [u for u in vs if rng.random() < (0.7 if u == v else 0.3)] for v in vs}
            if not any(inter.values()):
                inter[vs[0]] = [vs[0]]
        cpd0, cpd1 = {}, {}
        zeros = (k % 3 == 2)
        for v in vs:
            p0 = list(intra[v])
            rng.shuffle(p0)
            nc = 1
            for p in p0:
                nc *= len(dom[p])
            cpd0[v] = {"parents": p0, "den": 10, "tab": _cols(rng, len(dom[v]), nc, zeros=zeros)}
            if inter[v]:
                p1 = [[u, 0] for u in inter[v]] + [[u, 1] for u in intra[v]]
                rng.shuffle(p1)
                nc = 1
                for p, _ in p1:
                    nc *= len(dom[p])
                cpd1[v] = {"parents": p1, "den": 10, "tab": _cols(rng, len(dom[v]), nc, zeros=zeros)}
            else:
                cpd1[v] = {"parents": [[p, 1] for p in p0], "den": 10, "tab": cpd0[v]["tab"]}
        out.append({"id": k + 1, "vars": vs, "dom": dom, "cpd0": cpd0, "cpd1": cpd1, "regular": regular,
                    "inter": {v: inter[v] for v in vs}})
    return out


def run(ctx):
    ctx.rule = ("TLC enumerates (template, query node in slices 0..MaxT, evidence set of <=MaxEv nodes in any slices) over random 2-TBN templates "
                "(1-3 variables, binary, some ternary in thorough; intra and inter edges, several interface nodes); distinct = (template, "
                "query, evidence); non-trivial iff evidence non-empty or query slice >= 1.")
    ctx.assumptions += ["forward_inference is a filter (evidence up to the queried slice), backward_inference/query smooth over all evidence",
                        "all CPDs of both slices are supplied explicitly for the inference checks; initialize_initial_state is checked separately",
                        "state names are range(card): DBN results are rebuilt without state names by the engine"]
    rng = random.Random(ctx.seed + 17)
    tm = make_templates(rng, 10 if ctx.thorough else 5, ternary=True)
    # one witness outside the regular region (inter-slice edges between different variables): recorded known finding
    irr = make_templates(random.Random(ctx.seed + 171), 1, regular=False)[0]
    irr["id"] = len(tm) + 1
    tm.append(irr)
    hmm = hmm_template(rng, len(tm) + 1)
    tm.append(hmm)
    f = os.path.join(ctx.work, "tmpl.json")
    with open(f, "w") as fh:
        json.dump(tm, fh)
    r = ctx.tlc("Gen_C17", CFG % ((2, 3) if ctx.thorough else (2, 2)), env={"INST_FILE": f}, tag="Gen_C17", coverage=True, timeout=7200)
    cases = r.prints
    ctx.extra["cases_enumerated_by_tlc"] = len(cases)
    cap = 4000 if ctx.thorough else 360      # each DBN query rebuilds and calibrates two clique trees (~0.1 s): replay a seeded sample
    if len(cases) > cap:
        rs = random.Random(ctx.seed + 1717)
        # a third of the budget: smoothing questions of the HMM template with evidence on two different observation variables
        pref = [c for c in cases if c["tmpl"] == hmm["id"] and len(c["ev"]) == 2 and len({e["n"][0] for e in c["ev"]}) == 2
                and len({e["n"][1] for e in c["ev"]}) == 2 and all(e["n"][0] != "v0" for e in c["ev"])]
        pref = rs.sample(pref, min(len(pref), cap // 3))
        rest = [c for c in cases if c not in pref]
        cases = pref + rs.sample(rest, cap - len(pref))
    by = {}
    for c in cases:
        by.setdefault(c["tmpl"], []).append(c)
        ctx.count(("c", c["tmpl"], json.dumps(c["q"]), json.dumps(c["ev"], sort_keys=True)), nontrivial=bool(c["ev"]) or c["q"][1] >= 1, n=0)
    ctx.sample({"kind": "gen", "case": cases[len(cases) // 2]})
    hseeds = [0, 1]
    pl = []
    for hs in hseeds:
        for j, g in enumerate(chunks(sorted(by), 8)):
            pl.append((hs, {"tmpls": [t for t in tm if t["id"] in g], "cases": [c for k in g for c in by[k]], "seed": ctx.seed * 100 + hs * 8 + j,
                            "init_only": [fam3_template(random.Random(ctx.seed * 31 + hs * 8 + j + q), 900 + q) for q in range(4)] if j == 0 else []}))
    for res in run_workers(ctx, "c17", "replay_gen", pl):
        ctx.traces += res["n"]
        ctx.evaluations += res["calls"]
        for fl in res["fails"]:
            ctx.violation(fl)


def replay(ctx, rec):
    c = rec["case"]
    res = run_workers(ctx, "c17", "replay_gen", [(c["hashseed"], {"tmpls": [c["tmpl"]], "cases": c["cases"], "seed": c["seed"],
                                                                 "init_only": [c["tmpl"]] if c.get("init_only") else []})])[0]
    return res["fails"][:1] or None


def selftest(ctx):
    rng = random.Random(5)
    tm = make_templates(rng, 1)
    f = os.path.join(ctx.work, "tmpl.json")
    with open(f, "w") as fh:
        json.dump(tm, fh)
    r = ctx.tlc("Gen_C17", CFG % (1, 1), env={"INST_FILE": f}, tag="self")
    c = next(c for c in r.prints if c["smooth"] and c["ev"])
    c["smooth"][0]["w"] += c["tot"] // 3 + 1
    c["filter"] = c["smooth"]
    res = run_workers(ctx, "c17", "replay_gen", [(0, {"tmpls": tm, "cases": [c], "seed": 1})])[0]
    if not res["fails"]:
        raise Machinery("selftest: wrong DBN marginal accepted")


# =========================================================================== worker side
def build_dbn(t, rng, all_cpds=True):
    import numpy as np
    from pgmpy.factors.discrete import TabularCPD
    from pgmpy.models import DynamicBayesianNetwork as DBN
    dbn = DBN()
    edges = []
    for v in t["vars"]:
        for p in t["cpd0"][v]["parents"]:
            edges.append(((p, 0), (v, 0)))
        for p, dt in t["cpd1"][v]["parents"]:
            if dt == 0:
                edges.append(((p, 0), (v, 1)))
    rng.shuffle(edges)
    dbn.add_nodes_from(t["vars"])
    dbn.add_edges_from(edges)
    cpds = []
    for v in t["vars"]:
        c0 = t["cpd0"][v]
        cpds.append(TabularCPD((v, 0), len(t["dom"][v]), [[x / c0["den"] for x in row] for row in c0["tab"]],
                               evidence=[(p, 0) for p in c0["parents"]] or None,
                               evidence_card=[len(t["dom"][p]) for p in c0["parents"]] or None))
        c1 = t["cpd1"][v]
        has_inter = any(dt == 0 for _, dt in c1["parents"])
        if all_cpds or has_inter:
            cpds.append(TabularCPD((v, 1), len(t["dom"][v]), [[x / c1["den"] for x in row] for row in c1["tab"]],
                                   evidence=[(p, dt) for p, dt in c1["parents"]] or None,
                                   evidence_card=[len(t["dom"][p]) for p, _ in c1["parents"]] or None))
    rng.shuffle(cpds)
    dbn.add_cpds(*cpds)
    return dbn


def init_checks(t, rng, fail):
    """initialize_initial_state copies CPDs to the other slice unaltered; get_constant_bn exposes the template's CPDs (by NAMED parents)"""
    import numpy as np
    ncalls = 0
    # ---- initialize_initial_state copies CPDs unchanged; get_constant_bn exposes the template's CPDs
    try:
        d2 = build_dbn(t, rng, False)
        d2.initialize_initial_state()
        ncalls += 1
        for v in t["vars"]:
            c1 = t["cpd1"][v]
            got = d2.get_cpds((v, 1))
            want = np.array(c1["tab"], dtype=float) / c1["den"]
            # compare by named parent order: the copy must describe the same conditional
            gp = [(p[0], p[1]) for p in got.variables[1:]]
            wp = [(p, dt) for p, dt in c1["parents"]]
            if sorted(gp) != sorted(wp):
                fail("DynamicBayesianNetwork.initialize_initial_state", "copied_cpd_parents", [list(map(str, gp))], wp)
                break
            perm = [gp.index(p) for p in wp]
            vals = np.asarray(got.values)
            vals = np.transpose(vals, [0] + [1 + i for i in perm]).reshape(want.shape)
            if not (np.abs(vals - want).max() <= 1e-9):
                fail("DynamicBayesianNetwork.initialize_initial_state", "copied_cpd_values", vals.tolist(), want.tolist())
                break
        bn = d2.get_constant_bn()
        ncalls += 1
        for v in t["vars"]:
            for sl, c in ((0, t["cpd0"][v]), (1, t["cpd1"][v])):
                got = bn.get_cpds(f"{v}_{sl}")
                want = np.array(c["tab"], dtype=float) / c["den"]
                gp = list(got.variables[1:])
                wp = [f"{p}_0" for p in c["parents"]] if sl == 0 else [f"{p}_{dt}" for p, dt in c["parents"]]
                if sorted(gp) != sorted(wp):
                    fail("DynamicBayesianNetwork.get_constant_bn", "cpd_parents", gp, wp)
                    break
                perm = [gp.index(p) for p in wp]
                vals = np.transpose(np.asarray(got.values), [0] + [1 + i for i in perm]).reshape(want.shape)
                if not (np.abs(vals - want).max() <= 1e-9):
                    fail("DynamicBayesianNetwork.get_constant_bn", "cpd_values", None)
                    break
    except Exception as ex:  # noqa
        fail("DynamicBayesianNetwork.initialize_initial_state", "raises", repr(ex)[:300], None, regular=t.get("regular", True))
    return ncalls


def replay_gen(payload):
    import numpy as np
    from pgmpy.inference import DBNInference
    rng = random.Random(payload["seed"])
    hs = int(os.environ.get("PYTHONHASHSEED", "0"))
    tm = {t["id"]: t for t in payload["tmpls"]}
    fails, ncalls = [], 0
    eng = {}
    single_ok = {}
    for tx in payload.get("init_only", []):
        # templates used for the copy / constant-network clauses only (a node with THREE intra-slice parents; no inference enumeration:
        # their unrolled networks are beyond the exact 32-bit weights of Gen_C17)
        def fail_x(api, clause, obs, exp=None, tx=tx, **feat):
            fails.append({"api": api, "clause": clause, "features": dict(feat, three_parents=True),
                          "case": {"tmpl": tx, "cases": [], "seed": payload["seed"], "hashseed": hs, "init_only": True}, "observed": obs, "expected": exp})
        ncalls += init_checks(tx, rng, fail_x)
    for ci, case in enumerate(payload["cases"]):
        t = tm[case["tmpl"]]

        def fail(api, clause, obs, exp=None, **feat):
            fails.append({"api": api, "clause": clause, "features": feat,
                          "case": {"tmpl": t, "cases": [case], "seed": payload["seed"], "hashseed": hs}, "observed": obs, "expected": exp})
        if t["id"] not in eng:
            try:
                dbn = build_dbn(t, rng, True)
                dbn.initialize_initial_state()
                eng[t["id"]] = (dbn, DBNInference(dbn))
            except Exception as ex:  # noqa
                eng[t["id"]] = None
                fail("DBNInference", "construction_raises", repr(ex)[:300], None, regular=t.get("regular", True))
            ncalls += init_checks(t, rng, fail)
        if eng[t["id"]] is None:
            continue
        dbn, inf = eng[t["id"]]
        qn = (case["q"][0], case["q"][1])
        ev = {(e["n"][0], e["n"][1]): t["dom"][e["n"][0]].index(e["s"]) for e in case["ev"]}
        for mode, key in (("forward_inference", "filter"), ("backward_inference", "smooth"), ("query", "smooth")):
            if not case[key]:
                continue          # P(evidence) = 0
            ncalls += 1
            iface = {v for v in t["vars"] if t["inter"][v]} | {u for v in t["vars"] for u in t["inter"][v]}
            feat = {"mode": mode, "regular": t.get("regular", True),
                    "interface_evidence_before_horizon": any(e["n"][0] in iface and e["n"][1] < case["horizon"] for e in case["ev"])}
            try:
                res = getattr(inf, mode)([qn], ev or None)
            except Exception as ex:  # noqa
                fail("DBNInference." + mode, "raises", repr(ex)[:300], None, **feat)
                continue
            if qn not in res:
                fail("DBNInference." + mode, "missing_variable", [str(k) for k in res], None, **feat)
                continue
            vals = np.asarray(res[qn].values, dtype=float)
            tot = case["totf"] if key == "filter" else case["tot"]
            bad = []
            for row in case[key]:
                i = t["dom"][qn[0]].index(row["s"])
                if i >= len(vals) or not (abs(vals[i] - row["w"] / tot) <= 1e-9):
                    bad.append({"s": row["s"], "got": float(vals[i]) if i < len(vals) else None, "want": [row["w"], tot]})
            if bad:
                fail("DBNInference." + mode, "marginal", bad, None, **feat)
            if mode == "query":
                single_ok[id(case)] = not bad
        # ---- two query variables (possibly in different slices) in ONE call: each must get its own marginal
        if ci % 3 == 0:
            other = next((c for c in payload["cases"][:ci] if c["tmpl"] == case["tmpl"] and c["ev"] == case["ev"] and c["q"] != case["q"]
                          and c["smooth"] and case["smooth"] and single_ok.get(id(c))), None)
            # (only where each variable asked alone is answered correctly: isolates the multi-variable defect)
            if other is not None and single_ok.get(id(case)):
                q2 = (other["q"][0], other["q"][1])
                if q2 not in ev and qn not in ev:
                    ncalls += 1
                    try:
                        res = inf.query([qn, q2], ev or None)
                        for qq, cc in ((qn, case), (q2, other)):
                            vals = np.asarray(res[qq].values, dtype=float)
                            if any(not (abs(vals[t["dom"][qq[0]].index(r["s"])] - r["w"] / cc["tot"]) <= 1e-9) for r in cc["smooth"]):
                                fail("DBNInference.query", "multi_variable_marginal", {"vars": [list(qn), list(q2)], "wrong": list(qq)}, None,
                                     same_slice=qn[1] == q2[1], regular=t.get("regular", True))
                                break
                    except Exception as ex:  # noqa
                        fail("DBNInference.query", "multi_variable_raises", repr(ex)[:200], None, same_slice=qn[1] == q2[1],
                             regular=t.get("regular", True))
    return {"n": len(payload["cases"]), "calls": ncalls, "fails": fails[:80]}
