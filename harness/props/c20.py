"""C20 linear-Gaussian models vs multivariate-normal algebra.

Gen_C20  (all DAGs x coefficient patterns x all missing sets; joint / predict / fit)      -> replay on LinearGaussianBayesianNetwork
Gen_C20D (pools of Gaussians: marginalize / reduce / canonical form / product, canonical ops) -> replay on GaussianDistribution,
                                                                                               CanonicalDistribution
Trace_C20 (recorded to_joint_gaussian / predict of random 5-6 node networks)                -> validated by TLC
All expected numbers are exact rationals computed by TLC from spec/GaussLib.tla; the constant g of canonical forms is the
symbolic normal form q + c*log(2 pi) - log(X)/2 which this module only evaluates."""
import json
import math
import os
import random
from fractions import Fraction

from ..core import Machinery, chunks, run_workers

TOL = 1e-9


# =========================================================================== instance generators (tokens and integers only)
def _q(x):
    f = Fraction(x)
    return [f.numerator, f.denominator]


def _rand_dag(rng, nodes, p=0.5):
    order = list(nodes)
    rng.shuffle(order)
    return [[order[i], order[j]] for i in range(len(order)) for j in range(i + 1, len(order)) if rng.random() < p]


def lgbn_pattern(rng, pid, n, mode="all", kind="generic", edges=None, nrows=2, ndata=6):
    """A weight for every ordered pair (so that TLC can put any DAG on top), intercepts, variances, observed rows, data."""
    nodes = [f"v{i}" for i in range(n)]
    if kind == "generic":          # non-zero, mixed signs, few 2s (keeps covariances small)
        pool = [1, -1, 1, -1, 2, -2, 1, -1]
    elif kind == "degenerate":     # zero weights on present edges, repeated values
        pool = [0, 1, 1, -1, 0, 2]
    elif kind == "dyadic":         # non-integer coefficients (halves)
        pool = [Fraction(1, 2), Fraction(-1, 2), 1, Fraction(3, 2), -1]
    elif kind == "unit":           # |w| = 1 only: for the larger graphs
        pool = [1, -1]
    else:
        raise ValueError(kind)
    w = {c: {p: _q(rng.choice(pool)) for p in nodes if p != c} for c in nodes}
    b0 = {v: _q(rng.choice([-3, -2, -1, 0, 1, 2, 3])) for v in nodes}
    var = {v: _q(rng.choice([1, 2, 3] if kind != "unit" else [1, 2])) for v in nodes}
    if kind == "degenerate":
        b0[nodes[0]] = _q(0)
    rows = [{v: _q(rng.randint(-3, 3)) for v in nodes} for _ in range(nrows)]
    data = [{v: _q(rng.randint(-2, 2)) for v in nodes} for _ in range(ndata)]
    return {"id": pid, "nodes": nodes, "mode": mode, "edges": edges or [], "kind": kind,
            "w": w, "b0": b0, "var": var, "rows": rows, "data": data}


def lgbn_patterns(rng, thorough):
    pats = []

    def add(*a, **k):
        pats.append(lgbn_pattern(rng, len(pats) + 1, *a, **k))
    add(1)
    add(2)
    add(2, kind="dyadic")
    add(3)
    add(3, kind="degenerate")
    add(3, kind="dyadic")
    add(4)
    if thorough:
        add(3)
        add(3, kind="degenerate")
        add(3, kind="dyadic")
        add(4)
        add(4)
        add(4, kind="degenerate")
        add(4, kind="degenerate", ndata=5)
        add(4, kind="unit", ndata=7)
    return pats


def lgbn_patterns5(rng, ndags):
    nodes = [f"v{i}" for i in range(5)]
    return [lgbn_pattern(rng, 1000 + i, 5, mode="list", kind="unit", edges=_rand_dag(rng, nodes, rng.choice([0.3, 0.5, 0.7])), ndata=7)
            for i in range(ndags)]


def _pd_matrix(rng, scope, big=False):
    """integer symmetric positive-definite matrix L D L' (unit lower-triangular L in a random variable order, small D): small
    determinant, so that exact inverses keep small denominators.  TLC re-checks positive definiteness (Sylvester)."""
    o = list(scope)
    rng.shuffle(o)
    k = len(o)
    L = [[0] * k for _ in range(k)]
    for i in range(k):
        L[i][i] = 1
        for j in range(i):
            L[i][j] = rng.choice([-1, 0, 1, 1, -1, 2] if big else [-1, 0, 1, 1, -1])
    D = [rng.choice([1, 1, 2, 3]) for _ in range(k)]
    M = [[sum(L[i][t] * D[t] * L[j][t] for t in range(k)) for j in range(k)] for i in range(k)]
    return {o[i]: {o[j]: _q(M[i][j]) for j in range(k)} for i in range(k)}


def gd_pool(rng, pid, nvars, nmembers):
    vs = [f"v{i}" for i in range(nvars)]
    scopes = [list(vs), vs[:2], vs[-2:], [vs[-1]], list(vs), [vs[0], vs[-1]]][:nmembers]
    if nvars >= 4:
        scopes = [vs[:3], vs[1:], vs[:2], vs[2:], [vs[3]], list(vs)][:nmembers]
    gs = []
    for k, sc in enumerate(scopes):
        sc = list(sc)
        rng.shuffle(sc)
        gs.append({"scope": sc, "form": "prec" if k % 3 == 2 else rng.choice(["cov", "cov", "prec"]),
                   "mu": {v: _q(rng.randint(-3, 3)) for v in sc}, "m": _pd_matrix(rng, sc, big=(len(sc) <= 2))})
    # one member that is symmetric but NOT positive definite: the specification must refuse it
    a, b = vs[0], vs[1]
    gs.append({"scope": [a, b], "form": "cov", "mu": {a: _q(0), b: _q(1)}, "m": {a: {a: _q(1), b: _q(2)}, b: {a: _q(2), b: _q(1)}}})
    pts = [{v: _q(rng.randint(-2, 3)) for v in vs} for _ in range(2)]
    return {"id": pid, "vars": vs, "gs": gs, "pts": pts}


def gd_pools(rng, thorough):
    pools = [gd_pool(rng, 1, 3, 5), gd_pool(rng, 2, 2, 4)]
    if thorough:
        pools += [gd_pool(rng, 3 + i, 3, 6) for i in range(5)] + [gd_pool(rng, 8 + i, 4, 5 + i % 2) for i in range(5)]
    return pools


CFG_D = ("INIT Init\nNEXT Next\nINVARIANT LemCanonIsDensity\nINVARIANT LemReducePrecision\nINVARIANT LemCanonMargCommutes\n"
         "INVARIANT LemChainRule\nINVARIANT LemProductPointwise\nINVARIANT LemProductGaussian\nINVARIANT LemRoundTrip\nINVARIANT Emit\n")

CFG_L = ("CONSTANT MaxNum = %d\nCONSTANT MaxDen = %d\nINIT Init\nNEXT Next\n"
         "INVARIANT LemNilpotentInverse\nINVARIANT LemMeanClosedForm\nINVARIANT LemCovSymPD\nINVARIANT LemCovRecursive\n"
         "INVARIANT LemPrecision\nINVARIANT LemCondPrecision\nINVARIANT LemCondMarginal\nINVARIANT LemNormalEquations\nINVARIANT Emit\n")


CFG_T = "CONSTANT MaxNum = %d\nCONSTANT MaxDen = %d\nINIT Init\nNEXT Next\nINVARIANT Report\n"

L_ACTIONS = ["Build", "DoJoint", "DoPredict", "DoFit"]
D_ACTIONS = ["Build", "DoDensity", "DoMarg", "DoReduce", "DoCanon", "DoCToJoint", "DoProduct", "DoCMarg", "DoCReduce", "DoCProduct"]
T_ACTIONS = ["Build", "StepJoint", "StepPredict"]


def _case_key(c):
    o = c["out"]
    if "pat" in c:
        return json.dumps([c["pat"], sorted(map(tuple, c["edges"])), o["kind"], sorted(o.get("missing", []))])
    return json.dumps([c["pool"], o["op"], sorted(o["a"]["S"]), o["a"].get("mu"), o["a"].get("h"), sorted(o.get("b", {}).get("S", [])), o.get("same"),
                       sorted(o.get("vars", [])), o.get("at"), o.get("inplace")], sort_keys=True)


def _nontrivial(c):
    """joint/predict/fit on a graph with >= 1 edge; distribution ops on scopes of >= 2 variables"""
    if "pat" in c:
        return len(c["edges"]) >= 1
    return len(c["out"]["a"]["S"]) >= 2 or len(c["out"].get("b", {}).get("S", [])) >= 2


def gen_lgbn(ctx, pats, tag, maxnum, maxden, timeout=3600):
    f = os.path.join(ctx.work, f"pats_{tag}.json")
    with open(f, "w") as fh:
        json.dump(pats, fh)
    r = ctx.tlc("Gen_C20", CFG_L % (maxnum, maxden), env={"INST_FILE": f}, tag="Gen_" + tag, coverage=True, timeout=timeout)
    return r.prints


def gen_gd(ctx, pools, tag="D"):
    f = os.path.join(ctx.work, f"pools_{tag}.json")
    with open(f, "w") as fh:
        json.dump(pools, fh)
    r = ctx.tlc("Gen_C20D", CFG_D, env={"INST_FILE": f}, tag="Gen_" + tag, coverage=True)
    return r.prints


def run(ctx):
    ctx.rule = ("Gen_C20: every DAG on 1-4 labelled nodes x coefficient patterns (a weight for every ordered pair; generic / with zero "
                "weights / half-integer) x {joint, every non-empty proper missing set, fit}; thorough adds patterns and sampled 5-node DAGs. "
                "Gen_C20D: every marginalise / reduce / canonical conversion / product (Gaussian and canonical level, in and out of place) "
                "on pools of positive-definite Gaussians over 2-4 variables. Trace_C20: random 5-6 node networks. "
                "distinct = distinct (instance, DAG or operands, question); non-trivial = graph with >= 1 edge / some operand over >= 2 variables.")
    ctx.assumptions += [
        "coefficients are integers or halves, variances positive integers, data small integers: exact in TLC and exactly representable "
        "after to_joint_gaussian's rounding to 8 decimals; floating-point conditioning as such is not examined",
        "to_joint_gaussian returns mean/covariance in list(networkx.topological_sort(model)) order (the order simulate() documents); "
        "predict results are projected through the variable list it returns",
        "fit: residual variance is the sample variance of the residuals (divisor n-1, the code's convention); LinearGaussianCPD.fit "
        "returns the square root of the maximum-likelihood variance (divisor n); data sets without full column rank are excluded by TLC",
        "the canonical-form constant g is the symbolic normal form q + c*log(2 pi) - log(X)/2 computed by TLC; the harness evaluates it with math.log",
    ]
    rng = random.Random(ctx.seed + 20)
    pats = lgbn_patterns(rng, ctx.thorough)
    cases = gen_lgbn(ctx, pats, "L", 200, 16, timeout=7200)
    byid = {p["id"]: p for p in pats}
    if ctx.thorough:
        pats5 = lgbn_patterns5(rng, 500)
        cases5 = gen_lgbn(ctx, pats5, "L5", 60, 1, timeout=7200)
        byid.update({p["id"]: p for p in pats5})
        cases += cases5
    ctx.require_actions(L_ACTIONS)
    # the magnitude guard must not silently empty the predict cases
    nj = sum(1 for c in cases if c["out"]["kind"] == "joint" and len(byid[c["pat"]]["nodes"]) >= 2)
    graphs_with_predict = len({(c["pat"], json.dumps(sorted(map(tuple, c["edges"])))) for c in cases if c["out"]["kind"] == "predict"})
    ctx.extra["predict_guard"] = {"graphs": nj, "graphs_with_predict": graphs_with_predict}
    if graphs_with_predict < 0.9 * nj:
        raise Machinery(f"magnitude guard dropped predict for too many graphs ({graphs_with_predict}/{nj})")
    nfit = sum(1 for c in cases if c["out"]["kind"] == "fit")
    ctx.extra["fit_full_rank_graphs"] = nfit
    if nfit < 0.5 * nj:
        raise Machinery(f"too few full-rank fit cases ({nfit}/{nj})")
    pools = gd_pools(rng, ctx.thorough)
    dcases = gen_gd(ctx, pools)
    ctx.require_actions(D_ACTIONS)
    ctx.exhaustive = True
    for c in cases + dcases:
        ctx.count(_case_key(c), nontrivial=_nontrivial(c), n=0)
    for k in ("predict", "fit"):
        c = next((c for c in reversed(cases) if c["out"]["kind"] == k), None)
        if c:
            ctx.sample({"kind": "lgbn." + k, "pat": c["pat"], "edges": c["edges"], "expected": c["out"]})
    for k in ("to_canonical", "product"):
        c = next((c for c in dcases if c["out"]["op"] == k and len(c["out"]["a"]["S"]) >= 2), None)
        if c:
            ctx.sample({"kind": "gauss." + k, "case": c["out"]})

    hseeds = list(range(4)) if ctx.thorough else [0, 1]
    nchunk = 3
    ntr = (600 if ctx.thorough else 60) // (len(hseeds) * nchunk)
    payloads = []
    for hs in hseeds:
        lch, dch = chunks(list(enumerate(cases)), nchunk), chunks(list(enumerate(dcases)), nchunk)
        for j in range(nchunk):
            base = ctx.seed * 1000003 + hs * 101 + j
            payloads.append((hs, {
                "pats": [byid[i] for i in sorted({c["pat"] for _, c in lch[j]})],
                "lgbn": [[c, base * 100000 + k] for k, c in lch[j]],
                "gd": [[c, base * 100000 + k] for k, c in dch[j]],
                "record": {"seed": base, "n": ntr, "tid0": (hs * nchunk + j) * 10000},
            }))
    traces = []
    for res in run_workers(ctx, "c20", "work", payloads, timeout=7200):
        ctx.traces += res["n"]
        ctx.evaluations += res["calls"]
        for fl in res["fails"]:
            ctx.violation(fl)
        for k, v in res["fail_counts"].items():
            fc = ctx.extra.setdefault("replay_failures_by_signature", {})
            fc[k] = fc.get(k, 0) + v
        traces += res["traces"]
    validate(ctx, traces)
    ctx.require_actions(T_ACTIONS)


def validate(ctx, traces, tag="Trace"):
    """RECORD -> VALIDATE: TLC decides every recorded step; returns the number of accepted steps"""
    if not traces:
        return 0
    tf = os.path.join(ctx.work, f"{tag}.json")
    with open(tf, "w") as f:
        json.dump([{k: t[k] for k in ("tid", "nodes", "edges", "w", "b0", "var", "steps")} for t in traces], f)
    r = ctx.tlc("Trace_C20", CFG_T % (60, 1), env={"TRACE_FILE": tf}, tag=tag, coverage=True)
    by = {t["tid"]: t for t in traces}
    seen, acc, skipped = set(), 0, 0
    for p in r.prints:
        t = by[p["tid"]]
        seen.add(p["tid"])
        vs = p["v"]
        if len(vs) != len(t["steps"]):
            raise Machinery(f"Trace_C20: {len(vs)} verdicts for {len(t['steps'])} steps in trace {p['tid']}")
        ok_all = True
        for k, (v, st) in enumerate(zip(vs, t["steps"])):
            ctx.count(("t", p["tid"], k), n=1)
            if v["clause"] == "ACCEPT":
                acc += 1
                continue
            if v["clause"] == "SKIP":
                skipped += 1
                continue
            ok_all = False
            raw = t["raw"][k]
            if v["at"] and not v["clause"].endswith(".shape"):
                part = raw["mean"] if v["clause"].endswith("mean") else raw["cov"]
                try:
                    if v["clause"] == "predict.mean":
                        xs = [part[v["at"][1] - 1][v["at"][0]]]         # at = [variable, row]
                    elif len(v["at"]) == 1:
                        xs = [part[v["at"][0]]]
                    else:
                        xs = [part[v["at"][0]][v["at"][1]]]
                except (KeyError, IndexError, TypeError):
                    xs = []
                want = v["want"][0] / v["want"][1]
                if xs and all(abs(x - want) <= TOL * max(1.0, abs(want)) for x in xs):
                    ctx.artefact(f"C20 trace {p['tid']} step {k}: floats {xs} vs {v['want']}")
                    continue
            api = "to_joint_gaussian" if st["ev"] == "joint" else "predict"
            feats = {} if st["ev"] == "joint" else {"missing": "1" if len(t["nodes"]) - len(st["observed"]) == 1 else ">=2"}
            if v["clause"] == "predict.cov":
                feats["variances_ok"] = v["at"][0] != v["at"][1]       # the spec reports a wrong diagonal cell first
            ctx.violation({"api": "LinearGaussianBayesianNetwork." + api, "clause": v["clause"].split(".", 1)[1], "features": feats,
                           "case": {"kind": "trace", "trace": {k2: t[k2] for k2 in t if k2 != "raw"}, "step": k},
                           "observed": raw, "expected": {"at": v["at"], "value": v["want"]}})
        if ok_all:
            ctx.traces += 1
    if seen != set(by):
        raise Machinery(f"Trace_C20: verdicts missing for {len(set(by) - seen)} traces")
    ctx.extra["trace_steps"] = {"accepted": ctx.extra.get("trace_steps", {}).get("accepted", 0) + acc,
                                "skipped_magnitude": ctx.extra.get("trace_steps", {}).get("skipped_magnitude", 0) + skipped}
    nsteps = sum(len(t["steps"]) for t in traces)
    if skipped > 0.5 * nsteps:
        raise Machinery(f"Trace_C20: {skipped}/{nsteps} steps skipped by the magnitude guard")
    t = traces[0]
    ctx.sample({"kind": "trace", "nodes": t["nodes"], "edges": t["edges"], "steps": [s["ev"] for s in t["steps"]]})
    return acc


def replay(ctx, rec):
    case = rec["case"]
    if case["kind"] == "lgbn":
        res = run_workers(ctx, "c20", "work", [(case["hashseed"], {"pats": [case["pat"]], "lgbn": [[case["case"], case["seed"]]]})])[0]
        return res["fails"][:1] or None
    if case["kind"] == "gd":
        res = run_workers(ctx, "c20", "work", [(case["hashseed"], {"gd": [[case["case"], case["seed"]]]})])[0]
        return res["fails"][:1] or None
    t = case["trace"]
    res = run_workers(ctx, "c20", "work", [(t.get("hashseed", 0), {"record": {"rerun": t}})])[0]
    n0 = len(ctx.violations)
    validate(ctx, res["traces"], tag="Replay")
    new = [v for v in ctx.violations[n0:] if v["case"].get("step") == case.get("step")]
    return new[:1] or None


def selftest(ctx):
    """anti-vacuity: (i) a corrupted recorded value must be rejected by TLC and everything else accepted; (ii) replaying TLC's
    expectations against a model built with transposed weights / a Gaussian with a swapped mean must be reported; (iii) every
    trace action taken"""
    # (i)
    res = run_workers(ctx, "c20", "work", [(0, {"record": {"seed": 5, "n": 6, "tid0": 0, "single_only": True}})])[0]
    tr = res["traces"]
    validate(ctx, tr, tag="Self0")
    if ctx.violations:
        raise Machinery(f"selftest: uncorrupted single-missing traces rejected: {ctx.violations[0]['clause']}")
    t = next(t for t in tr if len(t["edges"]) >= 2)
    k = next(i for i, s in enumerate(t["steps"]) if s["ev"] == "predict")
    a = t["steps"][k]["vars"][0]
    n, d = t["steps"][k]["cov"][a][a]
    t["steps"][k]["cov"][a][a] = [n + d, d]
    t["raw"][k]["cov"][a][a] += 1.0
    v0 = t["nodes"][0]
    n, d = t["steps"][0]["mean"][v0]
    t["steps"][0]["mean"][v0] = [n + d, d]
    t["raw"][0]["mean"][v0] += 1.0
    validate(ctx, tr, tag="Self1")
    got = sorted((v["api"].split(".")[1], v["clause"]) for v in ctx.violations)
    if got != [("predict", "cov"), ("to_joint_gaussian", "mean")]:
        raise Machinery(f"selftest: corrupted trace gave {got}")
    ctx.violations.clear()
    ctx.require_actions(T_ACTIONS)
    # (ii)
    rng = random.Random(3)
    pat = lgbn_pattern(rng, 1, 3, mode="list", edges=[["v0", "v1"], ["v1", "v2"], ["v0", "v2"]])
    cases = gen_lgbn(ctx, [pat], "self", 200, 16)
    bad = json.loads(json.dumps(pat))
    bad["w"]["v2"]["v0"], bad["w"]["v2"]["v1"] = pat["w"]["v2"]["v1"], [pat["w"]["v2"]["v0"][0] + 1, 1]
    res = run_workers(ctx, "c20", "work", [(0, {"pats": [bad], "lgbn": [[c, i] for i, c in enumerate(cases) if c["out"]["kind"] != "fit"]})])[0]
    apis = {f["api"] for f in res["fails"]}
    if not {"LinearGaussianBayesianNetwork.to_joint_gaussian", "LinearGaussianBayesianNetwork.predict"} <= apis:
        raise Machinery(f"selftest: model with wrong weights was accepted ({apis})")
    bad = json.loads(json.dumps(pat))
    bad["data"][0]["v2"] = [bad["data"][0]["v2"][0] + 1, 1]
    res = run_workers(ctx, "c20", "work", [(0, {"pats": [bad], "lgbn": [[c, i] for i, c in enumerate(cases) if c["out"]["kind"] == "fit"]})])[0]
    if not res["fails"]:
        raise Machinery("selftest: fit on a changed data set was accepted")
    dcases = gen_gd(ctx, gd_pools(rng, False)[:1], tag="selfD")
    wrong = []
    for c in dcases:
        o = json.loads(json.dumps(c["out"]))
        if o["op"] in ("marginalize", "reduce", "to_canonical") and len(o["a"]["S"]) >= 2:
            s = sorted(o["a"]["S"])
            if o["a"]["mu"][s[0]] != o["a"]["mu"][s[1]]:
                o["a"]["mu"][s[0]], o["a"]["mu"][s[1]] = o["a"]["mu"][s[1]], o["a"]["mu"][s[0]]
                wrong.append([{"pool": c["pool"], "out": o}, len(wrong)])
    res = run_workers(ctx, "c20", "work", [(0, {"gd": wrong})])[0]
    if not wrong or len(res["fails"]) < min(len(wrong), 40) * 0.5:
        raise Machinery(f"selftest: Gaussians with swapped means accepted ({len(res['fails'])}/{len(wrong)})")
    ctx.require_actions(L_ACTIONS + D_ACTIONS)


# =========================================================================== worker side (imports pgmpy)
def _f(q):
    return q[0] / q[1]


def _close(x, q):
    try:
        x = float(x)
    except (TypeError, ValueError):
        return False
    e = q[0] / q[1]
    return x == x and abs(x - e) <= TOL * max(1.0, abs(e))


def _obj(j):
    """TLC prints an empty function as []"""
    return j if isinstance(j, dict) else {}


def sym_eval(g):
    """evaluate the symbolic normal form q + c*log(2 pi) - log(X)/2"""
    return _f(g["q"]) + _f(g["c"]) * math.log(2 * math.pi) - 0.5 * math.log(_f(g["X"]))


def _names(tokens, rng, kind=None):
    from ..concretise import var_names
    return var_names(list(tokens), rng, kind or rng.choice(["str", "str", "int"]))


def build_model(pat, edges, rng, with_cpds=True):
    from pgmpy.factors.continuous import LinearGaussianCPD
    from pgmpy.models import LinearGaussianBayesianNetwork
    from ..concretise import shuffled
    nodes = pat["nodes"]
    vn = _names(nodes, rng)
    m = LinearGaussianBayesianNetwork()
    for v in shuffled(nodes, rng):
        m.add_node(vn[v])
    for p, c in shuffled(edges, rng):
        m.add_edge(vn[p], vn[c])
    if with_cpds:
        cpds = []
        for v in nodes:
            ps = shuffled([p for p, c in edges if c == v], rng)       # evidence order is free: coefficients follow it
            cpds.append(LinearGaussianCPD(vn[v], [_f(pat["b0"][v])] + [_f(pat["w"][v][p]) for p in ps], _f(pat["var"][v]), [vn[p] for p in ps]))
        m.add_cpds(*shuffled(cpds, rng))
    return m, vn


_FRAMES = []      # (frame, snapshot) of every data frame handed to the library in the current case (C16: never changed by the call)


def _frame(rows, cols, vn, rng):
    import pandas as pd
    from ..concretise import shuffled
    from ..frames import df_snapshot
    cols = shuffled(cols, rng)
    df = pd.DataFrame({vn[c]: [float(_f(r[c])) for r in rows] for c in cols}, columns=[vn[c] for c in cols])
    _FRAMES.append((df, df_snapshot(df)))
    return df


def call_joint(m, vn):
    """-> ({token: mean}, {token: {token: cov}}) projected through the documented order, or raises"""
    import networkx as nx
    import numpy as np
    inv = {c: t for t, c in vn.items()}
    mean, cov = m.to_joint_gaussian()
    order = [inv[x] for x in nx.topological_sort(m)]
    mean, cov = np.asarray(mean, dtype=float), np.asarray(cov, dtype=float)
    if mean.shape != (len(order),) or cov.shape != (len(order), len(order)):
        raise ValueError(f"shape {mean.shape} {cov.shape}")
    return ({v: float(mean[i]) for i, v in enumerate(order)},
            {v: {u: float(cov[i, j]) for j, u in enumerate(order)} for i, v in enumerate(order)})


def call_predict(m, vn, observed, rows, rng):
    """-> (returned variable tokens, [row -> {token: mean}], {token: {token: cov}} or None when the shape is wrong)"""
    import numpy as np
    inv = {c: t for t, c in vn.items()}
    df = _frame(rows, observed, vn, rng)
    variables, mu, cov = m.predict(df)
    toks = [inv.get(x) for x in variables]
    mu, cov = np.asarray(mu, dtype=float), np.asarray(cov, dtype=float)
    k = len(toks)
    means = [{v: float(mu[r, i]) for i, v in enumerate(toks)} for r in range(len(rows))] if mu.shape == (len(rows), k) else None
    covd = {v: {u: float(cov[i, j]) for j, u in enumerate(toks)} for i, v in enumerate(toks)} if cov.shape == (k, k) else None
    return toks, means, covd


def _cmp_vec(got, exp):
    exp = _obj(exp)
    if got is None or set(got) != set(exp):
        return "shape"
    return None if all(_close(got[v], exp[v]) for v in exp) else "value"


def _cmp_mat(got, exp):
    exp = _obj(exp)
    if got is None or set(got) != set(exp) or any(set(got[v]) != set(exp) for v in exp):
        return "shape"
    return None if all(_close(got[v][u], exp[v][u]) for v in exp for u in exp) else "value"


def replay_lgbn_case(pat, case, seed, fails, hs):
    from pgmpy.factors.continuous import LinearGaussianCPD
    _UNIT[0] = 1.0
    rng = random.Random(seed)
    out, edges = case["out"], case["edges"]
    calls = 0

    def fail(api, clause, feats, obs=None, exp=None):
        fails.append({"api": api, "clause": clause, "features": feats,
                      "case": {"kind": "lgbn", "pat": pat, "case": case, "seed": seed, "hashseed": hs},
                      "observed": obs, "expected": exp})
    L = "LinearGaussianBayesianNetwork."
    if out["kind"] == "joint":
        m, vn = build_model(pat, edges, rng)
        calls += 1
        try:
            mean, cov = call_joint(m, vn)
        except Exception as ex:  # noqa
            fail(L + "to_joint_gaussian", "raises", {}, repr(ex)[:200])
            return calls
        c = _cmp_vec(mean, out["mean"])
        if c:
            fail(L + "to_joint_gaussian", "mean" if c == "value" else "mean.shape", {}, mean, out["mean"])
            return calls
        c = _cmp_mat(cov, out["cov"])
        if c:
            fail(L + "to_joint_gaussian", "cov" if c == "value" else "cov.shape", {}, cov, out["cov"])
    elif out["kind"] == "predict":
        m, vn = build_model(pat, edges, rng)
        missing = sorted(out["missing"])
        feats = {"missing": "1" if len(missing) == 1 else ">=2"}
        observed = [v for v in pat["nodes"] if v not in missing]
        calls += 1
        try:
            toks, means, cov = call_predict(m, vn, observed, pat["rows"], rng)
        except Exception as ex:  # noqa
            fail(L + "predict", "raises", feats, repr(ex)[:200])
            return calls
        if sorted(map(str, toks)) != missing or len(toks) != len(missing):
            fail(L + "predict", "variables", feats, toks, missing)
            return calls
        if means is None:
            fail(L + "predict", "mean.shape", feats)
            return calls
        for r, exp in enumerate(out["mean"]):
            if _cmp_vec(means[r], exp):
                fail(L + "predict", "mean", feats, means[r], exp)
                return calls
        c = _cmp_mat(cov, out["cov"])
        if c == "value":
            feats = dict(feats, variances_ok=all(_close(cov[v][v], out["cov"][v][v]) for v in missing))
        if c:
            fail(L + "predict", "cov" if c == "value" else "cov.shape", feats, cov, out["cov"])
    elif out["kind"] == "fit":
        m, vn = build_model(pat, edges, rng, with_cpds=False)
        inv = {c: t for t, c in vn.items()}
        df = _frame(pat["data"], pat["nodes"], vn, rng)
        calls += 1
        try:
            m.fit(df)
        except Exception as ex:  # noqa
            fail(L + "fit", "raises", {}, repr(ex)[:200])
            return calls
        got = {}
        for cpd in m.cpds:
            got[inv.get(cpd.variable)] = cpd
        if set(got) != set(pat["nodes"]) or len(m.cpds) != len(pat["nodes"]):
            fail(L + "fit", "cpd_set", {}, sorted(map(str, got)))
            return calls
        for v in pat["nodes"]:
            exp, cpd = out["cpds"][v], got[v]
            coef = _obj(exp["coef"])
            feats = {"has_parents": bool(coef)}
            ev = [inv.get(x) for x in cpd.evidence]
            if sorted(map(str, ev)) != sorted(coef) or len(cpd.mean) != len(ev) + 1:
                fail(L + "fit", "evidence", feats, ev, sorted(coef))
                return calls
            if not _close(cpd.mean[0], exp["b0"]):
                fail(L + "fit", "intercept", feats, float(cpd.mean[0]), exp["b0"])
                return calls
            for i, p in enumerate(ev):
                if not _close(cpd.mean[i + 1], coef[p]):
                    fail(L + "fit", "coefficient", feats, float(cpd.mean[i + 1]), coef[p])
                    return calls
            if not _close(cpd.variance, exp["var"]):
                fail(L + "fit", "variance", feats, float(cpd.variance), exp["var"])
                return calls
        # the CPD-level estimator of the anchored class: same least-squares coefficients, sigma = sqrt(RSS / n)
        from ..concretise import shuffled
        for v in pat["nodes"]:
            exp = out["cpds"][v]
            coef = _obj(exp["coef"])
            if not coef or exp["rss"][0] == 0:
                continue
            ps = shuffled(sorted(coef), rng)
            cpd = LinearGaussianCPD(vn[v], [0.0] * (len(ps) + 1), 1.0, [vn[p] for p in ps])
            d2 = df.rename(columns={vn[v]: "(Y|X)"})[[vn[p] for p in ps] + ["(Y|X)"]]
            calls += 1
            try:
                beta, sigma = cpd.fit(d2, states=list(d2.columns), estimator="MLE")
            except Exception as ex:  # noqa
                fail("LinearGaussianCPD.fit", "raises", {}, repr(ex)[:200])
                return calls
            beta = [float(x) for x in beta]
            if len(beta) != len(ps) + 1 or not _close(beta[0], exp["b0"]) or not all(_close(beta[i + 1], coef[p]) for i, p in enumerate(ps)):
                fail("LinearGaussianCPD.fit", "coefficient", {}, beta, {"b0": exp["b0"], "coef": coef, "order": ps})
                return calls
            if not (float(sigma) >= 0 and _close(float(sigma) ** 2, exp["s2n"])):
                fail("LinearGaussianCPD.fit", "sigma", {}, float(sigma), {"sigma_squared": exp["s2n"]})
                return calls
    return calls


# ---------------------------------------------------------------- Gaussian / canonical objects
_UNIT = [1.0]      # unit of measurement of the current case: every variable is x' = s * x (mean * s, covariance * s^2, K / s^2, h / s);
#                     answers are converted back before they are compared with the specification's (unit 1) values


def _mk_gauss(j, vn, rng):
    from pgmpy.factors.distributions import GaussianDistribution
    from ..concretise import shuffled
    o = shuffled(sorted(j["S"]), rng)
    u = _UNIT[0]
    return GaussianDistribution([vn[v] for v in o], [_f(j["mu"][v]) * u for v in o], [[_f(j["cov"][a][b]) * u * u for b in o] for a in o])


def _mk_canon(j, vn, rng):
    from pgmpy.factors.continuous import CanonicalDistribution
    from ..concretise import shuffled
    o = shuffled(sorted(j["S"]), rng)
    u = _UNIT[0]
    return CanonicalDistribution([vn[v] for v in o], [[_f(j["K"][a][b]) / (u * u) for b in o] for a in o], [[_f(j["h"][v]) / u] for v in o], sym_eval(j["g"]))


def _chk_gauss(obj, exp, inv):
    """clause or None: projection by the object's own variable list"""
    import numpy as np
    from pgmpy.factors.distributions import GaussianDistribution
    if not isinstance(obj, GaussianDistribution):
        return "type"
    toks = [inv.get(x) for x in obj.variables]
    if sorted(map(str, toks)) != sorted(exp["S"]) or len(toks) != len(exp["S"]):
        return "scope"
    u = _UNIT[0]
    mean, cov = np.asarray(obj.mean, dtype=float) / u, np.asarray(obj.covariance, dtype=float) / (u * u)
    k = len(toks)
    if mean.shape != (k, 1) or cov.shape != (k, k):
        return "shape"
    if not all(_close(mean[i, 0], exp["mu"][v]) for i, v in enumerate(toks)):
        return "mean"
    if not all(_close(cov[i, j], exp["cov"][v][u]) for i, v in enumerate(toks) for j, u in enumerate(toks)):
        return "cov"
    if "prec" in exp:          # the (cached) information matrix must describe the same density
        K = np.asarray(obj.precision_matrix, dtype=float) * (u * u)
        if K.shape != (k, k) or not all(_close(K[i, j], exp["prec"][v][u]) for i, v in enumerate(toks) for j, u in enumerate(toks)):
            return "precision_matrix"
    return None


def _chk_canon(obj, exp, inv):
    import numpy as np
    from pgmpy.factors.continuous import CanonicalDistribution
    if not isinstance(obj, CanonicalDistribution):
        return "type"
    toks = [inv.get(x) for x in obj.variables]
    if sorted(map(str, toks)) != sorted(exp["S"]) or len(toks) != len(exp["S"]):
        return "scope"
    u = _UNIT[0]
    K, h = np.asarray(obj.K, dtype=float) * (u * u), np.asarray(obj.h, dtype=float) * u
    k = len(toks)
    if K.shape != (k, k) or h.shape != (k, 1):
        return "shape"
    if not all(_close(K[i, j], exp["K"][v][u]) for i, v in enumerate(toks) for j, u in enumerate(toks)):
        return "K"
    if not all(_close(h[i, 0], exp["h"][v]) for i, v in enumerate(toks)):
        return "h"
    if u != 1.0:
        return None          # (the constant g picks up Jacobian terms under a change of unit: compared at unit 1 only)
    e = sym_eval(exp["g"])
    try:
        g = float(obj.g)
    except (TypeError, ValueError):
        return "g"
    if not (g == g and abs(g - e) <= TOL * max(1.0, abs(e))):
        return "g"
    return None


def replay_gd_case(case, seed, fails, hs):
    from ..concretise import shuffled
    rng = random.Random(seed)
    o = case["out"]
    op = o["op"]
    canon = op.startswith("c_") or op == "to_joint"
    toks = sorted(set(o["a"]["S"]) | set(o.get("b", {}).get("S", [])))
    vn = _names(toks, rng, rng.choice(["str", "str", "int", "tuple"]))
    inv = {c: t for t, c in vn.items()}
    mk, chk = (_mk_canon, _chk_canon) if canon else (_mk_gauss, _chk_gauss)
    cls = "CanonicalDistribution." if canon else "GaussianDistribution."
    meth = {"c_marginalize": "marginalize", "c_reduce": "reduce", "c_product": "product", "to_joint": "to_joint_gaussian",
            "to_canonical": "to_canonical_factor"}.get(op, op)
    ip = bool(o.get("inplace", False))
    feats = {"inplace": ip} if "inplace" in o else {}
    # the same density in another unit of measurement (standard deviations around 1e5 or 1e-4): the specification's answer converted
    _UNIT[0] = 1.0 if op == "pdf" else rng.choice([1.0, 1.0, 1.0, 1.0, 1e5, 1e-4])
    if _UNIT[0] != 1.0:
        feats["unit"] = _UNIT[0]

    def fail(clause, obs=None, exp=None):
        fails.append({"api": cls + meth, "clause": clause, "features": feats,
                      "case": {"kind": "gd", "case": case, "seed": seed, "hashseed": hs}, "observed": obs, "expected": exp})
    if op == "pdf":
        at = _obj(o["at"])
        want = sym_eval(o["res"])
        for nm, obj in (("GaussianDistribution.assignment", _mk_gauss(o["a"], vn, rng)), ("CanonicalDistribution.assignment", _mk_canon(o["c"], vn, rng))):
            try:
                val = float(obj.assignment(*[float(_f(at[inv[x]])) for x in obj.variables]))
                ok = val > 0 and abs(math.log(val) - want) <= TOL * max(1.0, abs(want))
            except Exception as ex:  # noqa
                val, ok = repr(ex)[:200], False
            if not ok:
                fails.append({"api": nm, "clause": "value", "features": {}, "case": {"kind": "gd", "case": case, "seed": seed, "hashseed": hs},
                              "observed": val, "expected": {"log_density": o["res"], "evaluated": want}})
        return 2
    a = mk(o["a"], vn, rng)
    b = None
    if "b" in o:
        b = a if o["same"] else mk(o["b"], vn, rng)
    if not canon and rng.random() < 0.6:
        a.precision_matrix                      # fill the cache: a stale cache after the call would misdescribe the result
    try:
        if meth == "marginalize":
            r = a.marginalize([vn[v] for v in shuffled(o["vars"], rng)], inplace=ip)
        elif meth == "reduce":
            at = _obj(o["at"])
            r = a.reduce([(vn[v], float(_f(at[v])) * _UNIT[0]) for v in shuffled(sorted(at), rng)], inplace=ip)
        elif meth == "product":
            r = a.product(b, inplace=ip)
        elif meth == "to_canonical_factor":
            r = a.to_canonical_factor()
        else:
            r = a.to_joint_gaussian()
    except Exception as ex:  # noqa
        fail("raises", repr(ex)[:200])
        return 1
    if ip:
        if r is not None:
            fail("inplace_returns_object", repr(r)[:100])
            return 1
        res = a
    else:
        res = r
        if res is None or res is a or (b is not None and res is b):
            fail("no_new_object", repr(r)[:100])
            return 1
    if op == "to_canonical":
        c = _chk_canon(res, o["res"], inv)
    elif op == "to_joint":
        c = _chk_gauss(res, o["res"], inv)
    else:
        c = chk(res, o["res"], inv)
    if c and ip and chk(a, o["a"], inv) is None:
        c = None
        fail("inplace_no_effect", "self is unchanged after the in-place call", o["res"])
        return 1
    if c:
        obs = None
        try:
            obs = {"variables": [str(inv.get(x)) for x in res.variables],
                   **({"K": res.K.tolist(), "h": res.h.tolist(), "g": float(res.g)} if hasattr(res, "K") else
                      {"mean": res.mean.tolist(), "cov": res.covariance.tolist()})}
        except Exception:  # noqa
            pass
        fail("result." + c, obs, o["res"])
        return 1
    # frame: operands that the call must not change
    if not ip:
        c = chk(a, o["a"], inv)
        if c:
            fail("frame.self_changed." + c)
            return 1
    if b is not None and b is not a:
        c = chk(b, o["b"], inv)
        if c:
            fail("frame.other_changed." + c)
    return 1


# ---------------------------------------------------------------- RECORD side
def _rat(x):
    """nearest small rational that fits TLC's 32-bit integers"""
    try:
        x = float(x)
    except (TypeError, ValueError):
        return [10 ** 9, 1]
    if x != x or abs(x) > 1e6:
        return [10 ** 9, 1]
    f = Fraction(x).limit_denominator(min(10 ** 6, int(2e9 / max(1.0, abs(x)))))
    return [f.numerator, f.denominator]


def _rand_model(rng, n):
    nodes = [f"v{i}" for i in range(n)]
    edges = _rand_dag(rng, nodes, rng.choice([0.3, 0.4, 0.5]))
    w = {v: {} for v in nodes}
    for p, c in edges:
        w[c][p] = _q(rng.choice([1, -1, 1, -1, 2]))
    return {"nodes": nodes, "edges": edges, "w": w, "b0": {v: _q(rng.randint(-3, 3)) for v in nodes},
            "var": {v: _q(rng.choice([1, 1, 2])) for v in nodes}}


def record(spec):
    hs = int(os.environ.get("PYTHONHASHSEED", "0"))
    plans = []
    if "rerun" in spec:
        t = spec["rerun"]
        plans.append((t, t["tid"], t["seed"], [{"ev": s["ev"], "observed": s.get("observed"), "rows": s.get("rows")} for s in t["steps"]]))
    else:
        rng0 = random.Random(spec["seed"])
        for i in range(spec["n"]):
            mdl = _rand_model(rng0, rng0.choice([5, 5, 6]))
            n = len(mdl["nodes"])
            steps = [{"ev": "joint"}]
            for _ in range(3):
                k = 1 if spec.get("single_only") else rng0.choice([1, 1, 2, 2, 3])
                k = max(k, n - 4)                      # at most 4 observed columns (4 x 4 exact inverse in TLC)
                if spec.get("single_only"):
                    k = 1
                missing = rng0.sample(mdl["nodes"], k)
                observed = [v for v in mdl["nodes"] if v not in missing]
                steps.append({"ev": "predict", "observed": observed,
                              "rows": [{v: _q(rng0.randint(-3, 3)) for v in observed} for _ in range(2)]})
            if spec.get("single_only"):
                mdl = _rand_model(rng0, 5)
                steps = [steps[0]] + [{"ev": "predict", "observed": [v for v in mdl["nodes"] if v != mv],
                                       "rows": [{v: _q(rng0.randint(-3, 3)) for v in mdl["nodes"] if v != mv} for _ in range(2)]}
                                      for mv in rng0.sample(mdl["nodes"], 2)]
            plans.append((mdl, spec["tid0"] + i, rng0.randrange(10 ** 9), steps))
    out, calls = [], 0
    for mdl, tid, seed, steps in plans:
        rng = random.Random(seed)
        pat = {"nodes": mdl["nodes"], "w": mdl["w"], "b0": mdl["b0"], "var": mdl["var"]}
        m, vn = build_model(pat, mdl["edges"], rng)
        logged, raws = [], []
        for st in steps:
            calls += 1
            if st["ev"] == "joint":
                try:
                    mean, cov = call_joint(m, vn)
                except Exception:  # noqa
                    mean, cov = {}, {}
                logged.append({"ev": "joint", "mean": {v: _rat(x) for v, x in mean.items()},
                               "cov": {v: {u: _rat(x) for u, x in row.items()} for v, row in cov.items()}})
                raws.append({"mean": mean, "cov": cov})
            else:
                try:
                    toks, means, cov = call_predict(m, vn, st["observed"], st["rows"], rng)
                except Exception:  # noqa
                    toks, means, cov = [], None, None
                toks = [str(t) for t in toks]
                means = means if means is not None else []
                cov = cov if cov is not None else {}
                logged.append({"ev": "predict", "observed": st["observed"], "rows": st["rows"], "vars": toks,
                               "mean": [{v: _rat(x) for v, x in row.items()} for row in means],
                               "cov": {v: {u: _rat(x) for u, x in row.items()} for v, row in cov.items()}})
                raws.append({"mean": means, "cov": cov})
        out.append({"tid": tid, "seed": seed, "hashseed": hs, "nodes": mdl["nodes"], "edges": mdl["edges"], "w": mdl["w"],
                    "b0": mdl["b0"], "var": mdl["var"], "steps": logged, "raw": raws})
    return out, calls


def work(payload):
    hs = int(os.environ.get("PYTHONHASHSEED", "0"))
    fails, calls, n = [], 0, 0
    pats = {p["id"]: p for p in payload.get("pats", [])}
    for case, seed in payload.get("lgbn", []):
        del _FRAMES[:]
        calls += replay_lgbn_case(pats[case["pat"]], case, seed, fails, hs)
        from ..frames import df_snapshot
        if any(df_snapshot(df_) != sn_ for df_, sn_ in _FRAMES):
            fails.append({"api": "LinearGaussianBayesianNetwork." + case["out"]["kind"], "clause": "data_argument_changed", "features": {},
                          "case": {"kind": "lgbn", "pat": pats[case["pat"]], "case": case, "seed": seed, "hashseed": hs},
                          "observed": None, "expected": "the data frame as passed in"})
        n += 1
    for case, seed in payload.get("gd", []):
        calls += replay_gd_case(case, seed, fails, hs)
        n += 1
    traces = []
    if payload.get("record"):
        traces, c = record(payload["record"])
        calls += c
    # keep one representative per signature plus a count (thousands of cases may share one defect)
    sig, kept = {}, []
    for f in fails:
        k = (f["api"], f["clause"], json.dumps(f["features"], sort_keys=True))
        sig[k] = sig.get(k, 0) + 1
        if sig[k] <= 5:
            kept.append(f)
    return {"n": n, "calls": calls, "fails": kept, "fail_counts": {" ".join(k): v for k, v in sig.items()}, "traces": traces}
