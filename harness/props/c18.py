"""C18 independence reasoning: Gen_C18 (closure of premise sets; joint tables: independence truth table, context-specific,
I-map DAG set) and Gen_C12's equivalence classes -> replay on Independencies, DAG.is_iequivalent, JointProbabilityDistribution."""
import itertools
import json
import os
import random

from .. import instances
from ..core import Machinery, chunks, run_workers
from . import c12

V4 = '{"v0","v1","v2","v3"}'
V3 = '{"v0","v1","v2"}'


def cfg(vars_, mode, maxprem):
    s = f'CONSTANT Vars = {vars_}\nCONSTANT Mode = "{mode}"\nCONSTANT MaxPrem = {maxprem}\nINIT Init\nNEXT Next\n'
    if mode == "closure":
        s += "INVARIANT AxiomsSoundForDSep\n"
    return s + "INVARIANT Emit\n"


def joint_instances(rng, n):
    out = []
    vs = ["v0", "v1", "v2"]
    for k in range(n):
        dom = {v: [f"s{j}" for j in range(rng.choice([2, 2, 3]))] for v in vs}
        kind = ["generic", "product", "context", "product"][k % 4]
        cells = []
        if kind == "product":
            shape = rng.choice(["chain3", "fork3", "collider3", "pair_iso", "tri3"])
            nn, edges = instances.SHAPES[shape]
            perm = vs[:]
            rng.shuffle(perm)
            inst = instances.bn_instance(rng, k, 3, edges, [len(dom[perm[i]]) for i in range(3)], "generic", dens=(6, 10))
            # joint weight = product of CPD numerators (exact), variables renamed by perm
            for combo in itertools.product(*[inst["states"][f"v{i}"] for i in range(3)]):
                a = dict(zip([f"v{i}" for i in range(3)], combo))
                w = 1
                for v in inst["nodes"]:
                    ps = inst["parents"][v]
                    col = 0
                    for p in ps:
                        col = col * len(inst["states"][p]) + inst["states"][p].index(a[p])
                    w *= inst["cpd"][v]["tab"][inst["states"][v].index(a[v])][col]
                cells.append({"a": {perm[i]: combo[i] for i in range(3)}, "w": w})
            dom = {perm[i]: inst["states"][f"v{i}"] for i in range(3)}
        else:
            for combo in itertools.product(*[dom[v] for v in vs]):
                cells.append({"a": dict(zip(vs, combo)), "w": rng.randint(1, 30)})
            if kind == "context":
                # v0 _|_ v1 in the context v2 = s0 only: make that slice a product table
                r0 = [rng.randint(1, 5) for _ in dom["v0"]]
                r1 = [rng.randint(1, 5) for _ in dom["v1"]]
                for c in cells:
                    if c["a"]["v2"] == "s0":
                        c["w"] = r0[dom["v0"].index(c["a"]["v0"])] * r1[dom["v1"].index(c["a"]["v1"])]
        out.append({"id": k + 1, "kind": kind, "vars": vs, "dom": dom, "cells": cells})
    return out


def run(ctx):
    ctx.rule = ("closure: every premise set of <=2 assertions with events of size <=2 over 4 variables (TLC-enumerated), closure compared as a "
                "set; entails/is_equivalent on pairs drawn from the same family; is_iequivalent: all pairs of DAGs on <=3 nodes and all "
                "same-skeleton pairs + sampled others on 4 nodes; joints over 3 variables (generic / product-form / context-specific): "
                "all (X,Y,Z) checks, all orders for minimal_imap. distinct = premise sets, DAG pairs, (joint, query) triples.")
    ctx.assumptions += ["independence on joint tables is exact (rational product forms) or violated by >=1e-3, away from the equality tolerance",
                        "events of check_independence are single variables (the property speaks of two variables)"]
    rng = random.Random(ctx.seed + 18)
    empty = os.path.join(ctx.work, "nojoints.json")
    with open(empty, "w") as f:
        json.dump([], f)
    r = ctx.tlc("Gen_C18", cfg(V4, "closure", 2), env={"INST_FILE": empty}, tag="Gen_closure", coverage=True, timeout=7200)
    closures = r.prints
    joints = joint_instances(rng, 24 if ctx.thorough else 12)
    jf = os.path.join(ctx.work, "joints.json")
    with open(jf, "w") as f:
        json.dump(joints, f)
    r = ctx.tlc("Gen_C18", cfg(V3, "joint", 0), env={"INST_FILE": jf}, tag="Gen_joint", coverage=True)
    jcases = r.prints
    r = ctx.tlc("Gen_C12", c12.cfg(c12.N4, "pc", lemmas=False), tag="Gen_classes4")
    cls4 = r.prints
    r = ctx.tlc("Gen_C12", c12.cfg(c12.N3, "pc", lemmas=False), tag="Gen_classes3")
    cls3 = r.prints
    # DAG pairs
    pairs = []
    for a in cls3:
        members = {json.dumps(sorted(m)) for m in a["class"]}
        for b in cls3:
            pairs.append({"nodes": a["nodes"], "e1": a["edges"], "e2": b["edges"], "equiv": json.dumps(sorted(b["edges"])) in members})
    by_skel = {}
    for a in cls4:
        by_skel.setdefault(json.dumps(sorted(map(sorted, a["skeleton"]))), []).append(a)
    for grp in by_skel.values():
        for a in grp:
            members = {json.dumps(sorted(m)) for m in a["class"]}
            others = grp if (ctx.thorough or len(grp) <= 8) else rng.sample(grp, 8)
            for b in others:
                pairs.append({"nodes": a["nodes"], "e1": a["edges"], "e2": b["edges"], "equiv": json.dumps(sorted(b["edges"])) in members})
    for a in rng.sample(cls4, 300):
        b = rng.choice(cls4)
        members = {json.dumps(sorted(m)) for m in a["class"]}
        pairs.append({"nodes": a["nodes"], "e1": a["edges"], "e2": b["edges"], "equiv": json.dumps(sorted(b["edges"])) in members})
    for p in pairs:
        ctx.count(("pair", json.dumps([sorted(p["e1"]), sorted(p["e2"])])), nontrivial=bool(p["e1"]) and bool(p["e2"]), n=0)
    for c in closures:
        ctx.count(("cl", json.dumps(c["prem"], sort_keys=True)), n=0)
    for j in jcases:
        ctx.count(("joint", j["id"]), n=0)
    ctx.sample({"kind": "closure", "prem": closures[-1]["prem"], "closure_size": len(closures[-1]["closure"])})
    ctx.sample({"kind": "joint", "id": jcases[0]["id"], "indep": jcases[0]["indep"][:3], "n_imaps": len(jcases[0]["imaps"])})
    ctx.extra["dag_pairs"] = len(pairs)
    ctx.extra["equivalent_pairs"] = sum(p["equiv"] for p in pairs)
    hseeds = [0, 1]
    pl = []
    for hs in hseeds:
        for j, (a, b, c) in enumerate(zip(chunks(closures, 8), chunks(pairs, 8), chunks(jcases, 8))):
            pl.append((hs, {"closures": a, "pairs": b, "jcases": c, "joints": joints, "seed": ctx.seed * 100 + hs * 8 + j}))
    for res in run_workers(ctx, "c18", "replay_gen", pl):
        ctx.traces += res["n"]
        ctx.evaluations += res["calls"]
        for fl in res["fails"]:
            ctx.violation(fl)


def replay(ctx, rec):
    c = rec["case"]
    pay = {"closures": [], "pairs": [], "jcases": [], "joints": c.get("joints", []), "seed": c["seed"]}
    pay[c["slot"]] = [c["expected"]]
    res = run_workers(ctx, "c18", "replay_gen", [(c["hashseed"], pay)])[0]
    return res["fails"][:1] or None


def selftest(ctx):
    p = {"nodes": ["v0", "v1", "v2"], "e1": [["v0", "v2"], ["v1", "v2"]], "e2": [["v2", "v0"], ["v2", "v1"]], "equiv": True}  # wrong on purpose
    res = run_workers(ctx, "c18", "replay_gen", [(0, {"closures": [], "pairs": [p], "jcases": [], "joints": [], "seed": 1})])[0]
    if not res["fails"]:
        raise Machinery("selftest: collider vs fork reported I-equivalent was accepted")


# =========================================================================== worker side
def replay_gen(payload):
    import numpy as np
    from pgmpy.base import DAG
    from pgmpy.factors.discrete import JointProbabilityDistribution as JPD
    from pgmpy.independencies import Independencies
    from ..concretise import shuffled, var_names
    rng = random.Random(payload["seed"])
    hs = int(os.environ.get("PYTHONHASHSEED", "0"))
    fails, ncalls = [], 0

    def fail(api, clause, slot, case, obs, exp=None, **feat):
        fails.append({"api": api, "clause": clause, "features": feat,
                      "case": {"slot": slot, "expected": case, "seed": payload["seed"], "hashseed": hs,
                               "joints": [j for j in payload["joints"] if slot == "jcases" and j["id"] == case.get("id")]},
                      "observed": obs, "expected": exp})

    def akey(x, y, z):
        return (frozenset([frozenset(x), frozenset(y)]), frozenset(z))
    allc = payload["closures"]
    for ci, c in enumerate(allc):
        vn = var_names(["v0", "v1", "v2", "v3"], rng, "str")
        inv = {k: t for t, k in vn.items()}

        def mk(prem):
            return Independencies(*[[[vn[v] for v in shuffled(a["x"], rng)], [vn[v] for v in shuffled(a["y"], rng)], [vn[v] for v in a["z"]]]
                                    if rng.random() < 0.5 else
                                    [[vn[v] for v in a["y"]], [vn[v] for v in a["x"]], [vn[v] for v in a["z"]]] for a in shuffled(prem, rng)])
        ind = mk(c["prem"])
        ncalls += 1
        got = {akey([inv[v] for v in a.event1], [inv[v] for v in a.event2], [inv[v] for v in a.event3]) for a in ind.closure().get_assertions()}
        exp = {akey(a["x"], a["y"], a["z"]) for a in c["closure"]}
        loose = {akey(a["x"], a["y"], a["z"]) for a in c["loose"]}
        if got != exp:
            extra, missing = got - exp, exp - got
            fail("Independencies.closure", "unsound_derivation" if extra else "incomplete", "closures", c,
                 {"extra": [[sorted(map(sorted, k[0])), sorted(k[1])] for k in list(extra)[:3]],
                  "missing": [[sorted(map(sorted, k[0])), sorted(k[1])] for k in list(missing)[:3]]},
                 matches_known_loose_contraction=(got == loose))
            continue
        # the returned closure is a NEW object: mutating it must not change what the original entails (no shared cache)
        o2 = allc[(ci * 5 + 1) % len(allc)]
        extra_a = next((a for a in o2["closure"] if akey(a["x"], a["y"], a["z"]) not in exp and akey(a["x"], a["y"], a["z"]) not in loose), None)
        if extra_a is not None:
            cobj = ind.closure()
            cobj.add_assertions([[vn[v] for v in extra_a["x"]], [vn[v] for v in extra_a["y"]], [vn[v] for v in extra_a["z"]]])
            ncalls += 1
            again = {akey([inv[v] for v in a.event1], [inv[v] for v in a.event2], [inv[v] for v in a.event3]) for a in ind.closure().get_assertions()}
            if again != got:
                fail("Independencies.closure", "changed_by_mutating_an_earlier_result", "closures", c,
                     {"added": extra_a, "now_contains_it": akey(extra_a["x"], extra_a["y"], extra_a["z"]) in again})
                continue
        # entails / is_equivalent against another premise set of the batch
        o = allc[(ci * 7 + 3) % len(allc)]
        oexp = {akey(a["x"], a["y"], a["z"]) for a in o["closure"]}
        oprem = {akey(a["x"], a["y"], a["z"]) for a in o["prem"]}
        cprem = {akey(a["x"], a["y"], a["z"]) for a in c["prem"]}
        ind2 = mk(o["prem"])
        ncalls += 2
        oloose = {akey(a["x"], a["y"], a["z"]) for a in o["loose"]}
        e1 = bool(ind.entails(ind2))
        if e1 != (oprem <= exp):
            fail("Independencies.entails", "value", "closures", c, e1, oprem <= exp, matches_known_loose_contraction=(e1 == (oprem <= loose)))
        e2 = bool(ind.is_equivalent(ind2))
        if e2 != (oprem <= exp and cprem <= oexp):
            fail("Independencies.is_equivalent", "value", "closures", c, e2, None,
                 matches_known_loose_contraction=(e2 == (oprem <= loose and cprem <= oloose)))
    for p in payload["pairs"]:
        vn = var_names(p["nodes"], rng, "str")
        def construct(es):
            """the same graph written down in one of several ways (the node attribute dictionaries networkx keeps differ between them)"""
            from pgmpy.models import BayesianNetwork
            el = [(vn[u], vn[v]) for u, v in shuffled(es, rng)]
            style = rng.choice(["nodes_then_edges", "edge_list", "edge_list_bn_copy", "weights"])
            if style == "nodes_then_edges":
                g = DAG()
                g.add_nodes_from([vn[v] for v in shuffled(p["nodes"], rng)])
                g.add_edges_from(el)
            elif style == "weights":
                g = DAG()
                for v in shuffled(p["nodes"], rng):
                    g.add_node(vn[v], weight=rng.choice([None, 0.5, 2]))
                for a, b in el:
                    g.add_edge(a, b, weight=rng.choice([None, 1.5]))
            else:
                g = (BayesianNetwork if style == "edge_list_bn_copy" else DAG)(el)
                for v in p["nodes"]:
                    if vn[v] not in g.nodes():
                        g.add_node(vn[v])
                if style == "edge_list_bn_copy":
                    g = g.copy()
            return g
        g1, g2 = construct(p["e1"]), construct(p["e2"])
        ncalls += 1
        got = bool(g1.is_iequivalent(g2))
        if got != p["equiv"]:
            fail("DAG.is_iequivalent", "reports_equivalent" if got else "reports_different", "pairs", p, got, p["equiv"])
    joints = {j["id"]: j for j in payload["joints"]}
    for jc in payload["jcases"]:
        j = joints[jc["id"]]
        vs = shuffled(j["vars"], rng)
        vn = var_names(j["vars"], rng, "str")
        inv = {k: t for t, k in vn.items()}
        card = [len(j["dom"][v]) for v in vs]
        tot = sum(c["w"] for c in j["cells"])
        vals = np.zeros(card)
        for c in j["cells"]:
            vals[tuple(j["dom"][v].index(c["a"][v]) for v in vs)] = c["w"] / tot
        jpd = JPD([vn[v] for v in vs], card, vals.flatten())
        for t in jc["indep"]:
            ncalls += 1
            try:
                got = bool(jpd.check_independence([vn[t["x"]]], [vn[t["y"]]], [vn[z] for z in t["z"]] or None, condition_random_variable=True))
            except Exception as ex:  # noqa
                fail("JPD.check_independence", "raises", "jcases", jc, repr(ex)[:200], t, kind=j["kind"])
                break
            if got != t["holds"]:
                fail("JPD.check_independence", "reports_independent" if got else "reports_dependent", "jcases", jc, t, None, kind=j["kind"], cond=len(t["z"]))
                break
        for t in jc["ctx"]:
            ncalls += 1
            cvar, cstate = next(iter(t["c"].items()))
            try:
                got = bool(jpd.check_independence([vn[t["x"]]], [vn[t["y"]]], [(vn[cvar], j["dom"][cvar].index(cstate))], condition_random_variable=False))
            except Exception as ex:  # noqa
                fail("JPD.check_independence", "context_raises", "jcases", jc, repr(ex)[:200], t, kind=j["kind"])
                break
            if got != t["holds"]:
                fail("JPD.check_independence", "context_value", "jcases", jc, t, None, kind=j["kind"])
                break
        imaps = {frozenset(tuple(e) for e in m) for m in jc["imaps"]}
        for order in itertools.permutations(j["vars"]):
            ncalls += 1
            try:
                g = jpd.minimal_imap([vn[v] for v in order])
            except Exception as ex:  # noqa
                fail("JPD.minimal_imap", "raises", "jcases", jc, repr(ex)[:200], list(order), kind=j["kind"])
                break
            got = frozenset((inv[u], inv[v]) for u, v in g.edges())
            if got not in imaps:
                code = next(frozenset(tuple(e) for e in ci["edges"]) for ci in jc["codeimap"] if list(ci["order"]) == list(order))
                fail("JPD.minimal_imap", "encodes_false_independence", "jcases", jc, {"order": list(order), "edges": sorted(got)}, None,
                     matches_known_union_rule=(got == code))
                break
    return {"n": len(payload["closures"]) + len(payload["pairs"]) + len(payload["jcases"]), "calls": ncalls, "fails": fails[:80]}
