"""C04 factor algebra: Gen_C04 (all single ops + simulated sequences, oracle laws) -> replay; random sequences -> Trace_C04."""
import itertools
import json
import os
import random
from fractions import Fraction

from ..core import Machinery, chunks, run_workers

VARS = ["v0", "v1", "v2", "v3", "v4"]


def make_pool(rng, pid, nvars=3, nfac=3, maxcard=3, zeros=True):
    vs = VARS[:nvars]
    dom = {v: [f"s{j}" for j in range(rng.choice([1, 2, 2, 3, 3][:maxcard + 2]) if rng.random() < 0.9 else 1)] for v in vs}
    for v in vs:
        dom[v] = dom[v][:maxcard]
    facs = []
    used = []
    for k in range(nfac):
        sz = rng.choice([0, 1, 1, 2, 2, 3][:2 + 2 * min(2, nvars)]) if k else min(2, nvars)
        sz = min(sz, nvars)
        scope = sorted(rng.sample(vs, sz))
        cells = []
        pal = list(range(1, 10))
        for combo in itertools.product(*[dom[v] for v in scope]):
            n = rng.choice(pal)
            if zeros and rng.random() < 0.15:
                n = 0
            cells.append({"a": dict(zip(scope, combo)), "n": n, "d": 1})
        facs.append({"scope": scope, "cells": cells})
    # a duplicate of an existing factor (equal content, distinct object) for equality / aliasing tests
    if nfac >= 3:
        facs[-1] = json.loads(json.dumps(facs[0]))
        if rng.random() < 0.5 and facs[-1]["cells"]:
            facs[-1]["cells"][0]["n"] += 1
    return {"id": pid, "dom": dom, "factors": facs}


def cfg_gen(depth, maxobjs, emit_all, laws=True, nsim=0):
    s = f"CONSTANT MaxDepth = {depth}\nCONSTANT MaxObjs = {maxobjs}\nCONSTANT EmitAll = {'TRUE' if emit_all else 'FALSE'}\nCONSTANT NSim = {nsim}\nINIT Init\nNEXT Next\n"
    if laws:
        s += "INVARIANT LawCommute\nINVARIANT LawMargOrder\nINVARIANT LawReduceMarg\nINVARIANT LawDistribute\n"
    return s + "INVARIANT Emit\n"


CFG_TRACE = "INIT Init\nNEXT Next\nINVARIANT Report\n"


def run(ctx):
    ctx.rule = ("Gen: pools of 3 base factors over <=3 variables (cards 1-3, zeros, a duplicate factor); every enabled single operation "
                "(exhaustive depth 1) and simulated sequences of depth 4; a behaviour is non-trivial iff it has >=1 step; distinct = "
                "distinct (pool, op sequence). Trace: random sequences of 8 ops over <=5 variables.")
    ctx.assumptions += ["operands sharing a variable agree on its state list (property precondition)",
                        "NaN-producing arithmetic (inf*0, inf/inf) is not specified and not generated",
                        "values are small rationals; floats compared at 1e-9"]
    rng = random.Random(ctx.seed + 4)
    pools = [make_pool(rng, i + 1) for i in range(6 if ctx.thorough else 3)]
    # a pool over FOUR variables with a 4-variable and a 3-variable factor: products of nested scopes that share 3 variables
    # (with 3 shared axes the relative axis order can be a permutation that is not its own inverse)
    p4 = make_pool(rng, len(pools) + 1, nvars=4, nfac=3, maxcard=2, zeros=False)
    vs4 = VARS[:4]
    for fac, sc in ((p4["factors"][0], vs4), (p4["factors"][1], sorted(rng.sample(vs4, 3)))):
        fac["scope"] = list(sc)
        fac["cells"] = [{"a": dict(zip(sc, combo)), "n": rng.randint(1, 9), "d": 1} for combo in itertools.product(*[p4["dom"][v] for v in sc])]
    p4["factors"][2] = json.loads(json.dumps(p4["factors"][1]))
    pools.append(p4)
    f = os.path.join(ctx.work, "pools.json")
    with open(f, "w") as fh:
        json.dump(pools, fh)
    r1 = ctx.tlc("Gen_C04", cfg_gen(1, 4, False), env={"INST_FILE": f}, tag="Gen_depth1", coverage=True)
    behs = list(r1.prints)
    nsim = 1500 if ctx.thorough else 200       # sampled behaviours per pool
    r2 = ctx.tlc("Gen_C04", cfg_gen(4, 7, False, laws=True, nsim=nsim), env={"INST_FILE": f}, tag="Gen_sampled", seed=ctx.seed + 11)
    behs += r2.prints
    if ctx.thorough:
        r3 = ctx.tlc("Gen_C04", cfg_gen(2, 5, False, laws=True), env={"INST_FILE": f}, tag="Gen_depth2", timeout=7200)
        behs += r3.prints
    ctx.require_actions(["Next"])
    uniq = {}
    for b in behs:
        uniq[json.dumps([b["pool"], [s["o"] for s in b["steps"]]], sort_keys=True)] = b
    behs = list(uniq.values())
    for k in uniq:
        ctx.count(k, nontrivial=True, n=0)
    ctx.sample({"kind": "gen", "pool": behs[0]["pool"], "ops": [s["o"] for s in behs[-1]["steps"]]})
    hseeds = list(range(4)) if ctx.thorough else [0, 1]
    backends = ["numpy", "torch"]
    payloads, meta = [], []
    nper = 16 // (len(hseeds) * len(backends))
    for be in backends:
        pl = []
        for hs in hseeds:
            for j, ch in enumerate(chunks(behs, nper)):
                pl.append((hs, {"pools": pools, "behs": ch, "seed": ctx.seed * 1000 + hs * 13 + j}))
        for res in run_workers(ctx, "c04", "replay_gen", pl, backend=be):
            ctx.traces += res["n"]
            ctx.evaluations += res["calls"]
            for fl in res["fails"]:
                fl["features"]["backend"] = be
                ctx.violation(fl)
    run_factor_sets(ctx, rng, hseeds)
    # ---- RECORD -> VALIDATE
    n = 400 if ctx.thorough else 80
    pl = [(hs, {"seed": ctx.seed * 7919 + hs, "n": n // len(hseeds), "tid0": i * 100000}) for i, hs in enumerate(hseeds)]
    traces = []
    for res in run_workers(ctx, "c04", "record", pl):
        traces += res["traces"]
    validate(ctx, traces)


def make_fs_pool(rng, pid):
    vs = VARS[:3]
    dom = {v: [f"s{j}" for j in range(rng.choice([2, 2, 3]))] for v in vs}

    def fac():
        scope = sorted(rng.sample(vs, rng.choice([1, 2, 2, 3])))
        return {"scope": scope, "cells": [{"a": dict(zip(scope, combo)), "n": rng.randint(1, 4), "d": 1}
                                          for combo in itertools.product(*[dom[v] for v in scope])]}
    sets = [[fac() for _ in range(rng.choice([1, 2]))] for _ in range(2)]
    if rng.random() < 0.5:       # a member present in both sets (equal content)
        sets[1].append(json.loads(json.dumps(sets[0][0])))
    return {"id": pid, "dom": dom, "sets": sets}


def run_factor_sets(ctx, rng, hseeds):
    """FactorSet (Gen_C04S): every behaviour of depth 2 and sampled behaviours of depth 4, the projection of ALL sets after every step"""
    pools = [make_fs_pool(rng, i + 1) for i in range(4 if ctx.thorough else 2)]
    f = os.path.join(ctx.work, "fs_pools.json")
    with open(f, "w") as fh:
        json.dump(pools, fh)
    cfg = "CONSTANT MaxDepth = %d\nCONSTANT MaxObjs = %d\nCONSTANT NSim = %d\nINIT Init\nNEXT Next\nINVARIANT LawMargSingle\nINVARIANT LawMargOrder\nINVARIANT Emit\n"
    behs = list(ctx.tlc("Gen_C04S", cfg % (2, 4, 0), env={"INST_FILE": f}, tag="GenS_depth2", coverage=True, timeout=3600).prints)
    behs += ctx.tlc("Gen_C04S", cfg % (4, 5, 600 if ctx.thorough else 150), env={"INST_FILE": f}, tag="GenS_sampled", seed=ctx.seed + 5).prints
    uniq = {json.dumps([b["pool"], [st["o"] for st in b["steps"]]], sort_keys=True): b for b in behs}
    for k in uniq:
        ctx.count("fs" + k, nontrivial=True, n=0)
    behs = list(uniq.values())
    if not behs:
        raise Machinery("Gen_C04S produced no behaviours")
    pl = []
    for hs in hseeds:
        for j, ch in enumerate(chunks(behs, 16 // len(hseeds))):
            pl.append((hs, {"pools": pools, "behs": ch, "seed": ctx.seed * 1000 + hs * 17 + j}))
    for res in run_workers(ctx, "c04", "replay_fs", pl):
        ctx.traces += res["n"]
        ctx.evaluations += res["calls"]
        for fl in res["fails"]:
            ctx.violation(fl)


def validate(ctx, traces):
    tf = os.path.join(ctx.work, "trace_c04.json")
    with open(tf, "w") as f:
        json.dump([{k: t[k] for k in ("tid", "dom", "factors", "steps")} for t in traces], f)
    r = ctx.tlc("Trace_C04", CFG_TRACE, env={"TRACE_FILE": tf}, tag="Trace", coverage=True)
    by = {t["tid"]: t for t in traces}
    seen = set()
    for p in r.prints:
        tid, v = p["tid"], p["v"]
        seen.add(tid)
        t = by[tid]
        ctx.count(("t", tid), n=len(t["steps"]))
        if v["clause"] == "ACCEPT":
            ctx.traces += 1
            continue
        if v["clause"].endswith(".value") and v["want"][1] > 0:
            raw = t["raw"][v["l"] - 1][v["obj"] - 1].get(json.dumps(v["a"] if isinstance(v["a"], dict) else {}, sort_keys=True))
            if raw is not None and abs(raw - v["want"][0] / v["want"][1]) <= 1e-9 * max(1.0, abs(raw)):
                ctx.artefact(f"C04 trace {tid}: float {raw} vs {v['want']}")
                continue
        ctx.violation({"api": "DiscreteFactor." + t["steps"][v["l"] - 1]["o"]["op"], "clause": v["clause"].split(".", 1)[1],
                       "features": {"inplace": t["steps"][v["l"] - 1]["o"]["inplace"]},
                       "case": {"kind": "trace", "trace": {k: t[k] for k in t if k != "raw"}}, "observed": v, "expected": v["want"]})
    if seen != set(by):
        raise Machinery(f"Trace_C04: verdicts missing for {len(set(by) - seen)} traces")
    if traces:
        ctx.sample({"kind": "trace", "dom": traces[0]["dom"], "ops": [s["o"] for s in traces[0]["steps"]][:4]})


def replay(ctx, rec):
    case = rec["case"]
    if case["kind"] == "fs":
        res = run_workers(ctx, "c04", "replay_fs", [(case["hashseed"], {"pools": [case["pool"]], "behs": [case["beh"]], "seed": case["seed"]})])[0]
        return res["fails"][:1] or None
    if case["kind"] == "gen":
        res = run_workers(ctx, "c04", "replay_gen", [(case["hashseed"], {"pools": [case["pool"]], "behs": [case["beh"]], "seed": case["seed"]})],
                          backend=rec["features"].get("backend", "numpy"))[0]
        return res["fails"][:1] or None
    res = run_workers(ctx, "c04", "record", [(case["trace"].get("hashseed", 0), {"rerun": case["trace"]})])[0]
    n0 = len(ctx.violations)
    validate(ctx, res["traces"])
    return ctx.violations[n0:][:1] or None


def selftest(ctx):
    res = run_workers(ctx, "c04", "record", [(0, {"seed": 9, "n": 6, "tid0": 0})])[0]
    tr = res["traces"]
    t = tr[0]
    c = t["steps"][1]["store"][0]["cells"][0]
    c["n"], c["d"] = c["n"] + 1, max(c["d"], 1)
    t["raw"][1][0][json.dumps(c["a"], sort_keys=True)] = c["n"] / c["d"]
    validate(ctx, tr)
    if not ctx.violations:
        raise Machinery("selftest: corrupted store projection was accepted")
    ctx.violations.clear()


# =========================================================================== worker side
def _rat(x, D=10 ** 6):
    x = float(x)
    if x != x:
        return 0, 0
    if x in (float("inf"), float("-inf")):
        return 1, 0
    f = Fraction(x).limit_denominator(D)
    return f.numerator, f.denominator


class FConc:
    def __init__(self, dom, rng, state_kind="any"):
        from ..concretise import state_names, var_names
        self.vn = var_names(list(dom), rng, "str")
        self.inv = {c: t for t, c in self.vn.items()}
        self.sn = {v: state_names(dom[v], rng, rng.choice(["str", "int", "range", "perm", "tuple", "mixed"]) if state_kind == "any" else state_kind)
                   for v in dom}
        self.dom = dom
        self.rng = rng


def _permuted(f, rng):
    """the same function on named assignments, written down with another axis order and another ORDER OF THE STATES of every variable
    (rotations: for >= 3 states a permutation that is not its own inverse)"""
    import numpy as np
    from pgmpy.factors.discrete import DiscreteFactor
    vs = list(f.variables)
    if not vs:
        return f
    vals = f.values
    vals = np.asarray(vals.detach().cpu().numpy() if hasattr(vals, "detach") else vals, dtype=float)
    order = vs[:]
    rng.shuffle(order)
    vals = np.transpose(vals, [vs.index(v) for v in order])
    sn = {}
    for ax, v in enumerate(order):
        names = list(f.state_names[v])
        k = len(names)
        sh = rng.randrange(1, k) if k > 1 else 0
        perm = [(p + sh) % k for p in range(k)]          # new position p holds the old state perm[p]
        vals = np.take(vals, perm, axis=ax)
        sn[v] = [names[q] for q in perm]
    return DiscreteFactor(order, [len(sn[v]) for v in order], vals.copy(), state_names=sn)


def build_factor(jf, conc, rng):
    """values laid out in a RANDOM axis order of the scope; filled by named assignment"""
    import numpy as np
    from pgmpy.factors.discrete import DiscreteFactor
    scope = list(jf["scope"])
    rng.shuffle(scope)
    card = [len(conc.dom[v]) for v in scope]
    vals = np.zeros(card if card else (1,), dtype=float)
    for c in jf["cells"]:
        idx = tuple(conc.dom[v].index(c["a"][v]) for v in scope)
        vals[idx if idx else (0,)] = c["n"] / c["d"]
    if not scope:
        return None
    return DiscreteFactor([conc.vn[v] for v in scope], card, vals,
                          state_names={conc.vn[v]: [conc.sn[v][s] for s in conc.dom[v]] for v in scope})


def project(f, conc):
    """[scope tokens], {json(assignment) -> float}; state names checked against the pool's"""
    from pgmpy import config
    toks = [conc.inv[v] for v in f.variables]
    vals = f.values
    if config.get_backend() == "torch":
        vals = vals.detach().cpu().numpy()
    out = {}
    for combo in itertools.product(*[conc.dom[t] for t in toks]):
        idx = tuple(f.name_to_no[conc.vn[t]][conc.sn[t][s]] for t, s in zip(toks, combo))
        out[json.dumps(dict(zip(toks, combo)), sort_keys=True)] = float(vals[idx]) if toks else float(vals.reshape(-1)[0])
    names_ok = all(list(f.state_names[conc.vn[t]]) == [conc.sn[t][s] for s in conc.dom[t]] for t in toks) and \
        [int(c) for c in f.cardinality] == [len(conc.dom[t]) for t in toks] and len(set(toks)) == len(toks)
    return sorted(toks), out, names_ok


def do_op(objs, o, conc):
    """execute one abstract operation on the list of live pgmpy factors; returns (ret, exc)"""
    f = objs[o["i"] - 1]
    op, ip = o["op"], o["inplace"]
    asg = o["asg"] if isinstance(o["asg"], dict) else {}
    try:
        if op in ("product", "sum", "divide"):
            r = getattr(f, op)(objs[o["j"] - 1], inplace=ip)
        elif op in ("marginalize", "maximize"):
            r = getattr(f, op)([conc.vn[v] for v in o["vars"]], inplace=ip)
        elif op == "reduce":
            r = f.reduce([(conc.vn[v], conc.sn[v][s]) for v, s in asg.items()], inplace=ip)
        elif op == "normalize":
            r = f.normalize(inplace=ip)
        elif op == "scalar_product":
            r = f.product(float(o["c"]), inplace=ip)
        elif op == "scalar_sum":
            r = f.sum(float(o["c"]), inplace=ip)
        elif op == "copy":
            r = f.copy()
            ip = False
        elif op == "set_value":
            # point mutation used to expose aliasing; DiscreteFactor.set_value looks up only *string* state names,
            # other label types are written through the factor's own name_to_no map
            lab = {conc.vn[v]: conc.sn[v][s] for v, s in asg.items()}
            if all(isinstance(x, str) for x in lab.values()):
                f.set_value(float(o["c"]), **lab)
            else:
                f.values[tuple(f.name_to_no[v][lab[v]] for v in f.variables)] = float(o["c"])
            r, ip = None, True
        elif op == "eq":
            g = objs[o["j"] - 1]
            verdicts = [bool(f == g), bool(f == _permuted(g, conc.rng)), bool(_permuted(f, conc.rng) == g), bool(g == f)]
            if len(set(verdicts)) > 1:      # equality is a relation between FUNCTIONS on named assignments
                return "depends_on_state_or_axis_order:" + repr(verdicts), None
            return verdicts[0], None
        else:
            raise ValueError(op)
    except Exception as ex:  # noqa
        return None, repr(ex)[:200]
    if not ip:
        objs.append(r)
        return "new", None
    return "none", None


def replay_gen(payload):
    rng = random.Random(payload["seed"])
    hs = int(os.environ.get("PYTHONHASHSEED", "0"))
    # the torch backend builds tensors through float32 (torch.Tensor(values)) before casting: 1e-6 there
    TOL = 1e-9 if os.environ.get("VERIF_BACKEND", "numpy") == "numpy" else 1e-6
    pools = {p["id"]: p for p in payload["pools"]}
    fails, ncalls = [], 0
    for beh in payload["behs"]:
        pool = pools[beh["pool"]]
        conc = FConc(pool["dom"], rng)
        objs = [build_factor(jf, conc, rng) for jf in pool["factors"]]
        if any(o is None for o in objs):
            # pgmpy cannot construct a factor with empty scope directly: build it by marginalising a 1-variable factor
            from pgmpy.factors.discrete import DiscreteFactor
            for k, jf in enumerate(pool["factors"]):
                if objs[k] is None:
                    v = sorted(pool["dom"])[0]
                    c = len(pool["dom"][v])
                    tmp = DiscreteFactor([conc.vn[v]], [c], [jf["cells"][0]["n"] / jf["cells"][0]["d"] / c] * c,
                                         state_names={conc.vn[v]: [conc.sn[v][s] for s in pool["dom"][v]]})
                    objs[k] = tmp.marginalize([conc.vn[v]], inplace=False)

        def fail(clause, step, obs, exp, o):
            fails.append({"api": "DiscreteFactor." + o["op"], "clause": clause,
                          "features": {"inplace": o["inplace"]},
                          "case": {"kind": "gen", "pool": pool, "beh": beh, "seed": payload["seed"], "hashseed": hs},
                          "observed": obs, "expected": exp, "step": step})
        for si, st in enumerate(beh["steps"]):
            o = st["o"]
            ncalls += 1
            ret, exc = do_op(objs, o, conc)
            if exc is not None:
                fail("raises", si + 1, exc, None, o)
                break
            if o["op"] == "eq":
                if ret != st["ret"]:
                    fail("eq.value", si + 1, ret, st["ret"], o)
                    break
            if len(objs) != len(st["store"]):
                fail("object_count", si + 1, len(objs), len(st["store"]), o)
                break
            bad = None
            tgt = o["i"] if (o["inplace"] and o["op"] != "copy") else len(objs)
            for k, (obj, exp) in enumerate(zip(objs, st["store"])):
                toks, vals, names_ok = project(obj, conc)
                kind = "result" if k + 1 == tgt else "frame"
                if toks != sorted(exp["scope"]):
                    bad = (kind + ".scope", {"obj": k + 1, "got": toks}, exp["scope"])
                    break
                if not names_ok:
                    bad = (kind + ".state_names", {"obj": k + 1}, None)
                    break
                for c in exp["cells"]:
                    x = vals[json.dumps(c["a"] if isinstance(c["a"], dict) else {}, sort_keys=True)]
                    n, d = c["v"]
                    okv = (x == float("inf")) if d == 0 else abs(x - n / d) <= TOL * max(1.0, abs(n / d))
                    if not okv:
                        bad = (kind + ".value", {"obj": k + 1, "a": c["a"], "got": x}, c["v"])
                        break
                if bad:
                    break
            if bad:
                fail(bad[0], si + 1, bad[1], bad[2], o)
                break
            # ---- get_value by state NAME (any label type) on the object the step produced or changed
            tgt_obj = objs[tgt - 1]
            exp_t = st["store"][tgt - 1]
            if exp_t["scope"] and tgt_obj is not None:
                for c in rng.sample(exp_t["cells"], min(2, len(exp_t["cells"]))):
                    n, d = c["v"]
                    if d == 0:
                        continue
                    ncalls += 1
                    try:
                        x = tgt_obj.get_value(**{conc.vn[t]: conc.sn[t][s_] for t, s_ in c["a"].items()})
                        x = float(x.item() if hasattr(x, "item") else x)
                    except Exception as ex:  # noqa
                        x = repr(ex)[:120]
                    if not (isinstance(x, float) and abs(x - n / d) <= TOL * max(1.0, abs(n / d))):
                        fail("get_value", si + 1, {"a": c["a"], "got": x}, c["v"], o)
                        break
        else:
            # ---- FactorDict.dot over the final store (one clique per dictionary; the two factors list the variables in their own orders)
            from pgmpy.factors.FactorDict import FactorDict
            for dt in beh.get("dots", [])[:6]:
                f1, f2 = objs[dt["i"] - 1], objs[dt["j"] - 1]
                n, d = dt["v"]
                if d == 0 or f1 is None or f2 is None:
                    continue
                ncalls += 1
                key = tuple(sorted(f1.variables, key=repr))
                try:
                    x = FactorDict({key: f1}).dot(FactorDict({key: f2}))
                    x = float(x.item() if hasattr(x, "item") else x)
                except Exception as ex:  # noqa
                    x = repr(ex)[:120]
                if not (isinstance(x, float) and abs(x - n / d) <= TOL * max(1.0, abs(n / d))):
                    fails.append({"api": "FactorDict.dot", "clause": "value", "features": {},
                                  "case": {"kind": "gen", "pool": pool, "beh": beh, "seed": payload["seed"], "hashseed": hs},
                                  "observed": {"i": dt["i"], "j": dt["j"], "got": x}, "expected": dt["v"]})
                    break
    return {"n": len(payload["behs"]), "calls": ncalls, "fails": fails[:40]}


def replay_fs(payload):
    """Gen_C04S behaviours on pgmpy.factors.FactorSet objects; after every step ALL live sets are compared (members by named assignment)"""
    from pgmpy.factors import FactorSet
    hs = int(os.environ.get("PYTHONHASHSEED", "0"))
    TOL = 1e-9
    pools = {p["id"]: p for p in payload["pools"]}
    fails, ncalls = [], 0
    for beh in payload["behs"]:
        pool = pools[beh["pool"]]
        rng = random.Random(f"{payload['seed']}|{pool['id']}|{[st['o'] for st in beh['steps']]}")
        conc = FConc(pool["dom"], rng)
        objs = [FactorSet(*[build_factor(jf, conc, rng) for jf in js]) for js in pool["sets"]]

        def fail(clause, step, obs, exp, o):
            fails.append({"api": "FactorSet." + o["op"], "clause": clause, "features": {"inplace": o["inplace"]},
                          "case": {"kind": "fs", "pool": pool, "beh": beh, "seed": payload["seed"], "hashseed": hs},
                          "observed": obs, "expected": exp, "step": step})

        def members(fs):
            out = []
            for f in fs.get_factors():
                toks, vals, names_ok = project(f, conc)
                out.append((toks, vals, names_ok))
            return out

        def matches(got, exp):
            """the set of members (value semantics) equals the expected set"""
            def same(m, e):
                if m[0] != sorted(e["scope"]):
                    return False
                for c in e["cells"]:
                    x = m[1][json.dumps(c["a"] if isinstance(c["a"], dict) else {}, sort_keys=True)]
                    n, d = c["v"]
                    if not (abs(x - n / d) <= TOL * max(1.0, abs(n / d))):
                        return False
                return True
            return all(any(same(m, e) for e in exp) for m in got) and all(any(same(m, e) for m in got) for e in exp)
        for si, st in enumerate(beh["steps"]):
            o = st["o"]
            ncalls += 1
            tgt = objs[o["i"] - 1]
            try:
                if o["op"] == "product":
                    r = tgt.product(objs[o["j"] - 1], inplace=o["inplace"]) if rng.random() < 0.7 or o["inplace"] else tgt * objs[o["j"] - 1]
                elif o["op"] == "divide":
                    r = tgt.divide(objs[o["j"] - 1], inplace=o["inplace"]) if rng.random() < 0.7 or o["inplace"] else tgt / objs[o["j"] - 1]
                elif o["op"] == "marginalize":
                    r = tgt.marginalize([conc.vn[v] for v in sorted(o["vars"])], inplace=o["inplace"])
                else:
                    r = tgt.copy()
            except Exception as ex:  # noqa
                fail("raises", si + 1, repr(ex)[:200], None, o)
                break
            if not (o["inplace"] and o["op"] != "copy"):
                objs.append(r)
            if len(objs) != len(st["sets"]):
                fail("object_count", si + 1, len(objs), len(st["sets"]), o)
                break
            bad = None
            new_idx = o["i"] - 1 if (o["inplace"] and o["op"] != "copy") else len(objs) - 1
            for k, (fs, exp) in enumerate(zip(objs, st["sets"])):
                try:
                    got = members(fs)
                except Exception as ex:  # noqa
                    bad = (("result" if k == new_idx else "frame") + ".unreadable", {"obj": k + 1, "exc": repr(ex)[:200]})
                    break
                if any(not m[2] for m in got):
                    bad = (("result" if k == new_idx else "frame") + ".state_names", {"obj": k + 1})
                    break
                if not matches(got, exp):
                    bad = (("result" if k == new_idx else "frame") + ".members", {"obj": k + 1, "got": [[m[0], sorted(m[1].items())[:4]] for m in got]})
                    break
            if bad:
                fail(bad[0], si + 1, bad[1], None, o)
                break
    return {"n": len(payload["behs"]), "calls": ncalls, "fails": fails[:40]}


def _rand_op(rng, scopes, dom, nobj):
    i = rng.randrange(nobj) + 1
    sc = scopes[i - 1]
    base = {"op": "copy", "i": i, "j": 1, "vars": [], "asg": {}, "c": 0, "inplace": rng.random() < 0.4}
    kinds = ["product", "product", "sum", "divide", "marginalize", "maximize", "reduce", "normalize", "scalar_product", "scalar_sum",
             "copy", "set_value", "eq", "bad_divide", "bad_marg"]
    k = rng.choice(kinds)
    if k in ("product", "sum", "eq"):
        base.update(op=k, j=rng.randrange(nobj) + 1)
    elif k == "divide":
        cands = [j + 1 for j in range(nobj) if set(scopes[j]) <= set(sc)]
        base.update(op=k, j=rng.choice(cands))
    elif k in ("marginalize", "maximize"):
        if not sc:
            return None
        base.update(op=k, vars=rng.sample(sorted(sc), rng.randint(1, len(sc))))
    elif k == "reduce":
        if not sc:
            return None
        vs = rng.sample(sorted(sc), rng.randint(1, len(sc)))
        base.update(op=k, asg={v: rng.choice(dom[v]) for v in vs})
    elif k in ("scalar_product", "scalar_sum"):
        base.update(op=k, c=rng.choice([0, 2, 3]))
    elif k == "set_value":
        if not sc:
            return None
        base.update(op=k, asg={v: rng.choice(dom[v]) for v in sc}, c=rng.choice([0, 5]), inplace=True)
    elif k == "normalize":
        base.update(op=k)
    elif k == "bad_divide":
        cands = [j + 1 for j in range(nobj) if not set(scopes[j]) <= set(sc)]
        if not cands:
            return None
        base.update(op="divide", j=rng.choice(cands))
    elif k == "bad_marg":
        out = [v for v in dom if v not in sc]
        if not out:
            return None
        base.update(op="marginalize", vars=[rng.choice(out)])
    return base


def record(payload):
    hs = int(os.environ.get("PYTHONHASHSEED", "0"))
    specs = []
    if "rerun" in payload:
        t = payload["rerun"]
        specs.append(({"id": 0, "dom": t["dom"], "factors": t["factors"]}, t["tid"], t["seed"], [s["o"] for s in t["steps"]]))
    else:
        rng0 = random.Random(payload["seed"])
        for i in range(payload["n"]):
            pool = make_pool(rng0, i + 1, nvars=rng0.choice([3, 4, 5]), nfac=rng0.choice([3, 4]), maxcard=rng0.choice([2, 3, 3]))
            pool["factors"] = [f for f in pool["factors"] if f["scope"]] or pool["factors"][:1]
            if not pool["factors"][0]["scope"]:
                continue
            specs.append((pool, payload["tid0"] + i, rng0.randrange(10 ** 9), None))
    out = []
    for pool, tid, seed, ops in specs:
        rng = random.Random(seed)
        conc = FConc(pool["dom"], rng)
        objs = [build_factor(jf, conc, rng) for jf in pool["factors"]]
        steps, raws = [], []
        planned = ops
        for si in range(len(planned) if planned else 8):
            if planned:
                o = planned[si]
            else:
                scopes = [[conc.inv[v] for v in f.variables] for f in objs]
                o = None
                for _ in range(20):
                    o = _rand_op(rng, scopes, pool["dom"], len(objs))
                    if o is not None:
                        break
                if o is None or len(objs) > 9:
                    break
                if o["op"] == "normalize":
                    tot = float(objs[o["i"] - 1].values.sum())
                    if not (tot > 0 and tot < float("inf")):
                        continue
            ret, exc = do_op(objs, o, conc)
            store, raw = [], []
            for obj in objs:
                toks, vals, names_ok = project(obj, conc)
                cells = []
                for k, x in vals.items():
                    n, d = _rat(x)
                    cells.append({"a": json.loads(k), "n": n, "d": d})
                store.append({"scope": toks if names_ok else toks + ["STATE_NAMES_BROKEN"], "cells": cells})
                raw.append(vals)
            steps.append({"o": o, "exc": exc is not None, "ret": ret if isinstance(ret, bool) else False, "store": store})
            raws.append(raw)
            if any(c["d"] == 0 and c["n"] == 0 for s in store for c in s["cells"]):
                break   # NaN reached: unspecified from here on; drop this last step
        if steps and any(c["d"] == 0 and c["n"] == 0 for s in steps[-1]["store"] for c in s["cells"]):
            steps, raws = steps[:-1], raws[:-1]
        out.append({"tid": tid, "seed": seed, "hashseed": hs, "dom": pool["dom"], "factors": pool["factors"], "steps": steps, "raw": raws})
    return {"traces": out}
