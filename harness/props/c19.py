"""C19 conditional-independence tests.

Oracle: spec/CITest.tla (stratified contingency-table test; statistic as an exact symbolic normal form, dof, p-value kind,
verdict rule) and spec/PCorr.tla (partial correlation by least squares with intercept, exact integers), evaluated by TLC.
  Gen_C19   every data bag of small table families (cells 0..K)            -> replayed on pgmpy.estimators.CITests / PC.CI_TESTS
  Gen_C19D  seeded instance data sets x every (X, Y, ordered Z)              -> replayed
  Gen_C19P  tiny integer data sets x every (X, Y, Z) x affine re-parametrisations -> replayed on CITests.pearsonr
  Trace_C19 calls recorded from the real code (random larger frames and the calls PC.build_skeleton makes) -> validated by TLC
The harness only builds data frames, calls pgmpy, evaluates the printed normal forms with math.log / pow / sqrt and the
functions the spec leaves uninterpreted (scipy.stats.chi2.sf, Student-t sf), and compares numbers.
"""
import json
import math
import os
import random
from fractions import Fraction

from ..core import Machinery, chunks, run_workers

TOL = 1e-9
NWORK = 8


# =========================================================================== instances (harness -> TLC)
def families(thorough):
    """table families for Gen_C19: every cell count 0..K, at most maxn rows"""
    fams = [
        {"nx": 2, "ny": 2, "zcols": [], "strata": [[]], "K": 3, "maxn": 12},
        {"nx": 2, "ny": 3, "zcols": [], "strata": [[]], "K": 1, "maxn": 12},
        {"nx": 3, "ny": 3, "zcols": [], "strata": [[]], "K": 1, "maxn": 5},
        {"nx": 2, "ny": 2, "zcols": ["z1"], "strata": [[0], [1]], "K": 1, "maxn": 12},
        {"nx": 2, "ny": 2, "zcols": ["z1", "z2"], "strata": [[0, 0], [1, 1], [0, 1]], "K": 1, "maxn": 4},
    ]
    if thorough:
        fams = [
            {"nx": 2, "ny": 2, "zcols": [], "strata": [[]], "K": 5, "maxn": 20},
            {"nx": 2, "ny": 3, "zcols": [], "strata": [[]], "K": 2, "maxn": 12},
            {"nx": 3, "ny": 3, "zcols": [], "strata": [[]], "K": 1, "maxn": 9},
            {"nx": 2, "ny": 2, "zcols": ["z1"], "strata": [[0], [1]], "K": 2, "maxn": 12},
            {"nx": 3, "ny": 2, "zcols": ["z1"], "strata": [[0], [1]], "K": 1, "maxn": 8},
            {"nx": 2, "ny": 2, "zcols": ["z1", "z2"], "strata": [[0, 0], [1, 1], [0, 1]], "K": 1, "maxn": 6},
        ]
    for i, f in enumerate(fams):
        f["id"] = i + 1
    return fams


def _rows_from_counts(cols, cards, counts):
    rows = []
    import itertools
    for cfg, k in zip(itertools.product(*[range(c) for c in cards]), counts):
        rows += [dict(zip(cols, cfg)) for _ in range(k)]
    return rows


def data_instances(rng, thorough):
    """seeded data sets for Gen_C19D: random sparse bags + handcrafted independent / degenerate / empty-cell tables"""
    out = []

    def add(cols, rows, half=True):
        out.append({"id": len(out) + 1, "cols": cols, "rows": rows, "half": half})

    # exactly independent within every stratum of c (product tables), c-strata of different shape
    add(["a", "b", "c"], _rows_from_counts(["c", "a", "b"], [2, 2, 3], [2, 1, 1, 4, 2, 2, 1, 2, 3, 0, 0, 0]), half=False)
    # every stratum of c degenerate for (a, b): a constant inside each stratum
    add(["a", "b", "c"], [{"a": 0, "b": 0, "c": 0}, {"a": 0, "b": 1, "c": 0}, {"a": 1, "b": 1, "c": 1}, {"a": 1, "b": 0, "c": 1},
                          {"a": 1, "b": 1, "c": 1}, {"a": 2, "b": 0, "c": 2}], half=False)
    # one row per stratum of (c, d); an empty cell in a 3x2 table; a constant column
    add(["a", "b", "c", "d"], [{"a": i % 3, "b": (i * i) % 2, "c": i % 2, "d": i // 2} for i in range(6)])
    add(["a", "b", "k"], [{"a": a, "b": b, "k": 0} for a, b in [(0, 0), (0, 1), (1, 0), (1, 1), (2, 1), (2, 1), (2, 1), (0, 0)]])
    nrand = 10 if thorough else 4
    for k in range(nrand):
        ncol = rng.choice([3, 4, 4, 5]) if thorough else rng.choice([3, 4])
        cols = ["a", "b", "c", "d", "e"][:ncol]
        cards = [rng.choice([2, 2, 3, 4]) if thorough else rng.choice([2, 3]) for _ in cols]
        n = rng.randint(6, 40 if thorough else 14)
        # dependent columns, skewed marginals: sparse strata and empty cells arise naturally
        rows = []
        for _ in range(n):
            r = {}
            prev = 0
            for c, card in zip(cols, cards):
                v = (prev + rng.choice([0, 0, 0, 1, 2])) % card if rng.random() < 0.7 else rng.randrange(card)
                r[c] = v
                prev = v
            rows.append(r)
        add(cols, rows, half=(k % 2 == 0))
    return out


# =========================================================================== evaluation of the spec's normal forms
def frac(p):
    return Fraction(p[0], p[1])


def eval_form(F):
    """value = q + sum c * log(b)  |  c * b^e   -- the only arithmetic the harness performs on the expected side"""
    if F["inf"]:
        return math.inf
    e = float(frac(F["e"]))
    v = float(frac(F["q"]))
    parts = []
    for t in F["terms"] or []:
        b = float(frac(t["b"]))
        parts.append(float(frac(t["c"])) * (math.log(b) if F["kind"] == "log" else b ** e))
    return math.fsum([v] + parts)


def close(a, b, tol=TOL):
    try:
        a = float(a)
    except Exception:
        return False
    if a != a or b != b:
        return False
    if math.isinf(a) or math.isinf(b):
        return a == b
    return abs(a - b) <= tol * max(1.0, abs(b))


def lam_str(L):
    return f"{L[0]}/{L[1]}"


def features_for(case, L):
    """small signature of WHERE a discrete-test expectation failed"""
    lam = frac(L)
    if case["dof"] == 0:
        return {"all_degenerate": True, "Z_empty": not case["Z"]}
    if case["zerocell"] and lam < 0:
        return {"zero_cell": True, "lam_class": "<-1" if lam < -1 else ("-1" if lam == -1 else "(-1,0)")}
    return {"lam": lam_str(L), "Z_empty": not case["Z"], "yates": case["yates"], "zero_cell": case["zerocell"]}


# =========================================================================== run
CFG_GEN = "INIT Init\nNEXT Next\nINVARIANT LemmasHold\nINVARIANT Emit\n"


def split_prints(prints):
    hdr = [p for p in prints if p.get("header")]
    cases = [p for p in prints if not p.get("header")]
    if len(hdr) < 1:
        raise Machinery("C19: TLC did not print the header record")
    return hdr[0], cases


def take_discrete(ctx, res):
    ctx.traces += res["n"]
    ctx.evaluations += res["calls"]
    for fl in res["fails"]:
        ctx.violation(fl)
    cnt = ctx.extra.setdefault("c19_calls", {})
    for k, v in res["stats"].items():
        cnt[k] = cnt.get(k, 0) + v


def take_pearson(ctx, res):
    ctx.traces += res["n"]
    ctx.evaluations += res["calls"]
    for fl in res["fails"]:
        ctx.violation(fl)


def pearson_groups(cases):
    by = {}
    for c in cases:
        by.setdefault((c["inst"], c["X"], c["Y"], json.dumps(c["Z"])), []).append(c)
    return list(by.values())            # one group = base selection + all its re-parametrisations


def run(ctx):
    ctx.rule = ("distinct = (data bag, X, Y, Z) with pooled dof > 0, plus every (data, X, Y, Z, affine map) of the partial-correlation test; "
                "Gen_C19: every bag of the table families (all cell counts 0..K); Gen_C19D: seeded data sets x all (X,Y,ordered Z); "
                "Gen_C19P: tiny integer data x all (X,Y,Z) x affine maps; Trace_C19: recorded calls on random frames and from PC.estimate")
    ctx.assumptions += [
        "chi-square survival function is uninterpreted in the spec: expected p-value = scipy.stats.chi2.sf(spec statistic, spec dof), "
        "except dof=0 / statistic=0 -> 1 and statistic=+inf -> 0 which the spec fixes",
        "the p-value of the Pearson test is uninterpreted: 2*StudentT_sf(|r|*sqrt((n-2)/(1-r^2)), n-2) evaluated with scipy on the spec's r",
        "statistic normal forms (rational + sum coef*log(ratio) | coef*ratio^lambda) and r = sxy/sqrt(sxx*syy) are evaluated by the harness in double precision; tolerance 1e-9 (1e-8 for r)",
        "Yates continuity correction on strata with dof 1 (scipy's documented default) is part of the specified test",
        "empty tested cell: contribution 0 for lambda > -1, +infinity for lambda <= -1 (continuous extension of the Cressie-Read family)",
        "regression data sets without full column rank and constant residuals are excluded (r undefined)",
    ]
    import time
    t0 = time.time()
    phase = ctx.extra.setdefault("c19_phase_s", {})
    rng = random.Random(ctx.seed + 19)
    # ---- TLC: Gen_C19 (exhaustive table families), Gen_C19D (instance data sets x all (X,Y,Z)), Gen_C19P (partial correlation)
    fams = families(ctx.thorough)
    ff = os.path.join(ctx.work, "fams.json")
    with open(ff, "w") as fh:
        json.dump(fams, fh)
    r1 = ctx.tlc("Gen_C19", CFG_GEN, env={"FAM_FILE": ff}, tag="Gen_tables", timeout=3000)
    hdr, cases = split_prints(r1.prints)
    if len(cases) < 1000:
        raise Machinery("C19: Gen_C19 produced too few cases")
    ctx.exhaustive = True
    ctx.sample({"kind": "table", "rows": cases[-1]["rows"], "Z": cases[-1]["case"]["Z"], "dof": cases[-1]["case"]["dof"]})
    insts = data_instances(rng, ctx.thorough)
    fi = os.path.join(ctx.work, "insts.json")
    with open(fi, "w") as fh:
        json.dump(insts, fh)
    r2 = ctx.tlc("Gen_C19D", "CONSTANT MaxZ = %d\n" % (3 if ctx.thorough else 2) + CFG_GEN, env={"INST_FILE": fi}, tag="Gen_data", timeout=3000)
    hdr2, cases2 = split_prints(r2.prints)
    if len(cases2) < 100 or hdr2 != hdr:
        raise Machinery("C19: Gen_C19D produced too few cases / a different header")
    by_inst = {i["id"]: i for i in insts}
    for c in cases2:
        c["rows"] = by_inst[c["inst"]]["rows"]
    ctx.sample({"kind": "data", "inst": cases2[-1]["inst"], "X": cases2[-1]["case"]["X"], "Y": cases2[-1]["case"]["Y"], "Z": cases2[-1]["case"]["Z"]})
    pinsts = pearson_instances(rng, ctx.thorough)
    fp = os.path.join(ctx.work, "pinsts.json")
    with open(fp, "w") as fh:
        json.dump(pinsts, fh)
    r = ctx.tlc("Gen_C19P", "CONSTANT Wide = %s\n" % ("TRUE" if ctx.thorough else "FALSE") + CFG_GEN, env={"INST_FILE": fp},
                tag="Gen_pearson", timeout=3000)
    pcases = r.prints
    if len(pcases) < 200 or not any(c["tr"]["v"] for c in pcases):
        raise Machinery("C19: Gen_C19P produced too few cases")
    ctx.sample({"kind": "pearson", **{k: pcases[-1][k] for k in ("inst", "X", "Y", "Z", "tr", "F")}})
    # vacuity control without -coverage (4x slower, and ~30 s fixed cost): every non-initial state is one taken action
    for tag, rr, init in (("Gen_C19.Next", r1, len(fams)), ("Gen_C19D.Next", r2, len(insts)), ("Gen_C19P.Next", r, len(pinsts))):
        ctx.actions[tag] = ctx.actions.get(tag, 0) + rr.generated - init
    ctx.require_actions(["Gen_C19.Next", "Gen_C19D.Next", "Gen_C19P.Next"])
    phase["tlc_gen"] = round(time.time() - t0, 1)
    # ---- one batch of workers: replay of both discrete generators, of the pearson generator, and the trace recorders
    allc = cases + cases2
    hseeds = [0, 1] if not ctx.thorough else [0, 1, 2, 3]
    nd, npw, nrec = (6, 1, 1) if not ctx.thorough else (9, 2, 3)
    jobs = []
    for j, ch in enumerate(chunks(allc, nd)):
        if ch:
            hs = hseeds[j % len(hseeds)]
            jobs.append((hs, {"kind": "discrete", "header": hdr, "cases": ch, "seed": ctx.seed * 1000 + 17 * j + hs, "full": ctx.thorough}))
    for j, ch in enumerate(chunks(pearson_groups(pcases), npw)):
        if ch:
            jobs.append((j % 2, {"kind": "pearson", "insts": pinsts, "groups": ch, "seed": ctx.seed * 1000 + j}))
    for j in range(nrec):
        jobs.append((j % 2, {"kind": "record", "seed": ctx.seed * 7919 + 3 + 31 * j, "n_direct": 16 if ctx.thorough else 5,
                             "n_pc": 8 if ctx.thorough else 3, "tid0": 1000 * j, "thorough": ctx.thorough}))
    traces = []
    t1 = time.time()
    results = run_workers(ctx, "c19", "multi_w", jobs)
    phase["workers"] = round(time.time() - t1, 1)
    phase["worker_s"] = [round(r.get("wall", 0), 1) for r in results]
    for (hs, pl), res in zip(jobs, results):
        if pl["kind"] == "discrete":
            take_discrete(ctx, res)
        elif pl["kind"] == "pearson":
            take_pearson(ctx, res)
        else:
            traces += res["traces"]
            ctx.evaluations += res["calls"]
    for c in allc:
        cc = c["case"]
        ctx.count(json.dumps([c.get("rows"), cc["X"], cc["Y"], cc["Z"]], sort_keys=True), nontrivial=cc["dof"] > 0, n=0)
    for c in pcases:
        ctx.count(json.dumps(["P", c["inst"], c["X"], c["Y"], c["Z"], c["tr"]], sort_keys=True), nontrivial=True, n=0)
    # ---- Trace_C19: the recorded calls, validated by TLC
    t2 = time.time()
    validate_traces(ctx, traces)
    phase["trace_validate"] = round(time.time() - t2, 1)
    t = traces[-1]
    ctx.sample({"kind": "trace", "pc": t["pc"], "n_rows": len(t["rows"]), "events": t["events"][:2]})


def pearson_instances(rng, thorough):
    """tiny integer data sets (values 0..3, 4-6 rows): exact integer normal equations stay far inside 32 bits"""
    out = []

    def add(cols, mat):
        out.append({"id": len(out) + 1, "cols": cols, "rows": [dict(zip(cols, r)) for r in mat]})

    # hand-made: y = 2x + 1 exactly (r = 1); an intercept-only relation (no-intercept regression is visibly different)
    add(["a", "b", "c"], [[0, 1, 2], [1, 3, 0], [2, 5, 1], [3, 7, 3], [1, 3, 2]])
    add(["a", "b", "c"], [[3, 0, 1], [2, 1, 1], [3, 1, 2], [2, 0, 2], [3, 2, 3], [2, 3, 3]])
    shapes = [(4, 5), (3, 6), (3, 5)] if not thorough else [(4, 5), (4, 6), (4, 6), (4, 6), (3, 4), (3, 5), (4, 5), (4, 4)]
    for ncol, n in shapes:
        cols = ["a", "b", "c", "d"][:ncol]
        add(cols, [[rng.randint(0, 3) for _ in cols] for _ in range(n)])
    return out


CFG_TRACE = "INIT Init\nNEXT Next\nINVARIANT Report\n"


def validate_traces(ctx, traces, tag="Trace"):
    """TLC decides every event of every recorded trace; the EVAL clause is finished by a worker that evaluates the printed form"""
    tf = os.path.join(ctx.work, tag + ".json")
    keep = ("tid", "rows", "alpha", "pc", "skel", "cols", "events")
    with open(tf, "w") as f:
        json.dump([{k: t[k] for k in keep} for t in traces], f)
    # no -coverage here: TLC's coverage bookkeeping runs out of memory on the deserialised trace file; the actions taken are
    # counted from the verdict records instead (one Step per event, one Finish per trace)
    r = ctx.tlc("Trace_C19", CFG_TRACE, env={"TRACE_FILE": tf}, tag=tag, timeout=3000)
    by = {t["tid"]: t for t in traces}
    seen = set()
    todo = []
    for t in traces:
        if t.get("exc"):
            ctx.violation({"api": "PC.estimate", "clause": "raises", "features": {"ci_test": t.get("pc_test")},
                           "case": {"kind": "trace", "trace": {k: t[k] for k in t if k != "raw"}}, "observed": t["exc"],
                           "expected": "a skeleton (integer-coded discrete data, no missing values)"})
    for p in r.prints:
        t = by[p["tid"]]
        seen.add(p["tid"])
        if len(p["verdicts"]) != len(t["events"]) + 1:
            raise Machinery(f"Trace_C19: trace {p['tid']}: {len(p['verdicts'])} verdicts for {len(t['events'])} events")
        ctx.actions["Step"] = ctx.actions.get("Step", 0) + len(t["events"])
        ctx.actions["Finish"] = ctx.actions.get("Finish", 0) + 1
        for v, e in zip(p["verdicts"], t["events"] + [None]):
            if v["clause"] == "unknown_call":
                raise Machinery(f"Trace_C19: event {e} is not a call the spec knows")
            if e is not None and v["clause"] in ("EVAL", "ACCEPT"):
                todo.append({"tid": p["tid"], "seq": v["seq"], "F": v["F"], "pk": v["pk"], "dof": v["dof"], "v": v["v"],
                             "alpha": e["alpha"], "ret": e["ret"], "raw": t["raw"][v["seq"] - 1]})
    evald = {}
    if todo:
        res = run_workers(ctx, "c19", "eval_w", [(0, {"items": todo})])[0]
        evald = {(x["tid"], x["seq"]): x for x in res["bad"]}
    for p in r.prints:
        t = by[p["tid"]]
        ok = True
        for v, e in zip(p["verdicts"], t["events"] + [None]):
            tr = {k: t[k] for k in t if k != "raw"}
            if e is None:           # the closing verdict (PC traces: skeleton consistent with the recorded verdicts)
                if t.get("exc"):
                    ok = False
                elif v["clause"] != "ACCEPT":
                    ok = False
                    ctx.violation({"api": "PC.build_skeleton", "clause": v["clause"], "features": {"ci_test": t.get("pc_test")},
                                   "case": {"kind": "trace", "trace": tr}, "observed": t["skel"],
                                   "expected": "edge kept iff no recorded test on the pair accepted independence"})
                continue
            ctx.count(None, n=0)
            raw = t["raw"][v["seq"] - 1]
            clause = v["clause"]
            if clause in ("EVAL", "ACCEPT"):
                b = evald.get((p["tid"], v["seq"]))
                if b is None:
                    continue
                clause, obs, exp = b["clause"], b["observed"], b["expected"]
            else:
                obs, exp = {k: raw[k] for k in ("stat", "p", "dof", "ret")}, {"dof": v["dof"], "pk": v["pk"], "verdict": v["v"]}
            ok = False
            cc = {"dof": v["dof"], "zerocell": bool(v["feat"]["zero_cell"]), "yates": bool(v["feat"]["yates"]), "Z": e["Z"]}
            feats = features_for(cc, v["L"]) if clause != "pc.significance_level" else {"ci_test": t.get("pc_test")}
            generic = "all_degenerate" in feats or "lam_class" in feats        # classes that do not depend on the wrapper called
            ctx.violation({"api": "PC.build_skeleton" if clause == "pc.significance_level" else "CITests." + ("power_divergence" if generic else e["api"]),
                           "clause": clause.split(".")[0] if clause.split(".")[0] in ("statistic", "p_value") else clause, "features": feats,
                           "case": {"kind": "trace", "trace": tr, "event": v["seq"]}, "observed": obs, "expected": exp})
        if ok:
            ctx.traces += 1
    if seen != set(by):
        raise Machinery(f"Trace_C19: verdicts missing for {len(set(by) - seen)} traces")
    ctx.require_actions(["Step", "Finish"])


def record_traces(ctx, n_direct, n_pc, seed0):
    pl = [(j % 2, {"seed": seed0 + 31 * j, "n_direct": n_direct, "n_pc": n_pc, "tid0": 1000 * j, "thorough": ctx.thorough}) for j in range(2)]
    traces = []
    for res in run_workers(ctx, "c19", "record_w", pl):
        traces += res["traces"]
        ctx.evaluations += res["calls"]
    return traces


def replay(ctx, rec):
    case = rec["case"]
    ctx.findings = []            # a replay answers "does it still fail", known or not
    if case["kind"] == "discrete":
        res = run_workers(ctx, "c19", "replay_discrete_w",
                          [(case["hashseed"], {"header": case["header"], "cases": [case["case"]], "seed": case["seed"], "full": True,
                                               "only": case.get("only")})])[0]
        same = [f for f in res["fails"] if f["clause"] == rec.get("clause")]
        return (same or res["fails"])[:1] or None
    if case["kind"] == "pearson":
        res = run_workers(ctx, "c19", "replay_pearson_w", [(case["hashseed"], {"insts": [case["inst"]], "groups": [case["group"]], "seed": case["seed"]})])[0]
        same = [f for f in res["fails"] if f["clause"] == rec["clause"]]
        return (same or res["fails"])[:1] or None
    if case["kind"] == "trace":
        res = run_workers(ctx, "c19", "record_w", [(case["trace"].get("hashseed", 0), {"rerun": case["trace"]})])[0]
        n0 = len(ctx.violations)
        validate_traces(ctx, res["traces"], tag="Replay")
        return ctx.violations[n0:][:1] or None
    raise Machinery("C19 replay: unknown case kind " + str(case["kind"]))


def selftest(ctx):
    """anti-vacuity: (i) corrupted recorded events must be rejected by TLC / the evaluator, (ii) a wrong stub (Pearson chi-square
    without Yates correction, and an intercept-free regression) must be rejected by the replayers, (iii) trace actions covered"""
    ctx.findings = []            # self-test looks at raw rejections
    traces = record_traces(ctx, 2, 1, 777)[:6]
    good = json.loads(json.dumps(traces))
    validate_traces(ctx, good, tag="Self_good")
    base = len(ctx.violations)
    # (i) one field of one event corrupted per trace: dof, verdict, statistic, significance level of a PC trace
    muts = 0
    bad = json.loads(json.dumps(traces))
    for t in bad:
        evs = [e for e in t["events"] if e["dof"] > 0 and 0 < e["p9"] < 10 ** 9]
        if not evs:
            continue
        e = evs[0]
        i = t["events"].index(e)
        kind = muts % 3
        if kind == 0:
            e["dof"] += 1
            t["raw"][i]["dof"] += 1
        elif kind == 1:
            t["raw"][i]["stat"] *= 1.001
        else:
            e["ret"] = "F" if e["ret"] == "T" else "T"
        t["expect_reject"] = True
        muts += 1
    validate_traces(ctx, bad, tag="Self_bad")
    rejected = {v["case"]["trace"]["tid"] for v in ctx.violations[base:]}
    want = {t["tid"] for t in bad if t.get("expect_reject")}
    if muts < 3 or not want <= rejected:
        raise Machinery(f"selftest: corrupted traces accepted: {sorted(want - rejected)} (mutated {muts})")
    # PC trace: claim a different requested significance level / drop an edge from the skeleton
    pcs = [t for t in json.loads(json.dumps(traces)) if t["pc"] and t["events"]]
    if not pcs:
        raise Machinery("selftest: no PC trace recorded")
    t = pcs[0]
    t["alpha"] = [t["alpha"][0] + 1, t["alpha"][1]]
    n0 = len(ctx.violations)
    validate_traces(ctx, [t], tag="Self_pc")
    if not any(v["clause"] == "pc.significance_level" for v in ctx.violations[n0:]):
        raise Machinery("selftest: PC trace with a different significance level was accepted")
    t = json.loads(json.dumps([x for x in traces if x["pc"] and x["events"]][0]))
    t["skel"] = t["skel"][1:] if t["skel"] else [[t["cols"][0], t["cols"][1]]]
    n0 = len(ctx.violations)
    validate_traces(ctx, [t], tag="Self_skel")
    if not any(v["clause"] == "pc.skeleton" for v in ctx.violations[n0:]):
        raise Machinery("selftest: PC trace with a wrong skeleton was accepted")
    # (ii) wrong stubs
    fams = [{"id": 1, "nx": 2, "ny": 2, "zcols": [], "strata": [[]], "K": 3, "maxn": 12}]
    ff = os.path.join(ctx.work, "fams.json")
    with open(ff, "w") as fh:
        json.dump(fams, fh)
    r = ctx.tlc("Gen_C19", CFG_GEN, env={"FAM_FILE": ff}, tag="Self_gen")
    hdr, cases = split_prints(r.prints)
    res = run_workers(ctx, "c19", "replay_discrete_w", [(0, {"header": hdr, "cases": cases, "seed": 1, "full": False, "stub": "no_yates"})])[0]
    if not any(f["clause"] == "statistic" for f in res["fails"]):
        raise Machinery("selftest: chi-square stub without Yates correction was accepted")
    rng = random.Random(5)
    insts = pearson_instances(rng, False)[:3]
    fp = os.path.join(ctx.work, "pinsts.json")
    with open(fp, "w") as fh:
        json.dump(insts, fh)
    r = ctx.tlc("Gen_C19P", "CONSTANT Wide = FALSE\n" + CFG_GEN, env={"INST_FILE": fp}, tag="Self_pearson")
    if not any(c["tr"]["v"] for c in r.prints) or not any(not c["tr"]["v"] for c in r.prints):
        raise Machinery("selftest: Gen_C19P took no Pick / Transform action")
    by = {}
    for c in r.prints:
        by.setdefault((c["inst"], c["X"], c["Y"], json.dumps(c["Z"])), []).append(c)
    res = run_workers(ctx, "c19", "replay_pearson_w", [(0, {"insts": insts, "groups": list(by.values()), "seed": 1, "stub": "with_intercept"})])[0]
    if res["fails"]:
        raise Machinery(f"selftest: reference stub (least squares WITH intercept) rejected: {res['fails'][0]['clause']} {res['fails'][0]['observed']} vs {res['fails'][0]['expected']}")
    res = run_workers(ctx, "c19", "replay_pearson_w", [(0, {"insts": insts, "groups": list(by.values()), "seed": 1, "stub": "spearman"})])[0]
    if not any(f["clause"] == "value" for f in res["fails"]):
        raise Machinery("selftest: rank-correlation stub was accepted as pearsonr")
    ctx.violations.clear()


# =========================================================================== worker side (may import pgmpy / numpy / pandas)
def _label_maps(kind, cols, rows, rng):
    """value relabelling per column: spec values are opaque integers"""
    maps = {}
    for c in cols:
        vals = sorted({r[c] for r in rows})
        if kind == "int":
            maps[c] = {v: v for v in vals}
        elif kind == "shift":          # non-contiguous, order-reversing integers
            maps[c] = {v: 40 - 7 * v for v in vals}
        elif kind == "str":
            pool = ["low", "mid", "high", "top", "xx", "b9"]
            maps[c] = {v: pool[v] for v in vals}
        else:
            raise ValueError(kind)
    return maps


def build_frame(rows, cols, names, variant, rng):
    """variant: base | row_perm | labels_str | labels_shift | labels_cat | labels_cat_unobserved | names_int"""
    import pandas as pd
    rows = list(rows)
    kind = {"labels_str": "str", "labels_shift": "shift", "labels_cat": "str", "labels_cat_unobserved": "str"}.get(variant, "int")
    maps = _label_maps(kind, cols, rows, rng)
    colorder = list(cols)
    if variant != "base":
        rng.shuffle(colorder)
    df = pd.DataFrame({names[c]: [maps[c][r[c]] for r in rows] for c in colorder}, columns=[names[c] for c in colorder])
    if variant in ("labels_cat", "labels_cat_unobserved"):
        for c in cols:
            cats = sorted(set(df[names[c]]))
            if variant == "labels_cat_unobserved":
                cats = cats + ["never_seen"]
            rng.shuffle(cats)
            df[names[c]] = pd.Categorical(df[names[c]], categories=cats)
    if variant == "row_perm":
        # a permuted frame KEEPS its index labels (as df.sample(frac=1) or df.iloc[perm] do): labels != positions
        perm = list(range(len(rows)))
        rng.shuffle(perm)
        df = df.iloc[perm]
    elif variant != "base" and len(rows) and rng.random() < 0.5:
        df.index = range(100, 100 + len(rows))      # a non-default index (e.g. after filtering a larger frame)
    return df


def _call(fn, X, Y, Z, df, lam_arg, L, **kw):
    if lam_arg == "":
        return fn(X, Y, Z, df, **kw)
    if lam_arg == "num":
        return fn(X, Y, Z, df, lambda_=float(frac(L)), **kw)
    return fn(X, Y, Z, df, lambda_=lam_arg, **kw)


def replay_discrete_w(payload):
    import numpy as np
    from scipy import stats
    import pgmpy.estimators.CITests as cit
    import importlib
    pcmod = importlib.import_module("pgmpy.estimators.PC")      # the MODULE (pgmpy.estimators.PC the attribute is the class)
    rng = random.Random(payload["seed"])
    hs = int(os.environ.get("PYTHONHASHSEED", "0"))
    hdr = payload["header"]
    alphas = [float(frac(a)) for a in hdr["alphas"]]
    calls = [tuple([c[0], c[1], tuple(c[2])]) for c in hdr["calls"]]
    only = payload.get("only")
    fails, ncalls, nsig = [], 0, {}
    st = {"base": 0, "relation": 0, "verdict": 0}
    from ..frames import df_snapshot
    all_frames = []          # (frame, snapshot at construction, case): C16 - a test never changes the data it is given

    for rec in payload["cases"]:
        case = rec["case"]
        rows = rec["rows"]
        cols = sorted(rows[0].keys())
        X, Y, Z = case["X"], case["Y"], list(case["Z"])
        res = {tuple(r["L"]): r for r in case["res"]}
        exp = {}
        for L, r in res.items():
            v = eval_form(r["F"])
            p = 1.0 if r["pk"] == "one" else 0.0 if r["pk"] == "zero" else float(stats.chi2.sf(v, case["dof"]))
            exp[L] = (v, p)
        ident = {c: c for c in cols}
        frames = {}

        def frame(variant, names=ident):
            key = variant
            if key not in frames:
                frames[key] = build_frame(rows, cols, names, variant, random.Random(payload["seed"] * 7 + len(rows)))
                all_frames.append((frames[key], df_snapshot(frames[key]), rec))
            return frames[key]

        def fail(fname, clause, L, feats, obs, expd, call):
            sig = json.dumps(["CITests." + fname, clause, feats], sort_keys=True)
            nsig[sig] = nsig.get(sig, 0) + 1
            if nsig[sig] > 2:           # keep two witnesses per signature and worker
                return
            fails.append({"api": "CITests." + fname, "clause": clause, "features": feats,
                          "case": {"kind": "discrete", "header": hdr, "case": rec, "seed": payload["seed"], "hashseed": hs, "only": call},
                          "observed": obs, "expected": expd})

        def no_yates(Xc, Yc, Zc, data, boolean=True, lambda_="cressie-read", **kw):    # self-test stub: a WRONG implementation
            import pandas as pd
            tab = pd.crosstab(data[Xc], data[Yc])
            c, p, d, _ = stats.chi2_contingency(tab, lambda_=lambda_, correction=False)
            return (p >= kw["significance_level"]) if boolean else (c, p, d)

        def fn_of(name, k):
            if payload.get("stub") == "no_yates":
                return no_yates
            return getattr(cit, name) if k % 2 == 0 else pcmod.CI_TESTS[name]

        def check_tuple(fname, lam_arg, L, out, clause_prefix, feats, call):
            """out must be (statistic, p_value, dof) of the spec; returns True iff accepted"""
            ev, ep = exp[L]
            try:
                s, p, d = out
            except Exception:
                fail(fname, clause_prefix + "return_shape", L, feats, repr(out)[:100], "(statistic, p_value, dof)", call)
                return False
            if not (float(d) == float(case["dof"])):
                fail(fname, clause_prefix + "dof", L, feats, float(d), case["dof"], call)
                return False
            if not close(s, ev):
                fail(fname, clause_prefix + "statistic", L, feats, float(s), ev, call)
                return False
            if not (close(p, ep) or abs(float(p) - ep) <= TOL):
                fail(fname, clause_prefix + "p_value", L, feats, float(p), ep, call)
                return False
            return True

        outs = {}
        raised = set()
        bad_L = set()       # lambdas whose direct power_divergence call already failed: wrappers / relations not re-reported
        todo = [c for c in calls if only is None or [c[0], c[1], list(c[2])] == only[:3]]
        if only is None and not payload.get("full"):
            # quick tier: every named lambda and every wrapper, the numeric lambdas that have no name, and 2 of the numeric duplicates
            named = {c[2] for c in calls if c[1] != "num"}
            dup = [c for c in todo if c[1] == "num" and c[2] in named]
            drop = set(rng.sample(dup, max(0, len(dup) - 2)))
            todo = [c for c in todo if c not in drop]
        todo.sort(key=lambda c: (c[0] != "power_divergence", c[1] in ("", "num")))
        ok_calls = []
        for k, (fname, lam_arg, L) in enumerate(todo):
            call = [fname, lam_arg, list(L), "base"]
            if only is not None and only[3] != "base" and not only[3].startswith("verdict"):
                ok_calls.append((fname, lam_arg, L))
                continue
            feats = features_for(case, L)
            ncalls += 1
            st["base"] += 1
            try:
                out = _call(fn_of(fname, k + hs), X, Y, Z if k % 3 else tuple(Z), frame("base"), lam_arg, L, boolean=False)
            except Exception as ex:  # noqa
                raised.add((fname, lam_arg, L))
                if "invalid string for lambda_" in repr(ex):       # a documented lambda_ name that the function rejects
                    fail(fname, "raises", L, {"lambda_name": lam_arg}, repr(ex)[:200], list(exp[L]), call)
                elif L not in bad_L:
                    fail(fname, "raises", L, feats, repr(ex)[:200], list(exp[L]), call)
                    bad_L.add(L)
                continue
            if L in bad_L and not (fname == "power_divergence" and lam_arg not in ("", "num")):
                continue
            if check_tuple(fname, lam_arg, L, out, "", feats, call):
                ok_calls.append((fname, lam_arg, L))
                outs[(fname, lam_arg, L)] = out
            else:
                bad_L.add(L)
        # ---- verdict rule: boolean = (p_value >= significance_level)
        vsel = rng.sample(ok_calls, min(3 if payload.get("full") else 2, len(ok_calls)))
        # calls whose base run failed are still probed for the verdict on ONE alpha (the user-visible consequence)
        failed_calls = [c for c in todo if c not in ok_calls and c not in raised and c[0] == "power_divergence" and c[1] not in ("", "num")]
        for (fname, lam_arg, L) in vsel + failed_calls[:2]:
            r = res[L]
            for ai, a in enumerate(alphas):
                if only is not None and only[3] not in ("base", f"verdict{ai}"):
                    continue
                if (fname, lam_arg, L) in failed_calls and ai != 2:
                    continue
                v = r["verd"][ai]
                if v == "SF":
                    if abs(exp[L][1] - a) <= 1e-9:
                        continue
                    want = exp[L][1] >= a
                else:
                    want = v == "T"
                ncalls += 1
                st["verdict"] += 1
                call = [fname, lam_arg, list(L), f"verdict{ai}"]
                feats = dict(features_for(case, L))
                try:
                    got = _call(fn_of(fname, ai + hs), X, Y, Z, frame("base"), lam_arg, L, boolean=True, significance_level=a)
                except Exception as ex:  # noqa
                    fail(fname, "verdict.raises", L, feats, repr(ex)[:200], want, call)
                    break
                if not isinstance(got, (bool, np.bool_)) or bool(got) != want:
                    fail(fname, "verdict", L, feats, repr(got), want, call)
                    break
        # ---- verdict rule at the boundary, as a two-run relation: with alpha = the p-value the function itself returned the
        #      verdict must be True, with the next larger double it must be False (bitwise deterministic, no tolerance involved)
        for (fname, lam_arg, L) in [c for c in vsel if c in outs][:1]:
            if only is not None and only[3] not in ("base", "verdict_boundary"):
                continue
            pv = float(outs[(fname, lam_arg, L)][1])
            call = [fname, lam_arg, list(L), "verdict_boundary"]
            for a, want in ((pv, True), (float(np.nextafter(pv, 2.0)), False)):
                ncalls += 1
                st["verdict"] += 1
                try:
                    got = _call(fn_of(fname, hs), X, Y, Z, frame("base"), lam_arg, L, boolean=True, significance_level=a)
                except Exception as ex:  # noqa
                    fail(fname, "verdict.raises", L, features_for(case, L), repr(ex)[:200], want, call)
                    break
                if bool(got) != want:
                    fail(fname, "verdict_boundary", L, {"alpha_is_p": want}, [repr(got), pv, a], want, call)
                    break
        # ---- two-run relations: every variant must give the SAME specified result
        variants = ["swap_xy", "row_perm", "labels_str", "labels_shift", "labels_cat", "labels_cat_unobserved", "names_int"]
        if len(Z) >= 2:
            variants.append("z_order")
        rsel = rng.sample(ok_calls, min(2, len(ok_calls)))
        for (fname, lam_arg, L) in rsel:
            for vi, var in enumerate(variants):
                if only is not None and only[3] != var:
                    continue
                if only is None and not payload.get("full") and rng.random() < 0.5:
                    continue
                call = [fname, lam_arg, list(L), var]
                feats = {"relation": var, "Z_empty": not Z}
                x2, y2, z2 = X, Y, list(Z)
                names = ident
                if var == "swap_xy":
                    x2, y2 = Y, X
                if var == "z_order":
                    z2 = list(reversed(Z))
                if var == "names_int":
                    names = {c: 3 + 2 * i for i, c in enumerate(reversed(cols))}
                    x2, y2, z2 = names[X], names[Y], [names[z] for z in Z]
                df = frame(var if var not in ("swap_xy", "z_order") else "base", names)
                ncalls += 1
                st["relation"] += 1
                try:
                    out = _call(fn_of(fname, vi + hs), x2, y2, z2, df, lam_arg, L, boolean=False)
                except Exception as ex:  # noqa
                    fail("power_divergence", "relation.raises", L, feats, repr(ex)[:200], list(exp[L]), call)
                    continue
                check_tuple("power_divergence", lam_arg, L, out, "relation.", feats, call)
    changed = [r for df_, snap, r in all_frames if df_snapshot(df_) != snap]
    for r in changed[:2]:
        fails.append({"api": "CITests.power_divergence", "clause": "data_argument_changed", "features": {},
                      "case": {"kind": "discrete", "header": hdr, "case": r, "seed": payload["seed"], "hashseed": hs, "only": None},
                      "observed": None, "expected": "the data frame as passed in"})
    return {"n": len(payload["cases"]), "calls": ncalls, "fails": fails, "stats": st, "nsig": nsig}


def multi_w(payload):
    import time
    t0 = time.time()
    res = {"discrete": replay_discrete_w, "pearson": replay_pearson_w, "record": record_w}[payload["kind"]](payload)
    res["wall"] = time.time() - t0
    return res


def eval_w(payload):
    """finish the EVAL clause: evaluate the spec's normal form, chi2.sf (uninterpreted in the spec) and compare"""
    from scipy import stats
    bad = []
    for it in payload["items"]:
        raw = it["raw"]
        ev = eval_form(it["F"])
        ep = 1.0 if it["pk"] == "one" else 0.0 if it["pk"] == "zero" else float(stats.chi2.sf(ev, it["dof"]))
        a = float(frac(it["alpha"]))
        out = None
        if not close(raw["stat"], ev):
            out = ("statistic", raw["stat"], ev)
        elif not (close(raw["p"], ep) or abs(raw["p"] - ep) <= TOL):
            out = ("p_value", raw["p"], ep)
        elif it["v"] == "SF" and abs(ep - a) > 1e-9 and (it["ret"] == "T") != (ep >= a):
            out = ("verdict", it["ret"], ep >= a)
        if out:
            bad.append({"tid": it["tid"], "seq": it["seq"], "clause": out[0], "observed": out[1], "expected": out[2]})
    return {"bad": bad}


def _scaled(x):
    x = float(x)
    if x != x:
        return -1
    if x == math.inf:
        return -2
    if abs(x) > 2.0:
        return -3
    return int(round(x * 10 ** 9))


def _rat_alpha(a):
    f = Fraction(a).limit_denominator(1000)
    return [f.numerator, f.denominator]


DIRECT_CALLS = [("chi_square", "", None), ("g_sq", "", None), ("log_likelihood", "", None), ("modified_log_likelihood", "", None),
                ("power_divergence", "", None), ("power_divergence", "pearson", None), ("power_divergence", "log-likelihood", None),
                ("power_divergence", "freeman-tukey", None), ("power_divergence", "mod-log-likelihood", None),
                ("power_divergence", "neyman", None), ("power_divergence", "cressie-read", None),
                ("power_divergence", "num", [3, 1]), ("power_divergence", "num", [-1, 4]), ("power_divergence", "num", [3, 2]),
                ("power_divergence", "num", [-5, 2]), ("power_divergence", "num", [0, 1]), ("power_divergence", "num", [1, 1])]


def _random_rows(rng, cols, cards, n, dep):
    rows = []
    for _ in range(n):
        r, prev = {}, 0
        for c, card in zip(cols, cards):
            v = (prev + rng.choice([0, 0, 0, 1])) % card if rng.random() < dep else rng.randrange(card)
            r[c] = v
            prev = v
        rows.append(r)
    return rows


def record_w(payload):
    """run the real code, log one event per call: arguments, boolean verdict, (statistic, p, dof)"""
    import importlib
    import pandas as pd
    import pgmpy.estimators.CITests as cit
    pcmod = importlib.import_module("pgmpy.estimators.PC")
    hs = int(os.environ.get("PYTHONHASHSEED", "0"))
    ncalls = 0

    def run_event(df, ev):
        """(re-)execute one direct event; returns raw dict"""
        nonlocal ncalls
        fn = getattr(cit, ev["api"])
        a = float(frac(ev["alpha"]))
        ncalls += 2
        tup = _call(fn, ev["X"], ev["Y"], list(ev["Z"]), df, ev["lamarg"], ev["L"], boolean=False)
        b = _call(pcmod.CI_TESTS[ev["api"]], ev["X"], ev["Y"], tuple(ev["Z"]), df, ev["lamarg"], ev["L"], boolean=True, significance_level=a)
        return tup, b

    def finish(ev, tup, b):
        s, p, d = tup
        ev.update({"ret": "T" if bool(b) else "F", "dof": int(d), "p9": _scaled(p), "s9": _scaled(s)})
        return {"stat": float(s), "p": float(p), "dof": int(d), "ret": ev["ret"]}

    rng_warm = random.Random(payload.get("seed", 0) + 991)

    def pc_trace(t):
        """run PC with the CI_TESTS entry wrapped by a recorder"""
        nonlocal ncalls
        df = pd.DataFrame(t["rows"], columns=t["cols"])
        name = t["pc_test"]
        orig = pcmod.CI_TESTS[name]
        events, raws = [], []

        recording = [True]

        def rec(X, Y, Z, data=None, **kw):
            nonlocal ncalls
            out = orig(X, Y, Z, data=data, **kw)
            if not recording[0]:
                return out
            ncalls += 2
            ev = {"api": name, "lamarg": t["pc_lam"], "L": t["pc_L"], "X": X, "Y": Y, "Z": list(Z),
                  "alpha": _rat_alpha(kw.get("significance_level", -1))}
            same_data = data is not None and data.shape == df.shape and bool((data.values == df.values).all())
            kw2 = {k: v for k, v in kw.items() if k not in ("significance_level", "independencies", "boolean")}
            tup = orig(X, Y, Z, data=df, boolean=False, **kw2)
            raws.append(finish(ev, tup, out))
            if not same_data:
                ev["alpha"] = [-1, 1]           # PC tested something else than the estimator's data: rejected as pc.significance_level
            events.append(ev)
            return out
        pcmod.CI_TESTS[name] = rec
        t["exc"] = None
        try:
            est = pcmod.PC(df)
            kw = {} if t["pc_lam"] in ("",) else {"lambda_": t["pc_lam"]}
            if t["tid"] % 2 == 0:
                # the SAME estimator object has answered another question before (another significance level): the recorded run must not
                # depend on it (every removed edge needs a recorded verdict of THIS run)
                recording[0] = False
                est.estimate(variant=t["variant"], ci_test=name, significance_level=rng_warm.choice([0.0001, 0.9]), return_type="skeleton",
                             show_progress=False, max_cond_vars=t["max_cond"], n_jobs=1, **kw)
                recording[0] = True
            skel, _sep = est.estimate(variant=t["variant"], ci_test=name, significance_level=float(frac(t["alpha"])), return_type="skeleton",
                                      show_progress=False, max_cond_vars=t["max_cond"], n_jobs=1, **kw)
            t["skel"] = sorted([sorted([u, v]) for u, v in skel.edges()])
        except Exception as ex:  # noqa  the code under test raised: reported as a violation by validate_traces, not a harness failure
            t["exc"] = repr(ex)[:300]
            t["skel"] = []
        finally:
            pcmod.CI_TESTS[name] = orig
        t["events"], t["raw"] = events, raws
        return t

    if "rerun" in payload:
        t = payload["rerun"]
        if t["pc"]:
            return {"traces": [pc_trace(t)], "calls": ncalls}
        df = pd.DataFrame(t["rows"], columns=t["cols"])
        t["raw"] = []
        for ev in t["events"]:
            tup, b = run_event(df, ev)
            t["raw"].append(finish(ev, tup, b))
        return {"traces": [t], "calls": ncalls}

    rng = random.Random(payload["seed"])
    big = payload.get("thorough")
    traces = []
    tid = payload["tid0"]
    for k in range(payload["n_direct"]):
        tid += 1
        ncol = rng.choice([4, 5, 6] if big else [4, 5])
        cols = ["a", "b", "c", "d", "e", "f"][:ncol]
        cards = [rng.choice([2, 2, 3, 4]) for _ in cols]
        n = rng.randint(20, 100 if big else 60)
        rows = _random_rows(rng, cols, cards, n, rng.choice([0.3, 0.6, 0.9]))
        df = pd.DataFrame(rows, columns=cols)
        t = {"tid": tid, "cols": cols, "rows": rows, "pc": False, "alpha": [0, 0], "skel": [], "events": [], "raw": [], "hashseed": hs}
        for _ in range(24 if big else 12):
            api, lamarg, L = rng.choice(DIRECT_CALLS)
            X, Y = rng.sample(cols, 2)
            rest = [c for c in cols if c not in (X, Y)]
            Z = rng.sample(rest, rng.choice([0, 1, 1, 2, 2, 3]) if len(rest) >= 3 else rng.randint(0, len(rest)))
            ev = {"api": api, "lamarg": lamarg, "L": L or [0, 1], "X": X, "Y": Y, "Z": Z, "alpha": rng.choice([[1, 100], [1, 20], [1, 5], [1, 2]])}
            try:
                tup, b = run_event(df, ev)
            except Exception as ex:  # noqa   a raising call is logged as NaN everything: TLC rejects it (dof -1 is never specified)
                tup, b = (float("nan"), float("nan"), -1), False
                ev["exc"] = repr(ex)[:200]
            t["raw"].append(finish(ev, tup, b))
            if api != "power_divergence" or lamarg != "num":
                ev["L"] = [0, 1]
            t["events"].append(ev)
        traces.append(t)
    pc_tests = [("chi_square", "", [1, 1]), ("g_sq", "", [0, 1]), ("log_likelihood", "", [0, 1]), ("modified_log_likelihood", "", [-1, 1]),
                ("power_divergence", "", [2, 3]), ("power_divergence", "neyman", [-2, 1]), ("power_divergence", "pearson", [1, 1])]
    for k in range(payload["n_pc"]):
        tid += 1
        ncol = rng.choice([4, 5])
        cols = ["a", "b", "c", "d", "e"][:ncol]
        cards = [rng.choice([2, 2, 3]) for _ in cols]
        rows = _random_rows(rng, cols, cards, rng.randint(40, 100), rng.choice([0.6, 0.9]))
        name, lam, L = pc_tests[(k + payload["seed"]) % len(pc_tests)]
        t = {"tid": tid, "cols": cols, "rows": rows, "pc": True, "pc_test": name, "pc_lam": lam, "pc_L": L,
             "alpha": rng.choice([[1, 100], [1, 20], [1, 5]]), "variant": rng.choice(["orig", "stable"]), "max_cond": rng.choice([1, 2, 3]),
             "hashseed": hs}
        traces.append(pc_trace(t))
    return {"traces": traces, "calls": ncalls}


def replay_pearson_w(payload):
    """one group = one (instance, X, Y, Z) with the base case and every re-parametrisation TLC enumerated"""
    import numpy as np
    import pandas as pd
    from scipy import stats
    import pgmpy.estimators.CITests as cit
    hs = int(os.environ.get("PYTHONHASHSEED", "0"))
    rng = random.Random(payload["seed"])
    insts = {i["id"]: i for i in payload["insts"]}
    stub = payload.get("stub")

    def reference(X, Y, Z, data, boolean=True, **kw):        # self-test stubs only
        Zm = np.c_[np.ones(len(data)), data.loc[:, list(Z)].values.astype(float)]
        if stub == "spearman":
            c, p = stats.spearmanr(data[X], data[Y])
        else:
            ex = data[X].values - Zm @ np.linalg.lstsq(Zm, data[X].values.astype(float), rcond=None)[0]
            ey = data[Y].values - Zm @ np.linalg.lstsq(Zm, data[Y].values.astype(float), rcond=None)[0]
            c, p = stats.pearsonr(ex, ey)
        return (p >= kw["significance_level"]) if boolean else (c, p)
    fn = reference if stub else cit.pearsonr
    fails, ncalls, nsig = [], 0, {}
    alphas = [0.0, 0.01, 0.05, 0.5]

    def r_and_p(F):
        r = F["sxy"] / math.sqrt(F["sxx"] * F["syy"])
        if F["sxy"] * F["sxy"] == F["sxx"] * F["syy"]:
            return r, 0.0
        return r, float(2 * stats.t.sf(abs(r) * math.sqrt((F["n"] - 2) / (1.0 - r * r)), F["n"] - 2))

    def matches_dev(c, coef, p):
        """classification of a rejected observation: equal to the spec's NAMED deviation (regression through the origin)?"""
        if not c["dev"].get("n"):
            return "not_evaluated"          # deviation undefined here or beyond the spec's 32-bit guard
        rd, pd_ = r_and_p(c["dev"])
        return "regression_without_intercept" if close(coef, rd, 1e-8) and abs(p - pd_) <= 1e-7 else "none"
    for group in payload["groups"]:
        inst = insts[group[0]["inst"]]
        group = sorted(group, key=lambda c: c["tr"]["v"] != "")
        X, Y, Z = group[0]["X"], group[0]["Y"], list(group[0]["Z"])

        def fail(clause, feats, obs, expd, c):
            sig = json.dumps([clause, feats], sort_keys=True)
            nsig[sig] = nsig.get(sig, 0) + 1
            if nsig[sig] <= 2:
                fails.append({"api": "CITests.pearsonr", "clause": clause, "features": feats,
                              "case": {"kind": "pearson", "inst": inst, "group": [group[0], c] if c is not group[0] else [c], "seed": payload["seed"], "hashseed": hs},
                              "observed": obs, "expected": expd})
        base_obs = None
        for c in group:
            F = c["F"]
            n = F["n"]
            r_exp = F["sxy"] / math.sqrt(F["sxx"] * F["syy"])
            if c["pk"] == "zero":
                p_exp = 0.0
            else:
                tstat = abs(r_exp) * math.sqrt((n - 2) / (1.0 - r_exp * r_exp))
                p_exp = float(2 * stats.t.sf(tstat, n - 2))
            df = pd.DataFrame(inst["rows"], columns=inst["cols"])
            if rng.random() < 0.5:
                df = df.astype(float)
            tr = c["tr"]
            if tr["v"]:
                df[tr["v"]] = tr["a"] * df[tr["v"]] + tr["b"]
            role = "X" if tr["v"] == X else "Y" if tr["v"] == Y else "Z"
            feats = {"Z_empty": not Z}
            ncalls += 1
            try:
                coef, p = fn(X, Y, Z if rng.random() < 0.5 else tuple(Z), df, boolean=False)
                coef, p = float(coef), float(p)
            except Exception as ex:  # noqa
                fail("raises", feats, repr(ex)[:200], [r_exp, p_exp], c)
                continue
            if not tr["v"]:
                base_obs = (coef, p)
                if not close(coef, r_exp, 1e-8):
                    fail("value", dict(feats, matches=matches_dev(c, coef, p)), coef, r_exp, c)
                    continue
                if not (abs(p - p_exp) <= 1e-7):
                    fail("p_value", dict(feats, matches=matches_dev(c, coef, p)), p, p_exp, c)
                    continue
                for a in alphas:
                    if abs(p_exp - a) <= 1e-7:
                        continue
                    ncalls += 1
                    got = fn(X, Y, Z, df, boolean=True, significance_level=a)
                    if not isinstance(got, (bool, np.bool_)) or bool(got) != (p_exp >= a):
                        fail("verdict", feats, repr(got), p_exp >= a, c)
                        break
                # boundary of the verdict rule as a two-run relation (alpha = the p-value the function itself returned)
                for a, want in ((p, True), (float(np.nextafter(p, 2.0)), False)):
                    ncalls += 1
                    got = fn(X, Y, Z, df, boolean=True, significance_level=a)
                    if bool(got) != want:
                        fail("verdict_boundary", {"alpha_is_p": want}, [repr(got), p, a], want, c)
                        break
                # the SAME DataFrame object with its rows reordered in place: the specified value again (row-order invariance; nothing may
                # be remembered per frame object)
                if len(df) > 2:
                    perm = list(range(len(df)))
                    rng.shuffle(perm)
                    df[:] = df.iloc[perm].values
                    ncalls += 1
                    try:
                        c2, p2 = fn(X, Y, Z, df, boolean=False)
                        if not close(float(c2), r_exp, 1e-8) or not (abs(float(p2) - p_exp) <= 1e-7):
                            fail("same_frame_rows_reordered_in_place", feats, [float(c2), float(p2)], [r_exp, p_exp], c)
                    except Exception as ex:  # noqa
                        fail("raises", feats, repr(ex)[:200], [r_exp, p_exp], c)
            else:
                # two-run relation: the re-parametrised run must reproduce the base run (and hence the specified value)
                kind = "shift" if tr["a"] == 1 else ("scale" if tr["b"] == 0 else "affine")
                feats = {"Z_empty": not Z, "shifted": tr["b"] != 0, "matches": matches_dev(c, coef, p)}   # variable / map: case.group[1].tr
                ref = base_obs if base_obs is not None else (r_exp, p_exp)
                if not close(coef, ref[0], 1e-8) or not (abs(p - ref[1]) <= 1e-7):
                    fail("affine_invariance", feats, [coef, p], list(ref), c)
    return {"n": sum(len(g) for g in payload["groups"]), "calls": ncalls, "fails": fails, "nsig": nsig}
