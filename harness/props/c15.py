"""C15 edit histories: ModelEdit.tla (BFS for invariants, exhaustive short + sampled long behaviours) -> replay on
BayesianNetwork objects comparing the projection of EVERY live object after every step."""
import itertools
import json
import os
import random

from ..core import Machinery, chunks, run_workers


def make_inst(rng, nvars=3):
    vs = [f"v{i}" for i in range(nvars)]
    dom = {v: [f"s{j}" for j in range(rng.choice([2, 2, 3]))] for v in vs}
    pal = []
    shapes = [(0, []), (1, []), (2, []), (1, [0]), (2, [0, 1]), (2, [1]), (0, [2]), (1, [0, 2])]
    for c, ps in shapes:
        if c >= nvars or any(p >= nvars for p in ps):
            continue
        var, parents = vs[c], [vs[p] for p in ps]
        scope = [var] + parents
        den = 12
        cells = []
        for pc in itertools.product(*[dom[p] for p in parents]):
            k = len(dom[var])
            cuts = sorted(rng.sample(range(1, den), k - 1))
            col = [b - a for a, b in zip([0] + cuts, cuts + [den])]
            for s, n in zip(dom[var], col):
                cells.append({"a": dict(zip(scope, (s,) + pc)), "n": n, "d": den})
        pal.append({"var": var, "parents": parents, "cells": cells})
    return {"vars": vs, "dom": dom, "palette": pal}


def cfg(depth, maxobjs, nsim, keephist, props=True):
    s = (f"CONSTANT MaxDepth = {depth}\nCONSTANT MaxObjs = {maxobjs}\nCONSTANT NSim = {nsim}\n"
         f"CONSTANT KeepHist = {'TRUE' if keephist else 'FALSE'}\nINIT Init\nNEXT Next\nINVARIANT AcyclicInv\nINVARIANT WellFormed\n")
    if props:
        s += "PROPERTY RemovalKeepsCPDs\nPROPERTY RejectedUnchanged\nPROPERTY Frame\n"
    if keephist:
        s += "INVARIANT Emit\n"
    else:
        s += f"CONSTRAINT DepthBound\n"
    return s


def run(ctx):
    ctx.rule = ("ModelEdit machine over 3 node tokens, palette of 8 CPDs, <=2-3 live objects: (i) BFS of the abstract state graph to a "
                "depth bound checking acyclicity, frame, rejected-unchanged, removal-keeps-CPDs; (ii) every behaviour of depth 2 and "
                "sampled behaviours of depth 10 replayed on BayesianNetwork with the projection of all live objects compared after each "
                "step. distinct = distinct operation sequences; all are non-trivial (>=1 edit).")
    ctx.assumptions += ["state names are range(card) so that get_random_cpds' default labels agree with the palette's",
                        "multi-element calls are exercised with single-element lists (sequence semantics)"]
    rng = random.Random(ctx.seed + 15)
    inst = make_inst(rng)
    f = os.path.join(ctx.work, "edit_inst.json")
    with open(f, "w") as fh:
        json.dump(inst, fh)
    if ctx.thorough:
        # (0) inductive step: from EVERY structurally well-formed single model over the 3 variables (25 931 states: any acyclic graph on
        # any node subset, any latent subset, any content-free CPD assignment incl. dangling parents) two steps of Next preserve IndInv
        # (acyclic, edges inside the node set, latents and CPD owners inside the node set) and the action properties: the structural
        # invariants hold at EVERY depth, not only up to the BFS bound below
        ctx.tlc("ModelEdit", "CONSTANT MaxDepth = 0\nCONSTANT MaxObjs = 2\nCONSTANT NSim = 0\nCONSTANT KeepHist = FALSE\nINIT IndInit\nNEXT Next\n"
                "INVARIANT IndInv\nPROPERTY RejectedUnchanged\nPROPERTY Frame\nCONSTRAINT OneStep\n",
                env={"INST_FILE": f}, tag="MC_inductive", timeout=7200)
    # (i) design-level BFS (no history => abstract states are merged)
    d = 5 if ctx.thorough else 4
    ctx.tlc("ModelEdit", cfg(0, 2, 0, False).replace("CONSTRAINT DepthBound", f"CONSTRAINT DepthBound{d}"),
            env={"INST_FILE": f}, tag="MC_BFS", coverage=True, timeout=7200)
    ctx.require_actions(["Next"])
    # (ii) behaviours
    behs = []
    r = ctx.tlc("ModelEdit", cfg(2, 2, 0, True, props=False), env={"INST_FILE": f}, tag="Gen_d2")
    behs += r.prints
    nsim = 6000 if ctx.thorough else 800
    r = ctx.tlc("ModelEdit", cfg(10, 3, nsim, True), env={"INST_FILE": f}, tag="Gen_sampled", seed=ctx.seed + 3)
    behs += r.prints
    uniq = {}
    for b in behs:
        uniq[json.dumps([s["o"] for s in b["steps"]], sort_keys=True)] = b
    behs = list(uniq.values())
    for k in uniq:
        ctx.count(k, n=0)
    ctx.sample({"kind": "gen", "ops": [dict(s["o"], ret=s["ret"]) for s in behs[-1]["steps"]]})
    hseeds = list(range(4)) if ctx.thorough else [0, 1]
    pl = [(hs, {"inst": inst, "behs": ch, "seed": ctx.seed * 100 + hs * 8 + j})
          for hs in hseeds for j, ch in enumerate(chunks(behs, 16 // len(hseeds)))]
    for res in run_workers(ctx, "c15", "replay_gen", pl):
        ctx.traces += res["n"]
        ctx.evaluations += res["calls"]
        for fl in res["fails"]:
            ctx.violation(fl)
    run_graph(ctx)


def replay(ctx, rec):
    case = rec["case"]
    if case["kind"] == "graph":
        res = run_workers(ctx, "c15", "replay_graph", [(case["hashseed"], {"behs": [case["beh"]], "seed": case["seed"]})])[0]
        return res["fails"][:1] or None
    res = run_workers(ctx, "c15", "replay_gen", [(case["hashseed"], {"inst": case["inst"], "behs": [case["beh"]], "seed": case["seed"]})])[0]
    return res["fails"][:1] or None


def selftest(ctx):
    """a behaviour whose expected projection is corrupted (an edge dropped) must be reported"""
    rng = random.Random(1)
    inst = make_inst(rng)
    f = os.path.join(ctx.work, "edit_inst.json")
    with open(f, "w") as fh:
        json.dump(inst, fh)
    r = ctx.tlc("ModelEdit", cfg(2, 2, 0, True, props=False), env={"INST_FILE": f}, tag="self")
    b = next(b for b in r.prints if b["steps"][-1]["objs"][0]["edges"])
    b["steps"][-1]["objs"][0]["edges"] = []
    res = run_workers(ctx, "c15", "replay_gen", [(0, {"inst": inst, "behs": [b], "seed": 1})])[0]
    if not res["fails"]:
        raise Machinery("selftest: corrupted expectation accepted")


# =========================================================================== worker side
def _proj_model(m, inv, dom, sn):
    """project a BayesianNetwork to abstract tokens: nodes, edges, latents, cpds (scope + cells by named assignment)"""
    out = {"nodes": sorted(inv[n] for n in m.nodes()), "edges": sorted([inv[u], inv[v]] for u, v in m.edges()),
           "latents": sorted(inv.get(n, str(n)) for n in m.latents), "cpds": {}}
    for c in m.cpds:
        toks = [inv.get(v, str(v)) for v in c.variables]
        cells = {}
        ok_names = True
        for combo in itertools.product(*[dom[t] for t in toks if t in dom]):
            a = dict(zip(toks, combo))
            try:
                idx = tuple(c.name_to_no[v][sn[t][a[t]]] for v, t in zip(c.variables, toks))
                cells[json.dumps(a, sort_keys=True)] = float(c.values[idx])
            except Exception:  # noqa
                ok_names = False
        # normalisation of every column (the child's axis is axis 0)
        vals = c.values
        colsums = vals.sum(axis=0)
        norm = bool(abs(colsums - 1).max() <= 1e-9) if vals.size else True
        out["cpds"][toks[0]] = {"parents": sorted(toks[1:]), "cells": cells, "names_ok": ok_names, "normalised": norm}
    return out


def _cmp(got, exp):
    if got["nodes"] != sorted(exp["nodes"]):
        return "nodes"
    if got["edges"] != sorted(exp["edges"]):
        return "edges"
    if got["latents"] != sorted(exp["latents"]):
        return "latents"
    ecp = {c["var"]: c for c in exp["cpds"]}
    if set(got["cpds"]) != set(ecp):
        return "cpd_set"
    for v, g in got["cpds"].items():
        e = ecp[v]
        if g["parents"] != sorted(e["parents"]):
            return "cpd_scope"
        if not g["normalised"]:
            return "cpd_not_normalised"
        if e["random"]:
            continue
        if not g["names_ok"]:
            return "cpd_state_names"
        for c in e["cells"]:
            a = c["a"] if isinstance(c["a"], dict) else {}
            x = g["cells"].get(json.dumps(a, sort_keys=True))
            n, d = c["v"]
            if x is None or d == 0 or not (abs(x - n / d) <= 1e-9):
                return "cpd_value"
    return None


def replay_gen(payload):
    import numpy as np
    from pgmpy.factors.discrete import TabularCPD
    from pgmpy.inference import VariableElimination
    from pgmpy.models import BayesianNetwork
    from ..concretise import var_names
    rng = random.Random(payload["seed"])
    hs = int(os.environ.get("PYTHONHASHSEED", "0"))
    inst = payload["inst"]
    dom = inst["dom"]
    fails, ncalls = [], 0
    for beh in payload["behs"]:
        vn = var_names(inst["vars"], rng, "str")
        inv = {c: t for t, c in vn.items()}
        sn = {v: {s: i for i, s in enumerate(dom[v])} for v in dom}       # range(card) state names

        def pal_cpd(k):
            p = inst["palette"][k - 1]
            scope = [p["var"]] + p["parents"]
            card = [len(dom[v]) for v in scope]
            ncol = int(np.prod(card[1:])) if len(card) > 1 else 1
            tab = np.zeros((card[0], ncol))
            for c in p["cells"]:
                i = dom[p["var"]].index(c["a"][p["var"]])
                j = 0
                for q in p["parents"]:
                    j = j * len(dom[q]) + dom[q].index(c["a"][q])
                tab[i, j] = c["n"] / c["d"]
            return TabularCPD(vn[p["var"]], card[0], tab, evidence=[vn[q] for q in p["parents"]] or None,
                              evidence_card=card[1:] or None,
                              state_names={vn[v]: list(range(len(dom[v]))) for v in scope})
        objs = [BayesianNetwork()]

        def fail(clause, si, o, obs=None, exp=None):
            fails.append({"api": "BayesianNetwork." + o["op"], "clause": clause, "features": {"flag": o["flag"]},
                          "case": {"kind": "gen", "inst": inst, "beh": beh, "seed": payload["seed"], "hashseed": hs},
                          "observed": obs, "expected": exp, "step": si + 1})
        for si, st in enumerate(beh["steps"]):
            o = st["o"]
            m = objs[o["k"] - 1]
            ncalls += 1
            ret, val, exc = "ok", None, None
            try:
                op = o["op"]
                if op == "add_node":
                    if rng.random() < 0.3:
                        m.add_nodes_from([vn[o["v"]]], latent=o["flag"])
                    else:
                        m.add_node(vn[o["v"]], latent=o["flag"])
                elif op == "add_edge":
                    # the spellings of "add this edge": they all go through the same precondition (no self loop, no cycle)
                    how = rng.random()
                    if how < 0.2:
                        m.add_edges_from([(vn[o["u"]], vn[o["v"]])])
                    elif how < 0.4:
                        m.add_edges_from([(vn[o["u"]], vn[o["v"]])], weights=[rng.choice([0.5, 2])])
                    elif how < 0.55:
                        m.add_edge(vn[o["u"]], vn[o["v"]], weight=rng.choice([0.5, 2]))
                    else:
                        m.add_edge(vn[o["u"]], vn[o["v"]])
                elif op == "remove_node":
                    if rng.random() < 0.3:
                        m.remove_nodes_from([vn[o["v"]]])
                    else:
                        m.remove_node(vn[o["v"]])
                elif op == "add_cpd":
                    m.add_cpds(pal_cpd(o["pal"]))
                elif op == "remove_cpd":
                    m.remove_cpds(vn[o["v"]])
                elif op == "do":
                    nodes = [vn[x] for x in o["S"]]
                    r = m.do(nodes if len(nodes) > 1 or rng.random() < 0.5 else nodes[0], inplace=o["flag"])
                    if not o["flag"]:
                        objs.append(r)
                elif op == "copy":
                    objs.append(m.copy())
                elif op == "random_cpds":
                    np.random.seed(rng.randrange(10 ** 6))
                    r = m.get_random_cpds(n_states={vn[v]: len(dom[v]) for v in dom if vn[v] in m.nodes()}, inplace=o["flag"])
                    if not o["flag"]:
                        objs.append(r)
                elif op == "check":
                    try:
                        ret = "valid" if m.check_model() else "invalid"
                    except Exception:  # noqa
                        ret = "invalid"
                elif op == "marginal":
                    q = VariableElimination(m).query([vn[o["v"]]], show_progress=False)
                    val = {s: float(q.values[q.name_to_no[vn[o["v"]]][sn[o["v"]][s]]]) for s in dom[o["v"]]}
                    ret = "value"
            except Exception as ex:  # noqa
                ret, exc = "rejected", repr(ex)[:200]
            if ret != st["ret"]:
                fail("returns_%s_expected_%s" % (ret, st["ret"]), si, o, exc, st["ret"])
                break
            if op == "marginal":
                badv = [c for c in st["val"] if not (abs(val[c["s"]] - c["v"][0] / c["v"][1]) <= 1e-9)]
                if badv:
                    fail("query_value", si, o, val, st["val"])
                    break
            if len(objs) != len(st["objs"]):
                fail("object_count", si, o, len(objs), len(st["objs"]))
                break
            bad = None
            for k, (obj, exp) in enumerate(zip(objs, st["objs"])):
                cl = _cmp(_proj_model(obj, inv, dom, sn), exp)
                if cl:
                    is_target = (k == o["k"] - 1 and st["ret"] == "ok") or k >= len(objs) - 1 and k != o["k"] - 1
                    pre = "result." if (is_target and st["ret"] == "ok") else ("rejected_but_changed." if st["ret"] == "rejected" and k == o["k"] - 1 else "frame.")
                    bad = pre + cl
                    break
            if bad:
                fail(bad, si, o)
                break
    return {"n": len(payload["behs"]), "calls": ncalls, "fails": fails[:60]}


# =========================================================================== other model classes (GraphEdit.tla)
def gcfg(kind, depth, maxobjs, nsim, keephist, bound=None):
    s = (f'CONSTANT Kind = "{kind}"\nCONSTANT Names = {{"a", "b", "c"}}\nCONSTANT MaxObjs = {maxobjs}\nCONSTANT MaxDepth = {depth}\n'
         f"CONSTANT NSim = {nsim}\nCONSTANT KeepHist = {'TRUE' if keephist else 'FALSE'}\n"
         'CONSTANT Cliques = {{"a", "b"}, {"b", "c"}, {"a", "b", "c"}, {"c", "d"}, {"d"}}\nCONSTANT NFactors = 3\n'
         "INIT Init\nNEXT Next\nINVARIANT DbnAcyclic\nINVARIANT DbnMirrored\nINVARIANT JtForest\nINVARIANT JtSepsets\n"
         "PROPERTY RejectedUnchanged\nPROPERTY Frame\nPROPERTY CopyEqual\n")
    if keephist:
        s += "INVARIANT Emit\n"
    if bound:
        s += f"CONSTRAINT {bound}\n"
    return s


def run_graph(ctx):
    behs = []
    for kind in ("dbn", "jt", "mn"):
        # design level: the whole reachable abstract state space of one object + a copy (history-free BFS)
        ctx.tlc("GraphEdit", gcfg(kind, 0, 2, 0, False, bound=("DepthBound5" if kind == "dbn" else "DepthBound6") if ctx.thorough else ("DepthBound4" if kind == "dbn" else "DepthBound5")),
                tag=f"MC_{kind}", coverage=True, timeout=7200)
        r = ctx.tlc("GraphEdit", gcfg(kind, 2, 2, 0, True), tag=f"Gen_{kind}_d2")
        behs += r.prints
        r = ctx.tlc("GraphEdit", gcfg(kind, 9, 3, 2500 if ctx.thorough else 400, True), tag=f"Gen_{kind}_sampled", seed=ctx.seed + 7)
        behs += r.prints
    uniq = {}
    for b in behs:
        uniq[json.dumps([b["kind"], [s["o"] for s in b["steps"]]], sort_keys=True)] = b
    behs = list(uniq.values())
    for k in uniq:
        ctx.count(k, n=0)
    ctx.sample({"kind": "graph-edit", "model": behs[-1]["kind"], "ops": [dict(op=s["o"]["op"], ret=s["ret"]) for s in behs[-1]["steps"]]})
    hseeds = [0, 1]
    pl = [(hs, {"behs": ch, "seed": ctx.seed * 100 + hs * 8 + j}) for hs in hseeds for j, ch in enumerate(chunks(behs, 8))]
    for res in run_workers(ctx, "c15", "replay_graph", pl):
        ctx.traces += res["n"]
        ctx.evaluations += res["calls"]
        for fl in res["fails"]:
            ctx.violation(fl)


def _fset(x):
    return frozenset(x)


def replay_graph(payload):
    import numpy as np
    from pgmpy.factors.discrete import DiscreteFactor
    from pgmpy.models import DynamicBayesianNetwork, JunctionTree, MarkovNetwork
    rng = random.Random(payload["seed"])
    hs = int(os.environ.get("PYTHONHASHSEED", "0"))
    fails, ncalls = [], 0
    names = ["a", "b", "c"]
    for beh in payload["behs"]:
        kind = beh["kind"]
        pool = rng.choice([["A", "B", "C", "D"], ["x1", "rain", "Zed", "q"], ["n3", "n2", "n1", "n0"]])
        vn = dict(zip(["a", "b", "c", "d"], pool))
        inv = {c: t for t, c in vn.items()}
        objs = [{"dbn": DynamicBayesianNetwork, "jt": JunctionTree, "mn": MarkovNetwork}[kind]()]

        def clique(c):
            return tuple(sorted(vn[x] for x in c))

        def factor(fid):
            sc = sorted({names[(fid - 1) % 3], names[fid % 3]})
            return DiscreteFactor([vn[x] for x in sc], [2, 2], [fid * 10 + 1, fid * 10 + 2, fid * 10 + 3, fid * 10 + 4])

        def proj(m):
            if kind == "dbn":
                return {"nodes": {(inv[n[0]], n[1]) for n in (x.to_tuple() for x in m.nodes())},
                        "edges": {((inv[u[0]], u[1]), (inv[v[0]], v[1])) for u, v in ((a.to_tuple(), b.to_tuple()) for a, b in m.edges())},
                        "factors": []}
            if kind == "jt":
                return {"nodes": {_fset(inv[x] for x in n) for n in m.nodes()},
                        "edges": {_fset([_fset(inv[x] for x in u), _fset(inv[x] for x in v)]) for u, v in m.edges()}, "factors": []}
            fl = []
            for f in m.factors:
                fid = int(round(float(np.asarray(f.values).reshape(-1)[0]))) // 10
                ok = sorted(inv[v] for v in f.variables) == sorted({names[(fid - 1) % 3], names[fid % 3]}) and \
                    [int(round(float(x))) for x in np.asarray(f.values).reshape(-1)] == [fid * 10 + i for i in (1, 2, 3, 4)]
                fl.append(fid if ok else -1)
            return {"nodes": {inv[n] for n in m.nodes()}, "edges": {_fset([inv[u], inv[v]]) for u, v in m.edges()}, "factors": fl}

        def expd(e):
            if kind == "dbn":
                return {"nodes": {tuple(n) for n in e["nodes"]}, "edges": {(tuple(x[0]), tuple(x[1])) for x in e["edges"]}, "factors": []}
            if kind == "jt":
                return {"nodes": {_fset(n) for n in e["nodes"]}, "edges": {_fset(_fset(c) for c in x) for x in e["edges"]}, "factors": []}
            return {"nodes": set(e["nodes"]), "edges": {_fset(x) for x in e["edges"]}, "factors": list(e["factors"])}

        def fail(clause, si, o, obs=None):
            fails.append({"api": {"dbn": "DynamicBayesianNetwork.", "jt": "JunctionTree.", "mn": "MarkovNetwork."}[kind] + o["op"],
                          "clause": clause, "features": {},
                          "case": {"kind": "graph", "beh": beh, "seed": payload["seed"], "hashseed": hs},
                          "observed": obs, "step": si + 1})
        for si, st in enumerate(beh["steps"]):
            o = st["o"]
            m = objs[o["k"] - 1]
            ncalls += 1
            ret, exc = "ok", None
            try:
                if o["op"] == "copy":
                    objs.append(m.copy())
                elif kind == "dbn":
                    if o["op"] == "add_node":
                        m.add_node(vn[o["v"]])
                    else:
                        e = ((vn[o["u"]], o["tu"]), (vn[o["v"]], o["tv"]))
                        if rng.random() < 0.3:
                            m.add_edges_from([e])
                        else:
                            m.add_edge(*e)
                elif kind == "jt":
                    if o["op"] == "add_node":
                        m.add_node(clique(o["c1"]))
                    else:
                        m.add_edge(clique(o["c1"]), clique(o["c2"]))
                else:
                    if o["op"] == "add_node":
                        m.add_node(vn[o["v"]])
                    elif o["op"] == "add_edge":
                        m.add_edge(vn[o["u"]], vn[o["v"]])
                    elif o["op"] == "add_factor":
                        m.add_factors(factor(o["fid"]))
                    elif o["op"] == "remove_factor":
                        m.remove_factors(factor(o["fid"]))
            except Exception as ex:  # noqa
                ret, exc = "rejected", repr(ex)[:200]
            if ret != st["ret"]:
                fail("returns_%s_expected_%s" % (ret, st["ret"]), si, o, exc)
                break
            if len(objs) != len(st["objs"]):
                fail("object_count", si, o)
                break
            bad = None
            for k, (obj, exp) in enumerate(zip(objs, st["objs"])):
                g, e = proj(obj), expd(exp)
                for key in ("nodes", "edges", "factors"):
                    if g[key] != e[key]:
                        tgt = k == o["k"] - 1 or (o["op"] == "copy" and k == len(objs) - 1)
                        bad = ("result." if tgt and st["ret"] == "ok" else "rejected_but_changed." if tgt else "frame.") + key
                        break
                if bad:
                    break
            if bad:
                fail(bad, si, o, {"obj": k + 1})
                break
    return {"n": len(payload["behs"]), "calls": ncalls, "fails": fails[:60]}
