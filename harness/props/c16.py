"""C16 purity / repeatability / representation independence: Gen_C16 (histories of questions to ONE engine; the expected answer is a
function of model and question only) -> replay on shared VariableElimination / BeliefPropagation / CausalInference engines under
several concretisations, with a frame check of the model and of every argument after every call."""
import copy
import json
import os
import random

from .. import instances
from ..core import Machinery, chunks, run_workers

CFG = "CONSTANT HLen = %d\nINIT Init\nNEXT Next\nINVARIANT HistoryIndependent\nINVARIANT Emit\n"


def make_instances(ctx):
    from ..bnutil import _vw
    rng = random.Random(ctx.seed + 16)
    shapes = ["chain3", "collider3", "diamond", "collider_desc", "fork4", "mshape"] if not ctx.thorough else \
        ["pair", "chain3", "fork3", "collider3", "tri3", "diamond", "collider_desc", "family3", "fork4", "mshape", "student"]
    insts = instances.bn_instances(ctx.seed + 160, shapes, 1, kinds=("generic",))
    for i in insts:
        ns = i["nodes"]
        qs = []

        def ev_for(excl, k):
            rest = [v for v in ns if v not in excl]
            return {v: rng.choice(i["states"][v]) for v in rng.sample(rest, min(k, len(rest)))}
        v0 = rng.choice(ns)
        a, b2 = rng.sample(ns, 2)
        qs.append({"t": "query", "q": [a], "ev": ev_for([a], 1), "virt": {}, "do": {}})
        qs.append({"t": "query", "q": [a, b2], "ev": ev_for([a, b2], 1), "virt": {}, "do": {}})
        vv = rng.choice([v for v in ns if v != a])
        c = len(i["states"][vv])
        qs.append({"t": "query", "q": [a], "ev": {}, "virt": {vv: _vw(rng, c)}, "do": {}})
        qs.append({"t": "query", "q": [a], "ev": {}, "virt": {vv: _vw(rng, c)}, "do": {}})     # same variable, other likelihood
        qs.append({"t": "query", "q": [a], "ev": ev_for([a, vv], 1), "virt": {vv: _vw(rng, c)}, "do": {}})   # hard + virtual evidence together
        qs.append({"t": "map", "q": [b2], "ev": ev_for([b2], 1), "virt": {}, "do": {}})
        qs.append({"t": "map", "q": [a], "ev": {}, "virt": {vv: _vw(rng, c)}, "do": {}})
        # a do-question whose query variable is neither the do-variable nor one of its parents
        cands = [(x, y) for x in ns for y in ns if x != y and y not in i["parents"][x]]
        x, y = rng.choice(cands)
        qs.append({"t": "do", "q": [y], "ev": {}, "virt": {}, "do": {x: rng.choice(i["states"][x])}})
        # engine operations (BeliefPropagation) and seeded sampling calls (shared BayesianModelSampling engine)
        blank = {"q": [a], "ev": {}, "virt": {}, "do": {}, "method": "", "size": 0, "seed": 0}
        qs.append(dict(blank, t="calibrate"))
        qs.append(dict(blank, t="max_calibrate"))
        sev = ev_for([], 1)
        qs.append(dict(blank, t="sample", method="forward", size=12, seed=rng.randrange(10 ** 6)))
        qs.append(dict(blank, t="sample", method="lw", ev=sev, size=12, seed=rng.randrange(10 ** 6)))
        qs.append(dict(blank, t="sample", method="rejection", ev=ev_for([], 1), size=6, seed=rng.randrange(10 ** 6)))
        for q in qs:
            for k2, v2 in blank.items():
                q.setdefault(k2, v2 if k2 != "q" else q.get("q", [a]))
        i["questions"] = qs
    return insts


def run(ctx):
    ctx.rule = ("TLC enumerates every history of 3 questions (8-question palette per instance: posterior tables with hard / virtual evidence incl. "
                "the same soft-evidence variable with two likelihoods, MAP, do-queries) to one engine; each history is replayed on shared VE / BP / "
                "CausalInference engines under concretisations {str, int, tuple variable names} x state-name kinds x insertion orders x hash seeds x "
                "{numpy, torch}. distinct = (instance, history); every history is non-trivial (3 questions).")
    ctx.assumptions += ["the purity clause for scoring / estimation / structure search / export / conversion calls is checked inside the checks that make those calls: "
                        "C02 (model after calibrate + queries), C04 (operands), C06 (data, prior arrays), C08 (graph), C09 (model after export), "
                        "C10 (data after scoring), C11 (data, start_dag, edge lists), C13 (do()), C14 (source model of every conversion), "
                        "C19 (data), C20 (data, Gaussian operands); violations there are reported under those properties",
                        "torch answers compared at 1e-6 (tensors are built through float32)"]
    insts = make_instances(ctx)
    f = os.path.join(ctx.work, "inst_c16.json")
    with open(f, "w") as fh:
        json.dump(insts, fh)
    r = ctx.tlc("Gen_C16", CFG % 3, env={"INST_FILE": f}, tag="Gen_C16", coverage=True, timeout=7200)
    ctx.require_actions(["Next"])
    hists = r.prints
    by = {}
    for h in hists:
        by.setdefault(h["inst"], []).append(h)
        ctx.count(("h", h["inst"], tuple(s["k"] for s in h["steps"])), n=0)
    ctx.sample({"kind": "history", "inst": hists[5]["inst"], "questions": [s["k"] for s in hists[5]["steps"]]})
    cap = 400 if ctx.thorough else 60           # histories per (instance, configuration)
    hseeds = list(range(4)) if ctx.thorough else [0, 1]
    qinst = {i["id"]: i for i in insts}
    confs = [("bms", "str", "numpy"), ("bms", "int", "numpy"), ("bms", "str", "torch"), ("ve", "str", "numpy"), ("bp", "str", "numpy"), ("ci", "str", "numpy"), ("ve", "int", "numpy"), ("ve", "tuple", "numpy"),
             ("bp", "int", "numpy"), ("ci", "int", "numpy"), ("ci", "tuple", "numpy"), ("bp", "tuple", "numpy"),
             ("ve", "str", "torch"), ("bp", "str", "torch"), ("ci", "str", "torch")]
    for be in ("numpy", "torch"):
        pl = []
        for hs in hseeds:
            for j, (eng, vk, b) in enumerate([c for c in confs if c[2] == be]):
                rs = random.Random(ctx.seed * 31 + hs * 7 + j)
                sel = []
                for iid, hl in by.items():
                    kinds = {k + 1: q["t"] for k, q in enumerate(qinst[iid]["questions"])}
                    if eng == "bms":          # histories of sampling calls only
                        hl = [h for h in hl if all(kinds[s["k"]] == "sample" for s in h["steps"])]
                    else:
                        hl = [h for h in hl if all(kinds[s["k"]] != "sample" for s in h["steps"])]
                        if eng != "bp":
                            hl = [h for h in hl if all(kinds[s["k"]] not in ("calibrate", "max_calibrate") for s in h["steps"])]
                        else:             # half of the budget: histories in which an engine operation precedes a question
                            pref = [h for h in hl if any(kinds[h["steps"][x]["k"]] in ("calibrate", "max_calibrate") and
                                                         kinds[h["steps"][x + 1]["k"]] in ("query", "map") for x in range(len(h["steps"]) - 1))]
                            sel += rs.sample(pref, min(cap // 2, len(pref)))
                    sel += rs.sample(hl, min(cap, len(hl)))
                pl.append((hs, {"insts": insts, "hists": sel, "engine": eng, "var_kind": vk, "seed": ctx.seed * 100 + hs * 8 + j}))
        for res in run_workers(ctx, "c16", "replay_gen", pl, backend=be):
            ctx.traces += res["n"]
            ctx.evaluations += res["calls"]
            for fl in res["fails"]:
                fl["features"]["backend"] = be
                ctx.violation(fl)


def replay(ctx, rec):
    c = rec["case"]
    res = run_workers(ctx, "c16", "replay_gen", [(c["hashseed"], {"insts": [c["inst"]], "hists": [c["hist"]], "engine": c["engine"],
                                                                 "var_kind": c["var_kind"], "seed": c["seed"]})],
                      backend=rec["features"].get("backend", "numpy"))[0]
    return res["fails"][:1] or None


def selftest(ctx):
    """a stub engine that remembers the previous virtual evidence must be caught: emulate by swapping two expected answers"""
    ctx.seed = 3
    insts = make_instances(ctx)[:1]
    f = os.path.join(ctx.work, "inst_c16.json")
    with open(f, "w") as fh:
        json.dump(insts, fh)
    r = ctx.tlc("Gen_C16", CFG % 2, env={"INST_FILE": f}, tag="self")
    h = next(h for h in r.prints if {h["steps"][0]["k"], h["steps"][1]["k"]} == {3, 4})
    h["steps"][1]["ans"] = h["steps"][0]["ans"]          # "the second virtual-evidence question got the first one's answer"
    res = run_workers(ctx, "c16", "replay_gen", [(0, {"insts": insts, "hists": [h], "engine": "ve", "var_kind": "str", "seed": 1})])[0]
    if not res["fails"]:
        raise Machinery("selftest: stale answer accepted")


# =========================================================================== worker side
def _snapshot(model):
    import numpy as np
    return (sorted(map(repr, model.nodes())), sorted(map(repr, model.edges())), sorted(map(repr, model.latents)),
            sorted((repr(c.variables), tuple(int(x) for x in c.cardinality), np.asarray(c.values if not hasattr(c.values, "detach") else c.values.detach().cpu().numpy()).round(12).tobytes(),
                    repr(sorted((repr(k), repr(v)) for k, v in c.state_names.items()))) for c in model.cpds))


def replay_gen(payload):
    import numpy as np
    from pgmpy.inference import BeliefPropagation, CausalInference, VariableElimination
    from pgmpy.sampling import BayesianModelSampling
    from pgmpy.factors.discrete import State
    from ..bnutil import Conc, build_bn, fval, make_virtual
    rng = random.Random(payload["seed"])
    hs = int(os.environ.get("PYTHONHASHSEED", "0"))
    tol = 1e-9 if os.environ.get("VERIF_BACKEND", "numpy") == "numpy" else 1e-6
    insts = {i["id"]: i for i in payload["insts"]}
    engk, vk = payload["engine"], payload["var_kind"]
    fails, ncalls = [], 0
    for h in payload["hists"]:
        inst = insts[h["inst"]]
        conc = Conc(inst, rng, vk, "any")
        model = build_bn(inst, conc, rng)
        snap0 = _snapshot(model)
        try:
            eng = {"ve": VariableElimination, "bp": BeliefPropagation, "ci": CausalInference, "bms": BayesianModelSampling}[engk](model)
        except Exception as ex:  # noqa
            if engk == "bp" and "sepset" in repr(ex):
                continue
            fails.append({"api": engk, "clause": "engine_construction_raises", "features": {"engine": engk, "var_kind": vk},
                          "case": {"inst": inst, "hist": h, "engine": engk, "var_kind": vk, "seed": payload["seed"], "hashseed": hs},
                          "observed": repr(ex)[:200]})
            continue
        for si, st in enumerate(h["steps"]):
            q = inst["questions"][st["k"] - 1]
            ans = st["ans"]
            virt = q["virt"] if isinstance(q["virt"], dict) else {}
            ev = q["ev"] if isinstance(q["ev"], dict) else {}
            do = q["do"] if isinstance(q["do"], dict) else {}
            if engk == "ci" and (q["t"] == "map" or virt):
                continue
            if engk != "ci" and q["t"] == "do":
                continue
            if (q["t"] == "sample") != (engk == "bms") or (q["t"] in ("calibrate", "max_calibrate") and engk != "bp"):
                continue
            feat = {"engine": engk, "var_kind": vk, "qtype": q["t"], "virt": bool(virt)}

            def fail(clause, obs=None):
                fails.append({"api": engk + "." + q["t"], "clause": clause, "features": dict(feat),
                              "case": {"inst": inst, "hist": h, "engine": engk, "var_kind": vk, "seed": payload["seed"], "hashseed": hs},
                              "observed": obs, "expected": ans})
            evd = conc.ev(ev)
            evd_before = copy.deepcopy(evd)
            vl = make_virtual(inst, conc, virt) if virt else None
            vl_before = [np.asarray(c.values if not hasattr(c.values, "detach") else c.values.detach().cpu().numpy()).copy() for c in vl] if vl else None
            qv = [conc.vn[v] for v in q["q"]]
            ncalls += 1
            def sample_call(e):
                evs = [State(conc.vn[v], conc.sn[v][s_]) for v, s_ in ev.items()]
                if q["method"] == "forward":
                    return e.forward_sample(size=q["size"], seed=q["seed"], include_latents=True, show_progress=False, n_jobs=1)
                if q["method"] == "lw":
                    return e.likelihood_weighted_sample(evidence=evs, size=q["size"], seed=q["seed"], include_latents=True, show_progress=False, n_jobs=1)
                return e.rejection_sample(evidence=evs, size=q["size"], seed=q["seed"], include_latents=True, show_progress=False)
            try:
                if q["t"] in ("calibrate", "max_calibrate"):
                    getattr(eng, q["t"])()
                    if _snapshot(model) != snap0:
                        fail("model_changed")
                        break
                    continue
                if q["t"] == "sample":
                    got = sample_call(eng)
                    want = sample_call(BayesianModelSampling(model))
                    if _snapshot(model) != snap0:
                        fail("model_changed")
                        break
                    cols = sorted(got.columns, key=repr)
                    same = sorted(want.columns, key=repr) == cols and all(
                        [repr(x) for x in got[c].tolist()] == [repr(x) for x in want[c].tolist()] for c in cols if c != "_weight") and (
                        "_weight" not in cols or all(abs(a_ - b_) <= tol for a_, b_ in zip(got["_weight"], want["_weight"])))
                    if not same:
                        fail("answer_differs_from_fresh_engine", {"method": q["method"]})
                        break
                    continue
                if q["t"] == "query":
                    # (the caller-owned dictionary itself is handed over, also when it is empty)
                    kw = dict(variables=qv, evidence=evd if (evd or si % 2) else None, show_progress=False)
                    if engk != "ci":
                        kw["joint"] = True
                        if vl:
                            kw["virtual_evidence"] = vl
                        if engk == "ve":
                            kw["elimination_order"] = ["greedy", "MinFill", "MinWeight"][si % 3]
                    res = eng.query(**kw)
                elif q["t"] == "map":
                    kw = dict(variables=qv, evidence=evd if evd else None, show_progress=False)
                    if vl:
                        kw["virtual_evidence"] = vl
                    res = eng.map_query(**kw)
                else:
                    res = eng.query(variables=qv, do={conc.vn[v]: conc.sn[v][s] for v, s in do.items()}, show_progress=False)
            except Exception as ex:  # noqa
                fail("raises", repr(ex)[:200])
                break
            # ---- frame: model and arguments unchanged
            if _snapshot(model) != snap0:
                fail("model_changed")
                break
            if evd != evd_before:
                fail("evidence_argument_changed", {repr(k): repr(v) for k, v in evd.items()})
                break
            if vl and any(not np.array_equal(np.asarray(c.values if not hasattr(c.values, "detach") else c.values.detach().cpu().numpy()), b0)
                          for c, b0 in zip(vl, vl_before)):
                fail("virtual_evidence_argument_changed")
                break
            # ---- answer
            if ans["kind"] == "map":
                try:
                    got = {conc.inv[k]: conc.sinv[conc.inv[k]][v.item() if hasattr(v, "item") else v] for k, v in res.items()}
                except Exception:  # noqa
                    fail("invalid_state_name", repr(res)[:200])
                    break
                if got not in ans["maps"]:
                    fail("not_a_maximiser", got)
                    break
            else:
                try:
                    if set(res.variables) != set(qv):
                        fail("result.scope", [repr(v) for v in res.variables])
                        break
                    bad = []
                    for row in ans["rows"]:
                        x = fval(res, {conc.vn[v]: conc.sn[v][s] for v, s in row["a"].items()})
                        if not (abs(x - row["w"] / ans["tot"]) <= tol):
                            bad.append({"a": row["a"], "got": x, "want": [row["w"], ans["tot"]]})
                    if bad:
                        fail("answer_differs_from_fresh_engine", bad[:3])
                        break
                except Exception as ex:  # noqa
                    fail("result_unreadable", repr(ex)[:200])
                    break
    return {"n": len(payload["hists"]), "calls": ncalls, "fails": fails[:80]}
