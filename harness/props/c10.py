"""C10 structure scores equal their published definitions.

Oracle: spec/ScoreSpec.tla (K2 / BDeu / BDs / BIC / AIC local scores as exact symbolic LogForm normal forms over ALL q parent
configurations and ALL r declared states; log prior; decomposition) evaluated by TLC.
  MC_C10Form : lemmas about the symbolic arithmetic (Legendre, Gamma recurrence, duplication ...) + the lgamma table used to
               validate the harness' form evaluator.
  Gen_C10D   : all DAGs on <= 4 columns: families, BDs log prior, Markov equivalence class (DagLib!IEquivalent) + class lemmas.
  Gen_C10    : per data set (every multiset of rows of small universes; seeded larger sparse data sets) x declared-state mode x
               score type: the table of all local scores as forms; lemmas ZeroConfigNeutral, K2IsBD1, BDsIsBDeuWhenFull,
               RowOrderInvariant, ScoreEquivalent (all equivalent DAG pairs, identical forms).
Replay (workers, real pgmpy): local_score == form; relations between runs (parent order, row/column/state-order permutation and
dtype, ScoreCache hit/miss/eviction == uncached, score == sum of local scores of TLC's families + TLC's prior, structure_prior,
structure_score, ScoreCache.score, equal scores on every TLC-enumerated pair of Markov-equivalent DAGs).
The harness never computes a score: it evaluates TLC's forms with math.log and compares numbers."""
import itertools
import json
import math
import os
import random

from ..core import Machinery, chunks, jhash, run_workers

TOL = 1e-9
TOKENS = ["v0", "v1", "v2", "v3", "v4", "v5", "v6", "v7"]
EQUIV_TYPES = ("bdeu", "bic", "aic")


# ============================================================================================ form evaluation (trusted, tiny)
def ev_form(f):
    """k + sum_p (c_p / 2) log p + (pi / 2) log PI  -- coefficients are stored doubled by the spec"""
    return f["k"] + math.fsum(c / 2.0 * math.log(p) for p, c in f["lg"]) + f["pi"] / 2.0 * math.log(math.pi)


def close(a, b):
    try:
        a, b = float(a), float(b)
    except (TypeError, ValueError):
        return False
    if math.isnan(a) or math.isnan(b) or math.isinf(a) or math.isinf(b):
        return False
    return abs(a - b) <= TOL * max(1.0, abs(a), abs(b))


# ============================================================================================ instances (harness -> TLC)
def _lcm(a, b):
    return a * b // math.gcd(a, b)


def _types(cards, maxpar, extra=()):
    """score types for one instance.  The BDeu/BDs sample size `adm` makes every (variable, parent set) admissible
    (2 ess is a multiple of every q r): closed form everywhere, and the ScoreEquivalent lemma applies.  The others
    (default 10, 1, 7/10 ...) are admissible for some families only; elsewhere only relations between runs are checked."""
    prods = {1}
    for k in range(1, min(maxpar + 1, len(cards)) + 1):
        for sub in itertools.combinations(cards, k):
            prods.add(math.prod(sub))
    L = 1
    for p in prods:
        L = _lcm(L, p)
    adm = L // 2 if L % 2 == 0 else L
    ts = [{"t": "k2", "en": 0, "ed": 1}, {"t": "bic", "en": 0, "ed": 1}, {"t": "aic", "en": 0, "ed": 1},
          {"t": "bdeu", "en": adm, "ed": 1}, {"t": "bds", "en": adm, "ed": 1},
          {"t": "bdeu", "en": 10, "ed": 1}, {"t": "bds", "en": 10, "ed": 1}]
    for en, ed in extra:
        ts.append({"t": "bdeu", "en": en, "ed": ed})
        ts.append({"t": "bds", "en": en, "ed": ed})
    seen, out = set(), []
    for t in ts:
        k = (t["t"], t["en"], t["ed"])
        if k not in seen:
            seen.add(k)
            out.append(t)
    return out, max([adm, 10] + [math.ceil(en / ed) for en, ed in extra])


def _dom(cards):
    return {TOKENS[i]: [f"s{j}" for j in range(c)] for i, c in enumerate(cards)}


def universes(thorough):
    """(cards, nrows): TLC enumerates EVERY multiset of nrows rows over the joint state space"""
    if thorough:
        spec = [((2, 3), 1), ((2, 3), 2), ((2, 3), 3), ((2, 3), 4), ((3, 3), 2), ((3, 3), 3), ((1, 3), 3), ((2, 2, 2), 2),
                ((2, 2, 2), 3), ((2, 3, 2), 3)]
    else:
        spec = [((2, 3), 1), ((2, 3), 2), ((2, 3), 3), ((2, 2, 2), 2), ((1, 3), 2)]
    out = []
    for cards, n in spec:
        cols = TOKENS[:len(cards)]
        maxpar = len(cards) - 1
        types, emax = _types(cards, maxpar, extra=[(3, 2)] + ([(1, 1)] if thorough else []))
        decls = [cols, [], cols[-1:]] if len(cols) > 1 else [cols, []]
        out.append({"id": f"U{'x'.join(map(str, cards))}n{n}", "kind": "universe", "cols": cols, "dom": _dom(cards), "rows": [],
                    "nrows": n, "types": types, "decls": decls, "maxpar": maxpar, "emax": emax})
    return out


def random_data(rng, thorough):
    """seeded larger data sets: skewed (sparse: many unobserved parent configurations), declared extra states, card 1..4"""
    shapes = [((2, 3, 2, 2), 12, 3), ((3, 2, 3, 1), 9, 3), ((3, 4, 2, 3, 2), 14, 2)]
    if thorough:
        shapes += [((2, 2, 3, 3), 20, 3), ((2, 2, 2, 2), 30, 3), ((3, 3, 2, 2), 25, 3), ((2, 3, 4, 2), 16, 3), ((1, 2, 3, 2), 10, 3), ((3, 3, 3, 2), 40, 3),
                   ((2, 3, 2, 4, 3), 30, 3), ((4, 2, 3, 2, 2, 3), 24, 2), ((3, 3, 2, 4, 2, 2), 45, 2), ((2, 4, 4, 3, 2), 18, 2)]
    out = []
    for k, (cards, n, maxpar) in enumerate(shapes):
        cols = TOKENS[:len(cards)]
        dom = _dom(cards)
        # skew: geometric weights, and for some columns the last declared state never occurs
        hide = {c for c in cols if len(dom[c]) >= 2 and rng.random() < 0.4}
        rows = []
        base = {c: rng.choice(dom[c]) for c in cols}
        for _ in range(n):
            row = {}
            for c in cols:
                pool = dom[c][:-1] if c in hide else dom[c]
                w = [3.0 ** (-i) for i in range(len(pool))]
                rng.shuffle(w)
                row[c] = base[c] if (rng.random() < 0.35 and base[c] in pool) else rng.choices(pool, weights=w)[0]
            rows.append(row)
        types, emax = _types(cards, maxpar, extra=[(1, 1), (5, 2), (7, 10)])
        some = [c for c in cols if rng.random() < 0.5] or cols[:1]
        out.append({"id": f"D{k}_{'x'.join(map(str, cards))}n{n}", "kind": "data", "cols": cols, "dom": dom, "rows": rows, "nrows": n,
                    "types": types, "decls": [cols, [], some], "maxpar": maxpar, "emax": emax})
    return out


GEN_CFG = ("CONSTANT PMax = %d\nCONSTANT MaxPar = %d\nCONSTANT EquivMaxCols = %d\nCONSTANT EquivTypes = %s\nINIT Init\nNEXT Next\n"
           "INVARIANT ZeroConfigNeutral\nINVARIANT K2IsBD1\nINVARIANT BDsIsBDeuWhenFull\nINVARIANT RowOrderInvariant\n"
           "INVARIANT ScoreEquivalent\nINVARIANT Emit\n")


def run_gen(ctx, insts, tag, equiv_types='{"bdeu", "bic", "aic"}', **kw):
    """one TLC run per MaxPar value (it is a spec constant); returns the printed records"""
    recs = []
    for maxpar in sorted({i["maxpar"] for i in insts}):
        sub = [i for i in insts if i["maxpar"] == maxpar]
        pmax = max(2 * (i["nrows"] + i["emax"]) + 4 for i in sub)
        eqcols = max([len(i["cols"]) for i in sub if len(i["cols"]) <= 4 and maxpar >= len(i["cols"]) - 1] or [1])
        f = os.path.join(ctx.work, f"inst_{tag}_{maxpar}.json")
        with open(f, "w") as fh:
            json.dump(sub, fh)
        r = ctx.tlc("Gen_C10", GEN_CFG % (pmax, maxpar, eqcols, equiv_types), env={"INST_FILE": f}, tag=f"Gen_{tag}_p{maxpar}",
                    coverage=True, timeout=3000, **kw)
        if kw.get("allow_invariant_violation"):
            return r
        recs += r.prints
    return recs


# ============================================================================================ grouping for the workers
def make_groups(insts, recs, dags, rng, thorough):
    """group = one (data set, declared-columns) pair with all its score-type records + the DAGs to score"""
    by_id = {i["id"]: i for i in insts}
    groups = {}
    for r in recs:
        inst = by_id[r["inst"]]
        rows = r["rows"] if inst["kind"] == "universe" else inst["rows"]
        key = jhash([r["inst"], rows, sorted(r["decl"])])
        g = groups.setdefault(key, {"gid": key, "inst": {k: inst[k] for k in ("id", "kind", "cols", "dom")}, "rows": rows,
                                    "decl": sorted(r["decl"]), "recs": [], "dags": [], "full": False})
        g["recs"].append({"type": r["type"], "entries": r["entries"], "equiv_lemma": r["equiv_lemma"]})
    out = [groups[k] for k in sorted(groups)]
    for g in out:
        g["recs"].sort(key=lambda x: (x["type"]["t"], x["type"]["en"], x["type"]["ed"]))
        n = len(g["inst"]["cols"])
        if n > 4 or n not in dags:
            continue
        classes = dags[n]["classes"]
        universe = g["inst"]["kind"] == "universe"
        if n <= 2:
            pick = list(range(len(classes)))
        elif universe:
            pick = rng.sample(range(len(classes)), 1 if not thorough else 2)
        elif n == 3:
            pick = list(range(len(classes)))
        else:
            pick = rng.sample(range(len(classes)), min(len(classes), 40 if thorough else 8))
        # whole classes are handed over, so every pair of equivalent DAGs inside a picked class is compared
        g["dags"] = [dags[n]["by_key"][k] for ci in pick for k in classes[ci]]
        g["full"] = not universe
    return out


def read_dags(prints):
    """Gen_C10D output -> per n: DAG records by canonical key, equivalence classes (lists of keys)"""
    out = {}
    for d in prints:
        n = d["n"]
        o = out.setdefault(n, {"by_key": {}, "classes": set()})
        key = json.dumps(sorted(map(list, d["edges"])))
        o["by_key"][key] = {"key": key, "edges": sorted(map(list, d["edges"])), "fams": d["fams"], "prior_bds": d["prior_bds"],
                            "cls": sorted(json.dumps(sorted(map(list, c))) for c in d["cls"])}
        o["classes"].add(tuple(o["by_key"][key]["cls"]))
    for n, o in out.items():
        o["classes"] = sorted(o["classes"])
        for c in o["classes"]:
            for k in c:
                if k not in o["by_key"] or tuple(o["by_key"][k]["cls"]) != c:
                    raise Machinery("Gen_C10D: equivalence classes are not a partition")
    return out


def check_evaluator(prints):
    """the trusted evaluator against math.lgamma on TLC's table of lgamma(m/2) forms (machinery, not a property)"""
    tab = [x for p in prints for x in p]
    if len(tab) < 20:
        raise Machinery("MC_C10Form printed no lgamma table")
    for x in tab:
        if not close(ev_form(x["f"]), math.lgamma(x["m"] / 2.0)):
            raise Machinery(f"form evaluator disagrees with math.lgamma at {x['m']}/2: {ev_form(x['f'])}")
    return len(tab)


# ============================================================================================ run / replay / selftest
def run(ctx):
    ctx.rule = ("distinct = (data set, declared columns, score type+ess, variable, parent set) with >= 1 parent; data sets: every multiset "
                "of rows of the listed small universes (exhaustive) + seeded sparse data sets (4-6 columns, card 1-4); all parent sets "
                "up to MaxPar; all DAGs / all Markov-equivalent pairs on <= 4 columns enumerated by TLC (sampled classes per data set).")
    ctx.assumptions += [
        "log / lgamma are not computed by TLC: scores are exact symbolic forms (rational + sum c_p log p + c log pi) built in TLA+ "
        "from prime factorisations (Legendre); the harness evaluates a form with math.log (validated against math.lgamma on TLC's table)",
        "BDeu/BDs closed form only where ess/(q r) is an integer or half-integer; for other ess (10, 1, 5/2, 7/10) only relations between runs",
        "published BDs = Scutari (2016): Dirichlet ess/(r q~) over the observed parent configurations, marginal uniform graph prior",
        "float comparison at relative/absolute 1e-9; data without missing values; at least one row; column labels are strings "
        "(integer column labels make BaseEstimator.state_counts raise inside pandas' unstack for >= 2 parents - outside this property)",
    ]
    rng = random.Random(ctx.seed + 10)
    r = ctx.tlc("MC_C10Form", "CONSTANT PMax = %d\nINIT Init\nNEXT Next\nINVARIANT Holds\nINVARIANT Emit\n" % (400 if ctx.thorough else 160),
                tag="MC_form", coverage=True)
    ctx.extra["lgamma_table_checked"] = check_evaluator(r.prints)
    r = ctx.tlc("Gen_C10D", "CONSTANT PMax = 2\nCONSTANT MaxN = 4\nCONSTANT SameDSepMaxN = 3\nCONSTANT IEqMaxN = %d\nINIT Init\nNEXT Next\n"
                "INVARIANT ClassLemmas\nINVARIANT Emit\n" % (4 if ctx.thorough else 3), tag="Gen_dags", coverage=True, timeout=3000)
    dags = read_dags(r.prints)
    if [len(dags[n]["by_key"]) for n in (1, 2, 3, 4)] != [1, 3, 25, 543] or len(dags[4]["classes"]) != 185:
        raise Machinery("Gen_C10D: unexpected number of DAGs / classes")
    ctx.extra["equivalent_dag_pairs_enumerated"] = sum(len(c) * (len(c) - 1) // 2 for n in dags for c in dags[n]["classes"])
    uni = universes(ctx.thorough)
    dat = random_data(rng, ctx.thorough)
    recs = run_gen(ctx, uni, "uni") + run_gen(ctx, dat, "data")
    ctx.require_actions(["ScoreK2", "ScoreBDeu", "ScoreBDs", "ScoreBIC", "ScoreAIC", "Visit"])
    if not any(x["equiv_lemma"] for x in recs):
        raise Machinery("vacuity: the ScoreEquivalent lemma was never applicable")
    ctx.exhaustive = True
    groups = make_groups(uni + dat, recs, dags, rng, ctx.thorough)
    for g in groups:
        for rec in g["recs"]:
            for e in rec["entries"]:
                ctx.count(json.dumps([g["gid"], rec["type"], e["v"], sorted(e["ps"])]), nontrivial=len(e["ps"]) > 0, n=0)
    g0 = next(g for g in groups if g["inst"]["kind"] == "data")
    ctx.sample({"data": g0["inst"]["id"], "rows": g0["rows"][:4], "declared": g0["decl"], "type": g0["recs"][0]["type"],
                "entry": g0["recs"][0]["entries"][-1]})
    ctx.sample({"dag": g0["dags"][-1]["edges"], "families": g0["dags"][-1]["fams"], "equivalent_to": g0["dags"][-1]["cls"][:3]} if g0["dags"] else {})
    # cost-balanced chunks: big groups first, round-robin
    groups.sort(key=lambda g: -(len(g["dags"]) * 8 + sum(len(r["entries"]) for r in g["recs"])))
    nw = 8
    hseeds = [0, 1] if not ctx.thorough else [0, 1, 2, 3]
    buckets = [[] for _ in range(nw)]
    for i, g in enumerate(groups):
        buckets[i % nw].append(g)
    pl = [(hseeds[j % len(hseeds)], {"groups": b, "seed": ctx.seed, "stub": None}) for j, b in enumerate(buckets) if b]
    tot = {}
    for res in run_workers(ctx, "c10", "replay_groups", pl, timeout=3000):
        ctx.traces += res["n"]
        ctx.evaluations += res["calls"]
        for k, v in res["checks"].items():
            tot[k] = tot.get(k, 0) + v
        ctx.extra.setdefault("worker_seconds", []).append(res["timing"])
        for fl in res["fails"]:
            ctx.violation(fl)
    ctx.extra["checks"] = tot
    for need in ("closed_form", "parent_order", "data_permutation", "cache_local", "decomposition", "structure_prior", "cached_score",
                 "structure_score", "markov_equivalence"):
        if not tot.get(need):
            raise Machinery(f"vacuity: no '{need}' comparison was made")


def replay(ctx, rec):
    case = rec["case"]
    res = run_workers(ctx, "c10", "replay_groups", [(case["hashseed"], {"groups": [case["group"]], "seed": case["seed"], "stub": None})])[0]
    same = [f for f in res["fails"] if f["api"] == rec["api"] and f["clause"] == rec["clause"]]
    hit = same or res["fails"]
    return hit[0] if hit else None


def selftest(ctx):
    """anti-vacuity: (1) TLC must refute score equivalence for K2; (2) a corrupted form and (3) wrong in-memory scorers
    (parent-order dependent, off-by-one sample size, cache returning stale value) must be rejected by the replayer."""
    rng = random.Random(3)
    inst = random_data(rng, False)[0]
    inst["types"] = inst["types"][:5]          # k2, bic, aic, bdeu(adm), bds(adm)
    inst["decls"] = inst["decls"][:1]
    r = run_gen(ctx, [inst], "self_k2", equiv_types='{"k2"}', allow_invariant_violation=True)
    if r.invariant_violated != "ScoreEquivalent":
        raise Machinery(f"selftest: TLC did not refute score equivalence of K2 (got {r.invariant_violated})")
    recs = run_gen(ctx, [inst], "self")
    r = ctx.tlc("Gen_C10D", "CONSTANT PMax = 2\nCONSTANT MaxN = 3\nCONSTANT SameDSepMaxN = 3\nCONSTANT IEqMaxN = 3\nINIT Init\nNEXT Next\n"
                "INVARIANT ClassLemmas\nINVARIANT Emit\n", tag="self_dags")
    dags = read_dags(r.prints)
    inst3 = dict(inst, id="S3", cols=inst["cols"][:3], dom={c: inst["dom"][c] for c in inst["cols"][:3]},
                 rows=[{c: row[c] for c in inst["cols"][:3]} for row in inst["rows"]], decls=[inst["cols"][:3]], maxpar=2)
    recs3 = run_gen(ctx, [inst3], "self3")
    groups = make_groups([inst, inst3], recs + recs3, dags, rng, False)
    base = run_workers(ctx, "c10", "replay_groups", [(0, {"groups": groups, "seed": 1, "stub": None})])[0]
    base_sig = {(f["api"], f["clause"], json.dumps(f["features"], sort_keys=True)) for f in base["fails"]}

    def new_clauses(stub, gs=groups):
        res = run_workers(ctx, "c10", "replay_groups", [(0, {"groups": gs, "seed": 1, "stub": stub})])[0]
        return {f["clause"] for f in res["fails"]
                if (f["api"], f["clause"], json.dumps(f["features"], sort_keys=True)) not in base_sig}
    # (2) corrupt one coefficient of every BIC form by +1 (= 0.5 log p)
    bad = json.loads(json.dumps(groups))
    for g in bad:
        for rec in g["recs"]:
            if rec["type"]["t"] == "bic":
                for e in rec["entries"]:
                    e["f"]["lg"] = [[2, 1]] + [x for x in e["f"]["lg"] if x[0] != 2] if not any(x[0] == 2 for x in e["f"]["lg"]) \
                        else [[p, c + 1] if p == 2 else [p, c] for p, c in e["f"]["lg"]]
    if "closed_form" not in new_clauses(None, bad):
        raise Machinery("selftest: corrupted BIC forms were accepted")
    for stub, clause in (("parent_order", "parent_order"), ("bic_n_plus_1", "closed_form"), ("stale_cache", "cache_local"),
                         ("row_order", "data_permutation"), ("no_prior", "decomposition"), ("bic_not_equivalent", "markov_equivalence")):
        got = new_clauses(stub)
        if clause not in got:
            raise Machinery(f"selftest: wrong stub '{stub}' was not rejected by clause '{clause}' (got {sorted(got)})")
    check_evaluator(ctx.tlc("MC_C10Form", "CONSTANT PMax = 60\nINIT Init\nNEXT Next\nINVARIANT Holds\nINVARIANT Emit\n", tag="self_form").prints)


# ============================================================================================ worker side
class Conc:
    """concretisation of one data set: column names, per-column state representation, row / column / state-list orders"""

    def __init__(self, inst, rng, kinds=None):
        from ..concretise import var_names
        self.cols = list(inst["cols"])
        self.dom = inst["dom"]
        self.vn = var_names(self.cols, rng, rng.choice(["str", "str", "ident", "smallint"]))      # column labels: strings or small ints
        self.kind = {c: (kinds or {}).get(c) or rng.choice(["str", "str", "int", "cat", "float"]) for c in self.cols}
        self.sn = {}
        for c in self.cols:
            st = self.dom[c]
            k = self.kind[c]
            if k in ("str", "cat"):
                pool = rng.choice([["low", "mid", "high", "top"], ["no", "yes", "maybe", "n/a"], ["s_c", "s_a", "s_b", "s_d"]])
                self.sn[c] = {s: pool[i] for i, s in enumerate(st)}
            elif k == "int":
                off = rng.choice([0, 1, 10])
                self.sn[c] = {s: off + (len(st) - 1 - i) for i, s in enumerate(st)}
            else:
                self.sn[c] = {s: 0.5 + i for i, s in enumerate(st)}

    def frame(self, rows, decl, rng):
        """DataFrame (shuffled rows and columns) + state_names kwarg (declared columns only, shuffled state lists)"""
        import pandas as pd
        rows = list(rows)
        rng.shuffle(rows)
        cols = list(self.cols)
        rng.shuffle(cols)
        data = {}
        for c in cols:
            vals = [self.sn[c][r[c]] for r in rows]
            k = self.kind[c]
            if k == "str":
                data[self.vn[c]] = pd.Series(vals, dtype=object)
            elif k == "cat":
                cats = [self.sn[c][s] for s in self.dom[c]]     # categories include the declared-but-unobserved states
                rng.shuffle(cats)
                data[self.vn[c]] = pd.Series(pd.Categorical(vals, categories=cats))
            elif k == "int":
                data[self.vn[c]] = pd.Series(vals, dtype="int64")
            else:
                data[self.vn[c]] = pd.Series(vals, dtype="float64")
        df = pd.DataFrame(data, columns=[self.vn[c] for c in cols])
        sn = None
        if decl:
            sn = {}
            for c in decl:
                lst = [self.sn[c][s] for s in self.dom[c]]
                rng.shuffle(lst)
                sn[self.vn[c]] = lst
        return df, sn


def _stub_classes(stub, classes):
    """deliberately wrong scorers for the self-test"""
    K2, BDeu, BDs, Bic, Aic = classes
    if stub == "parent_order":
        class Bad(Bic):
            def local_score(self, variable, parents):
                ps = list(parents)
                return super().local_score(variable, ps) + (1e-6 if len(ps) > 1 and ps[0] > ps[1] else 0.0)
        return (K2, BDeu, BDs, Bad, Aic)
    if stub == "bic_n_plus_1":
        class Bad(Bic):
            def local_score(self, variable, parents):
                import math as m
                n = len(self.data)
                q = 1
                for p in parents:
                    q *= len(self.state_names[p])
                k = q * (len(self.state_names[variable]) - 1)
                return super().local_score(variable, parents) + 0.5 * k * (m.log(n) - m.log(n + 1))
        return (K2, BDeu, BDs, Bad, Aic)
    if stub == "row_order":
        class Bad(Aic):
            def local_score(self, variable, parents):
                first = self.data[variable].iloc[0]
                return super().local_score(variable, parents) + (1e-5 if first == sorted(self.state_names[variable])[0] else 0.0)
        return (K2, BDeu, BDs, Bic, Bad)
    if stub == "no_prior":
        class Bad(BDs):
            def score(self, model):
                return sum(self.local_score(n, list(model.predecessors(n))) for n in model.nodes())
        return (K2, BDeu, Bad, Bic, Aic)
    if stub == "bic_not_equivalent":
        class Bad(Bic):
            def local_score(self, variable, parents):
                return super().local_score(variable, parents) - (0.01 * len(list(parents)) if variable == min(self.variables) else 0.0)
        return (K2, BDeu, BDs, Bad, Aic)
    return classes


def replay_groups(payload):
    import numpy as np  # noqa
    from pgmpy.base import DAG
    from pgmpy.estimators import AICScore, BDeuScore, BDsScore, BicScore, K2Score
    from pgmpy.estimators.ScoreCache import ScoreCache
    from pgmpy.metrics import structure_score
    from pgmpy.models import BayesianNetwork

    stub = payload.get("stub")
    K2, BDeu, BDs, Bic, Aic = _stub_classes(stub, (K2Score, BDeuScore, BDsScore, BicScore, AICScore))
    CLS = {"k2": K2, "bdeu": BDeu, "bds": BDs, "bic": Bic, "aic": Aic}
    if stub == "stale_cache":
        class ScoreCache(ScoreCache):       # noqa: a cache that ignores the variable
            def local_score(self, variable, parents):
                return self.cache("_", tuple(parents))

            def _wrapped_original(self, variable, parents):
                return self.base_scorer.local_score(self._v, list(parents))
    hs = int(os.environ.get("PYTHONHASHSEED", "0"))
    seed = payload["seed"]
    fails, per_sig = [], {}
    calls = [0]
    checks = {}

    def tick(name, k=1):
        checks[name] = checks.get(name, 0) + k

    ntraces = 0
    import time
    tim = {}
    t_last = [time.time()]

    def lap(name):
        now = time.time()
        tim[name] = tim.get(name, 0.0) + now - t_last[0]
        t_last[0] = now
    for g in payload["groups"]:
        inst, rows, decl = g["inst"], g["rows"], g["decl"]
        rng = random.Random(f"{seed}|{g['gid']}")
        conc = Conc(inst, rng)
        df, sn = conc.frame(rows, decl, rng)
        conc2 = Conc(inst, rng)
        df2, sn2 = conc2.frame(rows, decl, rng)
        lap("frames")
        from ..frames import df_snapshot
        snap_df, snap_df2 = df_snapshot(df), df_snapshot(df2)

        def fail(api, clause, feats, rec, entries, dags, obs, exp, detail=None):
            sig = (api, clause, json.dumps(feats, sort_keys=True))
            per_sig[sig] = per_sig.get(sig, 0) + 1
            if per_sig[sig] > 2 or len(fails) >= 80:
                return
            mini = {"gid": g["gid"], "inst": inst, "rows": rows, "decl": decl, "full": g["full"],
                    "recs": [{"type": rec["type"], "entries": entries, "equiv_lemma": False}], "dags": dags}
            fails.append({"api": api, "clause": clause, "features": feats,
                          "case": {"group": mini, "seed": seed, "hashseed": hs,
                                   "columns": {t: str(conc.vn[t]) for t in conc.cols}, "dtypes": conc.kind,
                                   "frame": df.to_dict(orient="list"), "state_names": sn},
                          "observed": obs, "expected": exp, "detail": detail})

        def make(t, frame, names, cls=None):
            kw = {}
            if names is not None:
                kw["state_names"] = names
            if t["t"] in ("bdeu", "bds"):
                kw["equivalent_sample_size"] = t["en"] / t["ed"] if t["ed"] != 1 else t["en"]
            return (cls or CLS[t["t"]])(frame, **kw), kw

        for rec in g["recs"]:
            t = rec["type"]
            tname = {"k2": "K2Score", "bdeu": "BDeuScore", "bds": "BDsScore", "bic": "BicScore", "aic": "AICScore"}[t["t"]]
            ntraces += 1
            entries = rec["entries"]
            any_unobs_child = any(e["ro"] < e["r"] for e in entries)

            def efeat(e):
                return {"type": t["t"], "unobserved_parent_config": e["qo"] < e["q"], "unobserved_child_state": e["ro"] < e["r"],
                        "r_ge_3": e["r"] >= 3, "has_parents": len(e["ps"]) > 0}
            try:
                sc, kw = make(t, df, sn)
                sc2, _ = make(t, df2, sn2)
            except Exception as ex:  # noqa
                fail(tname + ".__init__", "raises", {"type": t["t"]}, rec, entries[:1], [], repr(ex)[:300], "scorer constructed")
                continue
            lap("scorers")
            obs = {}
            broken = False
            for e in entries:
                v, ps = e["v"], sorted(e["ps"])
                order = list(ps)
                rng.shuffle(order)
                cv = conc.vn[v]
                try:
                    calls[0] += 1
                    s0 = float(sc.local_score(cv, [conc.vn[p] for p in order]))
                except Exception as ex:  # noqa
                    fail(tname + ".local_score", "raises", efeat(e), rec, [e], [], repr(ex)[:300], "a number")
                    broken = True
                    continue
                obs[(v, tuple(ps))] = s0
                # ---- closed form (TLC's exact form, evaluated)
                if e["adm"]:
                    tick("closed_form")
                    exp = ev_form(e["f"])
                    if not close(s0, exp):
                        fail(tname + ".local_score", "closed_form", efeat(e), rec, [e], [], s0, exp,
                             {"variable": str(cv), "parents": [str(conc.vn[p]) for p in order], "q": e["q"], "r": e["r"],
                              "observed_configs": e["qo"], "observed_child_states": e["ro"], "diff": s0 - exp})
                # ---- parent order
                perms = list(itertools.permutations(ps))
                if len(perms) > 6:
                    perms = rng.sample(perms, 6)
                for pm in perms:
                    if list(pm) == order:
                        continue
                    calls[0] += 1
                    tick("parent_order")
                    try:
                        s1 = float(sc.local_score(cv, [conc.vn[p] for p in pm]))
                    except Exception as ex:  # noqa
                        s1 = repr(ex)[:200]
                    if not close(s1, s0):
                        fail(tname + ".local_score", "parent_order", efeat(e), rec, [e], [], s1, s0,
                             {"orders": [[str(conc.vn[p]) for p in order], [str(conc.vn[p]) for p in pm]]})
                        break
                # ---- rows / columns / declared-state order permuted, other names and dtypes
                if not g["full"] and (len(obs) + ntraces) % 2:
                    continue                        # exhaustive small universes: every other entry (alternating per record)
                calls[0] += 1
                tick("data_permutation")
                try:
                    s2 = float(sc2.local_score(conc2.vn[v], [conc2.vn[p] for p in ps]))
                except Exception as ex:  # noqa
                    s2 = repr(ex)[:200]
                if not close(s2, s0):
                    fail(tname + ".local_score", "data_permutation", efeat(e), rec, [e], [],
                         s2, s0, {"dtypes_b": conc2.kind, "frame_b": df2.to_dict(orient="list"), "state_names_b": sn2, "columns_b": {c: str(conc2.vn[c]) for c in conc2.cols}})
            lap("local")
            if broken:
                continue
            # ---- cached = uncached (miss, hit, eviction with a tiny cache)
            caches = []
            for max_size, qlen in ((10000, 8), (2, 5)) if (g["full"] or ntraces % 2) else ((10000, 6),):
                try:
                    ch = ScoreCache(sc, df, max_size=max_size)
                except Exception as ex:  # noqa
                    fail("ScoreCache.__init__", "raises", {"type": t["t"]}, rec, entries[:1], [], repr(ex)[:300], "cache constructed")
                    continue
                caches.append(ch)
                seq = [rng.choice(entries) for _ in range(min(len(entries), qlen))]
                seq += seq[:3]                      # repeats: hits (big cache) / evictions and re-computation (size 2)
                for e in seq:
                    v, ps = e["v"], sorted(e["ps"])
                    calls[0] += 1
                    tick("cache_local")
                    if stub == "stale_cache":
                        ch._v = conc.vn[v]
                    try:
                        s1 = float(ch.local_score(conc.vn[v], [conc.vn[p] for p in ps]))
                    except Exception as ex:  # noqa
                        s1 = repr(ex)[:200]
                    # same parent list order as a fresh uncached call
                    if not close(s1, obs[(v, tuple(ps))]):
                        fail("ScoreCache.local_score", "cache_local", {"type": t["t"], "max_size": max_size}, rec, [e], [], s1, obs[(v, tuple(ps))])
                        break
            lap("cache")
            # ---- networks: decomposition, prior, cached score, structure_score, Markov equivalence
            by_key = {}
            for di, d in enumerate(g["dags"]):
                nodes = list(inst["cols"])
                rng.shuffle(nodes)
                edges = [list(x) for x in d["edges"]]
                rng.shuffle(edges)
                model = (BayesianNetwork if di % 3 else DAG)()
                model.add_nodes_from([conc.vn[x] for x in nodes])
                model.add_edges_from([(conc.vn[a], conc.vn[b]) for a, b in edges])
                feats = {"type": t["t"], "unobserved_child_state": any_unobs_child}
                try:
                    calls[0] += 1
                    total = float(sc.score(model))
                    prior = float(sc.structure_prior(model))
                except Exception as ex:  # noqa
                    fail(tname + ".score", "raises", feats, rec, entries, [d], repr(ex)[:300], "a number")
                    continue
                by_key[d["key"]] = total
                exp_prior = ev_form(d["prior_bds"]) if t["t"] == "bds" else 0.0
                tick("structure_prior")
                if not close(prior, exp_prior):
                    fail(tname + ".structure_prior", "structure_prior", feats, rec, entries[:1], [d], prior, exp_prior)
                try:
                    exp_total = math.fsum(obs[(f["v"], tuple(sorted(f["ps"])))] for f in d["fams"]) + exp_prior
                except KeyError:
                    raise Machinery("family outside the emitted table (MaxPar too small for the DAGs handed over)")
                tick("decomposition")
                if not close(total, exp_total):
                    fail(tname + ".score", "decomposition", feats, rec, entries, [d], total, exp_total, {"edges": d["edges"]})
                if caches and (g["full"] or di % 2 == 0):
                    calls[0] += 1
                    tick("cached_score")
                    try:
                        cs = float(caches[di % len(caches)].score(model))
                    except Exception as ex:  # noqa
                        cs = repr(ex)[:200]
                    if not close(cs, total):
                        fail("ScoreCache.score", "cached_score", feats, rec, entries, [d], cs, total, {"edges": d["edges"]})
                if t["t"] in ("k2", "bdeu", "bds", "bic") and di % 4 == 1:
                    calls[0] += 1
                    tick("structure_score")
                    try:
                        ss = float(structure_score(model, df, scoring_method=t["t"], **kw))
                    except Exception as ex:  # noqa
                        ss = repr(ex)[:200]
                    if not close(ss, total):
                        fail("metrics.structure_score", "structure_score", feats, rec, entries, [d], ss, total, {"edges": d["edges"]})
            lap("networks")
            if t["t"] in EQUIV_TYPES:
                done = set()
                for d in g["dags"]:
                    for k2 in d["cls"]:
                        if k2 == d["key"] or k2 not in by_key or d["key"] not in by_key or (k2, d["key"]) in done:
                            continue
                        done.add((d["key"], k2))
                        tick("markov_equivalence")
                        if not close(by_key[d["key"]], by_key[k2]):
                            other = next(x for x in g["dags"] if x["key"] == k2)
                            fail(tname + ".score", "markov_equivalence", {"type": t["t"], "unobserved_child_state": any_unobs_child},
                                 rec, entries, [d, other], by_key[d["key"]], by_key[k2], {"dag_a": d["edges"], "dag_b": other["edges"]})
            # ---- C16: scoring never changes the data it was given
            tick("data_unchanged")
            if df_snapshot(df) != snap_df or df_snapshot(df2) != snap_df2:
                fail(tname + ".local_score", "data_argument_changed", {"type": t["t"]}, rec, entries[:1], [], None, "the data frame as passed in")
                snap_df, snap_df2 = df_snapshot(df), df_snapshot(df2)
    return {"n": ntraces, "calls": calls[0], "checks": checks, "fails": fails, "timing": {k: round(v, 1) for k, v in tim.items()},
            "kinds": {k: sum(1 for g in payload["groups"] if g["inst"]["kind"] == k) for k in ("universe", "data")}}
