"""C14 model conversions: traces of BN->MN->FG->JT, FG->MN->JT, triangulation (H1-H6, explicit orders), partition
function recorded from the real code and validated by TLC against MNLib (Trace_MN.tla)."""
import json
import os
import random

from .. import instances, mnutil
from ..core import Machinery, chunks, run_workers

CFG = "INIT Init\nNEXT Next\nVIEW View\nINVARIANT Report\n"


def make_instances(ctx):
    rng = random.Random(ctx.seed + 14)
    out = []
    shapes = ["edge", "chain4", "star4", "tri", "tri_tail", "cycle4", "cycle5", "cycle6", "k4", "two_tri"]
    if ctx.thorough:
        shapes += ["cycle7", "grid23"]
    reps = 3 if ctx.thorough else 1
    for _ in range(reps):
        for sh in shapes:
            out.append(mnutil.mn_instance(rng, len(out) + 1, sh, dup=rng.random() < 0.5, unary=rng.random() < 0.5,
                                          ternary=rng.random() < 0.5, zeros=rng.random() < 0.2))
    # every instance family gets at least one with duplicate (value-identical) factors
    out.append(mnutil.mn_instance(rng, len(out) + 1, "cycle4", dup=True))
    out.append(mnutil.mn_instance(rng, len(out) + 1, "chain4", dup=True, unary=True))
    bshapes = ["pair", "chain3", "collider3", "tri3", "diamond", "collider_desc", "family3", "mshape", "student"]
    for k, b in enumerate(instances.bn_instances(ctx.seed + 3, bshapes, 2 if ctx.thorough else 1,
                                                 kinds=("generic", "twins", "zeros"))):
        b["id"] = len(out) + 1
        out.append(mnutil.bn_as_factors(b))
    # disconnected graphs: every conversion except clique trees
    d = mnutil.mn_instance(rng, len(out) + 1, "edge")
    d["vars"] += ["v2", "v3"]
    d["dom"].update({"v2": ["s0", "s1"], "v3": ["s0", "s1", "s2"]})
    d["edges"].append(["v2", "v3"])
    d["factors"].append({"scope": ["v2", "v3"], "cells": mnutil._cells(rng, ["v2", "v3"], d["dom"])})
    d["disconnected"] = True
    out.append(d)
    # a chordless 4-cycle plus a separate tree component (fewer edges than nodes overall)
    d2 = mnutil.mn_instance(rng, len(out) + 1, "cycle4")
    d2["vars"] += ["v4", "v5", "v6"]
    d2["dom"].update({"v4": ["s0", "s1"], "v5": ["s0", "s1"], "v6": ["s0", "s1"]})
    for a, b in (("v4", "v5"), ("v5", "v6")):
        d2["edges"].append([a, b])
        d2["factors"].append({"scope": [a, b], "cells": mnutil._cells(rng, [a, b], d2["dom"])})
    d2["disconnected"] = True
    out.append(d2)
    return out


def run(ctx):
    ctx.rule = ("one trace per (instance, hash seed): every conversion path + triangulation under H1-H6 and two explicit orders + "
                "partition function; instances: Markov networks on 10-12 graph shapes (chains, stars, cycles 4-7, K4, grid) with unary, "
                "ternary and duplicate value-identical factors, Bayesian networks on 9 shapes (incl. twin CPDs), one disconnected graph. "
                "distinct = (instance, hash seed); non-trivial iff the graph has a cycle or the factor list has duplicates.")
    ctx.assumptions += ["integer / small-rational potentials (exact arithmetic in TLC)",
                        "clique-tree targets only for connected graphs (the library rejects others by design)"]
    insts = make_instances(ctx)
    hseeds = list(range(8)) if ctx.thorough else [0, 1, 2, 3]
    pl = [(hs, {"insts": ch, "seed": ctx.seed * 100 + hs * 8 + j, "tid0": (hs * 8 + j) * 1000, "mode": "convert"})
          for hs in hseeds for j, ch in enumerate(chunks(insts, 16 // len(hseeds)))]
    traces = []
    for res in run_workers(ctx, "c14", "record", pl):
        traces += res["traces"]
    validate(ctx, traces, "C14")


def validate(ctx, traces, tag):
    tf = os.path.join(ctx.work, f"trace_{tag}.json")
    slim = []
    for t in traces:
        slim.append({"tid": t["tid"], "inst": {k: t["inst"][k] for k in ("vars", "dom", "factors", "edges", "parents") if k in t["inst"]},
                     "events": t["events"]})
    with open(tf, "w") as f:
        json.dump(slim, f)
    r = ctx.tlc("Trace_MN", CFG, env={"TRACE_FILE": tf}, tag="Trace_" + tag, coverage=True, timeout=7200)
    by = {t["tid"]: t for t in traces}
    seen = set()
    for p in r.prints:
        tid, v = p["tid"], p["v"]
        seen.add(tid)
        t = by[tid]
        cyc = t["inst"].get("shape", "") in ("cycle4", "cycle5", "cycle6", "cycle7", "grid23", "k4", "two_tri", "diamond", "mshape", "tri", "tri3")
        ctx.count((tag, t["inst"]["id"], t["hashseed"]), nontrivial=cyc or len(t["inst"]["factors"]) > len(t["inst"]["vars"]), n=len(t["events"]))
        if v["clause"] == "ACCEPT":
            ctx.traces += 1
            continue
        e = t["events"][v["l"] - 1]
        if v["clause"].endswith(".value") and v["want"][1] > 0:
            cells = e.get("beta") if ".beta." in v["clause"] else e.get("mu") if ".mu." in v["clause"] else e.get("result")
            x = mnutil.raw_of(cells, v["a"]) if cells else (float(e["x"]) if "x" in e else None)
            if x is not None and abs(x - v["want"][0] / v["want"][1]) <= 1e-9 * max(1.0, abs(x)):
                ctx.artefact(f"trace {tid}: {x} vs {v['want']}")
                continue
        feats = {"model": t["inst"]["kind"], "dup_factors": _has_dups(t["inst"])}
        if e["ev"] == "triangulate":
            feats["heuristic"] = e.get("heuristic")
        if e["ev"] in ("bp_query", "ve_query", "map_query"):
            feats["evidence"] = bool(e.get("evid"))
            feats["src"] = e.get("src")
        if v["clause"].startswith("to_junction_tree") or e["ev"].startswith("bp"):
            feats["src"] = e.get("src")
        new = ctx.violation({"api": e.get("api", e["ev"]) if e["ev"] == "raised" else e["ev"], "clause": v["clause"].split(".", 1)[1] if "." in v["clause"] else v["clause"], "features": feats,
                       "case": {"kind": "trace", "inst": t["inst"], "seed": t["seed"], "hashseed": t["hashseed"], "mode": t["mode"], "tid": tid},
                       "observed": {k: e[k] for k in e if k not in ("pots", "beta", "mu", "factors", "beliefs", "sepsets")}, "expected": v})
        if not new and v["l"] == len(t["events"]):
            ctx.traces += 1      # everything before the (known) last-event deviation was validated
    if seen != set(by):
        raise Machinery(f"Trace_MN: verdicts missing for {len(set(by) - seen)} traces")
    if traces:
        t = traces[0]
        ctx.sample({"kind": "trace", "inst_shape": t["inst"].get("shape"), "events": [e["ev"] for e in t["events"]]})


def _has_dups(inst):
    seen = set()
    for f in inst["factors"]:
        k = json.dumps([sorted(f["scope"]), sorted((json.dumps(c["a"], sort_keys=True), c["n"], c["d"]) for c in f["cells"])])
        if k in seen:
            return True
        seen.add(k)
    return False


def replay(ctx, rec):
    c = rec["case"]
    res = run_workers(ctx, "c14", "record", [(c["hashseed"], {"insts": [c["inst"]], "seed": c["seed"], "tid0": c["tid"], "mode": c["mode"], "exact_seed": True})])[0]
    n0 = len(ctx.violations)
    validate(ctx, res["traces"], "replay")
    return ctx.violations[n0:][:1] or None


def selftest(ctx):
    rng = random.Random(3)
    inst = mnutil.mn_instance(rng, 1, "cycle4")
    res = run_workers(ctx, "c14", "record", [(0, {"insts": [inst], "seed": 1, "tid0": 0, "mode": "convert"})])[0]
    t = res["traces"][0]
    e = next(e for e in t["events"] if e["ev"] == "to_junction_tree")
    c = e["pots"][0]["cells"][0]
    c["n"] += 1
    c["x"] = repr(c["n"] / c["d"])
    validate(ctx, [t], "self")
    if not any(v["clause"] == "joint_not_preserved" for v in ctx.violations):
        raise Machinery("selftest: corrupted clique potential accepted")
    ctx.violations.clear()


# =========================================================================== worker side
def _jt_event(jt, conc, src, install):
    cliques = list(jt.nodes())
    idx = {c: i + 1 for i, c in enumerate(cliques)}
    pots, names_ok = [], True
    for c in cliques:
        f = jt.get_factors(c)
        pf, ok = mnutil.proj_factor(f, conc)
        names_ok = names_ok and ok
        pots.append(pf)
    return {"ev": "to_junction_tree", "src": src, "install": install, "cliques": [[conc.inv[v] for v in c] for c in cliques],
            "tedges": [[idx[u], idx[v]] for u, v in jt.edges()], "pots": pots, "names_ok": names_ok}, idx


def _mn_event(ev, mn, conc):
    facs = [mnutil.proj_factor(f, conc)[0] for f in mn.get_factors()]
    return {"ev": ev, "nodes": [conc.inv[v] for v in mn.nodes()], "edges": [[conc.inv[u], conc.inv[v]] for u, v in mn.edges()], "factors": facs}


def record(payload):
    from ..bnutil import build_bn
    hs = int(os.environ.get("PYTHONHASHSEED", "0"))
    out = []
    rng0 = random.Random(payload["seed"])
    for k, inst in enumerate(payload["insts"]):
        seed = payload["seed"] if payload.get("exact_seed") else rng0.randrange(10 ** 9)
        rng = random.Random(seed)
        conc = mnutil.MConc(inst, rng)
        events = []
        tail_events = []

        from ..frames import model_snapshot
        sources = {}

        def guarded(name, fn):
            """run one conversion; afterwards every source model built so far must be what it was (deep snapshot)"""
            snaps = {k: model_snapshot(m) for k, m in sources.items()}
            try:
                r = fn()
            except Exception as ex:  # noqa
                events.append({"ev": "raised", "api": name, "exc": repr(ex)[:200]})
                r = None
            changed = sorted(k for k, m in sources.items() if model_snapshot(m) != snaps[k])
            events.append({"ev": "frame", "api": name, "same": not changed, "changed": changed})
            return r
        connected = not inst.get("disconnected")
        if inst["kind"] == "bn":
            bn = build_bn({"nodes": inst["nodes"], "states": inst["states"], "parents": inst["parents"], "cpd": inst["cpd"]}, conc, rng)
            sources["bn"] = bn
            mn = guarded("to_markov_model", bn.to_markov_model)
            if mn is not None:
                events.append(_mn_event("to_markov_model", mn, conc))
            jt = guarded("bn.to_junction_tree", bn.to_junction_tree) if connected else None
            if jt is not None:
                events.append(_jt_event(jt, conc, "bn", False)[0])
        else:
            mn = mnutil.build_mn(inst, conc, rng)
        if mn is not None:
            sources["mn"] = mn
            fg = guarded("to_factor_graph", mn.to_factor_graph)
            if fg is not None:
                try:
                    valid = bool(fg.check_model())
                except Exception:  # noqa
                    valid = False
                facs = list(fg.factors)

                def nbrs(f):
                    if f in fg.nodes():
                        return list(fg.neighbors(f))
                    name = "phi_" + "_".join(f.scope())
                    return list(fg.neighbors(name)) if name in fg.nodes() else []
                fnode_names = {"phi_" + "_".join(f.scope()) for f in facs}
                events.append({"ev": "to_factor_graph",
                               "nodes": [conc.inv[v] for v in fg.nodes() if v in conc.inv],
                               "factors": [mnutil.proj_factor(f, conc)[0] for f in facs],
                               "fnbrs": [[conc.inv.get(v, str(v)) for v in nbrs(f)] for f in facs]})
                tail_events.append({"ev": "target_check_model", "target": "to_factor_graph", "valid": valid})
            # an independently built factor graph -> markov network -> junction tree
            # (a FactorGraph uses the factor objects as nodes, so value-identical factors cannot both be nodes:
            #  such instances have no factor-graph representation and skip this path)
            has_dups = _has_dups(inst)
            fg2 = None if has_dups else mnutil.build_fg(inst, conc, rng)
            if fg2 is not None:
                sources["fg"] = fg2
            mn2 = guarded("fg_to_markov_model", fg2.to_markov_model) if fg2 is not None else None
            if mn2 is not None:
                events.append(_mn_event("fg_to_markov_model", mn2, conc))
            if connected and fg2 is not None:
                jt2 = guarded("fg.to_junction_tree", fg2.to_junction_tree)
                if jt2 is not None:
                    events.append(_jt_event(jt2, conc, "fg", False)[0])
            for h in ["H1", "H2", "H3", "H4", "H5", "H6"]:
                tg = guarded("triangulate", lambda: mn.triangulate(heuristic=h, inplace=False))
                if tg is not None:
                    events.append({"ev": "triangulate", "heuristic": h, "edges": [[conc.inv[u], conc.inv[v]] for u, v in tg.edges()]})
            for _ in range(2):
                order = [conc.vn[v] for v in inst["vars"]]
                rng.shuffle(order)
                tg = guarded("triangulate", lambda: mn.triangulate(order=list(order), inplace=False))
                if tg is not None:
                    events.append({"ev": "triangulate", "heuristic": "order", "edges": [[conc.inv[u], conc.inv[v]] for u, v in tg.edges()]})
            if connected:
                jt = guarded("mn.to_junction_tree", mn.to_junction_tree)
                if jt is not None:
                    events.append(_jt_event(jt, conc, "mn", False)[0])
            z = guarded("partition", mn.get_partition_function)
            if z is not None:
                n, d = mnutil.rat(z, 10 ** 7)
                events.append({"ev": "partition", "n": n, "d": d, "x": repr(float(z))})
        out.append({"tid": payload["tid0"] + k, "seed": seed, "hashseed": hs, "mode": payload["mode"], "inst": inst,
                    "events": events + tail_events})
    return {"traces": out}
