"""C01 exact posterior queries: MC_VE (design + generator) -> replay on VariableElimination; random nets + H-VE -> Trace_C01."""
import json
import os
import random
from fractions import Fraction

from .. import instances
from ..core import Machinery, chunks, run_workers

HEUR = ["greedy", "MinFill", "MinNeighbors", "MinWeight", "WeightedMinFill", None]


def cfg_mc(maxq, maxev, emit=True):
    s = f"CONSTANT MaxQ = {maxq}\nCONSTANT MaxEv = {maxev}\nINIT Init\nNEXT Next\nVIEW View\n" \
        "INVARIANT ProductInv\nINVARIANT DenInv\nINVARIANT PruneSound\nINVARIANT FinalOK\n"
    return s + ("INVARIANT Emit\n" if emit else "")


CFG_TRACE = "INIT Init\nNEXT Next\nINVARIANT Report\n"


def gen_cases(ctx, tag="MC_VE"):
    from ..bnutil import add_virts
    rng = random.Random(ctx.seed + 101)
    if ctx.thorough:
        shapes = list(instances.SHAPES)
        per = 4
    else:
        shapes = ["single", "pair", "two_isolated", "chain3", "fork3", "collider3", "pair_iso", "diamond", "collider_desc",
                  "two_comp", "family3", "fork4", "mshape", "fam3two"]
        per = 2
    insts = instances.bn_instances(ctx.seed, shapes, per)
    add_virts(insts, rng, per=2)
    f = os.path.join(ctx.work, "inst_c01.json")
    with open(f, "w") as fh:
        json.dump(insts, fh)
    r = ctx.tlc("MC_VE", cfg_mc(3 if ctx.thorough else 2, 2), env={"INST_FILE": f}, tag=tag, coverage=True, timeout=7200)
    ctx.require_actions(["Setup", "ElimAny"])
    return insts, r.prints


def run(ctx):
    ctx.rule = ("Gen: TLC enumerates (instance, query set, evidence, virtual evidence, elimination order) on the instance file; "
                "distinct = (instance, Q, ev, virt) tuples, non-trivial iff evidence or virtual evidence is non-empty or |Q|>1. "
                "Trace: one recorded query (with its elimination steps) per trace.")
    ctx.assumptions += ["CPD entries are small rationals (denominators 10/12 in Gen, <=10 in traces); float results compared at 1e-9",
                        "evidence of probability zero is outside the property (skipped by the spec's Setup action)"]
    insts, cases = gen_cases(ctx)
    if not cases:
        raise Machinery("no cases generated")
    by_inst = {}
    for c in cases:
        by_inst.setdefault(c["inst"], []).append(c)
    ctx.sample({"kind": "gen", "case": cases[len(cases) // 2]})
    hseeds = list(range(8)) if ctx.thorough else [0, 1]
    groups = chunks(sorted(by_inst), 16 // len(hseeds))
    payloads = []
    for hs in hseeds:
        for j, g in enumerate(groups):
            payloads.append((hs, {"insts": [i for i in insts if i["id"] in g], "cases": [c for k in g for c in by_inst[k]],
                                  "seed": ctx.seed * 1000 + hs * 17 + j}))
    for res in run_workers(ctx, "c01", "replay_gen", payloads):
        ctx.traces += res["n"]
        ctx.evaluations += res["calls"]
        for f in res["fails"]:
            ctx.violation(f)
    for c in cases:
        ev = c["ev"] if isinstance(c["ev"], dict) else {}
        vt = c["virt"] if isinstance(c["virt"], dict) else {}
        ctx.count(("g", c["inst"], tuple(c["q"]), tuple(sorted(ev.items())), json.dumps(vt, sort_keys=True)),
                  nontrivial=bool(ev) or bool(vt) or len(c["q"]) > 1, n=0)
    # ---- RECORD -> VALIDATE
    n = 480 if ctx.thorough else 64
    payloads = [(hs, {"seed": ctx.seed * 7919 + hs, "n": n // len(hseeds), "tid0": i * 100000}) for i, hs in enumerate(hseeds)]
    traces = []
    for res in run_workers(ctx, "c01", "record", payloads):
        traces += res["traces"]
    validate(ctx, traces)


def validate(ctx, traces):
    tf = os.path.join(ctx.work, "trace_c01.json")
    slim = [{k: t[k] for k in ("tid", "inst", "q", "ev", "virt", "steps", "result")} for t in traces]
    with open(tf, "w") as f:
        json.dump(slim, f)
    r = ctx.tlc("Trace_C01", CFG_TRACE, env={"TRACE_FILE": tf}, tag="Trace", coverage=True)
    by = {t["tid"]: t for t in traces}
    seen = set()
    for p in r.prints:
        tid, v = p["tid"], p["v"]
        seen.add(tid)
        t = by[tid]
        ctx.count(("t", tid), nontrivial=bool(t["ev"]) or bool(t["virt"]) or len(t["steps"]) > 0, n=1 + len(t["steps"]))
        if v["clause"] == "ACCEPT":
            ctx.traces += 1
            continue
        if v["clause"] == "SKIP.zero_evidence":
            ctx.extra["zero_evidence_traces_skipped"] = ctx.extra.get("zero_evidence_traces_skipped", 0) + 1
            continue
        # rule out a rationalisation artefact: compare the raw float with the spec's exact value
        if v["clause"].endswith(".value") and v["want"][1] != 0:
            src = t["raw_result"] if v["clause"].startswith("Query") else t["raw_steps"][v["l"] - 1]
            key = json.dumps(v["a"] if isinstance(v["a"], dict) else {}, sort_keys=True)
            x = src.get(key)
            if x is not None and abs(x - v["want"][0] / v["want"][1]) <= 1e-9 * max(1.0, abs(x)):
                ctx.artefact(f"C01 trace {tid}: float {x} vs {v['want']}")
                continue
        ctx.violation({"api": "VariableElimination.query", "clause": v["clause"],
                       "features": {"order": str(t["order_opt"]), "virt": bool(t["virt"])},
                       "case": {"kind": "trace", "trace": {k: t[k] for k in t if not k.startswith("raw_")}},
                       "observed": v, "expected": v.get("want")})
    if seen != set(by):
        raise Machinery(f"Trace_C01: verdicts missing for {len(set(by) - seen)} traces")
    if traces:
        t = traces[0]
        ctx.sample({"kind": "trace", "q": t["q"], "ev": t["ev"], "virt": t["virt"], "order_opt": t["order_opt"],
                    "steps": [{"var": s["var"], "scope": s["scope"]} for s in t["steps"]], "result": t["result"][:3]})


def replay(ctx, rec):
    case = rec["case"]
    if case["kind"] == "gen":
        res = run_workers(ctx, "c01", "replay_gen", [(case["hashseed"], {"insts": [case["inst"]], "cases": [case["expected"]],
                                                                        "seed": case["seed"], "force": case.get("config")})])[0]
        return res["fails"][:1] or None
    res = run_workers(ctx, "c01", "record", [(case["trace"].get("hashseed", 0), {"rerun": case["trace"]})])[0]
    n0 = len(ctx.violations)
    validate(ctx, res["traces"])
    return ctx.violations[n0:][:1] or None


def selftest(ctx):
    res = run_workers(ctx, "c01", "record", [(0, {"seed": 3, "n": 16, "tid0": 0})])[0]
    tr = res["traces"]
    t = next(t for t in tr if t["steps"] and t["steps"][0]["vals"])
    t["steps"][0]["vals"][0]["n"] += 1          # corrupt one factor entry
    e0 = t["steps"][0]["vals"][0]
    t["raw_steps"][0][json.dumps(e0["a"], sort_keys=True)] = e0["n"] / e0["d"]
    t2 = next(x for x in tr if x is not t and len(x["steps"]) >= 1 and x["result"])
    t2["steps"] = t2["steps"][:-1]               # drop one hook event
    validate(ctx, tr)
    cl = {v["clause"] for v in ctx.violations}
    if not any(c.startswith("VE.Eliminate.phi") for c in cl) or not ({"VE.incomplete_elimination"} & cl or any(c.startswith("Query") for c in cl)):
        raise Machinery(f"selftest: corrupted traces not rejected as expected: {cl}")
    ctx.violations.clear()


# =========================================================================== worker side
def _rat(x, D=10 ** 7):
    x = float(x)
    if x != x or x in (float("inf"), float("-inf")):
        return -1, 0
    f = Fraction(x).limit_denominator(D)
    return f.numerator, f.denominator


def _table(factor, conc, inst_states):
    """project a DiscreteFactor to [{a: {token: state token}, n, d}], by name lookup"""
    import itertools
    from ..bnutil import fval
    vs = list(factor.variables)
    out, raw = [], {}
    toks = [conc.inv[v] for v in vs]
    for combo in itertools.product(*[inst_states[t] for t in toks]):
        a = {t: s for t, s in zip(toks, combo)}
        x = fval(factor, {conc.vn[t]: conc.sn[t][s] for t, s in a.items()})
        n, d = _rat(x)
        out.append({"a": a, "n": n, "d": d})
        raw[json.dumps(a, sort_keys=True)] = x
    return out, raw


def replay_gen(payload):
    from pgmpy.inference import VariableElimination
    from ..bnutil import Conc, build_bn, check_factor, make_virtual, marginal_of
    rng = random.Random(payload["seed"])
    hs = int(os.environ.get("PYTHONHASHSEED", "0"))
    insts = {i["id"]: i for i in payload["insts"]}
    fails, ncalls = [], 0
    built = {}
    for ci, case in enumerate(payload["cases"]):
        inst = insts[case["inst"]]
        if inst["id"] not in built:
            conc = Conc(inst, rng, "str", "any")
            model = build_bn(inst, conc, rng)
            built[inst["id"]] = (conc, model, VariableElimination(model))
        conc, model, shared = built[inst["id"]]
        ev = case["ev"] if isinstance(case["ev"], dict) else {}
        virt = case["virt"] if isinstance(case["virt"], dict) else {}
        Q = case["q"]
        pruned_extra = [v for v in inst["nodes"] if v not in Q and v not in ev and v not in case["order"]]
        full_order = list(case["order"])
        if rng.random() < 0.5:
            for v in pruned_extra:
                full_order.insert(rng.randrange(len(full_order) + 1), v)
        configs = [("explicit", [conc.vn[v] for v in full_order], ci % 2 == 0),
                   ("heur", HEUR[ci % len(HEUR)], ci % 2 == 1)]
        if payload.get("force"):
            configs = [tuple(payload["force"])]
        if not virt and ci % 4 == 0 and not payload.get("force"):
            ncalls += _extra_api(model, conc, inst, case, ev, Q, fails, payload, hs)
        evd = conc.ev(ev)          # ONE caller-owned evidence dict for all configurations of this case (it must come back unchanged)
        evd0 = dict(evd)
        for kind, order, joint in configs:
            eng = shared      # one engine per instance for ALL queries (a stale cache / re-bound model must not change answers)
            qv = [conc.vn[v] for v in rng.sample(Q, len(Q))]
            kw = dict(variables=qv, evidence=evd or None, elimination_order=order, joint=joint, show_progress=False)
            if virt:
                kw["virtual_evidence"] = make_virtual(inst, conc, virt)
            feat = {"order": str(order) if kind == "heur" else "explicit", "joint": joint, "virt": bool(virt), "state_kind": "any"}

            def fail(clause, obs, exp):
                fails.append({"api": "VariableElimination.query", "clause": clause, "features": feat,
                              "case": {"kind": "gen", "inst": inst, "expected": case, "seed": payload["seed"], "hashseed": hs,
                                       "config": [kind, order, joint]},
                              "observed": obs, "expected": exp})
            ncalls += 1
            try:
                res = eng.query(**kw)
            except Exception as ex:  # noqa
                fail("query.raises", repr(ex)[:300], None)
                continue
            if evd != evd0:
                fail("evidence_argument_changed", {repr(k): repr(v) for k, v in evd.items()}, None)
                break
            if joint:
                d = check_factor(res, conc, inst, Q, case["post"], case["tot"])
                if d:
                    fail(d["clause"], d["got"], {"post": case["post"], "tot": case["tot"]})
            else:
                if set(res) != {conc.vn[v] for v in Q}:
                    fail("result.keys", [str(k) for k in res], Q)
                    continue
                for v in Q:
                    d = check_factor(res[conc.vn[v]], conc, inst, [v], marginal_of(case["post"], v), case["tot"])
                    if d:
                        fail(d["clause"], d["got"], {"var": v})
                        break
    return {"n": len(payload["cases"]), "calls": ncalls, "fails": fails[:40]}


def _extra_api(model, conc, inst, case, ev, Q, fails, payload, hs):
    """BayesianNetwork.get_state_probability (joint probability of a partial assignment) and predict_probability
    (per-variable posteriors for a data row) against the same TLC numbers"""
    import pandas as pd
    from ..bnutil import close, marginal_of
    n = 0

    def fail(api, clause, obs, exp):
        fails.append({"api": api, "clause": clause, "features": {"state_kind": "any"},
                      "case": {"kind": "gen", "inst": inst, "expected": case, "seed": payload["seed"], "hashseed": hs, "config": None},
                      "observed": obs, "expected": exp})
    row = case["post"][0]
    states = {conc.vn[v]: conc.sn[v][s] for v, s in {**row["a"], **ev}.items()}
    n += 1
    try:
        p = float(model.get_state_probability(states))
        if not close(p, row["w"], case["jden"]):
            fail("BayesianNetwork.get_state_probability", "value", p, [row["w"], case["jden"]])
    except Exception as ex:  # noqa
        fail("BayesianNetwork.get_state_probability", "raises", repr(ex)[:200], None)
    if ev and all(isinstance(x, str) for x in conc.vn.values()):
        n += 1
        try:
            df = pd.DataFrame([{conc.vn[v]: conc.sn[v][s] for v, s in ev.items()}])
            out = model.predict_probability(df)
            for v in Q:
                for r in marginal_of(case["post"], v):
                    col = conc.vn[v] + "_" + str(conc.sn[v][r["a"][v]])
                    if col not in out.columns or not close(float(out[col].iloc[0]), r["w"], case["tot"]):
                        fail("BayesianNetwork.predict_probability", "value", {"column": col, "got": float(out[col].iloc[0]) if col in out.columns else None},
                             [r["w"], case["tot"]])
                        return n
        except Exception as ex:  # noqa
            fail("BayesianNetwork.predict_probability", "raises", repr(ex)[:200], None)
    return n


def record(payload):
    from pgmpy import _verif
    from pgmpy.inference import VariableElimination
    from ..bnutil import Conc, build_bn, make_virtual, add_virts
    hs = int(os.environ.get("PYTHONHASHSEED", "0"))
    specs = []
    if "rerun" in payload:
        t = payload["rerun"]
        specs.append((t["inst"], t["tid"], t["seed"], t))
    else:
        rng0 = random.Random(payload["seed"])
        for i in range(payload["n"]):
            inst = instances.random_bn(rng0, i + 1, rng0.choice([4, 5, 5, 6, 6, 7]), max_card=rng0.choice([3, 3, 4]),
                                       dens=(4, 5, 6, 10), p=rng0.choice([0.4, 0.6, 0.8]))
            add_virts([inst], rng0, per=1)
            specs.append((inst, payload["tid0"] + i, rng0.randrange(10 ** 9), None))
    out = []
    for inst, tid, seed, prev in specs:
        rng = random.Random(seed)
        conc = Conc(inst, rng, "str", "any")
        model = build_bn(inst, conc, rng)
        nodes = inst["nodes"]
        if prev:
            Q, ev, virt, order_opt = prev["q"], prev["ev"], prev["virt"], prev["order_opt"]
        else:
            Q = rng.sample(nodes, rng.choice([1, 1, 2, 2, 3][:len(nodes)]))
            rest = [v for v in nodes if v not in Q]
            evv = rng.sample(rest, min(len(rest), rng.choice([0, 0, 1, 1, 2, 3])))
            ev = {v: rng.choice(inst["states"][v]) for v in evv}
            virt = rng.choice(inst["virts"]) if rng.random() < 0.3 else {}
            virt = {v: d for v, d in virt.items() if v not in Q and v not in ev}
            order_opt = rng.choice(["MinFill", "MinNeighbors", "MinWeight", "WeightedMinFill", None, "random_explicit"])
        eng = VariableElimination(model)
        if order_opt == "random_explicit":
            order = [conc.vn[v] for v in nodes if v not in Q and v not in ev]
            rng.shuffle(order)
            # virtual evidence nodes are added by the engine under the name "__"+var
            order += ["__" + conc.vn[v] for v in virt] if False else []
        else:
            order = order_opt
        steps, raw_steps = [], []
        states = dict(inst["states"])

        class C2:  # conc extended with virtual nodes
            pass
        vconc = C2()
        vconc.vn = dict(conc.vn)
        vconc.sn = dict(conc.sn)
        for v in virt:
            w = inst["virtname"][v]
            vconc.vn[w] = "__" + conc.vn[v]
            vconc.sn[w] = {"t0": 0, "t1": 1}
            states[w] = ["t0", "t1"]
        vconc.inv = {c: t for t, c in vconc.vn.items()}

        def tracer(evname, **f):
            if evname == "VE.Eliminate":
                tab, raw = _table(f["phi"], vconc, states)
                steps.append({"var": vconc.inv[f["var"]], "scope": [vconc.inv[v] for v in f["phi"].variables], "vals": tab})
                raw_steps.append(raw)
        _verif.set_tracer(tracer)
        kw = dict(variables=[conc.vn[v] for v in Q], evidence=conc.ev(ev) or None, elimination_order=order, joint=True, show_progress=False)
        if virt:
            kw["virtual_evidence"] = make_virtual(inst, conc, virt)
            if order_opt == "random_explicit":
                kw["elimination_order"] = "MinFill"
        exc = None
        try:
            res = eng.query(**kw)
        except Exception as ex:  # noqa
            exc = repr(ex)
        finally:
            _verif.set_tracer(None)
        if exc is not None:
            # P(evidence) = 0 gives NaN/ZeroDivision in some paths: outside the property; TLC decides below
            result, raw_result = [], {}
        else:
            result, raw_result = _table(res, conc, inst["states"])
        out.append({"tid": tid, "seed": seed, "hashseed": hs, "inst": inst, "q": Q, "ev": ev, "virt": virt, "order_opt": order_opt,
                    "steps": steps, "result": result, "raw_steps": raw_steps, "raw_result": raw_result, "exc": exc})
    # evidence with probability zero is outside the property: filter with an independent exactness test is NOT possible
    # here without re-implementing inference, so the driver only keeps traces whose result is finite
    return {"traces": out}
