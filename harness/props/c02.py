"""C02 junction-tree belief propagation: every belief-update message (hook H-BP), the calibrated clique/sepset beliefs and
posterior / MAP queries of BeliefPropagation on BN / MN / FG / JT models are recorded and validated by TLC (Trace_MN.tla)
against the exact joint of the instance."""
import json
import os
import random

from .. import instances, mnutil
from ..core import Machinery, chunks, run_workers
from . import c14


def make_instances(ctx):
    rng = random.Random(ctx.seed + 2)
    out = []
    shapes = ["edge", "chain4", "star4", "tri_tail", "cycle4", "cycle5", "cycle6", "k4", "two_tri", "k5m", "wheel5", "core3x3"]
    if ctx.thorough:
        shapes += ["cycle7", "grid23", "cycle5", "cycle6", "k5m", "wheel5", "core3x3"]
    for sh in shapes:
        # (same_scope=False: more factors push the exact normalised values beyond the denominators floats can be rationalised to;
        #  two different factors on one scope are exercised by C14)
        out.append(mnutil.mn_instance(rng, len(out) + 1, sh, dup=rng.random() < 0.4, unary=rng.random() < 0.5,
                                      ternary=rng.random() < 0.5, zeros=False, same_scope=False))
    out.append(mnutil.mn_instance(rng, len(out) + 1, "cycle4", dup=True, same_scope=False))
    bshapes = ["pair", "chain3", "collider3", "diamond", "collider_desc", "family3", "mshape", "student", "chain_coll"]
    for b in instances.bn_instances(ctx.seed + 5, bshapes, 2 if ctx.thorough else 1, kinds=("generic", "twins")):
        b["id"] = len(out) + 1
        out.append(mnutil.bn_as_factors(b))
    return out


def run(ctx):
    ctx.rule = ("one trace per (instance, model kind, hash seed): engine clique tree, calibration (sum and max) message by message, "
                "calibrated beliefs, 6-10 posterior/MAP queries with evidence by state name (str/int/tuple/mixed labels). Instances: "
                "Markov networks on 9-13 connected shapes incl. cycles 5-7 (fill-in cliques), duplicate factors; Bayesian networks on 9 "
                "connected shapes. Model kinds: BN, MN, FactorGraph, JunctionTree. distinct = (instance, kind, hash seed).")
    ctx.assumptions += ["connected interaction graphs only (the library rejects disconnected clique trees by design)",
                        "integer / small-rational potentials; P(evidence)=0 skipped by the spec"]
    insts = make_instances(ctx)
    hseeds = list(range(8)) if ctx.thorough else [0, 1, 2, 3]
    pl = [(hs, {"insts": ch, "seed": ctx.seed * 100 + hs * 8 + j, "tid0": (hs * 8 + j) * 1000, "mode": "bp"})
          for hs in hseeds for j, ch in enumerate(chunks(insts, 16 // len(hseeds)))]
    traces = []
    for res in run_workers(ctx, "c02", "record", pl):
        traces += res["traces"]
    nsend = sum(1 for t in traces for e in t["events"] if e["ev"] == "bp_send")
    ctx.extra["bp_send_events"] = nsend
    if nsend == 0:
        raise Machinery("no BP.Send events recorded: hook H-BP missing?")
    c14.validate(ctx, traces, "C02")


def replay(ctx, rec):
    c = rec["case"]
    res = run_workers(ctx, "c02", "record", [(c["hashseed"], {"insts": [c["inst"]], "seed": c["seed"], "tid0": c["tid"], "mode": c["mode"], "exact_seed": True})])[0]
    n0 = len(ctx.violations)
    c14.validate(ctx, res["traces"], "replay")
    return ctx.violations[n0:][:1] or None


def selftest(ctx):
    rng = random.Random(3)
    inst = mnutil.mn_instance(rng, 1, "cycle4")
    res = run_workers(ctx, "c02", "record", [(0, {"insts": [inst], "seed": 1, "tid0": 0, "mode": "bp"})])[0]
    t = res["traces"][0]
    # (i) drop one hook event: the following message no longer matches the spec's belief-update step
    sends = [i for i, e in enumerate(t["events"]) if e["ev"] == "bp_send"]
    t2 = json.loads(json.dumps(t))
    t2["tid"] = 1
    del t2["events"][sends[0]]
    # (ii) corrupt one message entry
    c = t["events"][sends[1]]["beta"][0]
    c["n"] += 1
    c["x"] = repr(c["n"] / max(c["d"], 1))
    c14.validate(ctx, [t, t2], "self")
    cl = {v["clause"] for v in ctx.violations}
    if len(ctx.violations) < 2:
        raise Machinery(f"selftest: corrupted / incomplete BP traces accepted: {cl}")
    ctx.violations.clear()


# =========================================================================== worker side
def _user_jt(jt, rng):
    """the same clique tree written down by hand: every clique's variables in an independently permuted order (node tuple and
    potential axes), so that sepsets reach the message computation in every relative axis order"""
    import numpy as np
    from pgmpy.factors.discrete import DiscreteFactor
    from pgmpy.models import JunctionTree
    new = JunctionTree()
    ren = {}
    for c in jt.nodes():
        f = jt.get_factors(c)
        order = list(f.variables)
        rng.shuffle(order)
        vals = np.asarray(f.values if not hasattr(f.values, "detach") else f.values.detach().cpu().numpy())
        vals = np.transpose(vals, [f.variables.index(v) for v in order]).copy()
        node = list(c)
        rng.shuffle(node)
        ren[c] = tuple(node)
        new.add_node(ren[c])
        new.add_factors(DiscreteFactor(order, [f.get_cardinality([v])[v] for v in order], vals,
                                       state_names={v: list(f.state_names[v]) for v in order}))
    for u, v in jt.edges():
        new.add_edge(ren[u], ren[v])
    return new


def record(payload):
    from pgmpy import _verif
    from pgmpy.inference import BeliefPropagation, VariableElimination
    from ..bnutil import build_bn
    hs = int(os.environ.get("PYTHONHASHSEED", "0"))
    out = []
    rng0 = random.Random(payload["seed"])
    tid = payload["tid0"]
    for inst in payload["insts"]:
        # "tiny": the same Markov network with every potential multiplied by 1e-7 (unnormalised beliefs around 1e-30 and below):
        # only the normalised answers are recorded for it
        kinds = ["bn"] if inst["kind"] == "bn" else (["mn", "jt", "ujt", "tiny"] + ([] if c14._has_dups(inst) else ["fg"]))
        for kind in kinds:
            seed = payload["seed"] if payload.get("exact_seed") else rng0.randrange(10 ** 9)
            rng = random.Random(seed)
            conc = mnutil.MConc(inst, rng)
            events = []
            if kind == "bn":
                model = build_bn({"nodes": inst["nodes"], "states": inst["states"], "parents": inst["parents"], "cpd": inst["cpd"]}, conc, rng)
            elif kind == "mn":
                model = mnutil.build_mn(inst, conc, rng)
            elif kind == "tiny":
                model = mnutil.build_mn(inst, conc, rng, scale=1e-7)
            elif kind == "fg":
                model = mnutil.build_fg(inst, conc, rng)
            elif kind == "jt":
                model = mnutil.build_mn(inst, conc, rng).to_junction_tree()
            else:
                model = _user_jt(mnutil.build_mn(inst, conc, rng).to_junction_tree(), rng)
            idx = {}

            def tracer(evname, **f):
                if evname != "BP.Send" or kind == "tiny":
                    return
                b, _ = mnutil.proj_factor(f["beta"], conc)
                m, _ = mnutil.proj_factor(f["mu"], conc)
                events.append({"ev": "bp_send", "from": idx[f["sender"]], "to": idx[f["receiver"]], "op": f["operation"],
                               "beta_scope": b["scope"], "beta": b["cells"], "mu_scope": m["scope"], "mu": m["cells"]})

            def install(bp):
                if kind == "tiny":
                    return
                e, ix = c14._jt_event(bp.junction_tree, conc, kind, True)
                idx.clear()
                idx.update(ix)
                events.append(e)
                events.append({"ev": "bp_init"})
            try:
                bp = BeliefPropagation(model)
            except Exception as ex:  # noqa
                events.append({"ev": "raised", "api": "BeliefPropagation", "exc": repr(ex)[:200]})
                out.append({"tid": tid, "seed": seed, "hashseed": hs, "mode": payload["mode"], "inst": dict(inst, kind=inst["kind"]), "events": events})
                tid += 1
                continue
            from ..frames import model_snapshot
            snap_model = model_snapshot(model)
            _verif.set_tracer(tracer)
            try:
                for op, fn in ((("marginalize", "calibrate"), ("maximize", "max_calibrate")) if payload["mode"] == "bp" and kind != "tiny" else ()):
                    install(bp)
                    try:
                        getattr(bp, fn)()
                    except Exception as ex:  # noqa
                        events.append({"ev": "raised", "api": fn, "exc": repr(ex)[:200]})
                        break
                    cl = list(bp.junction_tree.nodes())
                    beliefs = [mnutil.proj_factor(bp.get_clique_beliefs()[c], conc)[0] for c in cl]
                    seps = []
                    for key, f in bp.get_sepset_beliefs().items():
                        u, v = tuple(key)
                        seps.append({"i": idx[u], "j": idx[v], "f": mnutil.proj_factor(f, conc)[0]})
                    events.append({"ev": "bp_beliefs", "op": op, "beliefs": beliefs, "sepsets": seps})
                vs = inst["vars"]
                nq = (6 if len(vs) > 2 else 3) if payload["mode"] == "bp" else 0
                for qi in range(nq):
                    Q = rng.sample(vs, rng.choice([1, 1, 2][:len(vs) - 1] or [1]))
                    rest = [v for v in vs if v not in Q]
                    evv = rng.sample(rest, min(len(rest), rng.choice([0, 1, 1, 2])))
                    evid = {v: rng.choice(inst["dom"][v]) for v in evv}
                    qv = [conc.vn[v] for v in Q]
                    if qi % 3 == 2:
                        install(bp)
                        try:
                            r = bp.map_query(variables=qv, evidence=conc.ev(evid) or None, show_progress=False)
                            res = {}
                            for k2, val in r.items():
                                val = val.item() if hasattr(val, "item") else val
                                res[conc.inv[k2]] = conc.sinv[conc.inv[k2]].get(val, "INVALID_STATE")
                            events.append({"ev": "map_query", "src": "bp", "q": Q, "evid": evid, "result": res, "exc": False})
                        except Exception as ex:  # noqa
                            events.append({"ev": "map_query", "src": "bp", "q": Q, "evid": evid, "result": {}, "exc": True, "msg": repr(ex)[:200]})
                        continue
                    joint = qi % 2 == 0
                    install(bp)
                    try:
                        r = bp.query(variables=qv, evidence=conc.ev(evid) or None, joint=joint, show_progress=False)
                        if joint:
                            pf, _ = mnutil.proj_factor(r, conc)
                            events.append({"ev": "bp_query", "src": "bp", "q": pf["scope"], "evid": evid, "result": pf["cells"], "normalised": True, "exc": False})
                        else:
                            for v in Q:
                                pf, _ = mnutil.proj_factor(r[conc.vn[v]], conc)
                                events.append({"ev": "bp_query", "src": "bp_joint_false", "q": pf["scope"], "evid": evid, "result": pf["cells"], "normalised": True, "exc": False})
                    except Exception as ex:  # noqa
                        events.append({"ev": "bp_query", "src": "bp", "q": Q, "evid": evid, "result": [], "normalised": True, "exc": True, "msg": repr(ex)[:200]})
                # the elimination engine on Markov networks / factor graphs (unnormalised results; C03: MAP incl. duplicate factors)
                if kind == "mn" and payload["mode"] == "ve_mn":
                    ve = VariableElimination(model)
                    for qi in range(3):
                        Q = rng.sample(vs, rng.choice([1, 2][:len(vs) - 1] or [1]))
                        rest = [v for v in vs if v not in Q]
                        evid = {v: rng.choice(inst["dom"][v]) for v in rng.sample(rest, min(len(rest), rng.choice([0, 1])))}
                        qv = [conc.vn[v] for v in Q]
                        try:
                            if qi < 2:
                                r = ve.query(variables=qv, evidence=conc.ev(evid) or None, elimination_order=["greedy", "MinFill"][qi], show_progress=False)
                                pf, _ = mnutil.proj_factor(r, conc)
                                events.append({"ev": "ve_query", "src": "ve", "q": pf["scope"], "evid": evid, "result": pf["cells"], "normalised": False, "exc": False})
                            else:
                                r = ve.map_query(variables=qv, evidence=conc.ev(evid) or None, show_progress=False)
                                res = {conc.inv[k2]: conc.sinv[conc.inv[k2]].get(val.item() if hasattr(val, "item") else val, "INVALID_STATE") for k2, val in r.items()}
                                events.append({"ev": "map_query", "src": "ve", "q": Q, "evid": evid, "result": res, "exc": False})
                        except Exception as ex:  # noqa
                            events.append({"ev": "ve_query" if qi < 2 else "map_query", "src": "ve", "q": Q, "evid": evid, "result": [] if qi < 2 else {},
                                           "normalised": False, "exc": True, "msg": repr(ex)[:200]})
            finally:
                _verif.set_tracer(None)
            # C16: calibration and queries never change the model (BN / MN / factor graph / junction tree) the engine was built on
            events.append({"ev": "frame", "api": "BeliefPropagation", "same": model_snapshot(model) == snap_model})
            # ... nor do the elimination-order diagnostics of the elimination engine built on the same model
            try:
                if kind == "fg":
                    raise LookupError("the elimination engine is not defined on factor graphs")
                ve2 = VariableElimination(model)
                ve2._initialize_structures()
                order = list(ve2.variables)          # (the engine's own variable list, whatever the model kind)
                rng.shuffle(order)
                ve2.induced_graph(order)
                ve2.induced_width(order)
                events.append({"ev": "frame", "api": "VariableElimination.induced_graph", "same": model_snapshot(model) == snap_model})
            except LookupError:
                pass
            except Exception as ex:  # noqa
                events.append({"ev": "raised", "api": "VariableElimination.induced_graph", "exc": repr(ex)[:200]})
            out.append({"tid": tid, "seed": seed, "hashseed": hs, "mode": payload["mode"], "inst": inst, "events": events})
            tid += 1
    return {"traces": out}
