"""C03 MAP queries: the MC_VE generator (same machine as C01) emits MAPSet for every case; replayed on
VariableElimination.map_query (explicit order + every heuristic), BeliefPropagation.map_query and BayesianNetwork.predict."""
import json
import os
import random

from ..core import Machinery, chunks, run_workers
from . import c01

HEUR = ["MinFill", "MinNeighbors", "MinWeight", "WeightedMinFill", None]


def run(ctx):
    ctx.rule = ("TLC enumerates (instance, query set, evidence, virtual evidence, elimination order); MAPSet = arg-max set of the exact "
                "posterior (integer comparison, ties kept). distinct = (instance, Q, ev, virt); non-trivial iff evidence/virtual evidence "
                "non-empty or |Q|>1. Tie-free and tied instances (uniform/twins kinds) both occur.")
    ctx.assumptions += ["ties are free: any member of MAPSet is accepted", "P(evidence)=0 excluded",
                        "belief propagation is only asked where the pruned moral graph is connected (the library rejects others by design)"]
    insts, cases = c01.gen_cases(ctx, tag="MC_VE_map")
    if not cases:
        raise Machinery("no cases")
    by_inst = {}
    for c in cases:
        by_inst.setdefault(c["inst"], []).append(c)
    ctx.sample({"kind": "gen", "case": {k: cases[len(cases) // 3][k] for k in ("inst", "q", "ev", "virt", "order", "map")}})
    hseeds = list(range(8)) if ctx.thorough else [0, 1]
    groups = chunks(sorted(by_inst), 16 // len(hseeds))
    payloads = []
    for hs in hseeds:
        for j, g in enumerate(groups):
            payloads.append((hs, {"insts": [i for i in insts if i["id"] in g], "cases": [c for k in g for c in by_inst[k]],
                                  "seed": ctx.seed * 1000 + hs * 17 + j}))
    ties = 0
    for res in run_workers(ctx, "c03", "replay_gen", payloads):
        ctx.traces += res["n"]
        ctx.evaluations += res["calls"]
        for f in res["fails"]:
            ctx.violation(f)
    for c in cases:
        ev = c["ev"] if isinstance(c["ev"], dict) else {}
        vt = c["virt"] if isinstance(c["virt"], dict) else {}
        ties += len(c["map"]) > 1
        ctx.count(("g", c["inst"], tuple(c["q"]), tuple(sorted(ev.items())), json.dumps(vt, sort_keys=True)),
                  nontrivial=bool(ev) or bool(vt) or len(c["q"]) > 1, n=0)
    ctx.extra["cases_with_ties"] = ties
    # ---- Markov networks on the elimination engine (incl. value-identical factors): recorded, validated by Trace_MN
    from .. import mnutil
    from . import c02, c14
    rng = random.Random(ctx.seed + 33)
    mns = []
    for sh in ["edge", "chain4", "tri_tail", "cycle4", "cycle5"] + (["star4", "k4", "cycle6", "grid23", "two_tri"] if ctx.thorough else []):
        for dup in (False, True):
            mns.append(mnutil.mn_instance(rng, len(mns) + 1, sh, dup=dup, unary=rng.random() < 0.5, ternary=rng.random() < 0.3))
    pl = [(hs, {"insts": ch, "seed": ctx.seed * 100 + hs * 8 + j, "tid0": (hs * 8 + j) * 1000, "mode": "ve_mn"})
          for hs in hseeds[:4 if ctx.thorough else 2] for j, ch in enumerate(chunks(mns, 4 if ctx.thorough else 8))]
    traces = []
    for res in run_workers(ctx, "c02", "record", pl):
        traces += [t for t in res["traces"] if any(e["ev"] in ("ve_query", "map_query") for e in t["events"])]
    c14.validate(ctx, traces, "C03mn")


def replay(ctx, rec):
    case = rec["case"]
    if case.get("kind") == "trace":
        from . import c02
        return c02.replay(ctx, rec)
    res = run_workers(ctx, "c03", "replay_gen", [(case["hashseed"], {"insts": [case["inst"]], "cases": [case["expected"]],
                                                                    "seed": case["seed"], "force": case.get("config")})])[0]
    return res["fails"][:1] or None


def selftest(ctx):
    """a wrong stub (expected MAP set replaced by a non-maximiser) must be reported"""
    insts, cases = c01.gen_cases(ctx, tag="MC_VE_self")
    c = next(c for c in cases if len(c["post"]) > 1 and len(c["map"]) == 1)
    wrong = next(r["a"] for r in c["post"] if r["a"] != c["map"][0])
    c2 = dict(c, map=[wrong])
    res = run_workers(ctx, "c03", "replay_gen", [(0, {"insts": [i for i in insts if i["id"] == c["inst"]], "cases": [c2], "seed": 1})])[0]
    if not res["fails"]:
        raise Machinery("selftest: wrong MAP expectation not detected")


# =========================================================================== worker side
def replay_gen(payload):
    import pandas as pd
    from pgmpy.inference import BeliefPropagation, VariableElimination
    from ..bnutil import Conc, build_bn, make_virtual
    rng = random.Random(payload["seed"])
    hs = int(os.environ.get("PYTHONHASHSEED", "0"))
    insts = {i["id"]: i for i in payload["insts"]}
    fails, ncalls = [], 0
    built = {}
    for ci, case in enumerate(payload["cases"]):
        inst = insts[case["inst"]]
        if inst["id"] not in built:
            conc = Conc(inst, rng, "str", "any")
            model = build_bn(inst, conc, rng)
            built[inst["id"]] = (conc, model, VariableElimination(model), {})
        conc, model, ve, bpcache = built[inst["id"]]
        ev = case["ev"] if isinstance(case["ev"], dict) else {}
        virt = case["virt"] if isinstance(case["virt"], dict) else {}
        Q = case["q"]
        mapset = [m for m in case["map"]]
        configs = [("ve_explicit", [conc.vn[v] for v in case["order"]]), ("ve_heur", HEUR[ci % len(HEUR)])]
        if case["bpconn"] and ci % 2 == 0:
            configs.append(("bp", None))
        if not virt and set(Q) | set(ev) == set(inst["nodes"]) and ev and ci % 3 == 0:
            configs.append(("predict", None))
        if payload.get("force"):
            configs = [tuple(payload["force"])]
        evd = conc.ev(ev)          # ONE caller-owned evidence dict for all engines asked about this case (must come back unchanged)
        evd0 = dict(evd)
        for kind, order in configs:
            feat = {"engine": kind, "order": str(order) if kind == "ve_heur" else "", "virt": bool(virt), "tie": len(mapset) > 1}

            def fail(clause, obs):
                fails.append({"api": "map_query", "clause": clause, "features": feat,
                              "case": {"kind": "gen", "inst": inst, "expected": case, "seed": payload["seed"], "hashseed": hs,
                                       "config": [kind, order]},
                              "observed": obs, "expected": mapset})
            ncalls += 1
            qv = [conc.vn[v] for v in rng.sample(Q, len(Q))]
            kw = dict(variables=qv, evidence=evd or None, show_progress=False)
            if virt:
                kw["virtual_evidence"] = make_virtual(inst, conc, virt)
            try:
                if kind.startswith("ve"):
                    res = ve.map_query(elimination_order=order, **kw)
                elif kind == "bp":
                    if "bp" not in bpcache:
                        bpcache["bp"] = BeliefPropagation(model)
                    # the engine is shared by all questions on this instance; one question in three follows an explicit
                    # (max-)calibration of the same object
                    pre = [None, "max_calibrate", "calibrate"][(ci // 2) % 3]
                    feat["after"] = pre or ""
                    if pre:
                        getattr(bpcache["bp"], pre)()
                    res = bpcache["bp"].map_query(**kw)
                else:
                    df = pd.DataFrame([{conc.vn[v]: conc.sn[v][s] for v, s in ev.items()}])
                    out = model.predict(df, n_jobs=1)
                    res = {c: out[c].iloc[0] for c in out.columns}
            except Exception as ex:  # noqa
                fail("raises", repr(ex)[:300])
                continue
            if evd != evd0:
                fail("evidence_argument_changed", {repr(k): repr(v) for k, v in evd.items()})
                break
            if set(res) != {conc.vn[v] for v in Q}:
                fail("assigned_variables", [str(k) for k in res])
                continue
            tok = {}
            bad_state = False
            for v in Q:
                val = res[conc.vn[v]]
                if isinstance(val, (list, tuple)) and not isinstance(next(iter(conc.sinv[v])), (list, tuple)):
                    val = tuple(val)
                try:
                    if val not in conc.sinv[v]:
                        # pandas / numpy scalar types
                        val = val.item() if hasattr(val, "item") else val
                    tok[v] = conc.sinv[v][val]
                except (KeyError, TypeError):
                    bad_state = True
                    fail("invalid_state_name", {v: repr(res[conc.vn[v]])})
                    break
            if bad_state:
                continue
            if tok not in mapset:
                fail("not_a_maximiser", tok)
    return {"n": len(payload["cases"]), "calls": ncalls, "fails": fails[:40]}
