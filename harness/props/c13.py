"""C13 interventions: Gen_C13 (graph surgery, truncated factorisation, back-door / front-door criteria on paths) -> replay on
BayesianNetwork.do and CausalInference (query with default and every valid adjustment set, ve/bp; validity tests; enumerations)."""
import json
import os
import random

from .. import instances
from ..core import Machinery, chunks, run_workers

CFG = "CONSTANT MaxLatents = %d\nINIT Init\nNEXT Next\nINVARIANT Emit\n"


def run(ctx):
    ctx.rule = ("TLC enumerates (instance, latent subset <=1, treatment x, outcome y) over 3-5 node networks: back-door truth value of every "
                "candidate set of observed non-descendants, all back-door / front-door sets, do-graphs and interventional tables for single "
                "and two-variable do-sets. distinct = (instance, latents, x, y); non-trivial iff x has a parent or a directed path to y exists.")
    ctx.assumptions += ["strictly positive CPDs (interventional conditionals are defined everywhere)",
                        "queries on variables inside the do-set or among its parents are refused by the engine and not asked",
                        "the adjustment-set criterion API (is_valid_*, get_all_*) documents and enforces string variable names "
                        "(utils.sets._variable_or_iterable_to_set raises ValueError): asked with string names only; do(), query() and "
                        "get_minimal_adjustment_set are also exercised with int and tuple names"]
    shapes = ["chain3", "fork3", "collider3", "tri3", "diamond", "collider_desc", "confmed", "frontdoor", "family3", "fork4", "mshape", "student", "chain_coll"]
    if not ctx.thorough:
        shapes = ["chain3", "fork3", "tri3", "diamond", "collider_desc", "confmed", "frontdoor", "mshape", "student"]
    insts = instances.bn_instances(ctx.seed + 13, shapes, 2 if ctx.thorough else 1, kinds=("generic",))
    # two extra classic structures: confounded front-door and M-bias with a mediator
    f = os.path.join(ctx.work, "inst_c13.json")
    with open(f, "w") as fh:
        json.dump(insts, fh)
    r = ctx.tlc("Gen_C13", CFG % 1, env={"INST_FILE": f}, tag="Gen_C13", coverage=True, timeout=7200)
    cases = r.prints
    if not cases:
        raise Machinery("no cases")
    by = {}
    for c in cases:
        by.setdefault(c["inst"], []).append(c)
        ctx.count(("c", c["inst"], tuple(c["latents"]), c["x"], c["y"]), nontrivial=bool(c["bd_all"] != [[]]) or bool(c["fd_all"]), n=0)
    ctx.sample({"kind": "gen", "case": {k: cases[7][k] for k in ("inst", "latents", "x", "y", "bd_all", "fd_all")}, "do0": cases[7]["do"][0]})
    hseeds = list(range(4)) if ctx.thorough else [0, 1]
    pl = []
    for hs in hseeds:
        for j, g in enumerate(chunks(sorted(by), 16 // len(hseeds))):
            pl.append((hs, {"insts": [i for i in insts if i["id"] in g], "cases": [c for k in g for c in by[k]], "seed": ctx.seed * 100 + hs * 8 + j}))
    for res in run_workers(ctx, "c13", "replay_gen", pl):
        ctx.traces += res["n"]
        ctx.evaluations += res["calls"]
        for fl in res["fails"]:
            ctx.violation(fl)


def replay(ctx, rec):
    c = rec["case"]
    res = run_workers(ctx, "c13", "replay_gen", [(c["hashseed"], {"insts": [c["inst"]], "cases": list(c.get("prior", [])) + [c["expected"]],
                                                                 "seed": c["seed"]})])[0]
    want = (rec.get("api"), rec.get("clause"))
    hit = [f for f in res["fails"] if (f["api"], f["clause"]) == want and f["case"]["expected"] == c["expected"]]
    return (hit or res["fails"])[:1] or None


def selftest(ctx):
    insts = instances.bn_instances(1, ["fork3"], 1, kinds=("generic",))
    f = os.path.join(ctx.work, "inst_c13.json")
    with open(f, "w") as fh:
        json.dump(insts, fh)
    r = ctx.tlc("Gen_C13", CFG % 0, env={"INST_FILE": f}, tag="self")
    c = next(c for c in r.prints if any(d["table"] for d in c["do"]))
    d = next(d for d in c["do"] if d["table"])
    d["table"][0]["w"] += 7                      # wrong expectation
    res = run_workers(ctx, "c13", "replay_gen", [(0, {"insts": insts, "cases": [c], "seed": 1})])[0]
    if not res["fails"]:
        raise Machinery("selftest: wrong interventional table accepted")


# =========================================================================== worker side
def replay_gen(payload):
    from pgmpy.inference import CausalInference
    from ..bnutil import Conc, build_bn, close, fval
    rng = random.Random(payload["seed"])
    hs = int(os.environ.get("PYTHONHASHSEED", "0"))
    insts = {i["id"]: i for i in payload["insts"]}
    fails, ncalls = [], 0
    shared, history = {}, {}
    # every case under string names (full API) and once more under int or tuple names (C16: representation independence)
    for case, vk in [(c, k) for c in payload["cases"] for k in ("str", rng.choice(["int", "tuple"]))]:
        base = insts[case["inst"]]
        inst = dict(base, latents=case["latents"])
        # ONE model and ONE CausalInference engine per (instance, latent set, name kind): all (treatment, outcome) questions are put to it
        # one after the other (C16: an answer must not depend on earlier questions about the same treatment and another outcome)
        key = (case["inst"], tuple(sorted(case["latents"])), vk)
        if key not in shared:
            conc_ = Conc(inst, rng, vk, "any" if vk != "str" else rng.choice(["str", "any"]))
            model_ = build_bn(inst, conc_, rng)
            shared[key] = (conc_, model_, CausalInference(model_))
        conc, model, ci_shared = shared[key]
        prior = list(history.setdefault(key, []))
        history[key].append(case)
        vn, inv = conc.vn, conc.inv
        x, y = case["x"], case["y"]
        lat = set(case["latents"])

        def fail(api, clause, obs, exp=None, **feat):
            feat.setdefault("has_latents", bool(lat))
            if vk != "str":
                feat.setdefault("var_kind", vk)
            fails.append({"api": api, "clause": clause, "features": feat,
                          "case": {"inst": base, "expected": case, "seed": payload["seed"], "hashseed": hs,
                                   "prior": prior if len(json.dumps(prior)) < 400000 else []},   # earlier questions to the same engine
                          "observed": obs, "expected": exp})
        ci = ci_shared
        bd_all = {frozenset(z) for z in case["bd_all"]}
        fd_all = {frozenset(z) for z in case["fd_all"]}
        # ---- validity tests on candidate sets of observed non-descendants
        # (the criterion API documents and enforces string names: utils.sets._variable_or_iterable_to_set raises ValueError otherwise)
        for t in (case["bd"] if vk == "str" else []):
            ncalls += 2
            z = [vn[v] for v in t["z"]]
            rng.shuffle(z)
            try:
                got = bool(ci.is_valid_backdoor_adjustment_set(vn[x], vn[y], z))
                got2 = bool(ci.is_valid_adjustment_set([vn[x]], [vn[y]], z))
            except Exception as ex:  # noqa
                fail("CausalInference.is_valid_backdoor_adjustment_set", "raises", repr(ex)[:200])
                break
            if got != t["ok"]:
                fail("CausalInference.is_valid_backdoor_adjustment_set", "accepts_invalid" if got else "rejects_valid", t)
                break
            if got2 != t["ok"]:
                fail("CausalInference.is_valid_adjustment_set", "accepts_invalid" if got2 else "rejects_valid", t)
                break
        # ---- enumerations
        ncalls += 3
        try:
            if vk != "str":
                raise KeyError("skip")
            sets = ci.get_all_backdoor_adjustment_sets(vn[x], vn[y])
            sets = [frozenset(inv[v] for v in s) for s in sets] if sets else [frozenset()]
            bad = [sorted(s) for s in sets if s not in bd_all]
            if bad:
                fail("CausalInference.get_all_backdoor_adjustment_sets", "set_violates_backdoor_criterion", bad, case["bd_all"])
        except KeyError:
            pass
        except ValueError:
            if bd_all:
                fail("CausalInference.get_all_backdoor_adjustment_sets", "none_found_but_exists", None, case["bd_all"])
        except Exception as ex:  # noqa
            fail("CausalInference.get_all_backdoor_adjustment_sets", "raises", repr(ex)[:200])
        try:
            if vk != "str":
                raise KeyError("skip")
            sets = ci.get_all_frontdoor_adjustment_sets(vn[x], vn[y])
            bad = [sorted(inv[v] for v in s) for s in sets if frozenset(inv[v] for v in s) not in fd_all]
            if bad:
                fail("CausalInference.get_all_frontdoor_adjustment_sets", "set_violates_frontdoor_criterion", bad, case["fd_all"])
        except KeyError:
            pass
        except Exception as ex:  # noqa
            fail("CausalInference.get_all_frontdoor_adjustment_sets", "raises", repr(ex)[:200])
        try:
            ms = ci.get_minimal_adjustment_set(vn[x], vn[y])
            if ms is not None and frozenset(inv[v] for v in ms) not in bd_all:
                fail("CausalInference.get_minimal_adjustment_set", "set_violates_backdoor_criterion", sorted(inv[v] for v in ms), case["bd_all"],
                     contains_descendant_of_treatment=bool({inv[v] for v in ms} & set(case["descx"])))
        except ValueError:
            pass          # adjacent nodes: no separator possible in the proper back-door graph
        except Exception as ex:  # noqa
            fail("CausalInference.get_minimal_adjustment_set", "raises", repr(ex)[:200])
        # ---- do(): graph surgery and CPDs
        for d in case["do"]:
            S = d["s"]
            ncalls += 1
            nodes = [vn[v] for v in S]
            try:
                m2 = model.do(nodes if (len(nodes) > 1 or vk == "tuple") else nodes[0], inplace=False)
            except Exception as ex:  # noqa
                fail("BayesianNetwork.do", "raises", repr(ex)[:200])
                continue
            if {(inv[u], inv[v]) for u, v in m2.edges()} != {tuple(e) for e in d["edges"]} or {inv[n] for n in m2.nodes()} != set(inst["nodes"]):
                fail("BayesianNetwork.do", "edges", sorted((inv[u], inv[v]) for u, v in m2.edges()), d["edges"], n_do=len(S))
                continue
            if {(inv[u], inv[v]) for u, v in model.edges()} != {(p, v) for v in inst["nodes"] for p in inst["parents"][v]}:
                fail("BayesianNetwork.do", "original_changed", None)
                continue
            for v in inst["nodes"]:
                c2, c1 = m2.get_cpds(vn[v]), model.get_cpds(vn[v])
                if v in S:
                    if len(c2.variables) != 1 or not (abs(float(c2.values.sum()) - 1) <= 1e-9):
                        fail("BayesianNetwork.do", "intervened_cpd_not_parent_free", [str(q) for q in c2.variables], n_do=len(S))
                        break
                elif list(c2.variables) != list(c1.variables) or not (abs(c2.values - c1.values).max() <= 1e-12) or c2 is c1:
                    fail("BayesianNetwork.do", "other_cpd_changed_or_shared", str(v), n_do=len(S))
                    break
            # ---- interventional query
            if not d["table"]:
                continue
            dod = {vn[v]: conc.sn[v][s] for v, s in d["clamp"].items()}
            pa = {p for v in S for p in inst["parents"][v]} - set(S)
            configs = []
            # (the engine asks for an explicit adjustment set as soon as ANY parent of a do-variable is latent)
            if not ({p for v in S for p in inst["parents"][v]} & lat):
                configs.append((None, "ve"))
                if len(inst["nodes"]) > 1:
                    configs.append((None, "bp"))
            if len(S) == 1:
                for z in case["bd_all"]:
                    configs.append((set(z), "ve"))
            for adj, algo in configs:
                ncalls += 1
                kw = dict(variables=[vn[y]], do=dod, inference_algo=algo, show_progress=False)
                if adj is not None:
                    kw["adjustment_set"] = {vn[v] for v in adj}
                feat = {"adjustment": "default" if adj is None else ("empty" if not adj else "explicit"), "algo": algo, "n_do": len(S),
                        "default_adjustment_contains_descendant_of_do": bool(d["seqconflict"]) and adj is None}
                try:
                    res = ci.query(**kw)
                except Exception as ex:  # noqa
                    if algo == "bp" and "sepset" in repr(ex):
                        continue          # disconnected clique tree: rejected by design
                    fail("CausalInference.query", "raises", repr(ex)[:200], None, **feat)
                    continue
                if set(res.variables) != {vn[y]}:
                    fail("CausalInference.query", "result.scope", [str(v) for v in res.variables], None, **feat)
                    continue
                badv = []
                for row in d["table"]:
                    xv = fval(res, {vn[y]: conc.sn[y][row["a"][y]]})
                    if not close(xv, row["w"], d["tot"]):
                        badv.append({"a": row["a"], "got": xv, "want": [row["w"], d["tot"]]})
                if badv:
                    fail("CausalInference.query", "result.value", badv, {"do": d["clamp"], "adj": sorted(adj) if adj is not None else None}, **feat)
    return {"n": len(payload["cases"]), "calls": ncalls, "fails": fails[:60]}
