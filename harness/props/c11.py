"""C11 score-based structure search honours its contract.

Gen_C11H  hill climbing as a step machine over an UNINTERPRETED integer local-score table: TLC model-checks the contract on
          every behaviour (every start DAG on <= 4 nodes x option palettes, every tie) and the graph lemmas on every DAG; the
          terminal states = the set of graphs the real code may return                       -> replay on HillClimbSearch
Trace_C11 one recorded HillClimbSearch.estimate call = per iteration the complete output of the legal-move generator
          (harness-side wrapper around _legal_operations, no repo hook) + returned graph    -> validated step by step by TLC
          (table-backed StructureScore subclass on 3-6 nodes; real k2/bdeu/bds/bic/aic with the table read back as scaled ints)
Gen_C11X  exhaustive search (all DAGs, maximum, maximisers, every score), Chow-Liu / TAN (all spanning trees, maximum ones,
          orientation away from every root; integer weight callables), mutual information as exact LogForm
                                                                                            -> replay on ExhaustiveSearch, TreeSearch
Trace_C11X  ExhaustiveSearch.estimate on 5 nodes: TLC visits all 29 281 DAGs and looks for a better one (thorough tier)
The Python side only builds pgmpy objects, calls pgmpy, renames tokens and compares with what TLC printed."""
import itertools
import json
import math
import os
import random

from ..core import Machinery, chunks, run_workers

SCALE = 10 ** 6          # real scores -> integers
TOL_REAL = 8             # units of 1/SCALE: rounding of <= 6 table entries + float noise
MI_SCALE = 10 ** 7
NDAGS = {1: 1, 2: 3, 3: 25, 4: 543, 5: 29281}


# =========================================================================== generators (tokens and integers only)
def toks(n):
    return [f"v{i}" for i in range(n)]


def all_pairs(nodes):
    return [[u, v] for u in nodes for v in nodes if u != v]


def mk_table(rng, nodes, lo, hi):
    """local score of (v, P) at index mask(P) = sum of bit[p]; entries whose mask contains v itself are never used"""
    bit = {v: 1 << i for i, v in enumerate(nodes)}
    tab = {v: [0 if (m & bit[v]) else rng.randint(lo, hi) for m in range(1 << len(nodes))] for v in nodes}
    return bit, tab


def rand_dag(rng, nodes, p):
    order = list(nodes)
    rng.shuffle(order)
    return [[order[i], order[j]] for i in range(len(order)) for j in range(i + 1, len(order)) if rng.random() < p]


def shaped_dag(rng, nodes):
    """start graphs where flip legality matters: chains with chords, long detours, diamonds, colliders"""
    o = list(nodes)
    rng.shuffle(o)
    n = len(o)
    if n < 3:
        return rand_dag(rng, nodes, 0.7)
    kind = rng.choice(["chord", "detour", "diamond", "collider", "dense"])
    if kind == "chord":          # o0 -> o1 -> ... -> ok and the chord o0 -> ok
        k = rng.randint(2, n - 1)
        return [[o[i], o[i + 1]] for i in range(k)] + [[o[0], o[k]]]
    if kind == "detour":         # two chords over one chain
        e = [[o[i], o[i + 1]] for i in range(n - 1)] + [[o[0], o[n - 1]]]
        if n > 3:
            e.append([o[1], o[n - 1]])
        return e
    if kind == "diamond" and n >= 4:
        return [[o[0], o[1]], [o[0], o[2]], [o[1], o[3]], [o[2], o[3]]] + ([[o[0], o[3]]] if rng.random() < 0.5 else [])
    if kind == "collider":
        return [[o[i], o[n - 1]] for i in range(n - 1) if rng.random() < 0.8]
    return rand_dag(rng, nodes, 0.7)


def acyclic(nodes, edges):
    ch = {v: [] for v in nodes}
    indeg = {v: 0 for v in nodes}
    for u, v in edges:
        ch[u].append(v)
        indeg[v] += 1
    q = [v for v in nodes if indeg[v] == 0]
    seen = 0
    while q:
        u = q.pop()
        seen += 1
        for v in ch[u]:
            indeg[v] -= 1
            if indeg[v] == 0:
                q.append(v)
    return seen == len(nodes)          # (input hygiene only: the statement quantifies over start DAGs)


def rand_lists(rng, nodes, start, style):
    """fixed / black / white lists compatible with the statement: start + fixed is a DAG without black edges"""
    pairs = all_pairs(nodes)
    fixed, black, white = [], [], None
    if style in ("fixed", "all") or (style == "mix" and rng.random() < 0.5):
        cand = rng.sample(pairs, min(len(pairs), 3))
        for e in cand:
            if [e[1], e[0]] not in start + fixed and e not in fixed and acyclic(nodes, start + fixed + [e]) and rng.random() < 0.7:
                fixed.append(e)
        fixed += [e for e in start if rng.random() < 0.3 and e not in fixed]
    if style in ("black", "all") or (style == "mix" and rng.random() < 0.5):
        black = [e for e in pairs if e not in start and e not in fixed and rng.random() < 0.3]
    if style in ("white", "all") or (style == "mix" and rng.random() < 0.5):
        white = [e for e in pairs if rng.random() < 0.6]
    return fixed, black, white


def max_indeg(nodes, edges):
    return max([sum(1 for e in edges if e[1] == v) for v in nodes] + [0])


def hc_gen_instances(rng, thorough):
    """instances for Gen_C11H: table + lists + option palettes; allstarts = every DAG over the nodes is a start graph"""
    out = []

    def add(n, lo, hi, style, maxins, tabus, epss, maxiters, allstarts=True, starts=None, lemma=False, pe=0):
        nodes = toks(n)
        bit, tab = mk_table(rng, nodes, lo, hi)
        fixed, black, white = rand_lists(rng, nodes, [], style)
        out.append({"id": len(out) + 1, "nodes": nodes, "bit": bit, "tab": tab, "pe": pe, "fixed": fixed, "black": black,
                    "white": white if white is not None else all_pairs(nodes), "white_none": white is None,
                    "allstarts": allstarts, "starts": starts or [], "maxins": maxins, "tabus": tabus, "epss": epss,
                    "maxiters": maxiters, "lemma": lemma})
    add(3, -3, 3, "none", [1, 3], [0, 1, 3], [1, 2], [0, 1, 20], lemma=True)
    add(3, -4, 4, "all", [1, 2], [0, 2], [1, 3], [2, 20], lemma=True)
    add(4, -3, 3, "none", [1, 4], [0, 2], [1, 2], [1, 20])
    add(4, -4, 4, "all", [2], [0, 3], [1], [20], lemma=True, pe=-1)
    if thorough:
        add(4, -2, 2, "none", [2, 4], [0, 1, 3], [1, 3], [3, 20])
        add(4, -5, 5, "fixed", [1, 2, 4], [0, 2], [1, 2], [2, 20], lemma=True)
        add(4, -4, 4, "black", [2, 4], [0, 1], [1, 4], [20], lemma=True)
        add(4, -4, 4, "white", [1, 4], [0, 3], [1, 2], [1, 20], lemma=True)
        add(4, -6, 6, "all", [2, 4], [0, 2], [2], [20], pe=1)
        add(3, -2, 2, "mix", [1, 2, 3], [0, 1, 2, 3], [1, 2, 3], [0, 1, 2, 20])
        for k in range(8):      # further random 4-node instances (machine + replay only; the graph lemmas do not depend on the table)
            lo = rng.choice([1, 2, 3, 5, 8])
            add(4, -lo, lo, rng.choice(["none", "mix", "mix", "all"]), rng.choice([[1, 4], [2, 4], [1, 2], [3]]),
                rng.choice([[0, 1], [0, 3], [0, 2, 100]]), rng.choice([[1], [1, 2], [2, 5]]), rng.choice([[20], [1, 20], [2, 3, 20]]),
                pe=rng.choice([0, 0, -1, 1, -2]))
    return out


def hc_trace_cases(rng, n_table, n_real, tid0=0):
    """cases for RECORD -> VALIDATE: table-backed (3-6 nodes) and real scores on tiny integer data (3-5 nodes)"""
    cases = []
    while len(cases) < n_table:
        n = rng.choice([2, 3, 4, 4, 5, 5, 6, 6])
        nodes = toks(n)
        lo = rng.choice([1, 2, 3, 5])
        bit, tab = mk_table(rng, nodes, -lo, lo)
        start = rng.choice([[], rand_dag(rng, nodes, rng.choice([0.3, 0.6])), shaped_dag(rng, nodes), shaped_dag(rng, nodes)])
        fixed, black, white = rand_lists(rng, nodes, start, rng.choice(["none", "mix", "mix", "all"]))
        e0 = start + [e for e in fixed if e not in start]
        if not acyclic(nodes, e0):
            continue
        mi = max_indeg(nodes, e0)
        maxin = rng.choice([None, None, 1, 2, 3])
        if maxin is not None and maxin < mi:
            maxin = mi if mi > 0 else 1
        c = {"tid": tid0 + len(cases) + 1, "kind": "hc", "score": "table", "nodes": nodes, "bit": bit, "tab": tab,
             "pe": rng.choice([0, 0, 0, -1, 1, -2]),
             "start": start, "start_none": start == [] and rng.random() < 0.5,
             "fixed": fixed, "black": black, "white": white if white is not None else all_pairs(nodes), "white_none": white is None,
             "maxin": maxin if maxin is not None else n, "maxin_none": maxin is None,
             "tabu": rng.choice([0, 0, 1, 2, 3, 100]), "tabu_default": False,
             "eps": rng.choice([1, 1, 2, 3, 5]), "eps_default": False,
             "maxiter": rng.choice([0, 1, 2, 3, 1000000, 1000000, 1000000]), "maxiter_default": False,
             "tol": 0, "use_cache": rng.random() < 0.5, "names": rng.choice(["str", "str", "int"]), "seed": rng.randrange(10 ** 9),
             "fixed_as": rng.choice(["set", "list", "default" if not fixed else "list"])}
        if rng.random() < 0.15:      # library defaults: tabu_length=100, epsilon=1e-4 (= "any integer gain >= 1"), max_iter=1e6
            c.update(tabu=100, tabu_default=True, eps=1, eps_default=True, maxiter=1000000, maxiter_default=True)
        cases.append(c)
    k = 0
    while k < n_real:
        n = rng.choice([3, 4, 4, 5])
        nodes = toks(n)
        nrows = rng.randint(8, 20)
        card = [rng.choice([2, 2, 3]) for _ in nodes]
        rows = []
        for _ in range(nrows):      # dependent columns so that edges get added
            r = []
            for j in range(n):
                if j and rng.random() < 0.7:
                    r.append((r[rng.randrange(j)] + (1 if rng.random() < 0.2 else 0)) % card[j])
                else:
                    r.append(rng.randrange(card[j]))
            rows.append(r)
        if any(len({r[j] for r in rows}) < 2 for j in range(n)):
            continue
        start = rng.choice([[], [], rand_dag(rng, nodes, 0.4), shaped_dag(rng, nodes)])
        fixed, black, white = rand_lists(rng, nodes, start, rng.choice(["none", "none", "mix"]))
        e0 = start + [e for e in fixed if e not in start]
        if not acyclic(nodes, e0):
            continue
        mi = max_indeg(nodes, e0)
        maxin = rng.choice([None, None, 2, 3])
        if maxin is not None and maxin < mi:
            maxin = mi
        k += 1
        cases.append({"tid": tid0 + len(cases) + 1, "kind": "hc", "score": rng.choice(["k2", "bdeu", "bic", "k2", "bdeu", "bic", "bds", "aic"]),
                      "score_as": rng.choice(["string", "instance"]), "rows": rows, "nodes": nodes,
                      "bit": {v: 1 << i for i, v in enumerate(nodes)}, "tab": None, "pe": None,
                      "start": start, "start_none": start == [] and rng.random() < 0.5,
                      "fixed": fixed, "black": black, "white": white if white is not None else all_pairs(nodes), "white_none": white is None,
                      "maxin": maxin if maxin is not None else n, "maxin_none": maxin is None,
                      "tabu": rng.choice([0, 0, 2, 100]), "tabu_default": False, "eps": 100, "eps_default": True,
                      "maxiter": rng.choice([2, 60, 60]), "maxiter_default": False,
                      "tol": TOL_REAL, "use_cache": rng.random() < 0.5, "names": "str", "seed": rng.randrange(10 ** 9), "fixed_as": "list"})
    return cases


def xs_instances(rng, thorough):
    out = []
    for n, lo in ([(2, 3), (3, 2), (3, 5), (4, 2), (4, 5)] + ([(4, 1), (4, 9), (3, 1), (4, 3), (4, 4)] if thorough else [])):
        nodes = toks(n)
        bit, tab = mk_table(rng, nodes, -lo, lo)
        out.append({"id": len(out) + 1, "kind": "xs", "nodes": nodes, "bit": bit, "tab": tab, "pe": rng.choice([0, -1, 1])})
    return out


def tree_instances(rng, thorough):
    """integer weights >= 1 on every pair (the statement excludes zero-weight pairs); TAN: per-class weights and class sizes"""
    out = []
    spec = [(3, "", 3), (4, "", 2), (4, "", 6), (5, "", 2), (5, "", 9), (3, "tan", 3), (4, "tan", 4), (4, "tan", 2)]
    if thorough:
        spec += [(5, "", 3), (5, "", 20), (6, "", 3), (6, "", 12), (5, "tan", 3), (5, "tan", 6), (2, "", 3), (4, "", 1), (5, "tan", 2), (6, "", 2)]
    for n, kind, hi in spec:
        nodes = toks(n)
        cls = f"v{n}" if kind == "tan" else ""
        nk = [1] if not cls else [rng.randint(1, 4) for _ in range(rng.choice([2, 3]))]
        wk = []
        for _ in nk:
            w = {u: {v: 0 for v in nodes} for u in nodes}
            for u, v in itertools.combinations(nodes, 2):
                w[u][v] = w[v][u] = rng.randint(1, hi)
            wk.append(w)
        out.append({"id": len(out) + 1, "kind": "tree", "nodes": nodes, "cls": cls, "nk": nk, "wk": wk, "tol": 0, "weights": "callable"})
    return out


def mi_instances(rng, thorough):
    out = []
    spec = [(3, False), (4, False), (4, True), (5, False)] + ([(5, True), (5, False), (4, False), (6, False), (4, True), (3, True)] if thorough else [])
    tries = 0
    while len(out) < len(spec) and tries < 500:
        tries += 1
        n, tan = spec[len(out)]
        nodes = toks(n + (1 if tan else 0))
        nrows = rng.randint(10, 24)
        card = [rng.choice([2, 3]) for _ in nodes]
        rows = []
        for _ in range(nrows):
            r = []
            for j in range(len(nodes)):
                if j and rng.random() < 0.6:
                    r.append((r[rng.randrange(j)] + (1 if rng.random() < 0.25 else 0)) % card[j])
                else:
                    r.append(rng.randrange(card[j]))
            rows.append(r)
        if tan:
            cvals = sorted({r[-1] for r in rows})
            groups = [[i + 1 for i, r in enumerate(rows) if r[-1] == c] for c in cvals]
            if len(groups) < 2 or min(map(len, groups)) < 3:
                continue
        else:
            groups = [list(range(1, nrows + 1))]
        out.append({"id": len(out) + 1, "kind": "mi", "nodes": nodes, "rows": rows, "groups": groups, "tan": tan})
    return out


def ev_form(f):
    """evaluate a LogForm: k + sum (c_p / 2) log p + (pi / 2) log PI   (the trusted evaluator; TLC built the form)"""
    return f["k"] + sum(c / 2.0 * math.log(p) for p, c in f["lg"]) + f["pi"] / 2.0 * math.log(math.pi)


# =========================================================================== TLC configurations
def cfg_h(mode, emit):
    s = f'CONSTANT MaxN = 4\nCONSTANT Mode = "{mode}"\nINIT Init\nNEXT Next\n'
    if mode == "run":
        s += "INVARIANT Safe\nINVARIANT Monotone\nINVARIANT Terminal\n"
    else:
        s += "INVARIANT LegalLemma\nINVARIANT DeltaLemma\nINVARIANT NbrLemma\nINVARIANT LegalIsAdmissible\n"
    return s + ("INVARIANT Emit\n" if emit else "")


CFG_X = ("CONSTANT MaxN = 4\nCONSTANT PMax = 40\nINIT Init\nNEXT Next\nINVARIANT XsCount\nINVARIANT XsOrderLemma\nINVARIANT Cayley\n"
         "INVARIANT OrientLemma\nINVARIANT MiZeroLemma\nINVARIANT MiSymmetric\nINVARIANT Emit\n")
CFG_T = "INIT Init\nNEXT Next\nINVARIANT Report\n"
CFG_TX = "INIT Init\nNEXT Next\nINVARIANT EveryStateIsADag\nINVARIANT Report\n"


def dump(ctx, name, obj):
    f = os.path.join(ctx.work, name)
    with open(f, "w") as fh:
        json.dump(obj, fh)
    return f


def ekey(edges):
    return json.dumps(sorted([list(e) for e in edges]))


# =========================================================================== GEN runs
def gen_hc(ctx, insts):
    """-> list of replay groups {inst, start, maxin, tabu, eps, maxiter, finals:set}"""
    lem = [i for i in insts if i["lemma"]]
    ctx.tlc("Gen_C11H", cfg_h("lemma", False), env={"INST_FILE": dump(ctx, "hc_lemma.json", lem)}, tag="GenH_lemma", coverage=True, timeout=3000)
    r = ctx.tlc("Gen_C11H", cfg_h("run", True), env={"INST_FILE": dump(ctx, "hc_run.json", insts)}, tag="GenH_run", coverage=True, timeout=3000)
    ctx.require_actions(["Pick", "MaxIter", "Iterate"])
    groups = {}
    kinds = {"+": 0, "-": 0, "flip": 0}
    for p in r.prints:
        key = (p["id"], ekey(p["start"]), p["maxin"], p["tabu"], p["eps"], p["maxiter"])
        g = groups.setdefault(key, {"id": p["id"], "start": sorted(map(list, p["start"])), "maxin": p["maxin"], "tabu": p["tabu"],
                                    "eps": p["eps"], "maxiter": p["maxiter"], "finals": set(), "moves": 0, "st": set()})
        g["finals"].add(ekey(p["final"]))
        g["moves"] = max(g["moves"], p["it"])
        g["st"].add(p["st"])
        for o in p["ops"]:
            kinds[o["t"]] += 1
        if p["s1"] < p["s0"]:
            raise Machinery("Gen_C11H printed a terminal state with a lower score than its start")
    if min(kinds.values()) == 0:
        raise Machinery(f"vacuity: the step machine never applied some kind of operation: {kinds}")
    sts = {s for g in groups.values() for s in g["st"]}
    if sts != {"stopped", "maxiter"}:
        raise Machinery(f"vacuity: terminal kinds reached: {sts}")
    ctx.extra["hc_machine_moves_by_kind"] = kinds
    ctx.extra["hc_gen_groups"] = len(groups)
    ctx.extra["hc_gen_groups_with_ties"] = sum(1 for g in groups.values() if len(g["finals"]) > 1)
    out = []
    for g in groups.values():
        g["finals"] = sorted(g["finals"])
        g["st"] = sorted(g["st"])
        out.append(g)
    return out


def gen_x(ctx, insts, tag):
    r = ctx.tlc("Gen_C11X", CFG_X, env={"INST_FILE": dump(ctx, f"x_{tag}.json", insts)}, tag="GenX_" + tag, coverage=True, timeout=3000)
    by = {p["id"]: p for p in r.prints}
    if set(by) != {i["id"] for i in insts} or len(r.prints) != len(insts):
        raise Machinery(f"Gen_C11X ({tag}): expected one record per instance")
    return by


def tree_from_mi(mi_insts, mi_out):
    """MI forms (from TLC) -> evaluated, scaled integer weights -> tree instances for TLC's spanning-tree enumeration"""
    out = []
    for inst in mi_insts:
        rec = mi_out[inst["id"]]
        feats = inst["nodes"][:-1] if inst["tan"] else inst["nodes"]
        cls = inst["nodes"][-1] if inst["tan"] else ""
        nrows = rec["nrows"]
        w = {u: {v: 0 for v in feats} for u in feats}
        mi = {}
        ok = True
        for p in rec["pairs"]:
            val = ev_form(p["f"]) / nrows
            mi[p["u"] + "|" + p["v"]] = val
            if p["u"] in w and p["v"] in w:
                if not p["pos"]:
                    ok = False         # an exactly independent pair: outside the statement (zero-weight pairs are no edges)
                w[p["u"]][p["v"]] = w[p["v"]][p["u"]] = int(round(val * MI_SCALE))
        if not ok:
            continue
        out.append({"id": 1000 + inst["id"], "kind": "tree", "nodes": feats, "cls": cls, "nk": [1], "wk": [w], "tol": len(feats) + 1,
                    "weights": "mutual_info", "rows": inst["rows"], "allnodes": inst["nodes"], "mi": mi})
    return out


# =========================================================================== run
def run(ctx):
    ctx.rule = ("hill climbing: (a) every start DAG on 3-4 nodes x palettes of max_indegree / tabu_length / epsilon / max_iter per "
                "(score table, fixed/black/white lists) instance - TLC explores every tie; the real code's result must be one of the "
                "terminal graphs; (b) recorded calls on 3-6 nodes (random and chord/detour/diamond start graphs, lists, in-degree 1-3, "
                "tabu 0-100, epsilon 1-5, max_iter 0-1e6, cache on/off, real k2/bdeu/bds/bic/aic) validated iteration by iteration. "
                "exhaustive search: all DAGs on 2-4 nodes (5 nodes in thorough). trees: all spanning trees on 2-6 nodes x every root, "
                "Chow-Liu and TAN, integer callables and the built-in mutual information. distinct = distinct abstract cases; "
                "non-trivial iff the search applied >= 1 operation / the graph has >= 3 nodes.")
    ctx.assumptions += [
        "local scores are an uninterpreted integer table (decomposable score); the real scores enter through the table read back from "
        "the score object (scaled by 1e6, tolerance 8 units), their VALUES are property C10's business",
        "'start graph' = start_dag plus the fixed edges (the code adds them before searching); start graphs that are cyclic, contain a "
        "black-listed edge or exceed max_indegree are outside the statement and not generated; epsilon > 0",
        "tabu conventions (Appendix A): an addition bars its removal, a removal its re-addition, a flip bars flipping that edge in either "
        "orientation, for the next tabu_length iterations",
        "the default epsilon 1e-4 is modelled as 'any integer gain >= 1' for integer tables",
        "tree weights are strictly positive; log is not computed by TLC: mutual information is an exact LogForm built by TLC and only "
        "evaluated (math.log) by the harness, then scaled by 1e7 for TLC's spanning-tree maximisation (tolerance n+1 units)",
        "TreeSearch with root_node=None: only the first estimate() of an object is required to pick the arg-max weight-sum root",
    ]
    rng = random.Random(ctx.seed * 7919 + 11)
    th = ctx.thorough
    # ---- TLC: generators and design-level checks
    hc_insts = hc_gen_instances(rng, th)
    groups = gen_hc(ctx, hc_insts)
    xs_insts = xs_instances(rng, th)
    xs_out = gen_x(ctx, xs_insts, "xs")
    tr_insts = tree_instances(rng, th)
    tr_out = gen_x(ctx, tr_insts, "tree")
    mi_insts = mi_instances(rng, th)
    mi_out = gen_x(ctx, mi_insts, "mi")
    trmi = tree_from_mi(mi_insts, mi_out)
    if not trmi:
        raise Machinery("no data set with strictly positive pairwise mutual information was generated")
    trmi_out = gen_x(ctx, trmi, "tree_mi")
    ctx.require_actions(["Work"])
    ctx.exhaustive = True
    ctx.extra["spanning_trees_enumerated"] = {str(len(i["nodes"])): tr_out[i["id"]]["ntrees"] for i in tr_insts}
    # ---- tasks for the workers
    by_inst = {i["id"]: i for i in hc_insts}
    rng.shuffle(groups)
    cap = len(groups) if th else 7000
    tasks = []
    for g in groups[:cap]:
        tasks.append({"task": "hc_gen", "inst": g["id"], "g": g})
        ctx.count(("hcg", g["id"], ekey(g["start"]), g["maxin"], g["tabu"], g["eps"], g["maxiter"]), nontrivial=g["moves"] > 0, n=0)
    ctx.extra["hc_gen_groups_replayed"] = min(cap, len(groups))
    for i in xs_insts:
        tasks.append({"task": "xs", "inst": i, "exp": xs_out[i["id"]]})
        ctx.count(("xs", i["id"]), nontrivial=len(i["nodes"]) >= 3, n=0)
    for i in tr_insts:
        tasks.append({"task": "tree", "inst": i, "exp": tr_out[i["id"]]})
        ctx.count(("tree", i["id"]), nontrivial=len(i["nodes"]) >= 3, n=0)
    for i in trmi:
        tasks.append({"task": "tree", "inst": i, "exp": trmi_out[i["id"]]})
        ctx.count(("treemi", i["id"]), nontrivial=True, n=0)
    reuse = [i for i in tr_insts if not i["cls"]]
    for a, b in zip(reuse, reuse[1:]):
        if len(a["nodes"]) == len(b["nodes"]):
            tasks.append({"task": "tree_reuse", "a": a, "b": b, "expa": tr_out[a["id"]], "expb": tr_out[b["id"]]})
    cases = hc_trace_cases(rng, 5000 if th else 400, 400 if th else 40)
    for c in cases:
        tasks.append({"task": "hc_rec", "case": c})
    xs5 = []
    if th:
        for k in range(4):
            nodes = toks(5)
            bit, tab = mk_table(rng, nodes, -3 - 3 * k, 3 + 3 * k)
            xs5.append({"tid": k + 1, "nodes": nodes, "bit": bit, "tab": tab, "pe": -(k % 3)})
            tasks.append({"task": "xs5", "case": xs5[-1]})
    ctx.sample({"kind": "hc_gen", "instance": {k: by_inst[groups[0]["id"]][k] for k in ("nodes", "fixed", "black")}, "case": groups[0]})
    ctx.sample({"kind": "tree", "instance": {k: tr_insts[2][k] for k in ("nodes", "wk")}, "expected": tr_out[tr_insts[2]["id"]]["roots"][:2]})
    res = dispatch(ctx, tasks, by_inst, hseeds=list(range(8)) if th else [0, 1, 2, 3])
    traces, xs5res = [], []
    for r in res:
        ctx.traces += r["n_replayed"]
        ctx.evaluations += r["calls"]
        for fl in r["fails"]:
            ctx.violation(fl)
        traces += r["traces"]
        xs5res += r["xs5"]
        for k, v in r["notes"].items():
            ctx.extra[k] = ctx.extra.get(k, 0) + v
    validate_hc(ctx, traces)
    if xs5res:
        validate_xs5(ctx, xs5res)


def dispatch(ctx, tasks, by_inst, hseeds, nproc=8):
    """spread the tasks over nproc worker processes (cost-balanced round robin; expensive first)"""
    cost = {"xs5": 10000, "hc_rec": 8, "xs": 60, "tree": 30, "tree_reuse": 10, "hc_gen": 1}
    tasks = sorted(tasks, key=lambda t: -cost[t["task"]])
    buckets = [[] for _ in range(nproc)]
    for i, t in enumerate(tasks):
        buckets[i % nproc].append(t)
    pl = []
    for j, b in enumerate(buckets):
        if b:
            need = {t["inst"] for t in b if t["task"] == "hc_gen"}
            pl.append((hseeds[j % len(hseeds)], {"tasks": b, "insts": {str(k): by_inst[k] for k in need}, "seed": ctx.seed * 1000 + j}))
    return run_workers(ctx, "c11", "work", pl, timeout=7200)


def validate_hc(ctx, traces):
    if not traces:
        return
    by = {t["tid"]: t for t in traces}
    if len(by) != len(traces):
        raise Machinery("duplicate trace ids")
    fields = ("tid", "nodes", "bit", "tab", "pe", "fixed", "black", "white", "maxin", "tabu", "eps", "maxiter", "tol", "start", "start_after",
              "ev", "final", "final_nodes")
    tf = dump(ctx, "trace_c11.json", [{k: t[k] for k in fields} for t in traces if not t.get("exc")])
    for t in traces:
        if t.get("exc"):
            ctx.violation({"api": "HillClimbSearch.estimate", "clause": "does_not_terminate" if t["exc"].startswith("does_not_terminate") else (t["exc"] if t["exc"].startswith("data_or_edge") else "raises"),
                           "features": {"score": t["case"]["score"]},
                           "case": {"kind": "hc_rec", "case": t["case"], "hashseed": t["hashseed"]}, "observed": t["exc"]})
    r = ctx.tlc("Trace_C11", CFG_T, env={"TRACE_FILE": tf}, tag="Trace", coverage=True, timeout=7200)
    ctx.require_actions(["Step", "Finish"])
    seen = set()
    for v in r.prints:
        t = by[v["tid"]]
        seen.add(v["tid"])
        moved = sum(1 for i, e in enumerate(t["ev"]) if ekey(e["edges"]) != ekey(t["ev"][i + 1]["edges"] if i + 1 < len(t["ev"]) else t["final"]))
        ctx.count(("hct", t["case"]["seed"], v["tid"]), nontrivial=moved > 0, n=0)
        if v["clause"] == "" and not v["contract"]:
            ctx.traces += 1
            continue
        c = t["case"]
        feat = {"score": c["score"], "use_cache": c["use_cache"]}
        base = {"case": {"kind": "hc_rec", "case": c, "hashseed": t["hashseed"]}, "features": feat}
        if v["clause"]:
            ctx.violation(dict(base, api="HillClimbSearch.estimate", clause=v["clause"],
                               observed={"step": v["step"], "event": t["ev"][v["step"] - 1] if 0 < v["step"] <= len(t["ev"]) else None,
                                         "final": t["final"]}, expected="see spec/Trace_C11.tla StepClause"))
        for cl in v["contract"]:
            ctx.violation(dict(base, api="HillClimbSearch.estimate", clause=cl if cl == "start_dag_mutated" else "contract." + cl,
                               features=({} if cl == "start_dag_mutated" else feat),
                               observed={"final": t["final"], "start": t["start"], "start_after": t["start_after"]}))
    missing = {t["tid"] for t in traces if not t.get("exc")} - seen
    if missing:
        raise Machinery(f"Trace_C11: verdicts missing for {len(missing)} traces")
    t0 = next((t for t in traces if not t.get("exc") and len(t["ev"]) >= 3), None)
    if t0:
        ctx.sample({"kind": "hc_trace", "options": {k: t0["case"][k] for k in ("start", "fixed", "black", "maxin", "tabu", "eps", "maxiter")},
                    "iterations": [{"edges": e["edges"], "n_legal": len(e["legal"])} for e in t0["ev"][:4]], "final": t0["final"]})


def validate_xs5(ctx, recs):
    for x in recs:
        if x.get("exc"):
            ctx.violation({"api": "ExhaustiveSearch.estimate", "clause": "raises", "features": {"n": 5},
                           "case": {"kind": "xs5", "case": x["case"], "hashseed": x["hashseed"]}, "observed": x["exc"]})
    recs = [x for x in recs if not x.get("exc")]
    if not recs:
        return
    tf = dump(ctx, "trace_c11x.json", [{k: x[k] for k in ("tid", "nodes", "bit", "tab", "pe", "result", "result_nodes")} for x in recs])
    r = ctx.tlc("Trace_C11X", CFG_TX, env={"TRACE_FILE": tf}, tag="TraceX", coverage=True, timeout=7200)
    if r.distinct != NDAGS[5] * len(recs):
        raise Machinery(f"Trace_C11X visited {r.distinct} states, expected {NDAGS[5] * len(recs)} (all DAGs on 5 nodes per trace)")
    by = {x["tid"]: x for x in recs}
    got = {}
    for p in r.prints:
        got.setdefault(p["tid"], {"better": []})
        if p["kind"] == "result":
            got[p["tid"]]["result"] = p
        else:
            got[p["tid"]]["better"].append(p)
    for tid, x in by.items():
        g = got.get(tid)
        if not g or "result" not in g:
            raise Machinery("Trace_C11X: no result line for a trace")
        ctx.count(("xs5", tid), n=0)
        base = {"api": "ExhaustiveSearch.estimate", "features": {"n": 5}, "case": {"kind": "xs5", "case": x["case"], "hashseed": x["hashseed"]}}
        if not g["result"]["dag"] or not g["result"]["nodes"]:
            ctx.violation(dict(base, clause="not_a_dag_over_the_variables", observed=x["result"]))
        elif g["better"]:
            b = max(g["better"], key=lambda p: p["score"])
            ctx.violation(dict(base, clause="not_globally_maximal", observed={"result": x["result"], "score": g["result"]["score"]},
                               expected={"better_dag": b["e"], "score": b["score"], "n_better": len(g["better"])}))
        else:
            ctx.traces += 1


# =========================================================================== replay / selftest
def replay(ctx, rec):
    c = rec["case"]
    kind = c["kind"]
    hs = c.get("hashseed", 0)
    n0 = len(ctx.violations)
    if kind == "hc_rec":
        res = run_workers(ctx, "c11", "work", [(hs, {"tasks": [{"task": "hc_rec", "case": c["case"]}], "insts": {}, "seed": 0})])[0]
        validate_hc(ctx, res["traces"])
        new = ctx.violations[n0:]
        same = [v for v in new if v["clause"] == rec.get("clause")]
        return (same or new or [None])[0]
    if kind == "xs5":
        res = run_workers(ctx, "c11", "work", [(hs, {"tasks": [{"task": "xs5", "case": c["case"]}], "insts": {}, "seed": 0})], timeout=7200)[0]
        validate_xs5(ctx, res["xs5"])
        return (ctx.violations[n0:] or [None])[0]
    # GEN -> REPLAY kinds: the case carries the task (with TLC's expectation) and the task's seed
    res = run_workers(ctx, "c11", "work", [(hs, {"tasks": [c["task"]], "insts": c.get("insts", {}), "seed": 0, "task_seeds": [c["task_seed"]]})])[0]
    same = [f for f in res["fails"] if f["clause"] == rec.get("clause")]
    return (same or res["fails"] or [None])[0]


def selftest(ctx):
    rng = random.Random(5)
    # (1) recorded traces: the real code is accepted, every single corruption is rejected with the right clause
    cases = [c for c in hc_trace_cases(rng, 40, 4) if c["score"] != "table" or c["maxiter"] >= 3]
    res = run_workers(ctx, "c11", "work", [(0, {"tasks": [{"task": "hc_rec", "case": c} for c in cases], "insts": {}, "seed": 1})])[0]
    good = [t for t in res["traces"] if not t.get("exc")]
    rich = [t for t in good if len(t["ev"]) >= 2 and t["case"]["score"] == "table" and any(o["t"] == "flip" for o in t["ev"][0]["legal"])
            and ekey(t["ev"][0]["edges"]) != ekey(t["ev"][1]["edges"]) and t["ev"][1]["edges"] and t["final"]
            and any(o["t"] == "+" and o["d"] < max(q["d"] for q in t["ev"][0]["legal"]) for o in t["ev"][0]["legal"])]
    if not rich:
        raise Machinery("selftest: no recorded trace is rich enough to be corrupted")

    def corrupt(t, tid, f):
        t = json.loads(json.dumps(t))
        t["tid"] = tid
        f(t)
        return t
    t = rich[0]

    def drop_legal(x):
        x["ev"][0]["legal"] = [o for o in x["ev"][0]["legal"] if o["t"] != "flip"][:]

    def bad_delta(x):
        x["ev"][0]["legal"][0]["d"] += 1

    def spurious(x):      # re-adding an existing edge's reverse: closes a 2-cycle
        e = x["ev"][1]["edges"][0]
        x["ev"][1]["legal"].append({"t": "+", "x": e[1], "y": e[0], "d": 0})

    def wrong_move(x):    # the code "applied" a legal but non-maximal operation in the first iteration
        ev = x["ev"][0]
        best = max(o["d"] for o in ev["legal"])
        o = next((o for o in ev["legal"] if o["d"] < best and o["t"] == "+"), None)
        if o is None:
            raise Machinery("selftest: no non-maximal addition available")
        x["ev"] = [ev]
        x["final"] = ev["edges"] + [[o["x"], o["y"]]]
        x["maxiter"] = 1

    def cyc_final(x):
        e = x["final"][0] if x["final"] else None
        if e is None:
            raise Machinery("selftest: empty final graph")
        x["final"] = x["final"] + [[e[1], e[0]]]

    def mutated(x):
        x["start_after"] = x["final"] if ekey(x["final"]) != ekey(x["start"]) else x["final"] + [["v0", "v1"]]

    def early(x):         # the code stopped although the first iteration had a legal gain >= eps
        x["ev"] = x["ev"][:1]
        x["final"] = x["ev"][0]["edges"]

    want = {9001: ("legal.missing.flip", drop_legal), 9002: ("delta.", bad_delta), 9003: ("legal.spurious.add.cycle", spurious),
            9004: ("not_argmax", wrong_move), 9005: ("contract.cyclic", cyc_final), 9006: ("start_dag_mutated", mutated),
            9007: ("stopped_early", early)}
    bad = [corrupt(t, tid, f) for tid, (_, f) in want.items()]
    n0 = len(ctx.violations)
    validate_hc(ctx, good + bad)
    allcl = [v["clause"] for v in ctx.violations[n0:]]
    for tid, (cl, _) in want.items():
        if not any(c.startswith(cl) for c in allcl):
            raise Machinery(f"selftest: corruption expecting clause {cl} was not rejected (got {allcl})")
    if ctx.traces < len(good):
        raise Machinery(f"selftest: only {ctx.traces} of {len(good)} genuine traces accepted: {allcl}")
    # (2) sabotaged dependency: with nx.all_simple_paths returning nothing the real code flips edges into cycles
    sab = [dict(c, sabotage="flip_cycle", tid=c["tid"] + 5000) for c in hc_trace_cases(random.Random(6), 40, 0)]
    res = run_workers(ctx, "c11", "work", [(0, {"tasks": [{"task": "hc_rec", "case": c} for c in sab], "insts": {}, "seed": 2})])[0]
    n0 = len(ctx.violations)
    validate_hc(ctx, res["traces"])
    if not any(v["clause"].startswith("legal.spurious.flip.cycle") for v in ctx.violations[n0:]):
        raise Machinery("selftest: a legal-move generator without the flip cycle test was not rejected")
    # (3) GEN -> REPLAY against wrong expectations
    xs = xs_instances(rng, False)[:3]
    xo = gen_x(ctx, xs, "self_xs")
    i = xs[2]
    exp = json.loads(json.dumps(xo[i["id"]]))
    worst = min(exp["scores"], key=lambda s: s["s"])
    exp["argmax"] = [worst["e"]]
    tr = tree_instances(rng, False)[:3]
    to = gen_x(ctx, tr, "self_tree")
    texp = json.loads(json.dumps(to[tr[1]["id"]]))
    for r in texp["roots"]:
        r["dags"] = [[[e[1], e[0]] for e in d] for d in r["dags"]]      # directed TOWARDS the root
    hi = hc_gen_instances(rng, False)[:1]
    groups = gen_hc(ctx, [dict(hi[0], lemma=True)])
    g = next(g for g in groups if g["moves"] > 0)
    g = dict(g, finals=[ekey(g["start"])] if ekey(g["start"]) not in g["finals"] else [ekey([["v0", "v1"], ["v1", "v0"]])])
    tasks = [{"task": "xs", "inst": i, "exp": exp}, {"task": "tree", "inst": tr[1], "exp": texp}, {"task": "hc_gen", "inst": hi[0]["id"], "g": g}]
    res = run_workers(ctx, "c11", "work", [(0, {"tasks": tasks, "insts": {str(hi[0]["id"]): hi[0]}, "seed": 3})])[0]
    apis = {f["api"] for f in res["fails"]}
    if not {"ExhaustiveSearch.estimate", "TreeSearch.estimate", "HillClimbSearch.estimate"} <= apis:
        raise Machinery(f"selftest: wrong expectations accepted; failures only for {apis}")
    # and the right expectations are met
    tasks = [{"task": "xs", "inst": i, "exp": xo[i["id"]]}, {"task": "tree", "inst": tr[1], "exp": to[tr[1]["id"]]}]
    res = run_workers(ctx, "c11", "work", [(0, {"tasks": tasks, "insts": {}, "seed": 3})])[0]
    if res["fails"]:
        raise Machinery(f"selftest: genuine expectations rejected: {res['fails'][0]['clause']}")
    ctx.violations.clear()


# =========================================================================== worker side (imports pgmpy)
def work(payload):
    hs = int(os.environ.get("PYTHONHASHSEED", "0"))
    out = {"fails": [], "traces": [], "xs5": [], "n_replayed": 0, "calls": 0, "notes": {}}
    seeds = payload.get("task_seeds")
    for i, t in enumerate(payload["tasks"]):
        tseed = seeds[i] if seeds else payload["seed"] * 100003 + i       # every task has its own generator: re-runnable alone
        sub = random.Random(tseed)
        kind = t["task"]
        nf = len(out["fails"])
        if kind == "hc_rec":
            out["traces"].append(_hc_record(t["case"], hs))
            out["calls"] += 1
        elif kind == "hc_gen":
            _hc_gen(t, payload["insts"][str(t["inst"])], sub, hs, out)
        elif kind == "xs":
            _xs(t, sub, hs, out)
        elif kind == "tree":
            _tree(t, sub, hs, out)
        elif kind == "tree_reuse":
            _tree_reuse(t, sub, hs, out)
        elif kind == "xs5":
            out["xs5"].append(_xs5(t["case"], hs))
            out["calls"] += 1
        for f in out["fails"][nf:]:
            f["case"] = {"kind": kind, "task": t, "task_seed": tseed, "hashseed": hs,
                         "insts": {str(t["inst"]): payload["insts"][str(t["inst"])]} if kind == "hc_gen" else {}}
    out["fails"] = out["fails"][:60]
    return out


def _table_score(StructureScore, data, tab, bit, inv, pe=0):
    """the uninterpreted score: local scores from the table, log structure prior = pe per edge"""
    class TableScore(StructureScore):
        def local_score(self, variable, parents):
            m = 0
            for p in parents:
                m += bit[inv[p]]
            return tab[inv[variable]][m]

        def structure_prior(self, model):
            return pe * len(model.edges())

        def structure_prior_ratio(self, operation):
            return pe if operation == "+" else (-pe if operation == "-" else 0)
    return TableScore(data)


def _mk_names(nodes, rng, kind):
    from ..concretise import var_names
    vn = var_names(nodes, rng, kind)
    return vn, {c: t for t, c in vn.items()}


def _hc_call(case, rng, log_events):
    """one HillClimbSearch.estimate call for an abstract case; returns dict(final, final_nodes, start_after, ev, tab) in tokens"""
    import networkx as nx
    import pandas as pd
    from pgmpy.base import DAG
    from pgmpy import estimators as E
    from pgmpy.estimators import HillClimbSearch, StructureScore
    from ..concretise import shuffled
    nodes = case["nodes"]
    n = len(nodes)
    vn, inv = _mk_names(nodes, rng, case.get("names", "str"))
    cols = shuffled([vn[v] for v in nodes], rng)
    real = case["score"] != "table"
    if real:
        data = pd.DataFrame(case["rows"], columns=[vn[v] for v in nodes])[cols]
        cls = {"k2": E.K2Score, "bdeu": E.BDeuScore, "bds": E.BDsScore, "bic": E.BicScore, "aic": E.AICScore}[case["score"]]
        own = cls(data)
        tab = {v: [0] * (1 << n) for v in nodes}
        for v in nodes:
            others = [u for u in nodes if u != v]
            for k in range(len(others) + 1):
                for P in itertools.combinations(others, k):
                    tab[v][sum(case["bit"][p] for p in P)] = int(round(float(own.local_score(vn[v], sorted(vn[p] for p in P))) * SCALE))
        pr = {k: int(round(float(own.structure_prior_ratio(k)) * SCALE)) for k in ("+", "-", "flip")}
        if pr["-"] != -pr["+"] or pr["flip"] != 0:
            raise RuntimeError("structure prior is not a per-edge prior")      # (modelling assumption of SearchLib!Score)
        pe = pr["+"]
        method = case["score"] if case.get("score_as") == "string" else cls(data)
        sc = float(SCALE)
    else:
        data = pd.DataFrame([[i % 2 for _ in cols] for i in range(3)], columns=cols)
        tab = case["tab"]
        pe = case["pe"]
        method = _table_score(StructureScore, data, tab, case["bit"], inv, pe)
        sc = 1
    est = HillClimbSearch(data, use_cache=case["use_cache"])
    events = []
    # every applied operation gains >= eps and the score of a graph lies between the sums of the smallest / largest table entries
    # (+ prior), so a conforming run has at most (score range) / eps moves + 1 stopping iteration: abort a run that exceeds this
    valid = {v: [x for m, x in enumerate(tab[v]) if not (m & case["bit"][v])] for v in nodes}
    cap = (sum(max(valid[v]) - min(valid[v]) for v in nodes) + abs(pe) * n * (n - 1) // 2) // max(1, case["eps"] - case.get("tol", 0)) + 2
    if log_events:
        orig = est._legal_operations

        def logged(model, score, structure_score, tabu_list, max_indegree, black_list, white_list, fixed_edges):
            if len(events) > cap:
                raise IterationBound(f"more than {cap} iterations although every step must gain >= epsilon")
            ops = list(orig(model, score, structure_score, tabu_list, max_indegree, black_list, white_list, fixed_edges))
            events.append({"edges": [[inv[u], inv[v]] for u, v in model.edges()],
                           "tabu": [{"t": o[0], "x": inv[o[1][0]], "y": inv[o[1][1]]} for o in tabu_list],
                           "legal": [{"t": o[0], "x": inv[o[1][0]], "y": inv[o[1][1]], "d": int(round(float(d) * sc))} for o, d in ops]})
            return iter(ops)
        est._legal_operations = logged
    kw = {"scoring_method": method, "show_progress": False}
    start = None
    if not case.get("start_none"):
        start = DAG()
        start.add_nodes_from(shuffled(cols, rng))
        start.add_edges_from([(vn[u], vn[v]) for u, v in shuffled(case["start"], rng)])
        kw["start_dag"] = start
    fx = [(vn[u], vn[v]) for u, v in shuffled(case["fixed"], rng)]
    if case.get("fixed_as") == "set":
        kw["fixed_edges"] = set(fx)
    elif case.get("fixed_as") != "default" or fx:
        kw["fixed_edges"] = fx
    if not case.get("tabu_default"):
        kw["tabu_length"] = case["tabu"]
    if not case.get("maxin_none"):
        kw["max_indegree"] = case["maxin"]
    if case["black"]:
        kw["black_list"] = [(vn[u], vn[v]) for u, v in shuffled(case["black"], rng)]
    if not case.get("white_none"):
        kw["white_list"] = [(vn[u], vn[v]) for u, v in shuffled(case["white"], rng)]
    if not case.get("eps_default"):
        kw["epsilon"] = case["eps"]
    if not case.get("maxiter_default"):
        kw["max_iter"] = case["maxiter"]
    if case.get("sabotage") == "flip_cycle":        # selftest only: break the dependency the flip test relies on
        real_asp = nx.all_simple_paths
        nx.all_simple_paths = lambda *a, **k: iter(())
    import copy
    from ..frames import df_snapshot
    data_snap = df_snapshot(data)
    args_snap = copy.deepcopy({k: kw[k] for k in ("fixed_edges", "black_list", "white_list") if k in kw})
    try:
        res = est.estimate(**kw)
    finally:
        if case.get("sabotage") == "flip_cycle":
            nx.all_simple_paths = real_asp
    # C16: the search changes neither the data nor the edge lists it was given (start_dag: "start_after")
    args_same = df_snapshot(data) == data_snap and all(kw[k] == v for k, v in args_snap.items())
    return {"args_same": args_same,
            "final": [[inv[u], inv[v]] for u, v in res.edges()], "final_nodes": [inv.get(x, str(x)) for x in res.nodes()],
            "start_after": [[inv[u], inv[v]] for u, v in start.edges()] if start is not None else case["start"],
            "ev": events, "tab": tab, "pe": pe}


class IterationBound(Exception):
    pass


def _hc_record(case, hs):
    rng = random.Random(case["seed"])
    t = {"tid": case["tid"], "case": case, "hashseed": hs}
    try:
        r = _hc_call(case, rng, True)
    except IterationBound as ex:
        t["exc"] = "does_not_terminate: " + str(ex)
        return t
    except Exception as ex:  # noqa
        import traceback
        t["exc"] = repr(ex)[:300] + " | " + traceback.format_exc()[-600:]
        return t
    t.update({k: case[k] for k in ("nodes", "bit", "fixed", "black", "white", "maxin", "tabu", "eps", "maxiter", "tol", "start")})
    t.update(r)
    if not r["args_same"]:
        t["exc"] = "data_or_edge_list_argument_changed"
    return t


def _hc_gen(t, inst, rng, hs, out):
    g = t["g"]
    case = {"nodes": inst["nodes"], "bit": inst["bit"], "tab": inst["tab"], "pe": inst["pe"], "score": "table", "start": g["start"], "start_none": False,
            "fixed": inst["fixed"], "black": inst["black"], "white": inst["white"], "white_none": inst["white_none"],
            "maxin": g["maxin"], "maxin_none": g["maxin"] >= len(inst["nodes"]) and rng.random() < 0.5,
            "tabu": g["tabu"], "eps": g["eps"], "maxiter": g["maxiter"], "use_cache": rng.random() < 0.5,
            "names": rng.choice(["str", "str", "int"]), "fixed_as": rng.choice(["set", "list"]), "seed": rng.randrange(10 ** 9)}
    feat = {"use_cache": case["use_cache"], "score": "table"}
    out["calls"] += 1
    out["n_replayed"] += 1
    try:
        r = _hc_call(case, random.Random(case["seed"]), False)
    except Exception as ex:  # noqa
        out["fails"].append({"api": "HillClimbSearch.estimate", "clause": "raises", "features": feat, "observed": repr(ex)[:300]})
        return
    if sorted(r["final_nodes"]) != sorted(inst["nodes"]):
        out["fails"].append({"api": "HillClimbSearch.estimate", "clause": "contract.nodes", "features": feat, "observed": r["final_nodes"]})
    elif ekey(r["final"]) not in g["finals"]:
        out["fails"].append({"api": "HillClimbSearch.estimate", "clause": "result_not_a_terminal_state_of_the_spec", "features": feat,
                             "observed": sorted(r["final"]), "expected": [json.loads(f) for f in g["finals"][:4]]})
    if not r["args_same"]:
        out["fails"].append({"api": "HillClimbSearch.estimate", "clause": "data_or_edge_list_argument_changed", "features": {}, "observed": None})
    if ekey(r["start_after"]) != ekey(g["start"]):
        out["fails"].append({"api": "HillClimbSearch.estimate", "clause": "start_dag_mutated", "features": {},
                             "observed": {"start": g["start"], "start_after": sorted(r["start_after"])}})


def _xs_setup(inst, rng, use_cache):
    import pandas as pd
    from pgmpy.estimators import ExhaustiveSearch, StructureScore
    from ..concretise import shuffled
    nodes = inst["nodes"]
    vn, inv = _mk_names(nodes, rng, rng.choice(["str", "str", "int"]))
    cols = shuffled([vn[v] for v in nodes], rng)
    data = pd.DataFrame([[i % 2 for _ in cols] for i in range(3)], columns=cols)
    sc = _table_score(StructureScore, data, inst["tab"], inst["bit"], inv, inst["pe"])
    return ExhaustiveSearch(data, scoring_method=sc, use_cache=use_cache), inv


def _xs(t, rng, hs, out):
    inst, exp = t["inst"], t["exp"]
    want = {ekey(s["e"]): s["s"] for s in exp["scores"]}
    arg = {ekey(e) for e in exp["argmax"]}
    for use_cache in (False, True):
        feat = {"use_cache": use_cache, "structure_prior": inst["pe"] != 0}

        def fail(api, clause, obs, expd=None):
            out["fails"].append({"api": api, "clause": clause, "features": feat, "observed": obs, "expected": expd})
        out["calls"] += 2
        out["n_replayed"] += 1
        try:
            est, inv = _xs_setup(inst, rng, use_cache)
            best = est.estimate()
            alls = est.all_scores()
        except Exception as ex:  # noqa
            fail("ExhaustiveSearch.estimate", "raises", repr(ex)[:300])
            continue
        got = [[inv[u], inv[v]] for u, v in best.edges()]
        if sorted(inv.get(x, str(x)) for x in best.nodes()) != sorted(inst["nodes"]):
            fail("ExhaustiveSearch.estimate", "nodes", [str(x) for x in best.nodes()])
        elif ekey(got) not in want:
            fail("ExhaustiveSearch.estimate", "not_a_dag_over_the_variables", sorted(got))
        elif ekey(got) not in arg:
            fail("ExhaustiveSearch.estimate", "not_globally_maximal", {"result": sorted(got), "score": want[ekey(got)]},
                 {"best": exp["best"], "maximisers": exp["argmax"][:3]})
        keys = [ekey([[inv[u], inv[v]] for u, v in d.edges()]) for _, d in alls]
        if len(alls) != exp["ndags"] or len(set(keys)) != len(keys) or set(keys) != set(want):
            fail("ExhaustiveSearch.all_scores", "not_every_dag_exactly_once", {"n": len(alls), "distinct": len(set(keys))}, exp["ndags"])
            continue
        bad = [(k, float(s)) for (s, _), k in zip(alls, keys) if not (abs(float(s) - want[k]) <= 1e-9)]
        if bad:
            fail("ExhaustiveSearch.all_scores", "score", bad[:3], [want[k] for k, _ in bad[:3]])
        if any(float(alls[i][0]) > float(alls[i + 1][0]) for i in range(len(alls) - 1)):
            fail("ExhaustiveSearch.all_scores", "not_sorted", [float(s) for s, _ in alls][:12])
        if any(sorted(inv.get(x, str(x)) for x in d.nodes()) != sorted(inst["nodes"]) for _, d in alls):
            fail("ExhaustiveSearch.all_scores", "nodes", None)


def _xs5(case, hs):
    rng = random.Random(case["tid"] * 31 + hs)
    x = {"tid": case["tid"], "case": case, "hashseed": hs}
    try:
        est, inv = _xs_setup(case, rng, rng.random() < 0.5)
        best = est.estimate()
    except Exception as ex:  # noqa
        x["exc"] = repr(ex)[:300]
        return x
    x.update({k: case[k] for k in ("nodes", "bit", "tab", "pe")})
    x["result"] = [[inv[u], inv[v]] for u, v in best.edges()]
    x["result_nodes"] = [inv.get(n, str(n)) for n in best.nodes()]
    return x


def _tree_setup(inst, rng):
    """data frame + weight callable for a tree instance.  Callable instances: fn(u, v) looks the integer weight up by the
    series' names and, for TAN, by the class value of the rows it was handed (the row labels survive the sub-setting)."""
    import pandas as pd
    from ..concretise import shuffled
    feats = inst["nodes"]
    cls = inst["cls"]
    alln = inst.get("allnodes") or (feats + ([cls] if cls else []))
    # (small integer column labels include the falsy label 0, which may be the root)
    vn, inv = _mk_names(alln, rng, rng.choice(["str", "str", "smallint"]) if inst["weights"] != "callable" else rng.choice(["str", "int", "smallint"]))
    cols = shuffled([vn[v] for v in alln], rng)
    if inst["weights"] == "callable":
        rows, group_of = [], {}
        sizes = inst["nk"] if cls else [3]
        for g, k in enumerate(sizes):
            for _ in range(k):
                group_of[len(rows)] = g if cls else 0
                rows.append({vn[v]: (g if v == cls else rng.randrange(2)) for v in alln})
        order = list(range(len(rows)))
        rng.shuffle(order)
        data = pd.DataFrame([rows[i] for i in order], columns=cols)
        group_of = {new: group_of[old] for new, old in enumerate(order)}
        wk = inst["wk"]

        def fn(u, v):
            a, b = inv[u.name], inv[v.name]
            if a == cls or b == cls:
                return 1
            return wk[group_of[u.index[0]]][a][b]
        return data, fn, vn, inv
    data = pd.DataFrame(inst["rows"], columns=[vn[v] for v in alln])[cols]
    return data, "mutual_info", vn, inv


def _tree_check(inst, exp, res, inv, root_tok, feat, out, api="TreeSearch.estimate"):
    feats, cls = inst["nodes"], inst["cls"]

    def fail(clause, obs, expd=None):
        out["fails"].append({"api": api, "clause": clause, "features": feat, "observed": obs, "expected": expd})
    got = [[inv[u], inv[v]] for u, v in res.edges()]
    if sorted(inv.get(x, str(x)) for x in res.nodes()) != sorted(feats + ([cls] if cls else [])):
        fail("nodes", [str(x) for x in res.nodes()])
        return None
    roots = {r["r"]: {ekey(d) for d in r["dags"]} for r in exp["roots"]}
    tree = [e for e in got if e[0] != cls]
    if cls and sorted(e[1] for e in got if e[0] == cls) != sorted(feats):
        fail("tan_class_edges", sorted(got))
        return None
    if root_tok is None:
        hasp = {e[1] for e in tree}
        cand = [f for f in feats if f not in hasp]
        if len(cand) != 1:
            fail("not_a_tree_directed_away_from_one_root", sorted(got))
            return None
        root_tok = cand[0]
        auto = True
    else:
        auto = False
    if ekey(got) not in roots[root_tok]:
        und = {frozenset(e) for e in tree}
        anyroot = any(ekey(got) in s for s in roots.values())
        optimal_skel = {frozenset(frozenset(e) for e in json.loads(d) if e[0] != cls) for s in roots.values() for d in s}
        if len(tree) != len(feats) - 1 or len(und) != len(tree):
            cl = "not_a_spanning_tree"
        elif frozenset(und) not in optimal_skel:
            cl = "not_maximum_weight"
        elif anyroot:
            cl = "directed_away_from_another_root"
        else:
            cl = "not_directed_away_from_root"
        fail(cl, {"root": root_tok, "edges": sorted(got)}, {"maxw": exp["maxw"], "one_of": [json.loads(d) for d in sorted(roots[root_tok])[:3]]})
        return None
    return root_tok if auto else None


def _tree(t, rng, hs, out):
    from pgmpy.estimators import TreeSearch
    inst, exp = t["inst"], t["exp"]
    feats, cls = inst["nodes"], inst["cls"]
    etype = "tan" if cls else "chow-liu"
    data, fn, vn, inv = _tree_setup(inst, rng)
    if inst["weights"] == "mutual_info":       # the weights the code computes must be the numbers TLC's forms evaluate to
        import numpy as np
        out["calls"] += 1
        try:
            if cls:
                Wm = TreeSearch._get_conditional_weights(data, vn[cls], "mutual_info", 1, False)
            else:
                Wm = TreeSearch._get_weights(data, "mutual_info", 1, False)
            cols = list(data.columns)
            bad = []
            for key, val in inst["mi"].items():
                a, b = key.split("|")
                if cls in (a, b):
                    continue
                gotw = float(Wm[cols.index(vn[a])][cols.index(vn[b])])
                if not (abs(gotw - val) <= 1e-9) or not (abs(float(Wm[cols.index(vn[b])][cols.index(vn[a])]) - val) <= 1e-9):
                    bad.append([a, b, gotw, val])
            if bad:
                out["fails"].append({"api": "TreeSearch._get_weights", "clause": "mutual_information_value", "features": {"type": etype},
                                     "observed": bad[:3]})
        except Exception as ex:  # noqa
            out["fails"].append({"api": "TreeSearch._get_weights", "clause": "raises", "features": {"type": etype}, "observed": repr(ex)[:300]})
    for root in feats + ([None] if not cls else []):
        feat = {"type": etype, "weights": inst["weights"], "root_given": root is not None}
        out["calls"] += 1
        out["n_replayed"] += 1
        try:
            est = TreeSearch(data, root_node=None if root is None else vn[root], n_jobs=1)
            kw = {"class_node": vn[cls]} if cls else {}
            res = est.estimate(estimator_type=etype, edge_weights_fn=fn, show_progress=False, **kw)
        except Exception as ex:  # noqa
            out["fails"].append({"api": "TreeSearch.estimate", "clause": "raises", "features": feat, "observed": repr(ex)[:300]})
            continue
        picked = _tree_check(inst, exp, res, inv, root, feat, out)
        # (for float weights two nearly equal weight sums are not told apart: the arg-max root is only demanded for integer callables)
        if picked is not None and inst["weights"] == "callable" and picked not in exp["auto"]:
            out["fails"].append({"api": "TreeSearch.estimate", "clause": "auto_root_not_the_largest_weight_sum", "features": feat,
                                 "observed": picked, "expected": exp["auto"]})


def _tree_reuse(t, rng, hs, out):
    """ONE TreeSearch object, estimate() called with different weight functions: each call must return that function's optimum"""
    from pgmpy.estimators import TreeSearch
    a, b = t["a"], t["b"]
    st = rng.getstate()
    data, fna, vn, inv = _tree_setup(a, rng)
    rng.setstate(st)
    _, fnb, _, _ = _tree_setup(b, rng)       # same names, same frame layout
    for root in (a["nodes"][rng.randrange(len(a["nodes"]))], None):
        feat = {"type": "chow-liu", "weights": "callable", "root_given": root is not None, "reuse": True}
        try:
            est = TreeSearch(data, root_node=None if root is None else vn[root], n_jobs=1)
            seq = [(a, t["expa"], fna), (b, t["expb"], fnb), (a, t["expa"], fna)]
            for k, (inst, exp, fn) in enumerate(seq):
                out["calls"] += 1
                res = est.estimate(edge_weights_fn=fn, show_progress=False)
                n0 = len(out["fails"])
                picked = _tree_check(inst, exp, res, inv, root, feat, out, api="TreeSearch.estimate(reused object)")
                if root is None and k == 0 and picked is not None and picked not in exp["auto"]:
                    out["fails"].append({"api": "TreeSearch.estimate", "clause": "auto_root_not_the_largest_weight_sum", "features": feat,
                                         "observed": picked, "expected": exp["auto"]})
                if root is None and k > 0 and picked is not None and picked not in exp["auto"] and len(out["fails"]) == n0:
                    out["notes"]["treesearch_reuse_stale_auto_root"] = out["notes"].get("treesearch_reuse_stale_auto_root", 0) + 1
            out["n_replayed"] += 1
        except Exception as ex:  # noqa
            out["fails"].append({"api": "TreeSearch.estimate(reused object)", "clause": "raises", "features": feat, "observed": repr(ex)[:300]})
