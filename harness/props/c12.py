"""C12 constraint-based discovery: Gen_C12 (all DAGs on 4 nodes: skeleton, valid sepsets via the d-separation table, CPDAG and
equivalence class by enumeration, Meek machine lemmas; all PDAGs on 4 nodes with their consistent extensions) -> replay on
PC (orig/stable/parallel, callable oracle and independence_match) and PDAG.to_dag."""
import json
import os
import random

from ..core import Machinery, chunks, run_workers

N4 = '{"v0","v1","v2","v3"}'
N3 = '{"v0","v1","v2"}'


def cfg(nodes, mode, lemmas=True):
    s = f'CONSTANT Nodes = {nodes}\nCONSTANT Mode = "{mode}"\nINIT Init\nNEXT Next\n'
    if lemmas and mode in ("pc", "pcfile"):
        s += "INVARIANT MeekSound\nINVARIANT MeekComplete\nINVARIANT CPDAGExtendsToClass\n"
    return s + "INVARIANT Emit\n"


def run(ctx):
    ctx.rule = ("pc: every DAG on 4 labelled nodes (543) as ground truth x variants {orig, stable, parallel} x return types x CI route "
                "{callable d-separation oracle, independence_match}; pdag: every well-formed partially directed graph on 4 nodes (4096), "
                "to_dag checked on the extendable ones. distinct = ground-truth DAGs / PDAGs; non-trivial iff >= 2 edges.")
    ctx.assumptions += ["CI answers are exact d-separation of the ground truth (TLC's table)", "max_cond_vars in {maximal degree of the ground truth (the statement's bound), that + 1, number of nodes}",
                        "a separating set is correct iff it d-separates the pair in the ground truth"]
    # design level: the skeleton phase as coded (any edge-visiting order, any separating set found) is sound and complete
    ctx.tlc("MC_PCSkel", f"CONSTANT Nodes = {N4}\nINIT Init\nNEXT Next\nINVARIANT Sound\nINVARIANT NeverDropsTrueEdge\n"
            "INVARIANT Complete\nINVARIANT Terminates\n", tag="MC_PCSkel", coverage=True, timeout=7200)
    ctx.require_actions(["VisitAny", "End"])
    r = ctx.tlc("Gen_C12", cfg(N4, "pc"), tag="Gen_pc4", coverage=True, timeout=7200)
    pcs = r.prints
    if len(pcs) != 543:
        raise Machinery(f"expected 543 ground truths, got {len(pcs)}")
    ctx.require_actions(["StartMeek"])
    r = ctx.tlc("Gen_C12", cfg(N4, "pdag"), tag="Gen_pdag4", timeout=7200)
    pds = r.prints
    if len(pds) != 4096:
        raise Machinery(f"expected 4096 PDAGs, got {len(pds)}")
    ctx.exhaustive = True
    if True:
        # sampled 5-node ground truths: class / CPDAG by enumeration over all 29 281 DAGs, Meek lemmas included
        # (orientation chains of length >= 2 behind a v-structure need 5 nodes: two fixed shapes + random ones)
        rng = random.Random(ctx.seed + 125)
        dags = [[["v0", "v2"], ["v1", "v2"], ["v2", "v3"], ["v3", "v4"]],
                [["v3", "v1"], ["v4", "v1"], ["v1", "v0"], ["v0", "v2"]],
                [["v0", "v2"], ["v1", "v2"], ["v2", "v3"], ["v2", "v4"], ["v3", "v4"]]]
        for _ in range(40 if ctx.thorough else 9):
            order = [f"v{i}" for i in range(5)]
            rng.shuffle(order)
            pr = rng.choice([0.3, 0.5, 0.7])
            dags.append([[order[i], order[j]] for i in range(5) for j in range(i + 1, 5) if rng.random() < pr])
        f5 = os.path.join(ctx.work, "dags5.json")
        with open(f5, "w") as fh:
            json.dump(dags, fh)
        r5 = ctx.tlc("Gen_C12", cfg('{"v0","v1","v2","v3","v4"}', "pcfile"), env={"INST_FILE": f5}, tag="Gen_pc5", timeout=7200)
        pcs = pcs + r5.prints
        ctx.extra["sampled_5_node_ground_truths"] = len(r5.prints)
    for c in pcs:
        ctx.count(("pc", json.dumps(sorted(c["edges"]))), nontrivial=len(c["edges"]) >= 2, n=0)
    next_ext = sum(1 for c in pds if c["ext"])
    ctx.extra["extendable_pdags"] = next_ext
    for c in pds:
        ctx.count(("pdag", json.dumps([sorted(c["pdag"]["dir"]), sorted(map(sorted, c["pdag"]["und"]))])),
                  nontrivial=len(c["pdag"]["dir"]) + len(c["pdag"]["und"]) >= 2, n=0)
    ctx.sample({"kind": "pc", "edges": pcs[300]["edges"], "cpdag": pcs[300]["cpdag"], "class_size": len(pcs[300]["class"])})
    ctx.sample({"kind": "pdag", "pdag": pds[2000]["pdag"], "extensions": pds[2000]["ext"][:3]})
    hseeds = list(range(8)) if ctx.thorough else [0, 1, 2, 3]
    nw = 16 // len(hseeds)
    pl = []
    for hs in hseeds:
        for j, (a, b) in enumerate(zip(chunks(pcs, nw), chunks(pds, nw))):
            pl.append((hs, {"pc": a, "pdag": b, "seed": ctx.seed * 100 + hs * 8 + j}))
    skel_traces = []
    for res in run_workers(ctx, "c12", "replay_gen", pl):
        ctx.traces += res["n"]
        ctx.evaluations += res["calls"]
        skel_traces += res.get("skel_traces", [])
        for fl in res["fails"]:
            ctx.violation(fl)
    validate_skeleton(ctx, skel_traces)


def validate_skeleton(ctx, traces):
    """RECORD -> VALIDATE: the logged CI queries of build_skeleton against the skeleton machine (Trace_C12.tla)"""
    if not traces:
        return
    for i, t in enumerate(traces):
        t["tid"] = i + 1
    tf = os.path.join(ctx.work, "trace_c12.json")
    with open(tf, "w") as f:
        json.dump([{k: t[k] for k in ("tid", "nodes", "edges", "variant", "maxcond", "events")} for t in traces], f)
    r = ctx.tlc("Trace_C12", "INIT Init\nNEXT Next\nINVARIANT Report\n", env={"TRACE_FILE": tf}, tag="Trace_skel", coverage=True, timeout=7200)
    by = {t["tid"]: t for t in traces}
    seen = set()
    for p in r.prints:
        tid, v = p["tid"], p["v"]
        seen.add(tid)
        t = by[tid]
        if v["clause"] == "ACCEPT":
            ctx.traces += 1
            continue
        e = t["events"][v["l"] - 1]
        ctx.violation({"api": "PC.build_skeleton", "clause": v["clause"], "features": {"variant": t["variant"], "route": "callable"},
                       "case": {"kind": "skel", "expected": t["case"], "seed": t["seed"], "hashseed": t["hashseed"], "config": [t["variant"], "callable"]},
                       "observed": {"event_index": v["l"], "event": {k: e[k] for k in e if k not in ("skeleton", "seps")},
                                    "queries_before": [[q["x"], q["y"], q["z"], q["ans"]] for q in t["events"][max(0, v["l"] - 6):v["l"] - 1] if q["ev"] == "query"]},
                       "expected": "a behaviour of spec/MC_PCSkel.tla (see spec/Trace_C12.tla)"})
    if seen != set(by):
        raise Machinery(f"Trace_C12: verdicts missing for {len(set(by) - seen)} traces")
    ctx.extra["skeleton_traces"] = len(traces)
    ctx.extra["ci_queries_validated"] = sum(len(t["events"]) - 1 for t in traces)
    ctx.sample({"kind": "skeleton_trace", "edges": traces[len(traces) // 2]["edges"], "variant": traces[len(traces) // 2]["variant"],
                "events": traces[len(traces) // 2]["events"][:5]})


def replay(ctx, rec):
    c = rec["case"]
    if c["kind"] == "skel":
        res = run_workers(ctx, "c12", "replay_gen", [(c["hashseed"], {"pc": [c["expected"]], "pdag": [], "seed": c["seed"], "force": c.get("config")})])[0]
        n0 = len(ctx.violations)
        for fl in res["fails"]:
            ctx.violation(fl)
        validate_skeleton(ctx, res.get("skel_traces", []))
        return ctx.violations[n0:][:1] or None
    key = "pc" if c["kind"] == "pc" else "pdag"
    res = run_workers(ctx, "c12", "replay_gen", [(c["hashseed"], {"pc": [], "pdag": [], key: [c["expected"]], "seed": c["seed"],
                                                                 "force": c.get("config")})])[0]
    return res["fails"][:1] or None


def selftest(ctx):
    r = ctx.tlc("Gen_C12", cfg(N3, "pc", lemmas=False), tag="self")
    c = next(c for c in r.prints if len(c["edges"]) == 2 and c["cpdag"]["dir"])
    c["cpdag"] = {"dir": [], "und": [list(e) for e in c["skeleton"]]}      # wrong expectation: v-structure not oriented
    res = run_workers(ctx, "c12", "replay_gen", [(0, {"pc": [c], "pdag": [], "seed": 1})])[0]
    if not res["fails"]:
        raise Machinery("selftest: wrong CPDAG expectation accepted")
    # the skeleton trace spec must reject a trace with one CI query removed and one with a set outside the adjacency
    good = next(c for c in r.prints if len(c["edges"]) == 2)
    res = run_workers(ctx, "c12", "replay_gen", [(0, {"pc": [good], "pdag": [], "seed": 1})])[0]
    tr = [t for t in res["skel_traces"] if t["variant"] == "stable"][:1]
    t1, t2 = json.loads(json.dumps(tr[0])), json.loads(json.dumps(tr[0]))
    q1 = next(e for e in t1["events"] if e["ev"] == "query" and not e["ans"])
    t1["events"] = [e for e in t1["events"] if not (e["ev"] == "query" and {e["x"], e["y"]} == {q1["x"], q1["y"]} and e["z"] == q1["z"])]
    q2 = next(e for e in t2["events"] if e["ev"] == "query" and len(e["z"]) == 1)
    q2["z"] = [q2["x"]]
    validate_skeleton(ctx, [tr[0], t1, t2])
    cl = sorted(v["clause"] for v in ctx.violations)
    if len(ctx.violations) != 2:
        raise Machinery(f"selftest: corrupted skeleton traces: {cl}")
    ctx.violations.clear()


# =========================================================================== worker side
def replay_gen(payload):
    import networkx as nx
    import pandas as pd
    from pgmpy.base import PDAG
    from pgmpy.estimators import PC
    from pgmpy.independencies import Independencies
    from ..concretise import shuffled, var_names
    rng = random.Random(payload["seed"])
    hs = int(os.environ.get("PYTHONHASHSEED", "0"))
    fails, ncalls = [], 0
    skel_traces = []
    for case in payload["pc"]:
        nodes = case["nodes"]
        vn = var_names(nodes, rng, "str")
        inv = {c: t for t, c in vn.items()}
        indep = {(frozenset((t["x"], t["y"])), frozenset(t["z"])) for t in case["indep"]}
        queries = []

        def oracle(X, Y, Z, **kw):
            ans = (frozenset((inv[X], inv[Y])), frozenset(inv[z] for z in Z)) in indep
            queries.append({"ev": "query", "x": inv[X], "y": inv[Y], "z": sorted(inv[z] for z in Z), "ans": ans})
            return ans
        skel_exp = {frozenset(e) for e in case["skeleton"]}
        cp_dir = {tuple(e) for e in case["cpdag"]["dir"]}
        cp_und = {frozenset(e) for e in case["cpdag"]["und"]}
        cls = {frozenset(tuple(e) for e in m) for m in case["class"]}
        cols = shuffled([vn[v] for v in nodes], rng)
        data = pd.DataFrame([[0] * len(cols)], columns=cols)
        configs = [(variant, route) for variant in ("orig", "stable", "parallel") for route in ("callable", "match")]
        if payload.get("force"):
            configs = [tuple(payload["force"])]
        for variant, route in configs:
            feat = {"variant": variant, "route": route}

            def fail(api, clause, obs, exp=None):
                fails.append({"api": api, "clause": clause, "features": feat,
                              "case": {"kind": "pc", "expected": case, "seed": payload["seed"], "hashseed": hs, "config": [variant, route]},
                              "observed": obs, "expected": exp})
            if route == "callable":
                est = PC(data=data)
                kw = dict(ci_test=oracle)
            else:
                # independence_match is a literal membership test on pairwise assertions; PC derives its variables from them,
                # so this route is only used when every node occurs in some true statement
                if {v for t in case["indep"] for v in (t["x"], t["y"])} | {z for t in case["indep"] for z in t["z"]} != set(nodes):
                    continue
                ind = Independencies(*[[vn[t["x"]], vn[t["y"]], [vn[z] for z in t["z"]]] for t in shuffled(case["indep"], rng)])
                est = PC(independencies=ind)
                kw = dict(ci_test="independence_match")
            # the statement's bound: max_cond_vars >= maximal degree of the ground truth; asked AT the bound as well as far above it
            maxdeg = max([0] + [sum(1 for e in case["skeleton"] if v in e) for v in nodes])
            mcv = {"orig": len(nodes), "stable": maxdeg, "parallel": rng.choice([maxdeg, maxdeg + 1, len(nodes)])}[variant]
            feat["max_cond_vars_at_bound"] = mcv == maxdeg
            try:
                ncalls += 3
                del queries[:]
                skel, seps = est.build_skeleton(variant=variant, max_cond_vars=mcv, n_jobs=1, show_progress=False, **kw)
                if route == "callable":
                    skel_traces.append({"nodes": nodes, "edges": case["edges"], "variant": variant, "maxcond": mcv, "case": case,
                                        "seed": payload["seed"], "hashseed": hs,
                                        "events": list(queries) + [{"ev": "final", "skeleton": [[inv[u], inv[v]] for u, v in skel.edges()],
                                                                    "seps": [{"x": sorted(inv[x] for x in k)[0], "y": sorted(inv[x] for x in k)[-1],
                                                                              "s": sorted(inv[z] for z in S)} for k, S in seps.items()]}]})
                pdag = est.estimate(variant=variant, max_cond_vars=mcv, return_type="cpdag", n_jobs=1, show_progress=False, **kw)
                dag = est.estimate(variant=variant, max_cond_vars=mcv, return_type="dag", n_jobs=1, show_progress=False, **kw)
            except Exception as ex:  # noqa
                fail("PC.estimate", "raises", repr(ex)[:300])
                continue
            got_skel = {frozenset((inv[u], inv[v])) for u, v in skel.edges()}
            if got_skel != skel_exp:
                fail("PC.build_skeleton", "skeleton", sorted(map(sorted, got_skel)), case["skeleton"])
                continue
            nonadj = {frozenset(p) for p in ((a, b) for i, a in enumerate(nodes) for b in nodes[i + 1:])} - skel_exp
            got_keys = {frozenset(inv[x] for x in k) for k in seps}
            if got_keys != nonadj:
                fail("PC.build_skeleton", "sepset_keys", sorted(map(sorted, got_keys)), sorted(map(sorted, nonadj)))
                continue
            bad = [(sorted(inv[x] for x in k), sorted(inv[z] for z in S)) for k, S in seps.items()
                   if (frozenset(inv[x] for x in k), frozenset(inv[z] for z in S)) not in indep]
            if bad:
                fail("PC.build_skeleton", "sepset_not_separating", bad)
                continue
            ddir = {(inv[u], inv[v]) for u, v in pdag.directed_edges}
            dund = {frozenset((inv[u], inv[v])) for u, v in pdag.undirected_edges}
            # (with an Independencies object the estimator only knows variables through edges: isolated nodes are absent)
            if {inv[n] for n in pdag.nodes()} != set(nodes) and (route == "callable" or not {inv[n] for n in pdag.nodes()} <= set(nodes)):
                fail("PC.estimate(cpdag)", "nodes", sorted(inv[n] for n in pdag.nodes()))
            elif ddir != cp_dir or dund != cp_und:
                cyc = not nx.is_directed_acyclic_graph(nx.DiGraph(list(ddir)))
                extra = ddir - cp_dir
                fail("PC.estimate(cpdag)", "directed_cycle" if cyc else ("spurious_orientation" if extra else "missing_orientation"),
                     {"dir": sorted(ddir), "und": sorted(map(sorted, dund))}, case["cpdag"])
            dg = frozenset((inv[u], inv[v]) for u, v in dag.edges())
            if (route == "callable" and {inv[n] for n in dag.nodes()} != set(nodes)) or dg not in cls:
                fail("PC.estimate(dag)", "not_in_equivalence_class", sorted(dg), None)
    for case in payload["pdag"]:
        if not case["ext"]:
            continue          # the property speaks about extendable graphs only
        nodes = case["nodes"]
        vn = var_names(nodes, rng, rng.choice(["str", "str", "smallint", "tuple"]))     # (small ints include the falsy node name 0)
        inv = {c: t for t, c in vn.items()}
        d = [(vn[u], vn[v]) for u, v in shuffled(case["pdag"]["dir"], rng)]
        u_ = [tuple(shuffled([vn[a], vn[b]], rng)) for a, b in shuffled(case["pdag"]["und"], rng)]
        ncalls += 1
        feat = {"has_directed": bool(d), "has_undirected": bool(u_)}
        try:
            p = PDAG(directed_ebunch=d, undirected_ebunch=u_)
            p.add_nodes_from([vn[v] for v in nodes])
            g = p.to_dag()
            got = frozenset((inv[a], inv[b]) for a, b in g.edges())
        except Exception as ex:  # noqa
            fails.append({"api": "PDAG.to_dag", "clause": "raises", "features": feat,
                          "case": {"kind": "pdag", "expected": case, "seed": payload["seed"], "hashseed": hs}, "observed": repr(ex)[:200]})
            continue
        exts = {frozenset(tuple(e) for e in m) for m in case["ext"]}
        if got not in exts:
            import itertools
            sk = {frozenset(e) for e in got}
            want_sk = {frozenset(e) for e in case["pdag"]["dir"]} | {frozenset(e) for e in case["pdag"]["und"]}
            if not nx.is_directed_acyclic_graph(nx.DiGraph(list(got))):
                cl = "cyclic"
            elif sk != want_sk or len(got) != len(want_sk):
                cl = "skeleton_changed"
            elif not {tuple(e) for e in case["pdag"]["dir"]} <= set(got):
                cl = "directed_edge_lost"
            else:
                cl = "new_v_structure"
            fails.append({"api": "PDAG.to_dag", "clause": cl, "features": feat,
                          "case": {"kind": "pdag", "expected": case, "seed": payload["seed"], "hashseed": hs},
                          "observed": sorted(got), "expected": case["ext"][:3]})
    return {"n": len(payload["pc"]) + len(payload["pdag"]), "calls": ncalls, "fails": fails[:80], "skel_traces": skel_traces}
