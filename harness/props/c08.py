"""C08 d-separation: MC_Reach (design), Gen_C08 -> replay (exhaustive small DAGs), random DAGs -> Trace_C08."""
import json
import os
import random

from ..core import Machinery, chunks, run_workers

NODES4 = '{"v0","v1","v2","v3"}'
NODES5 = '{"v0","v1","v2","v3","v4"}'


def _cfg_reach(nodes):
    return f"CONSTANT Nodes = {nodes}\nINIT Init\nNEXT Next\nVIEW View\nINVARIANT Sound\nINVARIANT Complete\nPROPERTY Monotone\n"


def _cfg_gen(nodes, maxlat, indeps):
    return (f"CONSTANT Nodes = {nodes}\nCONSTANT MaxLatents = {maxlat}\nCONSTANT WithIndeps = {'TRUE' if indeps else 'FALSE'}\n"
            "INIT Init\nNEXT Next\nINVARIANT TypeOK\nINVARIANT Emit\n")


CFG_TRACE = "INIT Init\nNEXT Next\nINVARIANT Report\nINVARIANT WellFormed\n"


def run(ctx):
    ctx.rule = ("Gen: every DAG over the node bound x latent subsets (TLC-enumerated) x every API answer; a case = one "
                "(DAG, latents) pair, non-trivial iff it has >=1 edge. Trace: random DAGs on 6-7 nodes, one case per DAG.")
    ctx.assumptions += ["start node never inside the observed set (d-separation defined for disjoint sets)",
                        "is_dconnected is compared only for non-latent end nodes (the call has no include_latents option)"]
    # --- MC: the reachability algorithm equals the trail definition for every pop order
    r = ctx.tlc("MC_Reach", _cfg_reach(NODES4 if ctx.thorough else '{"v0","v1","v2"}'), coverage=True, tag="MC_Reach")
    ctx.require_actions(["Next"])
    # --- GEN -> REPLAY
    hseeds = list(range(8)) if ctx.thorough else [0, 1]
    r = ctx.tlc("Gen_C08", _cfg_gen(NODES4, 4, True), tag="Gen4")
    cases = r.prints
    if len(cases) != 543 * 16:
        raise Machinery(f"Gen_C08 produced {len(cases)} cases, expected 8688")
    if ctx.thorough:
        r5 = ctx.tlc("Gen_C08", _cfg_gen(NODES5, 0, False), tag="Gen5", timeout=7200)
        if len(r5.prints) != 29281:
            raise Machinery(f"Gen_C08(5) produced {len(r5.prints)} cases")
        cases = cases + r5.prints
    ctx.exhaustive = True
    ctx.sample({"kind": "gen", "case": {k: cases[37][k] for k in ("nodes", "edges", "latents")},
                "expected_active_first3": cases[37]["active"][:3]})
    nw = 16 // len(hseeds)
    payloads = []
    for hs in hseeds:
        for j, ch in enumerate(chunks(cases, nw)):
            payloads.append((hs, {"cases": ch, "seed": ctx.seed * 1000 + hs * 10 + j}))
    for res in run_workers(ctx, "c08", "replay_gen", payloads):
        ctx.traces += res["n"]
        ctx.evaluations += res["calls"]
        for f in res["fails"]:
            ctx.violation(f)
    for c in cases:
        ctx.count(("g", tuple(map(tuple, c["edges"])), tuple(c["latents"]), len(c["nodes"])), nontrivial=len(c["edges"]) > 0, n=0)
    # --- RECORD -> VALIDATE on larger random DAGs
    ntr = 2400 if ctx.thorough else 192
    payloads = [(hs, {"seed": ctx.seed * 7919 + hs, "n": ntr // len(hseeds), "tid0": i * 100000})
                for i, hs in enumerate(hseeds)]
    traces = []
    for res in run_workers(ctx, "c08", "record", payloads):
        traces += res["traces"]
    validate(ctx, traces)


def validate(ctx, traces):
    clean = []
    for t in traces:       # a recorded exception is a verdict by itself (the specified calls are total); the rest of the trace is still validated
        evs = []
        for e in t["events"]:
            if e.get("exc"):
                ctx.violation({"api": e["op"], "clause": e["op"] + ".raises", "features": {"cls": t.get("cls", ""), "n_nodes": len(t["nodes"])},
                               "case": {"kind": "trace", "trace": t, "event_index": 0, "hashseed": t.get("hashseed", 0)},
                               "observed": e["exc"], "expected": "an answer (see spec/DSep.tla)"})
            else:
                evs.append({k: v for k, v in e.items() if k != "exc"})
        clean.append(dict(t, events=evs))
    traces = clean
    tf = os.path.join(ctx.work, "trace_c08.json")
    with open(tf, "w") as f:
        json.dump(traces, f)
    r = ctx.tlc("Trace_C08", CFG_TRACE, env={"TRACE_FILE": tf}, tag="Trace", coverage=True)
    by = {t["tid"]: t for t in traces}
    seen = set()
    for v in r.prints:
        if v["tid"] in seen:
            continue
        seen.add(v["tid"])
        t = by[v["tid"]]
        ctx.count(("t", v["tid"]), nontrivial=len(t["edges"]) > 0, n=len(t["events"]))
        if v["fails"]:
            e = t["events"][v["l"] - 1]
            for cl in v["fails"]:
                ctx.violation({"api": e["op"], "clause": cl, "features": {"cls": t.get("cls", ""), "n_nodes": len(t["nodes"])},
                               "case": {"kind": "trace", "trace": t, "event_index": v["l"]},
                               "observed": e, "expected": "see spec/DSep.tla"})
        else:
            ctx.traces += 1
    if seen != set(by):
        raise Machinery(f"Trace_C08: verdicts missing for {len(set(by) - seen)} traces")
    if traces:
        ctx.sample({"kind": "trace", "nodes": traces[0]["nodes"], "edges": traces[0]["edges"], "events": traces[0]["events"][:3]})


def replay(ctx, rec):
    case = rec["case"]
    if case["kind"] == "gen":
        res = run_workers(ctx, "c08", "replay_gen", [(case["hashseed"], {"cases": [case["expected"]], "seed": case["seed"], "only": 0})])[0]
        return res["fails"][:1] or None
    res = run_workers(ctx, "c08", "record", [(case.get("hashseed", 0), {"rerun": case["trace"]})])[0]
    n0 = len(ctx.violations)
    validate(ctx, res["traces"])
    return ctx.violations[n0:][:1] or None


def selftest(ctx):
    """anti-vacuity: a corrupted trace must be rejected"""
    res = run_workers(ctx, "c08", "record", [(0, {"seed": 5, "n": 4, "tid0": 0})])[0]
    tr = res["traces"]
    ev = next(e for e in tr[0]["events"] if e["op"] == "active_trail" and e["ret"])
    ev["ret"] = ev["ret"][:-1]
    validate(ctx, tr)
    if not any(v["clause"] == "active_trail.set" for v in ctx.violations):
        raise Machinery("selftest: corrupted active_trail event was accepted")
    ctx.violations.clear()


# =========================================================================== worker side
def _build(case, rng, cls="DAG"):
    from pgmpy.base import DAG
    from pgmpy.models import BayesianNetwork
    from ..concretise import var_names, shuffled
    nm = var_names(case["nodes"], rng, rng.choice(["str", "str", "int", "tuple"]))
    if cls == "NB":          # star-shaped case: NaiveBayes overrides the d-separation helpers
        from pgmpy.models import NaiveBayes
        dep = case["edges"][0][0]
        feats = shuffled([v for _, v in case["edges"]], rng)
        if rng.random() < 0.5:
            g = NaiveBayes(feature_vars=[nm[f] for f in feats], dependent_var=nm[dep])
        else:
            g = NaiveBayes()
            if rng.random() < 0.5:
                g.add_edges_from([(nm[dep], nm[f]) for f in feats])
            else:
                for f in feats:
                    g.add_edge(nm[dep], nm[f])
        return g, nm, {v: k for k, v in nm.items()}
    C = DAG if cls == "DAG" else BayesianNetwork
    g = C()
    for n in shuffled(case["nodes"], rng):
        g.add_node(nm[n], latent=n in case["latents"])
    for u, v in shuffled(case["edges"], rng):
        g.add_edge(nm[u], nm[v])
    return g, nm, {v: k for k, v in nm.items()}


def _obs_form(z, nm, rng):
    zs = [nm[t] for t in z]
    rng.shuffle(zs)
    k = rng.randrange(4)
    if not zs:
        return rng.choice([None, [], (), set()])
    if len(zs) == 1 and k == 0 and not isinstance(zs[0], tuple):      # (a bare tuple-valued name is ambiguous with a collection)
        return zs[0]
    return [list, tuple, set, list][k](zs)


def _trip(a, inv):
    return {"x": sorted(inv[v] for v in a.event1)[0], "ys": sorted(inv[v] for v in a.event2), "zs": sorted(inv[v] for v in a.event3)}


def _tkey(t):
    return (t["x"], tuple(sorted(t["ys"])), tuple(sorted(t["zs"])))


def replay_gen(payload):
    rng = random.Random(payload["seed"])
    hs = int(os.environ.get("PYTHONHASHSEED", "0"))
    fails, ncalls = [], 0

    def fail(api, clause, case, obs, exp, **feat):
        fails.append({"api": api, "clause": clause, "features": feat,
                      "case": {"kind": "gen", "expected": case, "seed": payload["seed"], "hashseed": hs},
                      "observed": obs, "expected": exp})

    for ci, case in enumerate(payload["cases"]):
        # (one generator per case, derived from the case itself: a replay of a single case makes the same choices)
        rng = random.Random(f"{payload['seed']}|{case['edges']}|{case['latents']}|{len(case['nodes'])}")
        g, nm, inv = _build(case, rng, rng.choice(["DAG", "BN"]))
        lat = set(case["latents"])
        n0 = len(fails)
        for a in case["active"]:
            for incl in (False, True):
                exp = set(a["act"]) if incl else set(a["act"]) - lat
                got = g.active_trail_nodes(nm[a["x"]], observed=_obs_form(a["z"], nm, rng), include_latents=incl)
                ncalls += 1
                gs = {inv[v] for v in got[nm[a["x"]]]}
                if set(got) != {nm[a["x"]]} or gs != exp:
                    fail("active_trail", "active_trail.set", case, {"x": a["x"], "z": a["z"], "incl": incl, "ret": sorted(gs)}, sorted(exp))
            for y in case["nodes"]:
                if y in lat or y in a["z"] or y == a["x"]:
                    continue
                got = g.is_dconnected(nm[a["x"]], nm[y], observed=_obs_form(a["z"], nm, rng))
                ncalls += 1
                if bool(got) != (y in a["act"]):
                    fail("is_dconnected", "is_dconnected.value", case, {"x": a["x"], "y": y, "z": a["z"], "ret": bool(got)}, y in a["act"])
        # list of starts in one call
        xs = [x for x in case["nodes"]]
        got = g.active_trail_nodes([nm[x] for x in xs], include_latents=True)
        for a in case["active"]:
            if not a["z"] and {inv[v] for v in got[nm[a["x"]]]} != set(a["act"]):
                fail("active_trail", "active_trail.set", case, {"x": a["x"], "z": [], "multi": True}, a["act"])
        mg = g.moralize()
        ncalls += 1
        if {frozenset(inv[v] for v in e) for e in mg.edges()} != {frozenset(e) for e in case["moral"]} or \
                {inv[v] for v in mg.nodes()} != set(case["nodes"]):
            fail("moralize", "moralize.edges", case, sorted(sorted(inv[v] for v in e) for e in mg.edges()), case["moral"])
        for n in case["nodes"]:
            mb = g.get_markov_blanket(nm[n])
            ncalls += 1
            if {inv[v] for v in mb} != set(case["blanket"][n]) or len(mb) != len(set(mb)):
                fail("markov_blanket", "markov_blanket.set", case, {"x": n, "ret": sorted(inv[v] for v in mb)}, case["blanket"][n])
            li = g.local_independencies([nm[n]] if isinstance(nm[n], tuple) or rng.random() < 0.3 else nm[n])
            ncalls += 1
            if {_tkey(_trip(a, inv)) for a in li.get_assertions()} != {_tkey(t) for t in case["local"][n]}:
                fail("local_independencies", "local_independencies.set", case, {"x": n, "ret": [_trip(a, inv) for a in li.get_assertions()]}, case["local"][n])
        if case["indeps"]["incl"] or case["indeps"]["excl"] or len(case["nodes"]) <= 4:
            for incl, key in ((True, "incl"), (False, "excl")):
                if len(case["nodes"]) > 4:
                    break
                gi = g.get_independencies(include_latents=incl)
                ncalls += 1
                if {_tkey(_trip(a, inv)) for a in gi.get_assertions()} != {_tkey(t) for t in case["indeps"][key]}:
                    fail("get_independencies", "get_independencies.set", case, {"incl": incl, "ret": [_trip(a, inv) for a in gi.get_assertions()]}, case["indeps"][key], has_latents=bool(lat))
        for ms in case["minsep"]:
            x, y = ms["x"], ms["y"]
            try:
                got = g.minimal_dseparator(nm[x], nm[y])
                err = None
            except Exception as ex:  # noqa
                got, err = None, repr(ex)
            ncalls += 1
            if err is not None:
                fail("minimal_dseparator", "minsep.raises", case, {"x": x, "y": y, "exc": err}, ms["ok"], has_latents=bool(lat))
            elif got is None:
                if not ms["none"]:
                    fail("minimal_dseparator", "minsep.none_without_latents", case, {"x": x, "y": y}, ms["ok"])
            elif sorted(inv[v] for v in got) not in [sorted(s) for s in ms["ok"]]:
                fail("minimal_dseparator", "minsep.not_minimal_separator", case, {"x": x, "y": y, "ret": sorted(inv[v] for v in got)}, ms["ok"], has_latents=bool(lat))
        for an in case["ancestral"]:
            ag = g.get_ancestral_graph([nm[s] for s in an["s"]])
            ncalls += 1
            if {(inv[u], inv[v]) for u, v in ag.edges()} != {tuple(e) for e in an["edges"]} or {inv[v] for v in ag.nodes()} != set(an["nodes"]):
                fail("ancestral", "ancestral.graph", case, {"s": an["s"], "edges": sorted((inv[u], inv[v]) for u, v in ag.edges())}, an)
        # purity (C16 contribution): the graph is unchanged by all those queries
        if {(inv[u], inv[v]) for u, v in g.edges()} != {tuple(e) for e in case["edges"]} or {inv[v] for v in g.latents} != lat:
            fail("frame", "graph_changed_by_query", case, None, None)
    return {"n": len(payload["cases"]), "calls": ncalls, "fails": fails[:50]}


def _rand_dag(rng, n):
    nodes = [f"v{i}" for i in range(n)]
    order = nodes[:]
    rng.shuffle(order)
    p = rng.choice([0.2, 0.35, 0.5])
    edges = [[order[i], order[j]] for i in range(n) for j in range(i + 1, n) if rng.random() < p]
    lat = [v for v in nodes if rng.random() < 0.15]
    return {"nodes": nodes, "edges": edges, "latents": lat}


EDIT_OPS = ("add_edge", "remove_edge", "remove_node", "add_node", "do")


def _reach(edges, a):
    seen, todo = {a}, [a]
    while todo:
        u = todo.pop()
        for p, c in edges:
            if p == u and c not in seen:
                seen.add(c)
                todo.append(c)
    return seen


def _plan_edits(case, queries, rng, cls):
    """edit the SAME object between queries and ask again (the old questions first: an answer remembered from before the edit is wrong
    now).  The shadow graph below only steers the planning; what each edit must do is decided by Trace_C08 (EditPre / EditEff)."""
    all_nodes = list(case["nodes"])
    nodes, edges, lat = set(all_nodes), {tuple(e) for e in case["edges"]}, set(case["latents"])
    out = []
    for _ in range(rng.choice([1, 2, 2, 3])):
        kinds = ["add_edge", "add_edge", "add_node"]
        if edges:
            kinds += ["remove_edge"] * 3 + ["do"] * 2
        if len(nodes) > 2:
            kinds += ["remove_node"]
        op = rng.choice(kinds)
        if lat & nodes and len(nodes) > 2 and rng.random() < 0.35:
            # a latent node is removed and a node of the same name is added again as an ordinary one
            x = rng.choice(sorted(lat & nodes))
            out.append({"op": "remove_node", "x": x})
            out.append({"op": "graph"})
            nodes.discard(x)
            lat.discard(x)
            edges = {e for e in edges if x not in e}
            op = "add_node_again"
        if op == "add_node_again":
            out.append({"op": "add_node", "x": x, "incl": False})
            nodes.add(x)
        elif op == "remove_edge":
            x, y = rng.choice(sorted(edges))
            out.append({"op": op, "x": x, "y": y})
            edges.discard((x, y))
        elif op == "add_edge":
            x, y = rng.sample(all_nodes, 2)
            closes = x in nodes and y in nodes and x in _reach(edges, y)
            if closes and cls == "DAG":
                x, y = y, x          # (the base class checks acyclicity in its constructor only: its add_edge is not asked to refuse)
                closes = x in _reach(edges, y)
                if closes:
                    continue
            out.append({"op": op, "x": x, "y": y})
            if not closes:
                nodes |= {x, y}
                edges.add((x, y))
        elif op == "remove_node":
            x = rng.choice(sorted(nodes))
            out.append({"op": op, "x": x})
            nodes.discard(x)
            lat.discard(x)
            edges = {e for e in edges if x not in e}
        elif op == "add_node":
            x = rng.choice(all_nodes)
            fl = rng.random() < 0.3
            out.append({"op": op, "x": x, "incl": fl})
            nodes.add(x)
            if fl:
                lat.add(x)
        else:
            z = rng.sample(sorted(nodes), rng.choice([1, 1, 2]) if len(nodes) > 1 else 1)
            out.append({"op": op, "z": z})
            edges = {e for e in edges if e[1] not in z}
        out.append({"op": "graph"})
        # ---- ask again
        again = []
        for q in queries:
            if q["op"] == "active_trail" and q["x"] in nodes:
                again.append(dict(q, z=[v for v in q["z"] if v in nodes]))
            elif q["op"] == "is_dconnected" and q["x"] in nodes and q["y"] in nodes and q["y"] not in lat:
                again.append(dict(q, z=[v for v in q["z"] if v in nodes]))
            elif q["op"] == "ancestral":
                zz = [v for v in q["z"] if v in nodes]
                if zz:
                    again.append(dict(q, z=zz))
        rng.shuffle(again)
        out += again[:10]
        ns = sorted(nodes)
        out.append({"op": "markov_blanket", "x": rng.choice(ns)})
        out.append({"op": "local_independencies", "x": rng.choice(ns)})
        out.append({"op": "moralize"})
        for _k in range(2):
            if len(ns) >= 2:
                x, y = rng.sample(ns, 2)
                if (x, y) not in edges and (y, x) not in edges:
                    out.append({"op": "minimal_dseparator", "x": x, "y": y})
        if len(ns) <= 5:
            out.append({"op": "get_independencies", "incl": rng.random() < 0.5})
    return out


def _edit_event(g, nm, inv, e):
    op = e["op"]
    try:
        if op == "graph":
            e["ret"] = sorted([inv[u], inv[v]] for u, v in g.edges())
            e["retnodes"] = sorted(inv[v] for v in g.nodes())
            e["z"] = sorted(inv[v] for v in g.latents if v in g.nodes())
            e["roots"] = sorted(inv[v] for v in g.get_roots())
            e["leaves"] = sorted(inv[v] for v in g.get_leaves())
        elif op == "add_edge":
            try:
                g.add_edge(nm[e["x"]], nm[e["y"]])
            except ValueError:
                e["ok"] = False
        elif op == "remove_edge":
            g.remove_edge(nm[e["x"]], nm[e["y"]])
        elif op == "remove_node":
            g.remove_node(nm[e["x"]])
        elif op == "add_node":
            g.add_node(nm[e["x"]], latent=e["incl"])
        elif op == "do":
            g.do([nm[v] for v in e["z"]], inplace=True)
    except Exception as ex:  # noqa
        e["exc"] = repr(ex)[:300]
    return e


def _nb_event(g, nm, inv, e, rng):
    """one query on a NaiveBayes object (its own active_trail_nodes returns a set; the rest is inherited); exceptions are recorded"""
    op = e["op"]
    try:
        if op == "active_trail":
            obs = _obs_form(e["z"], nm, rng)
            if isinstance(obs, tuple) or (obs is not None and not isinstance(obs, (list, set)) and isinstance(nm[e["x"]], tuple)):
                obs = [nm[t] for t in e["z"]]        # a tuple is ambiguous with a tuple-valued node name
            r = g.active_trail_nodes(nm[e["x"]], observed=obs) if obs is not None or rng.random() < 0.5 else g.active_trail_nodes(nm[e["x"]])
            if not isinstance(r, set):
                raise TypeError(f"NaiveBayes.active_trail_nodes returned {type(r).__name__}")
            e["ret"] = sorted(inv[v] for v in r)
        elif op == "is_dconnected":
            e["ret"] = bool(g.is_dconnected(nm[e["x"]], nm[e["y"]], observed=[nm[t] for t in e["z"]]))
        elif op == "minimal_dseparator":
            r = g.minimal_dseparator(nm[e["x"]], nm[e["y"]])
            e["none"] = r is None
            e["ret"] = [] if r is None else sorted(inv[v] for v in r)
        elif op == "markov_blanket":
            e["ret"] = sorted(inv[v] for v in g.get_markov_blanket(nm[e["x"]]))
        elif op == "local_independencies" and e["z"]:
            e["ret"] = [_trip(a, inv) for a in g.local_independencies([nm[v] for v in e["z"]]).get_assertions()]
        elif op == "local_independencies":
            x = nm[e["x"]]
            e["ret"] = [_trip(a, inv) for a in g.local_independencies([x] if rng.random() < 0.5 or isinstance(x, tuple) else x).get_assertions()]
        elif op == "moralize":
            mg = g.moralize()
            e["ret"] = [sorted(inv[v] for v in ed) for ed in mg.edges()]
            e["retnodes"] = sorted(inv[v] for v in mg.nodes())
        elif op == "ancestral":
            ag = g.get_ancestral_graph([nm[s] for s in e["z"]])
            e["ret"] = [[inv[u], inv[v]] for u, v in ag.edges()]
            e["retnodes"] = sorted(inv[v] for v in ag.nodes())
        elif op == "get_independencies":
            e["ret"] = [_trip(a, inv) for a in g.get_independencies(include_latents=e["incl"]).get_assertions()]
    except Exception as ex:  # noqa
        e["exc"] = repr(ex)[:300]
    return e


def record(payload):
    hs = int(os.environ.get("PYTHONHASHSEED", "0"))
    if "rerun" in payload:
        t = payload["rerun"]
        specs = [({"nodes": t["nodes"], "edges": t["edges"], "latents": t["latents"], "cls": t.get("cls", "")}, t["tid"], t["seed"], [
            {k: e[k] for k in e if k not in ("ret", "retnodes", "none", "exc", "ok", "roots", "leaves") and not (e["op"] == "graph" and k == "z")} for e in t["events"]])]
    else:
        rng0 = random.Random(payload["seed"])
        specs = []
        for i in range(payload["n"]):
            if i % 6 == 5:       # NaiveBayes: a star over 2..7 nodes
                k = rng0.randint(2, 7)
                nodes = [f"v{j}" for j in range(k)]
                dep = rng0.choice(nodes)
                case = {"nodes": nodes, "edges": [[dep, v] for v in nodes if v != dep], "latents": [], "cls": "NB"}
            else:
                case = _rand_dag(rng0, rng0.choice([5, 6, 6, 7]))
            specs.append((case, payload["tid0"] + i, rng0.randrange(10 ** 9), None))
    out = []
    for case, tid, seed, evs in specs:
        rng = random.Random(seed)
        nb = case.get("cls") == "NB"
        cls = "NB" if nb else (case.get("cls") or rng.choice(["DAG", "BN"]))
        g, nm, inv = _build(case, rng, cls)
        nodes, lat = case["nodes"], set(case["latents"])
        if evs is None:
            evs = []
            for _ in range(10):
                x = rng.choice(nodes)
                z = [v for v in nodes if v != x and rng.random() < 0.35]
                evs.append({"op": "active_trail", "x": x, "z": z, "incl": (not nb) and rng.random() < 0.5})
                ys = [y for y in nodes if y != x and y not in z and y not in lat]
                if ys:
                    evs.append({"op": "is_dconnected", "x": x, "y": rng.choice(ys), "z": z})
            for _ in range(4):
                if len(nodes) < 2:
                    break
                x, y = rng.sample(nodes, 2)
                if [x, y] not in case["edges"] and [y, x] not in case["edges"]:
                    evs.append({"op": "minimal_dseparator", "x": x, "y": y})
            x = rng.choice(nodes)
            evs.append({"op": "markov_blanket", "x": x})
            evs.append({"op": "local_independencies", "x": rng.choice(nodes)})
            if len(nodes) >= 2:
                evs.append({"op": "local_independencies", "z": rng.sample(nodes, rng.randint(2, min(4, len(nodes))))})
            evs.append({"op": "moralize"})
            evs.append({"op": "ancestral", "z": rng.sample(nodes, rng.randint(1, min(3, len(nodes))))})
            if len(nodes) <= 5:
                evs.append({"op": "get_independencies", "incl": rng.random() < 0.5})
            if not nb:
                evs += _plan_edits(case, evs, rng, cls)
        events = []
        for e in evs:
            e = dict({"x": "", "y": "", "z": [], "incl": False, "none": False, "ret": [], "retnodes": [], "ok": True, "roots": [], "leaves": []}, **e)
            op = e["op"]
            if op in EDIT_OPS or op == "graph":
                events.append(_edit_event(g, nm, inv, e))
                continue
            if nb:
                e = _nb_event(g, nm, inv, e, rng)
                events.append(e)
                continue
            if op == "active_trail":
                r = g.active_trail_nodes(nm[e["x"]], observed=_obs_form(e["z"], nm, rng), include_latents=e["incl"])
                e["ret"] = sorted(inv[v] for v in r[nm[e["x"]]])
            elif op == "is_dconnected":
                e["ret"] = bool(g.is_dconnected(nm[e["x"]], nm[e["y"]], observed=_obs_form(e["z"], nm, rng)))
            elif op == "minimal_dseparator":
                r = g.minimal_dseparator(nm[e["x"]], nm[e["y"]])
                e["none"] = r is None
                e["ret"] = [] if r is None else sorted(inv[v] for v in r)
            elif op == "markov_blanket":
                e["ret"] = sorted(inv[v] for v in g.get_markov_blanket(nm[e["x"]]))
            elif op == "local_independencies" and e["z"]:
                lst = [nm[v] for v in e["z"]]
                e["ret"] = [_trip(a, inv) for a in g.local_independencies(lst if rng.random() < 0.7 else tuple(lst)).get_assertions()]
            elif op == "local_independencies":
                x_ = nm[e["x"]]
                e["ret"] = [_trip(a, inv) for a in g.local_independencies([x_] if isinstance(x_, tuple) or rng.random() < 0.3 else x_).get_assertions()]
            elif op == "moralize":
                mg = g.moralize()
                e["ret"] = [sorted(inv[v] for v in ed) for ed in mg.edges()]
                e["retnodes"] = sorted(inv[v] for v in mg.nodes())
            elif op == "ancestral":
                ag = g.get_ancestral_graph([nm[s] for s in e["z"]])
                e["ret"] = [[inv[u], inv[v]] for u, v in ag.edges()]
                e["retnodes"] = sorted(inv[v] for v in ag.nodes())
            elif op == "get_independencies":
                e["ret"] = [_trip(a, inv) for a in g.get_independencies(include_latents=e["incl"]).get_assertions()]
            events.append(e)
        out.append({"tid": tid, "seed": seed, "hashseed": hs, "nodes": nodes, "edges": case["edges"], "latents": case["latents"],
                    "cls": cls, "events": events})
    return {"traces": out}
