"""C09 file round trips (BIF / XMLBIF / UAI / NET, save / load).

Gen_C09 (IOLib): TLC enumerates, for every model instance, every declared evidence order of its permutable families and every
format; checks the design lemmas (re-declaring parents keeps the meaning, every prescribed document is readable,
Read(Write(m')) ~ Canon(m)); emits each (instance, order) with the re-laid-out model m'.
Workers build m' in pgmpy under several concretisations (identifier names incl. format keywords, insertion orders, hash seeds),
WRITE it (writer classes, str(writer), model.save), tokenise the text with a small independent lexer per format into the
abstract document, READ it back (reader classes incl. n_jobs, string input, BayesianNetwork.load) and project the read model by
name lookup.  Trace_C09 gives a total verdict per round trip: write.* (doc = Write(fmt, m')), read.* (read model = Read(fmt, doc)),
roundtrip.* (read model ~ Canon(fmt, m)).  Values are opaque tokens (index of the bit-identical float in the instance's value
table), so BIF/XMLBIF/UAI are checked bit-exactly; NET cells are 1e-4 units whose expected value TLC derives from the exact decimal
digits of the instance value."""
import itertools
import json
import os
import random
import re
import time

from ..core import Machinery, chunks, run_workers

SCALE = 10 ** 17          # instance values are decimals with 17 digits after the point (floats that need 17 significant digits)
ALIENU = 999999999
EXT = {"BIF": "bif", "XMLBIF": "xmlbif", "UAI": "uai", "NET": "net"}
KW_CLASSES = ["kw_bif", "kw_other", "kw_net", "kw_states"]


# =========================================================================== instances (main process, stdlib only)
def _entry(k):
    """k: units of 1e-17, or (units, extra digit string) for values that need MORE digits than 17 after the point (tiny numbers
    with a full 16-17 digit mantissa); the extra digits are carried in "xd" (the specification's NET rounding looks at dg only)"""
    if isinstance(k, tuple):
        e = _entry(k[0])
        e["xd"] = [int(c) for c in k[1]]
        return e
    return {"ip": k // SCALE, "dg": [int(c) for c in "%017d" % (k % SCALE)], "xd": []}


def _tie_free(k):
    return abs(k % 10 ** 13 - 5 * 10 ** 12) > 10 ** 8       # not within 1e-9 of a 5th-decimal tie


class _Vals:
    def __init__(self):
        self.idx, self.lst = {}, []

    def tok(self, k):
        if k not in self.idx:
            self.lst.append(k)
            self.idx[k] = len(self.lst)
        return self.idx[k]


TINY = [100 * x for x in (10 ** 3, 5 * 10 ** 6, 25 * 10 ** 7, 10 ** 9, 10 ** 10, 3 * 10 ** 4, 12 * 10 ** 2, 7 * 10 ** 11, 10 ** 11, 4 * 10 ** 8)]
# 1e-12, 5e-09, 2.5e-07, 1e-06, 1e-05, 3e-11, 1.2e-12, 0.0007, 0.0001, 4e-07


def _column(rng, c, style, used):
    """c non-negative integers (units of 1e-17) summing to 1e17"""
    if c == 1:
        return [SCALE]
    for attempt in range(400):
        if style == "det":
            col = [0] * c
            col[rng.randrange(c)] = SCALE
            return col
        if style == "tiny_irr":
            # tiny entries with a long mantissa, e.g. 3.1415926535897e-12 (exact decimal strings of up to 30 digits)
            sm = [(x * rng.choice([1, 2, 3]), "".join(str(rng.randrange(10)) for _ in range(12)) + str(rng.randrange(1, 10)))
                  for x in rng.sample(TINY, c - 1)]
            col = sm + [SCALE - sum(x[0] for x in sm) - len(sm)]
            rng.shuffle(col)
            return col
        if style == "tiny":
            sm = [x * rng.choice([1, 1, 2, 3]) for x in rng.sample(TINY, c - 1)]
            if rng.random() < 0.3:
                sm[0] = 0
            col = sm + [SCALE - sum(sm)]
            rng.shuffle(col)
        else:
            digits = 17 if (style == "full" or rng.random() < 0.5) else rng.choice([2, 3, 4, 6])
            cuts = sorted(rng.sample(range(1, 10 ** digits), c - 1))
            col = [(b - a) * 10 ** (17 - digits) for a, b in zip([0] + cuts, cuts + [10 ** digits])]
        if not all(_tie_free(k) for k in col):
            continue
        if attempt < 300 and (len(set(col)) < c or (set(col) & used)):
            continue
        return col
    raise Machinery("instance generator: no column")


def bn_instance(rng, stress, cards, parents, permute, style="generic"):
    """cards: list; parents: {child index: [parent indices]} (parents have lower index); style per instance or {node: style}"""
    n = len(cards)
    toks = ["v%d" % i for i in range(n)]
    order = toks[:]
    rng.shuffle(order)                                   # NAME order of the variables
    states = {toks[i]: ["s%d" % j for j in range(cards[i])] for i in range(n)}
    vals, used, fams = _Vals(), set(), {}
    for i in range(n):
        ps = list(parents.get(i, []))
        rng.shuffle(ps)                                   # declared evidence order
        st = style.get(i, "generic") if isinstance(style, dict) else style
        ncol = 1
        for p in ps:
            ncol *= cards[p]
        cols = []
        for _ in range(ncol):
            col = _column(rng, cards[i], st, used)
            used |= set(col)
            cols.append(col)
        flat = [vals.tok(cols[j][r]) for r in range(cards[i]) for j in range(ncol)]     # row-major over (child, parents...)
        fams[toks[i]] = {"scope": [toks[i]] + [toks[p] for p in ps], "cells": flat}
    return {"kind": "BN", "stress": stress, "nodes": order, "states": states, "fams": [fams[v] for v in order],
            "permute": [toks[i] for i in permute], "vals": [_entry(k) for k in vals.lst]}


def mn_instance(rng, stress, cards, scopes, style="generic"):
    n = len(cards)
    toks = ["v%d" % i for i in range(n)]
    order = toks[:]
    rng.shuffle(order)
    states = {toks[i]: ["s%d" % j for j in range(cards[i])] for i in range(n)}
    vals, fams = _Vals(), []
    for sc in scopes:
        size = 1
        for x in sc:
            size *= cards[x]
        cells = []
        for _ in range(size):
            while True:
                if style == "tiny" and rng.random() < 0.6:
                    k = rng.choice(TINY) * rng.choice([1, 2, 3, 7])
                elif rng.random() < 0.15:
                    k = rng.choice([0, 1, 2, 10, 25]) * SCALE                       # exact 0, 1.0, 2.0, 10.0, 25.0
                else:
                    k = rng.randrange(1, 30 * 10 ** 6) * 10 ** 11                   # potentials < 30 with six decimals
                if _tie_free(k):
                    break
            cells.append(vals.tok(k))
        fams.append({"scope": [toks[x] for x in sc], "cells": cells})
    return {"kind": "MN", "stress": stress, "nodes": order, "states": states, "fams": fams, "permute": [],
            "vals": [_entry(k) for k in vals.lst]}


def instances(rng, thorough):
    out = [
        bn_instance(rng, "generic", [2, 3, 4, 2], {2: [0, 1], 3: [0, 1, 2]}, [2, 3]),
        bn_instance(rng, "equal_cards", [2, 2, 2], {2: [0, 1]}, [2], "full"),
        bn_instance(rng, "card1", [1, 3, 2], {2: [0, 1]}, [2]),
        bn_instance(rng, "isolated", [2, 2, 3], {1: [0]}, []),
        bn_instance(rng, "tiny", [3, 2, 2], {1: [0], 2: [0, 1]}, [2], "tiny"),
        bn_instance(rng, "tiny", [2, 3], {1: [0]}, [], "tiny_irr"),
        bn_instance(rng, "card1", [1, 1, 3, 2], {2: [0, 1], 3: [0]}, [2]),          # children ALL of whose parents have one state
        bn_instance(rng, "deterministic", [2, 3, 2], {1: [0], 2: [0, 1]}, [2], {0: "generic", 1: "det", 2: "det"}),
        bn_instance(rng, "single", [3], {}, []),
        bn_instance(rng, "card10", [2, 10, 3], {2: [0, 1]}, [2]),
        bn_instance(rng, "big", [7, 8, 6, 3], {3: [0, 1, 2]}, [3], "full"),
        mn_instance(rng, "mn", [2, 3, 4], [[0, 1], [1, 2], [2, 0, 1], [1]]),
        mn_instance(rng, "mn_tiny", [2, 3], [[1, 0], [1]], "tiny"),
        mn_instance(rng, "mn_isolated", [2, 3, 2], [[0, 1], [2]]),
    ]
    if thorough:
        out += [
            bn_instance(rng, "generic", [3, 1, 2, 4], {2: [0, 1], 3: [0, 1, 2]}, [2, 3]),
            bn_instance(rng, "parents4", [2, 3, 2, 3, 2], {4: [0, 1, 2, 3]}, [4], "full"),
            bn_instance(rng, "tiny", [2, 3, 4], {1: [0], 2: [0, 1]}, [2], "tiny"),
            bn_instance(rng, "card10", [12, 2, 3, 10], {3: [0, 1]}, [3]),
            mn_instance(rng, "mn", [3, 2, 2, 4], [[3, 0], [0, 1, 2], [2, 3], [1], [1, 3]]),
            mn_instance(rng, "mn", [10, 2, 3], [[0, 1], [2, 0]]),
            bn_instance(rng, "parents5", [2, 2, 2, 2, 2, 3], {5: [0, 1, 2, 3, 4]}, [5], "full"),
        ]
        for k in range(3):                                # random Markov networks
            n = rng.randint(3, 5)
            cards = [rng.choice([2, 2, 3, 4]) for _ in range(n)]
            scopes = [[i, (i + 1) % n] for i in range(n)] + [rng.sample(range(n), 3)] + [[rng.randrange(n)]]
            for sc in scopes:
                rng.shuffle(sc)
            out.append(mn_instance(rng, "mn", cards, scopes, rng.choice(["generic", "tiny"])))
        for k in range(12):                               # random DAGs: 3-6 nodes, cards 1-5, 0-3 parents
            n = rng.randint(3, 6)
            cards = [rng.choice([1, 2, 2, 3, 3, 4, 5]) for _ in range(n)]
            parents = {i: rng.sample(range(i), min(i, rng.choice([0, 1, 2, 2, 3]))) for i in range(1, n)}
            multi = [i for i in parents if len(parents[i]) >= 2]
            out.append(bn_instance(rng, "random", cards, parents, multi[-2:], rng.choice(["generic", "generic", "tiny"])))
    for i, inst in enumerate(out):
        inst["id"] = i + 1
    return out


# =========================================================================== planning
def routes(fmt, kind, k, ci, thorough, big, nj2):
    """k = index of the concretisation within its case.  One BIFReader costs ~2.5 s (pyparsing Word over the unicode
    alphanumerics is rebuilt three times per reader), so the BIF routes are thinned."""
    strings = thorough and not big and k % 4 == 0
    if kind == "MN":
        return ["class"] + (["string"] if strings else [])
    if fmt != "BIF":
        return ["class"] + (["saveload"] if fmt != "NET" else []) + (["string"] if strings else [])
    if thorough:
        r = (["class"] if k < 8 else []) + (["saveload"] if k < 3 else []) + (["string"] if k == 0 and not big else [])
    else:
        r = ["class"] + (["saveload"] if k == 0 else [])
    return r + (["class_nj2", "saveload_nj2"] if nj2 else [])


def plan(ctx, insts, cases, rng):
    byid = {i["id"]: i for i in insts}
    hseeds = list(range(8)) if ctx.thorough else [0, 1]
    events = []
    percase = {}
    for ci, c in enumerate(cases):
        percase.setdefault(c["inst"], []).append(ci)
    for ci, c in enumerate(cases):
        inst = byid[c["inst"]]
        big = inst["stress"] in ("big", "parents5")        # many cells / many orders: fewer concretisations
        if big and not ctx.thorough and percase[c["inst"]].index(ci) not in (1, 4):
            continue                                       # quick: two of the six orders of the 1008-cell table
        concs = []
        for hs in hseeds:
            if big and hs > 1:
                continue
            if hs == 0 or (ctx.thorough and hs % 2 == 0):
                concs.append((hs, "plain"))
            concs.append((hs, KW_CLASSES[(ci + hs) % 4]))
            if not ctx.thorough and not big:
                concs.append(((ci + 1) % 2, KW_CLASSES[(ci + hs + 2) % 4]))
        seen = set()
        for hs, cls in concs:
            if (hs, cls) in seen:
                continue
            k = len(seen)
            seen.add((hs, cls))
            cseed = rng.randrange(10 ** 9)
            nj2 = (not big) and cls == "plain" and (ci % (3 if ctx.thorough else 8) == 0) and hs in (0, 1)
            for fmt in (["BIF", "XMLBIF", "NET", "UAI"] if inst["kind"] == "BN" else ["UAI"]):
                for route in routes(fmt, inst["kind"], k, ci, ctx.thorough, big, nj2):
                    events.append({"tid": len(events) + 1, "inst": c["inst"], "ord": c["ord"], "model": c["model"], "fmt": fmt,
                                   "route": route, "hs": hs, "names": cls, "cseed": cseed, "case": ci, "heavy": inst["stress"] == "big"})
    return events


def to_trace(ev, res):
    return {"tid": ev["tid"], "inst": ev["inst"], "ord": ev["ord"] or {}, "fmt": ev["fmt"],
            "wexc": res["wexc"], "wok": res["wok"], "doc": res["doc"] if res["wok"] else {},
            "rdone": res["rdone"], "rexc": res["rexc"], "rnodes": res.get("rnodes", []), "redges": res.get("redges", []),
            "rfams": res.get("rfams", [])}


TRACE_CFG = "INIT Init\nNEXT Next\nINVARIANT Report\n"


def validate(ctx, insts, traces, tag):
    """TLC verdicts: {tid: [failing clauses]}; insts must be the list indexed by trace['inst'] - 1"""
    fi = os.path.join(ctx.work, f"inst_{tag}.json")
    ft = os.path.join(ctx.work, f"trace_{tag}.json")
    with open(fi, "w") as f:
        json.dump(insts, f)
    with open(ft, "w") as f:
        json.dump(traces, f)
    r = ctx.tlc("Trace_C09", TRACE_CFG, env={"INST_FILE": fi, "TRACE_FILE": ft}, tag="Trace_" + tag, coverage=True, timeout=7200)
    out = {}
    for p in r.prints:
        if p["tid"] in out:
            raise Machinery(f"two verdicts for event {p['tid']}")
        out[p["tid"]] = sorted(p["fails"])
    missing = [t["tid"] for t in traces if t["tid"] not in out]
    if missing:
        raise Machinery(f"no verdict for events {missing[:5]}")
    return out


def _cost(e):
    return (2.6 if e["fmt"] == "BIF" else 0.06) * (2 if e.get("heavy") else 1) + (0.3 if e["route"].endswith("nj2") else 0)


def execute(ctx, insts, events, nproc):
    """run the events on pgmpy; one process has one hash seed, processes are shared out by estimated cost
    (the events of one (case, concretisation) stay together and in order)"""
    byid = {i["id"]: i for i in insts}
    tmp = os.path.join(ctx.work, "files")
    os.makedirs(tmp, exist_ok=True)
    hss = sorted({e["hs"] for e in events})
    cost = {hs: sum(_cost(e) for e in events if e["hs"] == hs) for hs in hss}
    total = sum(cost.values()) or 1.0
    procs = {hs: max(1, int(nproc * cost[hs] / total + 0.5)) for hs in hss}
    pl = []
    for hs in hss:
        groups = {}
        for e in events:
            if e["hs"] == hs:
                groups.setdefault((e["case"], e["cseed"]), []).append(e)
        glist = sorted(groups.values(), key=lambda g: -sum(_cost(e) for e in g))
        buckets = [[0.0, []] for _ in range(procs[hs])]
        for g in glist:
            b = min(buckets, key=lambda x: x[0])
            b[0] += sum(_cost(e) for e in g)
            b[1] += g
        for _, b in buckets:
            if b:
                need = {e["inst"] for e in b}
                pl.append((hs, {"insts": {str(i): byid[i] for i in need}, "events": b, "tmp": tmp}))
    out = {}
    for res in run_workers(ctx, "c09", "roundtrips", pl, timeout=5400):
        for r in res["results"]:
            out[r["tid"]] = r
    return out


def _api(fmt, clauses):
    side = "Writer" if any(c.startswith("write.") or c.startswith("saveload.") for c in clauses) else \
        "Reader" if any(c.startswith("read.") for c in clauses) else ""
    return {"BIF": "BIF", "XMLBIF": "XMLBIF", "UAI": "UAI", "NET": "NET"}[fmt] + side


def _features(ev, inst):
    """input features a finding can be keyed on (all derived from the instance descriptor, not from the outcome)"""
    card = {v: len(s) for v, s in inst["states"].items()}
    size = 0
    for f in inst["fams"]:
        n = 1
        for v in f["scope"]:
            n *= card[v]
        size = max(size, n)
    small = any(e["ip"] == 0 and any(e["dg"]) and not any(e["dg"][:4]) for e in inst["vals"])      # 0 < x < 1e-4: printed with an exponent
    deg = {v: 0 for v in inst["nodes"]}
    for f in inst["fams"]:
        for v in f["scope"]:
            deg[v] += len(f["scope"]) - 1
    return {"route": ev["route"], "names": ev["names"], "kind": inst["kind"], "exponent_values": small, "cells_gt_1000": size > 1000,
            "card1": any(c == 1 for c in card.values()),
            "max_parents": min(2, max(len(f["scope"]) - 1 for f in inst["fams"])) if inst["kind"] == "BN" else 0,
            "isolated_node": any(d == 0 for d in deg.values()) and len(inst["nodes"]) > 1}


def report(ctx, insts, events, results, verdicts):
    byid = {i["id"]: i for i in insts}
    for ev in events:
        res, fails = results[ev["tid"]], verdicts[ev["tid"]]
        inst = byid[ev["inst"]]
        ctx.evaluations += 2
        nontriv = any(len(f["scope"]) >= 2 for f in inst["fams"])
        ctx.count(json.dumps([ev["inst"], ev["ord"], ev["fmt"]], sort_keys=True), nontrivial=nontriv, n=0)
        clauses = list(fails)
        if res.get("same_text") is False:
            clauses.append("saveload.text_differs_from_writer")
        if res.get("model_changed"):
            clauses.append("write.model_changed")          # C16: export never changes the model it is given
        if not clauses:
            ctx.traces += 1
            continue
        case_ev = {k: ev[k] for k in ("inst", "ord", "model", "fmt", "route", "hs", "names", "cseed")}
        ctx.violation({"api": _api(ev["fmt"], clauses), "clause": "+".join(sorted(clauses)),
                       "features": _features(ev, inst), "stress": inst["stress"],
                       "case": {"inst": inst, "event": case_ev},
                       "observed": {k: res.get(k) for k in ("werr", "lexerr", "rerr", "aliens", "text")},
                       "expected": "Trace_C09: doc = Write(fmt, m'), read model = Read(fmt, doc) ~ Canon(fmt, m)"})


GEN_CFG = "CONSTANT EmitDocs = %s\nINIT Init\nNEXT Next\nINVARIANT InstanceOK\nINVARIANT ReorderKeepsMeaning\nINVARIANT RoundTrip\n" \
          "INVARIANT ReadFollowsDoc\nINVARIANT Emit\n"


def generate(ctx, insts, tag="Gen", docs=False):
    f = os.path.join(ctx.work, f"insts_{tag}.json")
    with open(f, "w") as fh:
        json.dump(insts, fh)
    r = ctx.tlc("Gen_C09", GEN_CFG % ("TRUE" if docs else "FALSE"), env={"INST_FILE": f}, tag=tag, coverage=True, timeout=7200)
    cases = [p for p in r.prints if p["k"] == "case"]
    for c in cases:
        if not isinstance(c["ord"], dict):
            c["ord"] = {}
    cases.sort(key=lambda c: (c["inst"], json.dumps(c["ord"], sort_keys=True)))
    return cases, [p for p in r.prints if p["k"] == "doc"]


def run(ctx):
    ctx.rule = ("instances: BNs with cards 1-12 (unequal and equal), 0-4 parents, isolated/single nodes, tables of 1008 cells, values "
                "1e-12..1 incl. exact 0/1 and 17-digit decimals; Markov networks for UAI. TLC enumerates EVERY declared evidence order "
                "of the permutable families x every format; each is replayed under several (hash seed, name class) concretisations and "
                "routes (classes, str/string, save/load, n_jobs 1/2). distinct = (instance, order, format); non-trivial iff the model has an edge.")
    ctx.assumptions += [
        "names are plain identifiers; name order = Python string order (the harness only calls sorted())",
        "float(decimal string) and str(float) of CPython/numpy are trusted (value tokens = bit-identical floats)",
        "NET: instance values keep 1e-9 clear of a 5th-decimal tie, so 'four decimals' is unambiguous",
        "UAI Bayesian tables follow pgmpy's own convention (reversed evidence + child, table child-slowest); agreement with the UAI "
        "competition convention is not part of the property",
        "table layout of TabularCPD/DiscreteFactor (row-major over variables) is the rule established by C05"]
    rng = random.Random(ctx.seed * 7919 + 9)
    insts = instances(rng, ctx.thorough)
    cases, _ = generate(ctx, insts)
    ctx.require_actions(["ChooseOrder", "WriteDoc", "ShuffleRows"])
    ctx.exhaustive = True
    events = plan(ctx, insts, cases, rng)
    ctx.sample({"kind": "case", "inst": cases[0]["inst"], "ord": cases[0]["ord"], "scopes": [f["scope"] for f in cases[0]["model"]["fams"]]})
    t0 = time.time()
    results = execute(ctx, insts, events, 8 if ctx.thorough else 6)
    ctx.extra["replay_wall_s"] = round(time.time() - t0, 1)
    slow = {}
    for ev in events:
        k = f"{ev['fmt']}/{ev['route']}" + ("/big" if ev["heavy"] else "")
        slow[k] = round(slow.get(k, 0) + results[ev["tid"]].get("dt", 0), 1)
    ctx.extra["replay_cpu_s_by_route"] = slow
    traces = [to_trace(ev, results[ev["tid"]]) for ev in events]
    verdicts = {}
    nb = max(1, (len(traces) + 1499) // 1500)
    for bi, ch in enumerate(chunks(traces, nb)):
        if ch:
            verdicts.update(validate(ctx, insts, ch, f"b{bi}"))
    ctx.require_actions(["Validate"])
    ok = next((ev for ev in events if not verdicts[ev["tid"]]), None)
    if ok:
        ctx.sample({"kind": "accepted_roundtrip", "fmt": ok["fmt"], "route": ok["route"], "names": ok["names"],
                    "text": (results[ok["tid"]].get("text") or "")[:400]})
    ctx.extra["events"] = len(events)
    ctx.extra["events_by_format"] = {f: sum(1 for e in events if e["fmt"] == f) for f in EXT}
    report(ctx, insts, events, results, verdicts)


def replay(ctx, rec):
    case = rec["case"]
    inst = dict(case["inst"])
    inst["id"] = 1
    ev = dict(case["event"])
    ev.update({"tid": 1, "inst": 1, "case": 0, "heavy": False})
    res = execute(ctx, [inst], [ev], 1)[1]
    fails = validate(ctx, [inst], [to_trace(ev, res)], "replay")[1]
    if res.get("same_text") is False:
        fails = fails + ["saveload.text_differs_from_writer"]
    if res.get("model_changed"):
        fails = fails + ["write.model_changed"]
    if fails:
        return {"api": _api(ev["fmt"], fails), "clause": "+".join(sorted(fails)),
                "observed": {k: res.get(k) for k in ("werr", "lexerr", "rerr", "aliens")}}
    return None


def selftest(ctx):
    """(i) real round trips of a plain model are accepted; (ii) corrupting any field of such a recorded trace is rejected with the
    right clause; (iii) a family re-declared in another parent order (same meaning) is still accepted; (iv) a model built with a
    different evidence order than the event claims (wrong stub) is rejected; (v) coverage of the spec actions."""
    rng = random.Random(12345)
    insts = [bn_instance(rng, "generic", [2, 3, 4], {2: [0, 1]}, [2], "full"), mn_instance(rng, "mn", [2, 3], [[1, 0], [1]])]
    for i, inst in enumerate(insts):
        inst["id"] = i + 1
    cases, docs = generate(ctx, insts, tag="self_gen", docs=True)
    ctx.require_actions(["ChooseOrder", "WriteDoc", "ShuffleRows"])
    bn_cases = [c for c in cases if c["inst"] == 1]
    if len(bn_cases) != 2 or len(docs) != 2 * 4 + 1:
        raise Machinery(f"selftest: expected 2 orders / 9 documents, got {len(bn_cases)} / {len(docs)}")
    a, b = bn_cases
    events = []
    for c in (a, b):
        for fmt in ("BIF", "XMLBIF", "NET"):
            events.append({"tid": len(events) + 1, "inst": 1, "ord": c["ord"], "model": c["model"], "fmt": fmt, "route": "class",
                           "hs": 0, "names": "plain", "cseed": 77, "case": 0, "heavy": False})
    mn = next(c for c in cases if c["inst"] == 2)
    events.append({"tid": len(events) + 1, "inst": 2, "ord": {}, "model": mn["model"], "fmt": "UAI", "route": "class", "hs": 0,
                   "names": "plain", "cseed": 78, "case": 1, "heavy": False})
    # (iv) wrong stub: pgmpy gets the model of order b, the event claims order a
    stub = dict(events[0])
    stub.update({"tid": len(events) + 1, "model": b["model"]})
    events.append(stub)
    results = execute(ctx, insts, events, 1)
    base = [to_trace(ev, results[ev["tid"]]) for ev in events]
    traces = list(base)
    expect = {}                                            # tid -> clause that must be reported ("" = must be accepted)
    for t in base[:-1]:
        expect[t["tid"]] = ""
    expect[stub["tid"]] = "write."

    def mutant(src, clause, fn):
        t = json.loads(json.dumps(src))
        fn(t)
        t["tid"] = len(traces) + 1
        traces.append(t)
        expect[t["tid"]] = clause

    def swap(lst, i, j):
        lst[i], lst[j] = lst[j], lst[i]

    bif, xml, net, uai = base[0], base[1], base[2], base[6]
    ch = next(i for i, p in enumerate(bif["doc"]["probs"]) if p["parents"])
    mutant(bif, "write.cells", lambda t: swap(t["doc"]["probs"][ch]["rows"][0]["cells"], 0, 1))
    mutant(bif, "write.row_labels", lambda t: swap(t["doc"]["probs"][ch]["rows"][-1]["label"], 0, 1))
    mutant(bif, "write.parents", lambda t: swap(t["doc"]["probs"][ch]["parents"], 0, 1))
    mutant(bif, "write.states", lambda t: swap(t["doc"]["vars"][0]["states"], 0, 1))
    mutant(bif, "write.var_order", lambda t: swap(t["doc"]["vars"], 0, 1))
    mutant(xml, "write.cells", lambda t: swap(t["doc"]["defs"][ch]["cells"], 0, 5))
    mutant(net, "write.nesting", lambda t: t["doc"]["pots"][ch]["shape"].reverse())
    mutant(net, "write.cells", lambda t: t["doc"]["pots"][ch]["cells"].__setitem__(0, ALIENU))
    mutant(uai, "write.scopes", lambda t: swap(t["doc"]["scopes"][0], 0, 1))
    mutant(uai, "write.cards", lambda t: swap(t["doc"]["cards"], 0, 1))
    fam = next(i for i, f in enumerate(xml["rfams"]) if len(f["scope"]) == 3)
    mutant(xml, "read.value", lambda t: swap(t["rfams"][fam]["cells"], 0, 7))
    mutant(xml, "roundtrip.value", lambda t: swap(t["rfams"][fam]["cells"], 1, 2))
    mutant(xml, "roundtrip.", lambda t: (swap(t["rfams"][fam]["scope"], 1, 2), swap(t["rfams"][fam]["st"], 1, 2)))   # parents swapped, table not re-laid-out
    mutant(xml, "roundtrip.edges", lambda t: t["redges"].pop())
    mutant(xml, "roundtrip.nodes", lambda t: t["rnodes"].append("?ghost"))
    mutant(xml, "roundtrip.states", lambda t: t["rfams"][fam]["st"][0].__setitem__(0, "?x"))
    mutant(xml, "roundtrip.state_order", lambda t: swap(t["rfams"][fam]["st"][1], 0, 1))
    mutant(xml, "roundtrip.cpd_missing", lambda t: t["rfams"].pop())
    mutant(net, "roundtrip.value", lambda t: t["rfams"][fam]["cells"].__setitem__(3, t["rfams"][fam]["cells"][3] + 1))
    mutant(uai, "roundtrip.value", lambda t: swap(t["rfams"][0]["cells"], 0, 1))
    mutant(uai, "roundtrip.factor_count", lambda t: t["rfams"].pop())
    mutant(bif, "read.raises", lambda t: t.update({"rexc": True}))
    mutant(bif, "write.raises", lambda t: t.update({"wexc": True, "rdone": False}))
    # (iii) same meaning, other declared parent order: the read model of order b presented for the event of order a
    mutant(xml, "", lambda t: t.update({"rfams": base[4]["rfams"]}))
    mutant(uai, "", lambda t: t["rfams"].reverse())                                         # factor order is free
    verdicts = validate(ctx, insts, traces, "self")
    ctx.require_actions(["Validate"])
    for tid, clause in expect.items():
        fails = verdicts[tid]
        if clause == "" and fails:
            raise Machinery(f"selftest: trace {tid} that must be accepted was rejected: {fails}")
        if clause and not any(f.startswith(clause) for f in fails):
            raise Machinery(f"selftest: corrupted trace {tid} must be rejected with {clause}*, verdict {fails}")
    # the prescribed documents printed by Gen_C09 coincide with what pgmpy wrote for the accepted events
    dd = {(json.dumps(d["ord"] if isinstance(d["ord"], dict) else {}, sort_keys=True), d["fmt"]): d["doc"] for d in docs if d["inst"] == 1}
    for ev, t in zip(events[:6], base[:6]):
        if dd[(json.dumps(ev["ord"], sort_keys=True), ev["fmt"])] != t["doc"]:
            raise Machinery("selftest: accepted document differs from the document printed by Gen_C09")


# =========================================================================== worker side
VAR_POOLS = {
    "plain": [["A", "B", "C", "D", "E", "F", "G"], ["zeta", "alpha", "Mid", "x_1", "n2", "Q", "rain", "T10"],
              ["n9", "n8", "n7", "N6", "n5_", "_n4", "n3"]],
    "kw_bif": [["variable_x", "probability1", "myvariable", "xprobability", "variables", "probability_of_rain", "Avariable"]],
    "kw_other": [["table", "network_a", "property2", "default_v", "type_t", "discrete", "tablet", "networks", "subnetwork", "property"]],
    "kw_net": [["node", "states", "data", "potential", "net", "mynode", "nodes_x", "datapoint"]],
}
VAR_POOLS["kw_states"] = VAR_POOLS["plain"]
STATE_POOLS = {
    "plain": [["low", "mid", "high", "top", "xx", "s_c", "s_a", "s_b", "s_e", "s_d", "yes", "no", "maybe"],
              ["a", "b", "c", "d", "e", "f", "g", "h", "i", "j", "k", "l"],
              ["st0", "st1", "st2", "St3", "st_4", "x5", "y6", "z7", "w8", "v9", "u10", "t11"]],
    "kw": [["table", "default", "variable", "probability", "network", "property", "type", "node", "states", "data", "potential", "net",
            "discrete"]],
}


class Conc:
    """abstract tokens -> identifier names; the NAME order of the variables is the instance's node order"""

    def __init__(self, inst, cls, seed):
        rng = random.Random(seed)
        n = len(inst["nodes"])
        names = sorted(rng.sample(rng.choice(VAR_POOLS[cls]), n))
        self.var = {t: names[i] for i, t in enumerate(inst["nodes"])}
        self.inv_var = {c: t for t, c in self.var.items()}
        self.st, self.inv_st = {}, {}
        for t in sorted(inst["states"]):
            pool = rng.choice(STATE_POOLS["kw" if cls == "kw_states" else "plain"])
            pick = rng.sample(pool, len(inst["states"][t]))
            self.st[t] = {s: pick[j] for j, s in enumerate(inst["states"][t])}
            self.inv_st[self.var[t]] = {c: s for s, c in self.st[t].items()}
        self.rng = rng

    def v(self, name):
        return self.inv_var.get(name, "?" + str(name))

    def s(self, var_name, state):
        if not isinstance(state, str):
            return "?" + repr(state)
        return self.inv_st.get(var_name, {}).get(state, "?" + state)


class LexError(Exception):
    pass


_BIF_TOK = re.compile(r'[{}()\[\];,|]|[^\s{}()\[\];,|]+')
_NET_TOK = re.compile(r'"[^"]*"|[{}();=|]|[^\s{}();=|"]+')


class _Stream:
    def __init__(self, toks, punct):
        self.t, self.i, self.punct = toks, 0, punct

    def peek(self):
        if self.i >= len(self.t):
            raise LexError("unexpected end of text")
        return self.t[self.i]

    def next(self):
        x = self.peek()
        self.i += 1
        return x

    def need(self, x):
        y = self.next()
        if y != x:
            raise LexError(f"expected {x!r}, found {y!r} (token {self.i})")

    def word(self):
        y = self.next()
        if y in self.punct:
            raise LexError(f"expected a word, found {y!r} (token {self.i})")
        return y

    def skip_to(self, x):
        while self.next() != x:
            pass

    def end(self):
        return self.i >= len(self.t)


def lex_bif(text, vtok):
    s = _Stream(_BIF_TOK.findall(text), set("{}()[];,|"))
    s.need("network")
    s.word()
    s.need("{")
    s.skip_to("}")
    vars_, probs = [], []
    while not s.end():
        kw = s.word()
        if kw == "variable":
            name, states = s.word(), None
            s.need("{")
            while s.peek() != "}":
                k2 = s.word()
                if k2 == "type":
                    s.need("discrete")
                    s.need("[")
                    n = int(s.word())
                    s.need("]")
                    s.need("{")
                    states = []
                    while s.peek() != "}":
                        states.append(s.word())
                        if s.peek() == ",":
                            s.next()
                    s.need("}")
                    s.need(";")
                    if n != len(states):
                        raise LexError(f"variable {name}: {n} states declared, {len(states)} listed")
                elif k2 == "property":
                    s.skip_to(";")
                else:
                    raise LexError(f"unexpected {k2!r} in variable block")
            s.need("}")
            if states is None:
                raise LexError(f"variable {name} without type")
            vars_.append({"name": name, "states": states})
        elif kw == "probability":
            s.need("(")
            child, parents = s.word(), []
            if s.peek() == "|":
                s.next()
                while s.peek() != ")":
                    parents.append(s.word())
                    if s.peek() == ",":
                        s.next()
            s.need(")")
            s.need("{")
            table, rows = [], []
            while s.peek() != "}":
                if s.peek() == "(":
                    s.next()
                    lab, cells = [], []
                    while s.peek() != ")":
                        lab.append(s.word())
                        if s.peek() == ",":
                            s.next()
                    s.next()
                    while s.peek() != ";":
                        cells.append(vtok(s.word()))
                        if s.peek() == ",":
                            s.next()
                    s.next()
                    rows.append({"label": lab, "cells": cells})
                else:
                    k2 = s.word()
                    if k2 != "table":
                        raise LexError(f"unexpected {k2!r} in probability block")
                    while s.peek() != ";":
                        table.append(vtok(s.word()))
                        if s.peek() == ",":
                            s.next()
                    s.next()
            s.need("}")
            probs.append({"child": child, "parents": parents, "table": table, "rows": rows})
        else:
            raise LexError(f"unexpected {kw!r} at top level")
    return {"fmt": "BIF", "vars": vars_, "probs": probs}


def lex_xml(text, vtok):
    import xml.etree.ElementTree as ET
    root = ET.fromstring(text.encode("utf-8"))
    if root.tag != "BIF":
        raise LexError("root element is not BIF")
    net = root.find("NETWORK")
    if net is None:
        raise LexError("no NETWORK element")

    def txt(el, what):
        if el is None or el.text is None:
            raise LexError("missing " + what)
        return el.text
    vars_ = [{"name": txt(v.find("NAME"), "NAME"), "states": [txt(o, "OUTCOME") for o in v.findall("OUTCOME")]}
             for v in net.findall("VARIABLE")]
    defs = []
    for d in net.findall("DEFINITION"):
        tabs = d.findall("TABLE")
        if len(tabs) != 1:
            raise LexError("DEFINITION needs exactly one TABLE")
        defs.append({"child": txt(d.find("FOR"), "FOR"), "parents": [txt(g, "GIVEN") for g in d.findall("GIVEN")],
                     "cells": [vtok(x) for x in txt(tabs[0], "TABLE").split()]})
    return {"fmt": "XMLBIF", "vars": vars_, "defs": defs}


def lex_net(text, vtok):
    s = _Stream(_NET_TOK.findall(text), set("{}();=|"))
    s.need("net")
    s.need("{")
    s.skip_to("}")
    vars_, pots = [], []

    def nest():
        s.need("(")
        items = []
        while s.peek() != ")":
            items.append(nest() if s.peek() == "(" else vtok(s.word()))
        s.next()
        return items

    def shape(x):
        if all(not isinstance(y, list) for y in x):
            return [len(x)]
        if not all(isinstance(y, list) for y in x):
            raise LexError("irregular nesting")
        shs = [shape(y) for y in x]
        if any(sh != shs[0] for sh in shs):
            raise LexError("irregular nesting")
        return [len(x)] + shs[0]

    def flat(x):
        return [z for y in x for z in (flat(y) if isinstance(y, list) else [y])]
    while not s.end():
        kw = s.word()
        if kw == "node":
            name, states = s.word(), None
            s.need("{")
            while s.peek() != "}":
                key = s.word()
                s.need("=")
                if key == "states":
                    s.need("(")
                    states = []
                    while s.peek() != ")":
                        q = s.word()
                        if len(q) < 2 or q[0] != '"' or q[-1] != '"':
                            raise LexError(f"state {q!r} is not quoted")
                        states.append(q[1:-1])
                    s.next()
                    s.need(";")
                else:
                    s.skip_to(";")
            s.need("}")
            if states is None:
                raise LexError(f"node {name} without states")
            vars_.append({"name": name, "states": states})
        elif kw == "potential":
            s.need("(")
            child, parents = s.word(), []
            s.need("|")
            while s.peek() != ")":
                parents.append(s.word())
            s.next()
            s.need("{")
            s.need("data")
            s.need("=")
            data = nest()
            s.need(";")
            s.need("}")
            pots.append({"child": child, "parents": parents, "shape": shape(data), "cells": flat(data)})
        else:
            raise LexError(f"unexpected {kw!r} at top level")
    return {"fmt": "NET", "vars": vars_, "pots": pots}


def lex_uai(text, vtok):
    t = text.split()
    pos = [0]

    def nxt():
        if pos[0] >= len(t):
            raise LexError("unexpected end of text")
        pos[0] += 1
        return t[pos[0] - 1]

    def integer():
        x = nxt()
        if not x.isdigit():
            raise LexError(f"expected an integer, found {x!r}")
        return int(x)
    typ = nxt()
    n = integer()
    cards = [integer() for _ in range(n)]
    nf = integer()
    scopes = []
    for _ in range(nf):
        k = integer()
        scopes.append([integer() for _ in range(k)])
    tables = []
    for _ in range(nf):
        c = integer()
        tables.append([vtok(nxt()) for _ in range(c)])
    if pos[0] != len(t):
        raise LexError("trailing tokens")
    return {"fmt": "UAI", "type": typ, "cards": cards, "scopes": scopes, "tables": tables}


LEXERS = {"BIF": lex_bif, "XMLBIF": lex_xml, "NET": lex_net, "UAI": lex_uai}


def abstract_doc(fmt, doc, conc):
    """concrete names of the tokenised document -> abstract tokens (inverse concretisation; unknown names become '?name')"""
    if fmt == "UAI":
        return doc
    out = {"fmt": fmt, "vars": [{"name": conc.v(v["name"]), "states": [conc.s(v["name"], x) for x in v["states"]]} for v in doc["vars"]]}
    key = {"BIF": "probs", "XMLBIF": "defs", "NET": "pots"}[fmt]
    blocks = []
    for b in doc[key]:
        nb = dict(b)
        nb["child"] = conc.v(b["child"])
        nb["parents"] = [conc.v(p) for p in b["parents"]]
        if fmt == "BIF":
            nb["rows"] = [{"label": [conc.s(b["parents"][i], x) if i < len(b["parents"]) else "?" + x for i, x in enumerate(r["label"])],
                           "cells": r["cells"]} for r in b["rows"]]
        blocks.append(nb)
    out[key] = blocks
    return out


def _build(model, conc, vf):
    """the pgmpy object for the abstract model m' (values by token), nodes / edges / CPDs inserted in random order"""
    from pgmpy.factors.discrete import DiscreteFactor, TabularCPD
    from pgmpy.models import BayesianNetwork, MarkovNetwork
    rng = conc.rng
    card = {v: len(model["states"][v]) for v in model["states"]}
    sn = {v: [conc.st[v][s] for s in model["states"][v]] for v in model["states"]}
    nodes = list(model["nodes"])
    rng.shuffle(nodes)
    if model["kind"] == "BN":
        bn = BayesianNetwork()
        for v in nodes:
            bn.add_node(conc.var[v])
        edges = [(p, f["scope"][0]) for f in model["fams"] for p in f["scope"][1:]]
        rng.shuffle(edges)
        for p, c in edges:
            bn.add_edge(conc.var[p], conc.var[c])
        fams = list(model["fams"])
        rng.shuffle(fams)
        for f in fams:
            c, ps = f["scope"][0], f["scope"][1:]
            ncol = len(f["cells"]) // card[c]
            tab = [[vf[t - 1] for t in f["cells"][r * ncol:(r + 1) * ncol]] for r in range(card[c])]
            bn.add_cpds(TabularCPD(conc.var[c], card[c], tab, evidence=[conc.var[p] for p in ps] or None,
                                   evidence_card=[card[p] for p in ps] or None,
                                   state_names={conc.var[x]: sn[x] for x in f["scope"]}))
        if not bn.check_model():
            raise Machinery("instance is not a valid model")
        return bn
    mn = MarkovNetwork()
    for v in nodes:
        mn.add_node(conc.var[v])
    edges = sorted({tuple(sorted((a, b))) for f in model["fams"] for a in f["scope"] for b in f["scope"] if a != b})
    rng.shuffle(edges)
    for a, b in edges:
        mn.add_edge(conc.var[a], conc.var[b])
    for f in model["fams"]:
        mn.add_factors(DiscreteFactor([conc.var[x] for x in f["scope"]], [card[x] for x in f["scope"]],
                                      [vf[t - 1] for t in f["cells"]], state_names={conc.var[x]: sn[x] for x in f["scope"]}))
    if not mn.check_model():
        raise Machinery("instance is not a valid Markov network")
    return mn


def _write(model, fmt, route, path):
    from pgmpy.readwrite import BIFWriter, NETWriter, UAIWriter, XMLBIFWriter
    if route.startswith("saveload"):
        model.save(path, filetype=EXT[fmt])
        with open(path) as f:
            return f.read()
    w = {"BIF": BIFWriter, "XMLBIF": XMLBIFWriter, "NET": NETWriter, "UAI": UAIWriter}[fmt](model)
    if route == "string":
        return str(w)
    getattr(w, {"BIF": "write_bif", "XMLBIF": "write_xmlbif", "NET": "write_net", "UAI": "write_uai"}[fmt])(path)
    with open(path) as f:
        return f.read()


def _read(fmt, route, path, text):
    from pgmpy.models import BayesianNetwork
    from pgmpy.readwrite import BIFReader, NETReader, UAIReader, XMLBIFReader
    nj = 2 if route.endswith("_nj2") else 1
    if route.startswith("saveload"):
        return BayesianNetwork.load(path, filetype=EXT[fmt], **({"n_jobs": nj} if fmt == "BIF" else {}))
    cls = {"BIF": BIFReader, "XMLBIF": XMLBIFReader, "NET": NETReader, "UAI": UAIReader}[fmt]
    kw = {"string": text} if route == "string" else {"path": path}
    if fmt == "BIF":
        kw["n_jobs"] = nj
    return cls(**kw).get_model()


def _project(rm, fmt, conc, vtok):
    """the read model by NAME lookup: nodes, edges, and every CPD / factor as (scope, state lists, table listed row-major over
    the object's own variables and state names, each entry fetched with get_value(**{var: state}))"""
    if fmt == "UAI":
        def vn(x):
            m = re.fullmatch(r"var_(\d+)", x) if isinstance(x, str) else None
            return str(int(m.group(1))) if m else "?" + str(x)

        def sn(var, s):
            return str(int(s)) if isinstance(s, int) or type(s).__name__.startswith("int") else "?" + repr(s)
    else:
        vn, sn = conc.v, conc.s
    objs = rm.get_cpds() if hasattr(rm, "get_cpds") else rm.get_factors()
    fams = []
    for o in objs:
        scope = list(o.variables)
        sts = [list(o.state_names[v]) for v in scope]
        cells = [vtok(float(o.get_value(**dict(zip(scope, combo))))) for combo in itertools.product(*sts)]
        fams.append({"scope": [vn(v) for v in scope], "st": [[sn(v, s) for s in ss] for v, ss in zip(scope, sts)], "cells": cells})
    return {"rnodes": [vn(x) for x in rm.nodes()], "redges": [[vn(a), vn(b)] for a, b in rm.edges()], "rfams": fams}


def roundtrips(payload):
    insts = payload["insts"]
    results, class_text = [], {}
    for ev in payload["events"]:
        inst = insts[str(ev["inst"])]
        vf = [float("%d.%s" % (e["ip"], "".join(map(str, e["dg"] + e.get("xd", []))))) for e in inst["vals"]]
        fmap = {}
        for i, x in enumerate(vf):
            if x in fmap:
                raise Machinery("two value tokens denote the same float")
            fmap[x] = i + 1
        fmt, route = ev["fmt"], ev["route"]
        aliens = []

        def vtok(w, fmt=fmt, fmap=fmap, aliens=aliens):
            try:
                x = float(w)
            except ValueError:
                raise LexError(f"not a number: {w!r}")
            if fmt == "NET":
                u = round(x * 10000)
                if u >= 0 and abs(x * 10000 - u) <= 1e-6:
                    return u
                aliens.append(str(w))
                return ALIENU
            t = fmap.get(x, 0)
            if not t:
                aliens.append(str(w))
            return t
        t0 = time.time()
        conc = Conc(inst, ev["names"], ev["cseed"])
        model = _build(ev["model"], conc, vf)
        path = os.path.join(payload["tmp"], "e%d_%d.%s" % (ev["tid"], os.getpid(), EXT[fmt]))
        res = {"tid": ev["tid"], "wexc": False, "wok": False, "doc": {}, "rdone": False, "rexc": False, "same_text": None}
        text = None
        from ..frames import model_snapshot
        snap0 = model_snapshot(model)
        try:
            text = _write(model, fmt, route, path)
        except Exception as ex:  # noqa
            res["wexc"], res["werr"] = True, repr(ex)[:300]
        res["model_changed"] = model_snapshot(model) != snap0
        if text is not None:
            res["text"] = text[:1500]
            key = (ev["case"], ev["cseed"], fmt)
            if route == "class":
                class_text[key] = text
            elif key in class_text:
                res["same_text"] = (class_text[key] == text)
            try:
                res["doc"] = abstract_doc(fmt, LEXERS[fmt](text, vtok), conc)
                res["wok"] = True
            except (LexError, ValueError, IndexError, SyntaxError) as ex:
                res["lexerr"] = repr(ex)[:300]
            except Exception as ex:  # noqa  (xml ParseError etc.)
                res["lexerr"] = repr(ex)[:300]
            res["rdone"] = True
            try:
                rm = _read(fmt, route, path, text)
                res.update(_project(rm, fmt, conc, vtok))
            except Exception as ex:  # noqa
                res["rexc"], res["rerr"] = True, repr(ex)[:300]
                for k in ("rnodes", "redges", "rfams"):
                    res.pop(k, None)
        res["aliens"] = aliens[:8]
        res["dt"] = round(time.time() - t0, 3)
        try:
            os.remove(path)
        except OSError:
            pass
        results.append(res)
    return {"results": results}
